"""./check --replay <file>: re-run one replay file on the real library (and on the model where the case is a gdd case)."""
import json
import sys
import datetime


def revive(c):
    st = c.get("settings") or {}
    if isinstance(st.get("RELATIVE_BASE"), str):
        s = st["RELATIVE_BASE"]
        try:
            st["RELATIVE_BASE"] = datetime.datetime.fromisoformat(s)
        except ValueError:
            pass
    if isinstance(c.get("today"), str):
        try:
            c["today"] = datetime.datetime.fromisoformat(c["today"])
        except ValueError:
            c.pop("today")
    return c


def main(path):
    from common import lib_gdd, Model, case_model
    data = json.load(open(path, encoding="utf-8"))
    print("property:", data.get("property"), "|", data.get("kind", data.get("note", "")))
    if "case" in data and isinstance(data["case"], dict) and "s" in data["case"]:
        c = revive(data["case"])
        print("input     :", json.dumps({k: str(v) for k, v in c.items()}, ensure_ascii=False)[:1000])
        print("expected  :", data.get("expected"))
        print("recorded  :", data.get("observed"))
        print("library   :", lib_gdd(c))
        try:
            print("model     :", Model().run([case_model(c)], chunk=1)[0])
        except Exception as e:  # noqa
            print("model     : n/a (%s)" % e)
    else:
        print(json.dumps(data, ensure_ascii=False, indent=1)[:6000])
        if data.get("python"):
            print("--- re-running recorded snippet")
            exec(data["python"], {})
    return 0


if __name__ == "__main__":
    sys.exit(main(sys.argv[1]))
