"""General model ↔ library correspondence stream through the public API (`DateDataParser.get_date_data`).

Used by every property check as the *fidelity stream* (keeps the model a model of the code that exists), and on
its own: `python harness/fidelity.py [N]`.
"""
import calendar
import collections
import json
import sys
import time

from common import D, Model, case_model, langdata, corpus, lib_gdd, pmap, rng

BASES = [D(2020, 2, 29, 12, 30), D(2021, 8, 31, 13, 7), D(2021, 12, 31, 23, 59, 59), D(2015, 2, 15, 15, 30), D(2023, 1, 31),
         D(2000, 1, 1), D(1, 1, 2), D(9999, 12, 30), D(2024, 3, 10, 0, 0, 1), D(1999, 12, 31, 23, 0)]
FIXED_TZ = ["+0530", "-0800", "UTC+5:45", "-0330", "UTC", "+0100", "AEST", "UTC-3:30", "+1030"]


def numeric(R):
    y = R.choice([1, 50, 999, 1000, 2015, 2024, 9999, 1969, 1970, 2068])
    m = R.randint(1, 12)
    d = R.randint(1, 31)
    sep = R.choice("-/. ")
    f = R.choice([("%02d" % m, "%02d" % d, "%04d" % y), ("%02d" % d, "%02d" % m, "%04d" % y), ("%04d" % y, "%02d" % m, "%02d" % d),
                  (str(m), str(d), "%02d" % (y % 100)), (str(d), str(m), str(y)), ("%02d" % m, "%04d" % y), ("%04d" % y,), (str(d), str(m))])
    s = sep.join(f)
    if R.random() < 0.4:
        s += R.choice([" ", "T", " at "]) + "%02d:%02d" % (R.randint(0, 23), R.randint(0, 59))
        if R.random() < 0.4:
            s += ":%02d" % R.randint(0, 59)
            if R.random() < 0.5:
                s += "." + "".join(R.choice("0123456789") for _ in range(R.randint(1, 7)))
        if R.random() < 0.2:
            s += R.choice([" am", " pm", "pm", " AM", " p.m."])
    if R.random() < 0.3:
        s += " " + R.choice(["+0530", "-0800", "UTC", "EST", "GMT+2", "UTC-3:30", "Z", "PST", "CET", "+05:30", "(EST)", "-1000", "AEST"])
    return s


def langstr(R, info):
    r = R.random()
    words = dict(info["words"])
    names = [n for mname in calendar.month_name[1:] for n in words.get(mname.lower(), [])]
    wds = [n for mname in calendar.day_name for n in words.get(mname.lower(), [])]
    if r < 0.35 and names:
        s = "%d %s %d" % (R.randint(1, 28), R.choice(names), R.choice([2015, 1999, 2024]))
        if R.random() < 0.3:
            s += " %d:%02d" % (R.randint(0, 23), R.randint(0, 59))
        if R.random() < 0.2 and wds:
            s = R.choice(wds) + ", " + s
        return s
    if r < 0.45 and names:
        return R.choice(names) + " " + R.choice(["2015", "", "10:30", "15", "'98"])
    if r < 0.55 and wds:
        return R.choice(wds) + R.choice(["", " 10:30", ""])
    if r < 0.75:
        rt = [w for _, v in info["relType"] for w in v]
        if rt:
            return R.choice(rt) + R.choice(["", "", " 10:30", " 3pm"])
    rr = [p for _, v in info["relRegex"] for p in v]
    if rr:
        p = R.choice(rr).replace("(\\d+[.,]?\\d*)", R.choice(["1", "2", "3", "12", "45", "1.5", "2,5", "5000", "0"]))
        if "\\" not in p and "?" not in p:
            return p
    return numeric(R)


def gen_cases(n, tag="fidelity", auto_share=0.02):
    R = rng(tag)
    ld = langdata()
    infos = {r["name"]: r for r in ld["langs"]}
    order = ld["order"]
    locs = {r["name"]: r for r in ld["locales"]}
    corp = corpus()
    today = D.today()
    cases = []
    # bounded pool of settings values (each distinct value is a new registry key in the library)
    pool = []
    for _ in range(24):
        st = {}
        if R.random() < 0.3: st["DATE_ORDER"] = R.choice(["DMY", "YMD", "MDY", "YDM", "DYM", "MYD"])
        if R.random() < 0.15: st["PREFER_LOCALE_DATE_ORDER"] = False
        if R.random() < 0.3: st["TIMEZONE"] = R.choice(FIXED_TZ)
        if R.random() < 0.2: st["TO_TIMEZONE"] = R.choice(FIXED_TZ)
        if R.random() < 0.3: st["RETURN_AS_TIMEZONE_AWARE"] = R.choice([True, False])
        if R.random() < 0.35: st["PREFER_DATES_FROM"] = R.choice(["past", "future"])
        if R.random() < 0.25: st["PREFER_DAY_OF_MONTH"] = R.choice(["first", "last"])
        if R.random() < 0.25: st["PREFER_MONTH_OF_YEAR"] = R.choice(["first", "last"])
        if R.random() < 0.1: st["STRICT_PARSING"] = True
        if R.random() < 0.1: st["REQUIRE_PARTS"] = R.choice([["day"], ["year"], ["month", "day"]])
        if R.random() < 0.2: st["NORMALIZE"] = False
        if R.random() < 0.15: st["RETURN_TIME_AS_PERIOD"] = True
        if R.random() < 0.1: st["PARSERS"] = R.choice([["absolute-time"], ["timestamp", "negative-timestamp", "relative-time", "custom-formats", "absolute-time", "no-spaces-time"],
                                                        ["no-spaces-time"], ["relative-time", "absolute-time"]])
        st.setdefault("TIMEZONE", "UTC")
        pool.append(st)
    for i in range(n):
        r = R.random()
        lang = R.choice(order) if R.random() < 0.7 else R.choice(["en", "ru", "es", "fr", "de", "ja", "zh", "ar", "fa", "hi"])
        if r < 0.35: s = langstr(R, infos[lang])
        elif r < 0.55: s = numeric(R)
        elif r < 0.85: s = R.choice(corp)
        elif r < 0.9: s = R.choice(["", "-"]) + str(R.randint(10 ** 9, 10 ** 10 - 1)) + R.choice(["", "123", "123456", ".5", " x", "12"])
        else: s = R.choice(corp)[:R.randint(1, 20)] + R.choice(["", " ", ":", "\xa0", "  "])
        c = {"s": s}
        u = R.random()
        if u < auto_share:
            c["auto"] = True
        elif u < 0.8:
            c["langs"] = [lang]
        elif u < 0.9:
            c["langs"] = [lang, "en"]
        else:
            lcs = [k for k, v in locs.items() if v["lang"] == lang]
            if lcs:
                c["locales"] = [R.choice(lcs)]
            else:
                c["langs"] = [lang]
        st = dict(R.choice(pool))
        st["RELATIVE_BASE"] = R.choice(BASES)
        v = R.random()
        if v < 0.08:
            st["TIMEZONE"] = "local"          # the harness runs with TZ=UTC
        elif v < 0.16:
            import datetime as _d
            b = st["RELATIVE_BASE"]
            if 2 <= b.year <= 9998:
                st["RELATIVE_BASE"] = b.replace(tzinfo=_d.timezone(_d.timedelta(seconds=R.choice([0, 19800, -28800, 3600]))))
        if c.get("langs") and len(c["langs"]) == 1 and R.random() < 0.08:
            c["region"] = R.choice(["CA", "AU", "BE", "CH", "IN", "MX", "BR", "US"])
        if c.get("langs") and len(c["langs"]) > 1 and R.random() < 0.5:
            c["givenOrder"] = True
        c["settings"] = st
        c["today"] = today
        if R.random() < 0.1:
            c["fmts"] = [R.choice(["%d/%m/%Y", "%Y-%m-%d", "%d %B %Y", "%B %Y", "%H:%M", "%d.%m.%Y %H:%M", "%b %d, %Y %I:%M %p", "%y%m%d", "%A, %d %b %Y"])]
        cases.append(c)
    return cases


def compare(cases, model=None):
    """returns (mismatches, rejected, outcome_kinds, lib_results, model_results)"""
    model = model or Model()
    t0 = time.time()
    mres = model.run([case_model(c) for c in cases])
    t1 = time.time()
    lres = pmap(lib_gdd, cases)
    t2 = time.time()
    kinds = collections.Counter()
    mism = []
    rej = collections.Counter()
    for c, m, l in zip(cases, mres, lres):
        if "bad" in m:
            rej[m["bad"]] += 1
            continue
        kinds["none" if l.get("r", 1) is None else ("val" if "r" in l else l["e"])] += 1
        if m != l:
            mism.append({"case": c, "model": m, "lib": l})
    return mism, rej, kinds, lres, mres, (t1 - t0, t2 - t1)


if __name__ == "__main__":
    n = int(sys.argv[1]) if len(sys.argv) > 1 else 4000
    cases = gen_cases(n, auto_share=0.01)
    mism, rej, kinds, _, _, tm = compare(cases)
    print("cases", len(cases), "rejected", dict(rej), "lean %.1fs lib %.1fs" % tm, "outcomes", dict(kinds), "MISMATCH", len(mism))
    groups = collections.Counter()
    for m in mism:
        k = ("lib:" + ("none" if m["lib"].get("r", 1) is None else ("val" if "r" in m["lib"] else m["lib"]["e"])),
             "model:" + ("none" if m["model"].get("r", 1) is None else ("val" if "r" in m["model"] else m["model"]["e"])))
        groups[k] += 1
    print(groups)
    for m in mism[:25]:
        c = m["case"]
        print(json.dumps({"s": c["s"], "langs": c.get("langs"), "locales": c.get("locales"), "auto": c.get("auto"), "fmts": c.get("fmts"),
                          "st": {k: str(v) for k, v in c["settings"].items()}, "lib": m["lib"], "model": m["model"]}, ensure_ascii=False))
