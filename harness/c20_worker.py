"""Single-preemption explorer (one process): for a pair of calls (A, B) it runs A under sys.settrace, and at the k-th executed
library line parks A, runs B to completion in a second thread, resumes A; prints, for every k, whether A's and B's results equal the
sequential results, plus which shared variables B changed while A was parked."""
import datetime
import json
import os
import sys
import threading
import time

os.environ["TZ"] = "UTC"; time.tzset()
REPO = sys.argv[1]
sys.path.insert(0, REPO)
LIB = os.path.join(REPO, "dateparser")


def revive(o):
    if isinstance(o, dict):
        if "__dt__" in o:
            return datetime.datetime.fromisoformat(o["__dt__"])
        return {k: revive(v) for k, v in o.items()}
    if isinstance(o, list):
        return [revive(x) for x in o]
    return o


def do_call(c):
    import dateparser
    from dateparser.search import search_dates
    kw = revive(c.get("kw", {}))
    try:
        if c["fn"] == "parse":
            r = dateparser.parse(c["s"], **kw)
            return None if r is None else r.isoformat()
        r = search_dates(c["s"], **kw)
        return None if r is None else [[t[0], t[1].isoformat()] for t in r]
    except BaseException as e:  # noqa
        return "EXC:" + type(e).__name__


def shared_snapshot():
    """registry objects' fields that shared code reads, and which settings object each loaded dictionary points at"""
    from dateparser.conf import Settings
    from dateparser.languages.loader import default_loader, LocaleDataLoader
    snap = {}
    reg = getattr(Settings, "__registry_dict", {})
    for k, o in reg.items():
        for f in ("DATE_ORDER", "SKIP_TOKENS", "NORMALIZE", "RELATIVE_BASE"):
            snap["Settings[%s].%s" % (k[:6], f)] = repr(getattr(o, f, None))
    for name, loc in list(LocaleDataLoader._loaded_locales.items()):
        for attr in ("_dictionary", "_normalized_dictionary"):
            d = getattr(loc, attr, None)
            if d is not None:
                snap["Locale[%s].%s._settings" % (name, attr)] = id(getattr(d, "_settings", None))
    # every module-level singleton of the library (parser objects etc.): a field written there is visible to every thread
    import types
    for mname, mod in list(sys.modules.items()):
        if not mname.startswith("dateparser") or mod is None:
            continue
        for name, val in list(vars(mod).items()):
            cls = type(val)
            if isinstance(val, (type, types.ModuleType, types.FunctionType)) or not getattr(cls, "__module__", "").startswith("dateparser"):
                continue
            if cls.__name__ in ("Settings",) or not hasattr(val, "__dict__"):
                continue
            for f, v in list(vars(val).items()):
                snap["Singleton[%s.%s].%s" % (mname, name, f)] = repr(v) if isinstance(v, (int, str, bool, float, type(None), datetime.datetime, datetime.timedelta)) else id(v)
    return snap


def holds_stdlib_lock(frame):
    """the `_getlang` lambda dateparser patches into CPython's `_strptime` runs with `_strptime._cache_lock` held: a second call that
    needs strptime cannot run there, so it is not a preemption point of this exploration (the point after the lock is released is)"""
    return frame.f_code.co_name == "<lambda>" and frame.f_code.co_filename.endswith(os.path.join("utils", "strptime.py"))


def count_lines(A):
    n = [0]

    def tracer(frame, event, arg):
        if event == "call":
            return tracer if frame.f_code.co_filename.startswith(LIB) else None
        if event == "line" and not holds_stdlib_lock(frame):
            n[0] += 1
        return tracer
    sys.settrace(tracer)
    try:
        do_call(A)
    finally:
        sys.settrace(None)
    return n[0]


def preempt(A, B, k, site=None):
    """park A at its k-th executed library line (or, with `site`, at the k-th executed line of that function), run B, resume A"""
    state = {"n": 0, "done": False, "rb": None, "where": None, "changed": []}

    def runB():
        state["rb"] = do_call(B)

    def tracer(frame, event, arg):
        if event == "call":
            return tracer if frame.f_code.co_filename.startswith(LIB) else None
        if event == "line" and not state["done"] and not holds_stdlib_lock(frame):
            if site is None or ("%s:%s" % (os.path.relpath(frame.f_code.co_filename, REPO), frame.f_code.co_name)) == site:
                state["n"] += 1
            if state["n"] == k and (site is None or ("%s:%s" % (os.path.relpath(frame.f_code.co_filename, REPO), frame.f_code.co_name)) == site):
                state["done"] = True
                state["where"] = "%s:%s" % (os.path.relpath(frame.f_code.co_filename, REPO), frame.f_code.co_name)
                before = shared_snapshot()
                t = threading.Thread(target=runB)
                t.start()
                t.join(float(os.environ.get("C20_JOIN_S", "8")))
                state["thread"] = t
                state["blocked"] = t.is_alive()      # B waits for something A holds (e.g. the import lock): not a schedule of this kind
                after = shared_snapshot()
                state["changed"] = sorted(x.split("[")[0] + "." + x.split("].")[-1] for x in after if before.get(x) != after[x] and x in before)
        return tracer
    sys.settrace(tracer)
    try:
        ra = do_call(A)
    finally:
        sys.settrace(None)
    t = state.get("thread")
    if t is not None:
        t.join(30)
    elif not state["done"]:
        state["rb"] = do_call(B)
    return ra, state["rb"], state["where"], state["changed"], state.get("blocked", False)


def main():
    job = json.load(sys.stdin)
    A, B = job["A"], job["B"]
    import dateparser, dateparser.search          # module import is not part of the exploration (import locks serialise it anyway)
    os.environ.setdefault("C20_JOIN_S", "5" if job.get("warm", True) else "2")
    # warm up (or not): sequential references are taken in this very process
    if job.get("warm", True):
        do_call(A); do_call(B)
        ra0, rb0 = do_call(A), do_call(B)
        n = count_lines(A)
        ks = range(1, n + 1, job.get("stride", 1)) if job.get("ks") is None else job["ks"]
        if job.get("part"):
            i, m = job["part"]
            ks = list(ks)[i::m]
    else:
        ra0 = rb0 = None
        n = None
        ks = job["ks"]
    out = []
    nblocked = 0
    for k in ks:
        ra, rb, where, changed, blocked = preempt(A, B, k, job.get("site"))
        if blocked:
            nblocked += 1
            continue
        if ra0 is None:
            out.append({"k": k, "ra": ra, "rb": rb, "where": where, "changed": changed})
        elif ra != ra0 or rb != rb0:
            out.append({"k": k, "ra": ra, "rb": rb, "where": where, "changed": changed})
    print(json.dumps({"lines": n, "ref": [ra0, rb0], "divergent": out, "tried": len(list(ks)), "blocked": nblocked}, ensure_ascii=False))


if __name__ == "__main__":
    main()
