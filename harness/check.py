#!/venv/bin/python
"""./check <Cxx> <quick|thorough>   |   ./check --setup   |   ./check --replay <file>

Decision procedure of one check (DESIGN §2.4):
 1. translator regenerates lean/DPModel/Gen + lean/gen from /repo's working tree (under a lock)
 2. `lake build` of the property's proof module(s) + driver; axiom audit of the property theorems
 3. correspondence: domain stream (oracle = the property's closed form) + fidelity stream (model vs library)
 4. a broken theorem / domain disagreement → failing-input search on the real library → VIOLATION line
 5. known findings are printed as KNOWN-FINDING lines; evidence/<id>.json is rewritten
Exit 0 pass, 1 violation, 2 internal error / timeout.
"""
import fcntl
import importlib
import json
import os
import re
import subprocess
import sys
import time
import traceback

HERE = os.path.dirname(os.path.abspath(__file__))
VERIF = os.path.dirname(HERE)
sys.path.insert(0, HERE)
LEAN = os.path.join(VERIF, "lean")
ENV = dict(os.environ, PYTHONHASHSEED=os.environ.get("PYTHONHASHSEED", "0"))

STD_AXIOMS = {"propext", "Classical.choice", "Quot.sound"}
FORBIDDEN = re.compile(r"\bsorry\b|\badmit\b|^axiom |implemented_by|\bunsafe |maxHeartbeats 0|native_decide|bv_decide")


def sh(cmd, cwd=None, timeout=3600):
    p = subprocess.run(cmd, cwd=cwd, stdout=subprocess.PIPE, stderr=subprocess.STDOUT, timeout=timeout, env=ENV)
    return p.returncode, p.stdout.decode("utf-8", "replace")


class Lock:
    def __enter__(self):
        self.f = open(os.path.join(LEAN, ".build.lock"), "w")
        fcntl.flock(self.f, fcntl.LOCK_EX)
        return self

    def __exit__(self, *a):
        fcntl.flock(self.f, fcntl.LOCK_UN)
        self.f.close()


def translate():
    rc, out = sh(["/venv/bin/python", os.path.join(VERIF, "translator", "gen.py")], cwd=VERIF)
    if rc != 0:
        return None, out
    last = [l for l in out.splitlines() if l.startswith("{")]
    res = json.loads(last[-1]) if last else {}
    rc2, out2 = sh(["/venv/bin/python", os.path.join(VERIF, "translator", "gen16.py")], cwd=VERIF)
    if rc2 != 0:
        return None, out + out2
    last2 = [l for l in out2.splitlines() if l.startswith("{")]
    if last2:
        res["changed"] = res.get("changed", []) + json.loads(last2[-1]).get("changed", [])
    return res, out + out2


def theorems():
    return json.load(open(os.path.join(LEAN, "THEOREMS.json")))


def build(targets):
    """returns (ok, log)"""
    rc, out = sh(["lake", "build"] + targets, cwd=LEAN)
    return rc == 0, out


def audit(pid, spec):
    """#print axioms for every theorem of the property. returns (discharged, failed{name:why}, axioms{name:[...]})"""
    names = [t["name"] for t in spec["theorems"]]
    mods = sorted({t["module"] for t in spec["theorems"]})
    src = "\n".join("import %s" % m for m in mods) + "\n" + "\n".join("#print axioms %s" % n for n in names) + "\n"
    path = os.path.join(LEAN, ".audit_%s.lean" % pid)
    open(path, "w").write(src)
    rc, out = sh(["lake", "env", "lean", path], cwd=LEAN)
    os.unlink(path)
    axioms = {}
    failed = {}
    cur = None
    for m in re.finditer(r"'([^']+)' depends on axioms: \[([^\]]*)\]|'([^']+)' does not depend on any axioms|error: ([^\n]*)", out):
        if m.group(1):
            axioms[m.group(1)] = [a.strip() for a in m.group(2).replace("\n", " ").split(",") if a.strip()]
        elif m.group(3):
            axioms[m.group(3)] = []
    for t in spec["theorems"]:
        n = t["name"]
        if n not in axioms:
            failed[n] = "theorem missing or not checked"
            continue
        extra = set(axioms[n]) - STD_AXIOMS
        if t.get("kind") == "finite-native":
            extra = {a for a in extra if "_native.native_decide" not in a}
        if extra:
            failed[n] = "non-standard axioms: %s" % sorted(extra)
    # source scan of the proof modules
    for mname in mods:
        p = os.path.join(LEAN, mname.replace(".", "/") + ".lean")
        if "/Gen16/" in p or "/GenWalk/" in p:
            continue      # generated finite-native modules (their axioms are audited by #print axioms above)
        try:
            text = open(p, encoding="utf-8").read()
        except FileNotFoundError:
            continue
        text_nc = re.sub(r"/-.*?-/", "", text, flags=re.S)
        text_nc = "\n".join(l.split("--")[0] for l in text_nc.splitlines())
        allow_native = any(t.get("kind") == "finite-native" and t["module"] == mname for t in spec["theorems"])
        for l in text_nc.splitlines():
            mm = FORBIDDEN.search(l)
            if mm and not (allow_native and mm.group(0) == "native_decide"):
                failed["source:" + mname] = "forbidden token %r" % mm.group(0)
    discharged = [n for n in names if n not in failed]
    return discharged, failed, axioms, out


def run_property(pid, tier):
    t0 = time.time()
    spec = theorems().get(pid)
    if spec is None:
        print("unknown property", pid)
        return 2
    broken = {}
    with Lock():
        tr, trlog = translate()
        if tr is None:
            broken["translator"] = trlog[-2000:]
        mods = sorted({t["module"] for t in spec["theorems"]})
        ok, blog = build(["dpdriver"])
        if not ok:
            print(blog[-3000:])
            print("INTERNAL: model/driver does not build (the generated constants no longer fit the model)")
            broken["model-build"] = blog[-3000:]
        okp, plog = build(mods)
        if not okp:
            broken["proof-build"] = plog[-4000:]
        discharged, failed, axioms, alog = ([], {}, {}, "")
        if okp:
            discharged, failed, axioms, alog = audit(pid, spec)
            for n, why in failed.items():
                broken["theorem:" + n] = why
            if tier == "thorough":
                # the independent re-checker replays every declaration of the property's compiled proof modules in a fresh kernel
                rc_lc, out_lc = sh(["lake", "env", "leanchecker"] + mods, cwd=os.path.join(VERIF, "lean"))
                leanchecker_note = "leanchecker %s: rc=%s" % (" ".join(mods), rc_lc)
                if rc_lc != 0:
                    broken["leanchecker"] = out_lc[-2000:]
    mod = importlib.import_module("props." + pid.lower())
    ctx = {"pid": pid, "tier": tier, "spec": spec, "broken": broken, "translator": tr or {}, "t0": t0}
    lc_note = locals().get("leanchecker_note")
    try:
        res = mod.run(ctx)
    except Exception:
        traceback.print_exc()
        print("INTERNAL: harness error")
        return 2
    from common import write_evidence, write_replay, load_known
    # res: dict(violations=[{key, what, replay}], known=[...], coverage={...}, level=..., assumptions=[...])
    viol = list(res.get("violations", []))
    cov = dict(res.get("coverage", {}))
    nthm = len(spec["theorems"])
    cov.setdefault("obligations", nthm)
    cov["discharged"] = len(discharged)
    cov.setdefault("checker_cmd", "cd lean && lake build %s && lake env lean <#print axioms for %d theorems>" % (" ".join(sorted({t['module'] for t in spec['theorems']})), nthm))
    tb = ["Lean 4.33 kernel", "axioms ⊆ {propext, Classical.choice, Quot.sound}"] + \
         ["%s: %s" % (n, ",".join(a) or "no axioms") for n, a in sorted(axioms.items())] + list(res.get("trusted_base", []))
    if lc_note:
        tb.append(lc_note)
    cov.setdefault("trusted_base", tb)
    cov["theorems"] = [{"name": t["name"], "kind": t.get("kind", "forall"), "ok": t["name"] in discharged} for t in spec["theorems"]]
    cov["translator_changed"] = (tr or {}).get("changed", [])
    code = 0
    out_lines = []
    for k in res.get("known", []):
        out_lines.append("KNOWN-FINDING: property=%s %s" % (pid, k))
    if broken and not viol:
        # a proof obligation / the tie broke, and the search on the real library found no failing input
        path = write_replay(pid, "broken-obligation", {"property": pid, "broken": broken, "note": "no failing input found by the search on the implementation",
                                                       "searched": cov.get("evaluations")})
        out_lines.append("VIOLATION property=%s replay=%s no-failing-input-found" % (pid, os.path.relpath(path, VERIF)))
        code = 1
    for v in viol[:20]:
        out_lines.append("VIOLATION property=%s replay=%s" % (pid, os.path.relpath(v["replay"], VERIF)))
        code = 1
    cov["broken_obligations"] = sorted(broken)
    write_evidence(pid, tier, res.get("level", "proof"), cov, time.time() - t0, violations=len(viol) + (1 if broken and not viol else 0),
                   assumptions=res.get("assumptions"))
    for l in out_lines:
        print(l)
    print("%s %s: %s  theorems %d/%d  evaluations=%s wall=%.1fs" % (pid, tier, "PASS" if code == 0 else "FAIL", len(discharged), nthm, cov.get("evaluations"), time.time() - t0))
    return code


def setup():
    with Lock():
        tr, log = translate()
        if tr is None:
            print(log)
            return 2
        ok, blog = build([])
        print(blog[-1500:])
        return 0 if ok else 2


def main():
    a = sys.argv[1:]
    if a and a[0] == "--setup":
        sys.exit(setup())
    if a and a[0] == "--replay":
        import replay
        sys.exit(replay.main(a[1]))
    pid = a[0].upper()
    tier = a[1] if len(a) > 1 else os.environ.get("VERIF_TIER", "quick")
    sys.exit(run_property(pid, tier))


if __name__ == "__main__":
    main()
