#!/venv/bin/python
"""Writes /verif/MANIFEST.json from the table below (kept next to the code so it stays in sync)."""
import json, os
VERIF = os.path.dirname(os.path.dirname(os.path.abspath(__file__)))
BASE = "cd /repo && /venv/bin/python -m pytest -ra -q -p no:cacheprovider --timeout=900 --continue-on-collection-errors"

T = "Lean 4 proof (model + theorems) + translator + differential correspondence"
CLAIMED = {
 "C01": ("proof", "§6 C01", "Lean ∀-theorems over the stage-2 model of dateparser.parser._parser for every rendering of the fixed family (ISO date / date-time / fraction, RFC-2822, English month forms, AM/PM): every valid date 1..9999, every PREFER_* value, strictness and reference time; C01_timestamp: exact instant arithmetic of the epoch parser for every second count and sub-second part; calendar round-trip lemmas (ofOrd/toOrd, micros). Tie: constants regenerated from /repo + differential run through dateparser.parse / get_date_data against the rendered datetime.",
         "Lean kernel (axioms propext, Classical.choice, Quot.sound). The English string→token glue (sanitize, translate, tokenizer, directive classification) and time_parser on the assembled clock text are modelled and validated by correspondence on every sampled date, not proved ∀; IANA zones for the epoch form use pytz as oracle (model parametric).", T),
 "C02": ("proof", "§6 C02", "Lean escape analysis of the orchestrator over the `except` tuples extracted from /repo (C02_catch_facts is a generated fact re-checked on every run; C02_runParser_escape, C02_localeParse_escape, C02_welldef, C04_overflow) + structured fuzz (strings × bounded settings pool × languages × date_formats, invalid-configuration stream) on the library with the model run on the same cases.",
         "Lean kernel; raise-sets of the individual parsers are tied to the model by correspondence (value and error kind compared), not proved; language layer executable model only.", T),
 "C03": ("proof", "§6 C03", "Lean refinement theorem for the Dictionary class caches over every history of accesses, settings keys, locales and CACHE_SIZE_LIMIT values (C03_cache_refine, C03_cache_history; eviction shape read from the source), DATE_ORDER restore theorem; history exploration on the library: every call of 2–10-call histories (plus targeted shared-settings-value histories with long-lived parser instances) is compared with the same call alone in a fresh interpreter, several PYTHONHASHSEED values.",
         "Lean kernel; md5 injective on settings renderings; the state machine models the cache and DATE_ORDER protocols — other lazily built per-locale attributes are covered by the history exploration only.", T),
 "C04": ("proof", "§6 C04", "Lean ∀-theorems: dateutil's relativedelta year/month arithmetic (modelled literally) equals month-index arithmetic with day clamp for every base and unbounded counts (C04_months_spec, shiftMonths_spec), additivity with the exact linear part (C04_additive), overflow ⇒ None through the extracted except tuple (C04_overflow), period and direction rules; differential run against own calendar arithmetic incl. bracketed implicit-now cases.",
         "Lean kernel; decimals: exact rationals in the model, Python float rounding not modelled (only binary-exact decimals checked) — partial; phrase→kwargs regex glue by correspondence.", T),
 "C05": ("proof", "§6 C05", "Composition: Lean ∀-theorems for the English text the names translate to (C01_named_month, C09_steps) + exhaustive walk of every single-meaning month/weekday name of all 205 languages and 299 locales (NORMALIZE on/off) through the real library, with the Lean model run on a sample of the same rows.",
         "Lean kernel for the ∀ core; the per-name translation is decided by the exhaustive walk on the implementation (and the executable model), not by a kernel proof; 179 rows recorded as known findings.", "Lean 4 proof (core) + exhaustive table walk + correspondence"),
 "C06": ("proof", "§6 C06", "Composition: C04 ∀-theorems (any reference time) + exhaustive walk of every single-meaning fixed relative phrase and plainly substitutable counted pattern of every language/locale × counts × NORMALIZE against its English canon on the real library, model on a sample.",
         "as C05; 83 rows recorded as known findings.", "Lean 4 proof (core) + exhaustive table walk + correspondence"),
 "C07": ("proof", "§6 C07", "Lean ∀-theorem C07_order_decides (all six orders, every valid date, every padding, every preference/strictness/reference time) over the stage-2 model; differential run incl. every language and locale as the source of the default order; oracle = the fields written.",
         "Lean kernel; stage-1 token classification and the string→token glue are modelled and validated by correspondence; known finding: '-'-separated year-last dates whose year spells a negative UTC offset.", T),
 "C08": ("proof", "§6 C08", "Lean ∀-theorems: C08_lastday/C08_month_lengths (every year 1..9999 × month), C08_day/C08_month (first / last / clamped-current), C08_full (preferences never alter a date that states day and month, for every token list), C08_period; differential run (absolute and custom-format parsers) against calendar.monthrange.",
         "Lean kernel; CPython datetime field checks modelled; custom-format 'current' reads the system clock.", T),
 "C09": ("proof", "§6 C09", "Lean: C09_steps (nearest weekday in the preferred direction, all 7×7×3 cases symbolically), C09_weekday_partial (∀ reference times, shift inside the reference month) and C09_weekday_counterexample (the model reproduces the recorded defect); differential run over every reference date of a 4-year window, time-only forms under fixed-offset TIMEZONE, month/day without year, two-digit years 1970..2067, against own nearest-occurrence arithmetic.",
         "Lean kernel; three recorded findings (month preference after the shift; PREFER_MONTH_OF_YEAR on weekday/time-only; time-only candidate day under non-UTC TIMEZONE), each matched on the exact wrong value the defect produces.", T),
 "C10": ("proof", "§6 C10", "Lean ∀-theorems over every token list: C10_filter, C10_require, C10_clock_free; C10_formats for the custom-format parser (depends on a generated fact about the source); relational check on the library over corpus + generated partial dates.",
         "Lean kernel; language translation is outside the theorem (token lists universally quantified).", "Lean 4 proof + relational differential check"),
 "C11": ("proof", "§6 C11", "Lean: C11_attach / C11_naive (∀ datetimes and offsets), finite walk theorems c11_abbrev / c11_offsets over the regenerated 773-entry table (first-match-wins evaluated), C16_tz; exhaustive run of every offset spelling and abbreviation through dateparser.parse incl. pickle/copy round trips.",
         "Lean kernel + native_decide (compiler) for the table walks; pickling/copying checked on the library only; 4 abbreviations recorded as known findings.", "Lean 4 proof + finite table walk (native_decide) + exhaustive correspondence"),
 "C12": ("proof", "§6 C12", "Lean ∀-theorems on fixed offsets: astimezone_instant, C12_instant_fixed (instant preserved through TIMEZONE / TO_TIMEZONE, string zone), C12_aware; differential run over zone pairs (IANA via pytz oracle), four parsers × three awareness values, TIMEZONE='local' under several TZ environments.",
         "Lean kernel; IANA zones are parameters of the model (pytz is the oracle) — partial for that clause.", T),
 "C13": ("proof", "§6 C13", "Lean ∀-theorems about the orchestrator: C13_first, C13_member, C13_default, C13_reparse; compositional laws checked on the library (multi-language run vs single-language runs, DEFAULT_LANGUAGES, region vs locale, full autodetection reproducibility).",
         "Lean kernel; per-locale parse is a function of its arguments (that is C03); loader ordering modelled in the driver.", T),
 "C14": ("proof", "§6 C14", "Lean: C10_formats, C08_day/C08_month (completion of what a format cannot express) + executable strptime model tied by correspondence; differential run over a 40-format family × datetimes 1900..2100, format-wins cases, localized month names of every language.",
         "Lean kernel; the round trip strptime∘strftime per format is validated by correspondence (model = CPython on every case), not yet proved ∀; %z formats outside the family.", T),
 "C15": ("proof", "§6 C15", "Lean: the numeric spellings reduce to C07_order_decides / C01_iso_date (default order, four-digit year pinned first); differential run of JalaliCalendar / HijriCalendar against convertdate / hijridate over years × months × days × spellings (Persian digits, every month-name variant, weekday variants, spelled-out days, time suffix).",
         "converter correctness itself is a parameter (third-party); to_latin table walk by correspondence.", "Lean 4 proof (core) + differential correspondence"),
 "C16": ("proof", "§6 C16", "Finite Lean theorems regenerated on every run: C16_modules (205 language modules = model of the generator on CLDR ⊕ supplementary ⊕ base), C16_tz (pickled table = build_tz_offsets model incl. regex rewriting), C16_index; plus the repo's own generator run on a scratch copy (byte comparison).",
         "native_decide (Lean compiler) for the finite theorems; YAML-subset loader (self-validating).", "translation validation decided by finite Lean theorems (native_decide)"),
 "C17": ("proof", "§6 C17", "Lean: result well-formedness of the per-item parse (C02_welldef) + fuzz of search_dates over every language and autodetection with the four contract predicates (total, well-formed, in text, in order, single requested language).",
         "the search layer itself (sentence splitting, alignment, chunking) is decided by the fuzz on the implementation; its Lean model is not part of this revision.", "Lean 4 proof (core) + contract fuzz"),
 "C18": ("proof", "§6 C18", "Lean ∀-theorems: C18_numerals (every string, every Nd block; finite block table regenerated), C18_ws_expand / C18_ws_pad / C18_spaces (whitespace rewrite family shares one normal form); relational run on the library over corpus + generated dates × rewrites × Nd blocks.",
         "Lean kernel; the proof-facing normal forms are tied to the regex-driven pipeline by correspondence; spacing-sensitive strings excluded and counted.", T),
 "C19": ("proof", "§6 C19", "Lean ∀-theorems on the cache state machine (C19_recover, C19_total, C19_again, C19_healthy; C19_kinds is a generated fact over the extracted except clause) + pickle.load on prefixes + real imports on crash points against scratch package copies.",
         "Lean kernel; pickle/unpickle are parameters with unpickle∘pickle = id; 'no strict prefix unpickles' checked on the enumerated lengths.", "Lean 4 proof (state machine) + crash-point enumeration"),
 "C20": ("proof", "§6 C20", "Lean interleaving model of the shared Settings object: C20_same_config, C20_window, C20_counterexample, C20_same_locale_counterexample; exhaustive single-preemption exploration on the library (every executed line of A, real second thread) + cold-process points.",
         "GIL-atomic bytecodes; one preemption per schedule; sub-bytecode and multi-switch schedules not exhibited — partial; divergences recorded per shared site.", "Lean 4 proof (interleaving model) + exhaustive single-preemption exploration"),
}

def main():
    checks = []
    for pid, (cat, ref, text, note, tech) in sorted(CLAIMED.items()):
        checks.append({"property_id": pid, "quick_cmd": "./check %s quick" % pid, "thorough_cmd": "./check %s thorough" % pid,
                       "evidence_file": "evidence/%s.json" % pid, "replay_cmd_template": "./check --replay {path}", "engine": "lean-dpmodel",
                       "level_claimed": {"category": cat, "text": text, "design_ref": "DESIGN.md " + ref}, "level_note": note, "technique": tech})
    allp = [json.loads(l)["id"] for l in open(os.path.join(VERIF, "properties.jsonl"))]
    na = [{"property_id": p, "reason": "not yet claimed in this revision: model/theorems/harness under construction (see DESIGN.md §10)"} for p in allp if p not in CLAIMED]
    m = {"version": 1, "setup_cmd": "./check --setup",
         "hooks": {"guard": "DATEPARSER_VERIF", "enable": "no hooks are needed: every observation point is public API or plain introspection", "baseline_off_cmd": BASE, "source_commits": [], "add_only": True},
         "engines": [{"name": "lean-dpmodel", "path": "lean/", "serves_properties": sorted(CLAIMED), "kind_free_text": "Lean 4 model (DPModel) + theorems (DPProofs) + compiled line-protocol driver, tied to /repo by translator/gen.py and harness/ (differential correspondence)"}],
         "checks": checks, "not_applicable": na,
         "notes": "Exit 2 = internal error/timeout (never a verdict). VERIF_SEED seeds the single PRNG."}
    json.dump(m, open(os.path.join(VERIF, "MANIFEST.json"), "w"), indent=1, ensure_ascii=False)
    print("checks", len(checks), "not_applicable", len(na))

if __name__ == "__main__":
    main()
