#!/venv/bin/python
"""Writes /verif/MANIFEST.json from the table below (kept next to the code so it stays in sync)."""
import json, os
VERIF = os.path.dirname(os.path.dirname(os.path.abspath(__file__)))
BASE = "cd /repo && /venv/bin/python -m pytest -ra -q -p no:cacheprovider --timeout=900 --continue-on-collection-errors"

CLAIMED = {
 "C07": ("proof", "§6 C07", "Lean ∀-theorem C07_order_decides (all six orders, every valid date, every padding, every preference/strictness/reference time) over the stage-2 model of dateparser.parser._parser; model tied to /repo by the translator (date_order tables, directive lists) and by a differential run through DateDataParser.get_date_data; oracle = the fields written.",
         "Lean kernel; stage-1 token classification (CPython _strptime directives on 1–4 digit tokens) and the string→token glue are modelled and validated by correspondence, not proved; known finding: '-'-separated year-last dates whose year spells a negative UTC offset.",
         "Lean 4 proof (two-stage parser model) + translator + differential correspondence"),
 "C08": ("proof", "§6 C08", "Lean ∀-theorems: C08_lastday/C08_month_lengths (every year 1..9999 × month, century rule), C08_day/C08_month (the two completion functions return exactly first / last / clamped-current), C08_full (preferences never alter a date that states day and month, for every token list), C08_period; tie: translator + differential run (absolute and custom-format parsers) against calendar.monthrange.",
         "Lean kernel; CPython datetime field checks and the English month-name glue are modelled, validated by correspondence; custom-format 'current' reads the system clock (bracketed).",
         "Lean 4 proof + translator + differential correspondence"),
 "C10": ("proof", "§6 C10", "Lean ∀-theorems over every token list: C10_filter (strictness/REQUIRE_PARTS either leaves the result unchanged or turns it into the missing-fields error), C10_require, C10_clock_free (strict result independent of the reference time); relational correspondence on the library over corpus + generated partial dates.",
         "Lean kernel; language translation is outside the theorem (token lists are universally quantified); parse_with_formats strictness is read from the source by the translator.",
         "Lean 4 proof + relational differential check"),
}

def main():
    checks = []
    for pid, (cat, ref, text, note, tech) in sorted(CLAIMED.items()):
        checks.append({"property_id": pid, "quick_cmd": "./check %s quick" % pid, "thorough_cmd": "./check %s thorough" % pid,
                       "evidence_file": "evidence/%s.json" % pid, "replay_cmd_template": "./check --replay {path}", "engine": "lean-dpmodel",
                       "level_claimed": {"category": cat, "text": text, "design_ref": "DESIGN.md " + ref}, "level_note": note, "technique": tech})
    allp = [json.loads(l)["id"] for l in open(os.path.join(VERIF, "properties.jsonl"))]
    na = [{"property_id": p, "reason": "not yet claimed in this revision: model/theorems/harness under construction (see DESIGN.md §10)"} for p in allp if p not in CLAIMED]
    m = {"version": 1, "setup_cmd": "./check --setup",
         "hooks": {"guard": "DATEPARSER_VERIF", "enable": "no hooks are needed: every observation point is public API or plain introspection", "baseline_off_cmd": BASE, "source_commits": [], "add_only": True},
         "engines": [{"name": "lean-dpmodel", "path": "lean/", "serves_properties": sorted(CLAIMED), "kind_free_text": "Lean 4 model (DPModel) + theorems (DPProofs) + compiled line-protocol driver, tied to /repo by translator/gen.py and harness/ (differential correspondence)"}],
         "checks": checks, "not_applicable": na,
         "notes": "Exit 2 = internal error/timeout (never a verdict). VERIF_SEED seeds the single PRNG."}
    json.dump(m, open(os.path.join(VERIF, "MANIFEST.json"), "w"), indent=1, ensure_ascii=False)
    print("checks", len(checks), "not_applicable", len(na))

if __name__ == "__main__":
    main()
