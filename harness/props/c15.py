"""C15 — Jalali and Hijri dates convert to the right Gregorian date (wrapper checked against the reference converters)."""
import collections
import datetime as dt

from common import D, pmap, rng, write_replay, load_known

PDIG = "۰۱۲۳۴۵۶۷۸۹"


def pd(s):
    return "".join(PDIG[int(c)] if c.isdigit() else c for c in str(s))


def probe(job):
    kind, s = job
    try:
        if kind == "jalali":
            from dateparser.calendars.jalali import JalaliCalendar
            dd = JalaliCalendar(s).get_date()
        else:
            from dateparser.calendars.hijri import HijriCalendar
            dd = HijriCalendar(s).get_date()
        if dd is None or dd.date_obj is None:
            return None
        return dd.date_obj.isoformat()
    except Exception as e:  # noqa
        return "EXC:" + type(e).__name__


def probe_pair(job):
    """one process, the same numeric date read by both calendars one after the other"""
    first, s = job
    second = "hijri" if first == "jalali" else "jalali"
    return [probe((first, s)), probe((second, s))]


def oracle_year(job):
    """reference conversion (convertdate.persian: astronomical, ~25 ms per date) of the needed days of one Jalali year"""
    from convertdate import persian
    y, full = job
    out = {}
    for m in range(1, 13):
        ml = persian.month_length(y, m)
        days = range(1, ml + 1) if full else sorted({1, 12, 13, 21, 29, min(30, ml), ml})
        out[m] = (ml, {d: persian.to_gregorian(y, m, d) for d in days if d <= ml})
    return out


def run(ctx):
    tier = ctx["tier"]
    R = rng("c15")
    from convertdate import persian
    from hijridate import Hijri
    from dateparser.calendars.jalali_parser import jalali_parser as jp
    months = list(jp._months.items())         # (latin, (idx, days, [variants]))
    weekdays = list(jp._weekdays.items())
    letters = jp._number_letters
    jobs = []
    meta = []

    def add(kind, s, exp, stratum):
        jobs.append((kind, s)); meta.append((exp, stratum))
    years = range(1200, 1501) if tier != "quick" else sorted(set([1200, 1348, 1399, 1403, 1404, 1500] + [R.randint(1200, 1500) for _ in range(4)]))
    years = list(years)
    fulls = [tier != "quick" and (y % 10 == 0 or y in (1348, 1399, 1403, 1404, 1407, 1408)) for y in years]
    tables = pmap(oracle_year, list(zip(years, fulls)), chunksize=1, force=True)
    for y, full, tab in zip(years, fulls, tables):
        for m in range(1, 13):
            ml, conv = tab[m]
            days = range(1, ml + 1) if full else sorted({1, 12, 13, 29, 30, ml})
            for d in days:
                if d > ml:
                    continue
                g = conv[d]
                base = D(*g)
                forms = [("%04d/%02d/%02d" % (y, m, d), base), ("%04d-%02d-%02d" % (y, m, d), base), ("%04d %d %d" % (y, m, d), base),
                         ("%d/%d/%04d" % (m, d, y), base)]
                if d > 12:
                    forms.append(("%d/%d/%04d" % (d, m, y), base))
                hh, mi = R.randint(0, 23), R.randint(0, 59)
                forms.append(("%04d/%02d/%02d %02d:%02d" % (y, m, d, hh, mi), base.replace(hour=hh, minute=mi)))
                forms.append((pd("%04d/%02d/%02d" % (y, m, d)), base))
                for s, e in (forms if tier != "quick" else R.sample(forms, 3)):
                    add("jalali", s, e.isoformat(), "jalali/numeric")
            # every month-name variant, Persian digits, weekday variants, spelled-out days
            for variant in months[m - 1][1][2]:
                d = R.choice([1, 13, 21, 29, min(30, ml), ml])
                g = D(*conv[d])
                wd = weekdays[(g.weekday() + 1) % 7]      # table starts on Sunday
                wname = R.choice(wd[1])
                add("jalali", "%s %s %s" % (pd(d), variant, pd(y)), g.isoformat(), "jalali/name")
                add("jalali", "%s %s %s %s" % (wname, pd(d), variant, pd(y)), g.isoformat(), "jalali/weekday+name")
                word = R.choice(letters[d])
                add("jalali", "%s %s %s" % (word + R.choice(["", "م", " ام"]), variant, pd(y)), g.isoformat(), "jalali/spelled-day")
                hh, mi = R.randint(0, 23), R.randint(0, 59)
                add("jalali", "%s %s %s %s:%s" % (pd(d), variant, pd(y), pd("%02d" % hh), pd("%02d" % mi)), g.replace(hour=hh, minute=mi).isoformat(), "jalali/name+time")
    hyears = range(1343, 1501) if tier != "quick" else sorted(set([1343, 1389, 1400, 1420, 1436, 1445, 1500] + [R.randint(1343, 1500) for _ in range(8)]))
    for y in hyears:
        for m in range(1, 13):
            ml = min(Hijri(y, m, 1).month_length(), 30)      # the property quantifies over days 1..29/30 (the reference table lists 31 days for four old months)
            for d in (range(1, ml + 1) if (tier != "quick" and y % 4 == 0) else sorted({1, 13, min(29, ml), ml})):
                g = D(*Hijri(y, m, d).to_gregorian().datetuple())
                forms = [("%04d/%02d/%02d" % (y, m, d), g), ("%d-%d-%04d" % (m, d, y), g)]
                if d > 12:
                    forms.append(("%02d-%02d-%04d" % (d, m, y), g))
                hh, mi = R.randint(0, 23), R.randint(0, 59)
                forms.append(("%04d-%02d-%02d %02d:%02d" % (y, m, d, hh, mi), g.replace(hour=hh, minute=mi)))
                for s, e in (forms if tier != "quick" else R.sample(forms, 2)):
                    add("hijri", s, e.isoformat(), "hijri/numeric")
    # the same year/month/day read by both calendars in one process, in both orders (years the two calendars share): each reading is
    # its own calendar's date, whatever the other calendar was asked before
    pair_jobs, pair_meta = [], []
    for y, tab in zip(years, tables):
        if not (1343 <= y <= 1500):
            continue
        for m in (range(1, 13) if tier != "quick" else R.sample(range(1, 13), 3)):
            ml, conv = tab[m]
            for d in (1, 13, 29):
                if d not in conv or d > min(Hijri(y, m, 1).month_length(), 30):
                    continue
                s_ = "%04d/%02d/%02d" % (y, m, d)
                ej = D(*conv[d]).isoformat()
                eh = D(*Hijri(y, m, d).to_gregorian().datetuple()).isoformat()
                for first in ("jalali", "hijri"):
                    pair_jobs.append((first, s_)); pair_meta.append((ej, eh))
    pres = pmap(probe_pair, pair_jobs, chunksize=1, force=True)
    res = pmap(probe, jobs, chunksize=256)
    known = load_known("C15")
    viol = []
    strata = collections.Counter()
    ok = 0
    kh = collections.Counter()
    for (kind, s), (exp, stratum), r in zip(jobs, meta, res):
        strata[stratum] += 1
        if r == exp:
            ok += 1
            continue
        key = {"stratum": stratum, "rule": "?"}
        viol.append({"calendar": kind, "string": s, "expected": exp, "observed": r, "stratum": stratum})
    for (first, s_), (ej, eh), rr in zip(pair_jobs, pair_meta, pres):
        second = "hijri" if first == "jalali" else "jalali"
        for kind, r in zip((first, second), rr):
            strata["both-calendars-one-process"] += 1
            exp = ej if kind == "jalali" else eh
            if r == exp:
                ok += 1
            else:
                viol.append({"calendar": kind, "string": s_, "expected": exp, "observed": r, "stratum": "both-calendars-one-process",
                             "history": "%s read the same string first in this process" % first if kind == second else "first call of the pair"})
    out = [{"replay": write_replay("C15", "cal-%d" % j, {"property": "C15", "kind": "calendar parser differs from the reference conversion", **v})} for j, v in enumerate(viol[:10])]
    if viol:
        write_replay("C15", "all-failing", {"rows": viol[:2000], "by_stratum": dict(collections.Counter(v["stratum"] for v in viol))})
    cov = {"evaluations": len(jobs) + 2 * len(pair_jobs), "distinct_nontrivial": ok,
           "rule": "Jalali years 1200..1500 × months × days (thorough: every day of every 10th year and of the years around leap boundaries, the boundary days of every other year) × numeric spellings (incl. Persian digits, time suffix) and every listed month-name variant with weekday variants and spelled-out days; Hijri 1343..1500 × numeric spellings; oracle = convertdate.persian / hijridate called directly; non-trivial = cases equal to the reference conversion",
           "samples": [{"calendar": jobs[i][0], "s": jobs[i][1], "expect": meta[i][0]} for i in range(0, len(jobs), max(1, len(jobs) // 6))][:6],
           "strata": dict(strata), "wrapper_violations": len(viol)}
    return {"violations": out, "known": [], "coverage": cov, "level": "proof",
            "assumptions": ["conversion correctness of convertdate / hijridate themselves is not verified (parameters of the wrapper theorem)",
                            "D/M/Y spellings are only in the domain when D > 12 (the calendar parsers run with the default MDY order)"]}
