"""C18 — whitespace noise and the digit script never change what a string parses to (relational check on the library)."""
import collections
import json
import unicodedata

from common import D, Model, case_model, corpus, langdata, lib_gdd, pmap, rng, write_replay, load_known

BASE = D(2020, 5, 17, 12, 0)
LK = ["en", "es", "fr", "de", "ru", "it", "pt", "nl", "tr", "zh", "ja", "ar", "hi", "id", "pl", "fi", "sv", "uk", "cs", "he", "fa", "th", "ko", "vi", "el"]


def nd_blocks():
    zeros = []
    for cp in range(0x110000):
        c = chr(cp)
        if unicodedata.category(c) == "Nd" and unicodedata.digit(c) == 0:
            zeros.append(cp)
    return zeros


def ws_rewrites(R, s):
    """the fixed family of whitespace rewritings"""
    sp = [i for i, c in enumerate(s) if c == " "]
    def repl(f):
        return "".join(f(i) if c == " " else c for i, c in enumerate(s))
    out = {"pad": "  " + s + " ", "pad-tab": "\t" + s + "\n", "double": s.replace(" ", "  "), "tab": s.replace(" ", "\t"), "newline": s.replace(" ", "\n"),
           "nbsp": s.replace(" ", "\xa0"), "mixed": repl(lambda i: R.choice([" \t", "\xa0 ", " \n ", "\t\t", "  \xa0"])), "colon": s + ":", "colons": s + "::",
           # one-sided padding and the compositions of padding with the trailing colon
           "pad-left": " \t" + s, "pad-right": s + "  ", "pad-right-nl": s + "\n", "pad-left-nbsp": "\xa0" + s,
           "colon-pad-right": s + ": ", "colon-pad": " " + s + ":\t", "space-colon": s + " :", "space-colon-pad": s + " : "}
    return out


def subst_digits(s, zero):
    return "".join(chr(zero + ord(c) - 48) if "0" <= c <= "9" else c for c in s)


def spacing_sensitive(s):
    """strings on which dateparser's sanitising looks at exact spacing or which already end in a colon/whitespace: excluded, as DESIGN §6 C18 states"""
    import re
    return False      # nothing is excluded any more (the two spacing-sensitive cleaning steps were repaired: see known_findings.json, fixed C18)


def mk(s, lang):
    return {"s": s, "langs": [lang], "settings": {"RELATIVE_BASE": BASE, "TIMEZONE": "UTC"}}


def run(ctx):
    tier = ctx["tier"]
    R = rng("c18")
    corp = [s for s in corpus() if not spacing_sensitive(s)]
    sel = R.sample(corp, 300 if tier == "quick" else len(corp))
    # strings the cleaning steps look at closely (dotted d.m.y. forms, 'on:', ', в', 'г.', a dot before a space) are always in
    import re
    close = [s for s in corp if re.search(r"\d\.\s?\d+\.\s?\d+\.|on:|on$|,\sв|г\.|\.\s", s)]
    sel = sel + [s for s in R.sample(close, min(len(close), 80)) if s not in sel]
    det = pmap(lib_gdd, [{"s": s, "langs": LK, "settings": {"RELATIVE_BASE": BASE, "TIMEZONE": "UTC"}} for s in sel])
    items = [(s, d["r"].rsplit("|", 1)[1]) for s, d in zip(sel, det) if d.get("r")]
    # generated dates in every language
    ld = langdata()
    for r in (ld["langs"] if tier != "quick" else R.sample(ld["langs"], 60)):
        words = dict(r["words"])
        months = [n for k in ("january", "march", "september", "december") for n in words.get(k, [])[:1]]
        for mname in months[:2]:
            if " " in mname or not mname.strip():
                continue
            items.append(("%d %s %d" % (R.randint(1, 28), mname, R.choice([1987, 2015, 2024])), r["name"]))
        items.append(("%02d.%02d.%d %02d:%02d" % (R.randint(1, 12), R.randint(13, 28), 2015, R.randint(0, 23), R.randint(0, 59)), r["name"]))
    for lang in ("hr", "sr-Latn", "bs", "sl", "en"):
        items.append(("%d. %d. %d. u %02d:%02d" % (R.randint(13, 28), R.randint(1, 12), 2019, R.randint(0, 23), R.randint(0, 59)), lang))
        items.append(("%d.%02d.%d. u %02d:%02d" % (R.randint(13, 28), R.randint(1, 12), 2022, R.randint(0, 23), R.randint(0, 59)), lang))
    # simplification rules whose pattern spells an ASCII digit literally ('12 noon', 'less than 1 minute ago', ru '… 1 год'): a string that
    # triggers the rule, in every digit script (the rule must see the digits however they are written)
    lit = []
    for r in ld["langs"]:
        for pat, _rep in (r.get("simps") or []):
            bare = re.sub(r"\\\d|\{\d+(,\d*)?\}|\\d", "", pat)
            if not re.search(r"\d", bare):
                continue
            t = pat
            for a, b in ((r"(\d{3,}1)", "1991"), (r"(\d*[02-9])", "2015"), ("(?:", ""), (")?", ""), (r"\s+", " "), (r"\s*", " "), (r"\b", ""), ("$", "")):
                t = t.replace(a, b)
            if re.search(r"[\\()\[\]{}*+?|^]", t):
                continue                       # a construct this instantiation does not know: counted below
            lit.append((t.strip(), r["name"]))
    items += lit
    if any(l == "en" for _, l in lit):
        items += [("March 5 2015 12 noon", "en"), ("Friday 12 midnight", "en")]
    # ', в' after a date (the comma-preposition the cleaning step removes) in the Cyrillic languages other than Russian
    for s_, l_ in (("5 януари 2015, в 12:00", "bg"), ("5 січня 2015, в 12:00", "uk"), ("5 студзеня 2015, в 12:00", "be"), ("5 јануари 2015, в 12:00", "mk"), ("5 января 2015, в 12:00", "ru")):
        items.append((s_, l_))
    zeros = nd_blocks()
    zsel = zeros if tier != "quick" else R.sample(zeros, 8) + [0x660, 0x6F0, 0x966, 0xFF10]
    cases = []
    plan = []
    for s, lang in items:
        b = len(cases)
        cases.append(mk(s, lang))
        var = []
        for k, v in ws_rewrites(R, s).items():
            if " " not in s and k in ("double", "tab", "newline", "nbsp", "mixed"):
                continue
            var.append(("ws/" + k, len(cases))); cases.append(mk(v, lang))
        if any(c.isdigit() for c in s):
            for z in (zsel if tier != "quick" else R.sample(zsel, 4)):
                if z == 0x30:
                    continue
                var.append(("digits/U+%04X" % z, len(cases))); cases.append(mk(subst_digits(s, z), lang))
        plan.append((s, lang, b, var))
    lres = pmap(lib_gdd, cases, chunksize=64)
    known = load_known("C18")
    viol = []
    kh = collections.Counter()
    nontriv = 0
    strata = collections.Counter()
    for s, lang, b, var in plan:
        ref = lres[b]
        if ref.get("r"):
            nontriv += 1
        for k, i in var:
            strata[k.split("/")[0]] += 1
            if lres[i] != ref:
                key = {"rule": k.split("/")[0]}
                if any(e.get("key") == key for e in known):
                    kh[json.dumps(key)] += 1
                else:
                    viol.append({"s": s, "language": lang, "rewrite": k, "rewritten": cases[i]["s"], "original_result": ref, "rewritten_result": lres[i]})
    drift = []
    rej = collections.Counter()
    if "model-build" not in ctx["broken"]:
        sub = list(range(0, len(cases), 5 if tier == "quick" else 2))
        mres = Model().run([case_model(cases[i]) for i in sub])
        for i, m in zip(sub, mres):
            if "bad" in m:
                rej[m["bad"]] += 1
            elif m != lres[i]:
                drift.append({"case": cases[i], "model": m, "lib": lres[i]})
    out = [{"replay": write_replay("C18", "rewrite-%d" % j, {"property": "C18", "kind": "a whitespace / digit-script rewriting changed the result", **v})} for j, v in enumerate(viol[:10])]
    if not viol and drift and not ctx["broken"]:
        ctx["broken"]["correspondence"] = json.dumps(drift[:3], ensure_ascii=False, default=str)[:3000]
    cov = {"evaluations": len(cases), "distinct_nontrivial": nontriv,
           "rule": "corpus + generated dates in every language × the whitespace family (pad, double, tab, newline, NBSP, mixed runs, trailing colon) × Nd blocks; non-trivial = distinct originals that parse to a date",
           "samples": [{"s": p[0], "language": p[1], "variants": [k for k, _ in p[3]][:6]} for p in plan[:: max(1, len(plan) // 5)][:5]],
           "literal_digit_simplification_strings": [x for x, _ in lit], "strata": dict(strata), "nd_blocks": len(zsel), "relation_violations": len(viol), "excluded_spacing_sensitive": len(corpus()) - len(corp),
           "model_compared": len(sub) if "model-build" not in ctx["broken"] else 0, "model_rejected": dict(rej), "model_drift": len(drift),
           "model_drift_samples": [{"s": d["case"]["s"], "model": d["model"], "lib": d["lib"]} for d in drift[:5]]}
    return {"violations": out, "known": ["%s x%d" % (k, n) for k, n in kh.items()], "coverage": cov, "level": "proof",
            "assumptions": ["no corpus string is excluded"]}
