"""C14 — custom date_formats round-trip what the format expresses."""
import calendar
import datetime as dt

from common import D, langdata, rng
from props.base import decide, expect_str

F40 = ["%Y-%m-%d", "%d/%m/%Y", "%m/%d/%Y", "%d.%m.%Y", "%Y%m%d", "%d-%m-%y", "%y%m%d", "%m/%d/%y", "%Y-%m-%d %H:%M", "%Y-%m-%d %H:%M:%S", "%Y-%m-%dT%H:%M:%S",
       "%Y-%m-%d %H:%M:%S.%f", "%d/%m/%Y %I:%M %p", "%d/%m/%Y %I:%M:%S %p", "%H:%M %d.%m.%Y", "%d %B %Y", "%B %d, %Y", "%d %b %Y", "%b %d, %Y", "%d %b %y",
       "%A, %d %B %Y", "%a, %d %b %Y %H:%M:%S", "%A %d %B %Y %H:%M", "%B %Y", "%b %Y", "%m/%Y", "%Y-%m", "%Y", "%d %B", "%d/%m", "%B %d", "%b %d", "%m-%d",
       "%d %B %Y %H:%M", "%b %d %Y %I:%M%p", "%Y/%m/%d %H.%M", "%d %b %Y %H:%M:%S.%f", "%I %p %d %B %Y", "%y-%m-%d %H:%M", "%H:%M:%S %d/%m/%Y",
       # microseconds away from the canonical 'H:M:S.ffffff' shape: no dot at all, a comma, a dot earlier in the string, dots as time separators
       "%Y%m%d%H%M%S%f", "%d.%m.%Y %H:%M:%S,%f", "%d.%m.%y %H%M%S.%f", "%H:%M:%S,%f %d/%m/%Y", "%d.%m.%Y %H.%M.%S.%f", "%f %S %M %H %d %m %Y"]
PREFS = ["current", "first", "last"]


def expressible(d, f, pd, pm, today):
    """the datetime the format expresses, completed per the preferences: a missing year is the current year, a missing month / day is the
    first, last or current one — 'last' being the last day of that month *in that year*"""
    has = lambda *xs: any(x in f for x in xs)  # noqa
    y = d.year if has("%Y") else ((2000 + d.year % 100 if d.year % 100 <= 68 else 1900 + d.year % 100) if has("%y") else today.year)
    m = d.month if has("%m", "%B", "%b") else {"first": 1, "last": 12, "current": today.month}[pm]
    if has("%d"):
        day = d.day
    else:
        last = calendar.monthrange(y, m)[1]
        day = {"first": 1, "last": last, "current": min(today.day, last)}[pd]
    hour = d.hour if has("%H") else (d.hour if has("%I") and has("%p") else (d.hour % 12 if has("%I") else 0))
    mi = d.minute if has("%M") else 0
    s = d.second if has("%S") else 0
    us = d.microsecond if has("%f") else 0
    period = "day"
    if not has("%m", "%B", "%b"):
        period = "year"
    elif not has("%d"):
        period = "month"
    return D(y, m, day, hour, mi, s, us), period


CLOCKS = [D(2026, 4, 30, 9, 0), D(2027, 2, 28, 23, 30), D(2028, 2, 29, 0, 15), D(2026, 10, 31, 12, 0), D(2026, 6, 15, 6, 45)]


def run(ctx):
    tier = ctx["tier"]
    R = rng("c14")
    today = D.today().replace(hour=12, minute=0, second=0, microsecond=0)
    n = 25 if tier == "quick" else 500
    cases = []
    dates = [D(1900, 1, 1), D(2100, 12, 31, 23, 59, 59, 999999), D(2000, 2, 29, 12, 0, 0, 500000), D(1969, 7, 20, 20, 17, 40), D(2068, 12, 31, 0, 0, 1), D(1999, 12, 31, 12, 59)]
    while len(dates) < n:
        y = R.randint(1900, 2100); m = R.randint(1, 12)
        dates.append(D(y, m, R.randint(1, calendar.monthrange(y, m)[1]), R.randint(0, 23), R.randint(0, 59), R.randint(0, 59), R.choice([0, R.randint(0, 999999)])))
    base = D(2020, 5, 17, 12, 0)
    for d in dates:
        for f in (F40 if tier != "quick" else R.sample(F40, 14)):
            yearless = not ("%Y" in f or "%y" in f)
            if yearless and (d.month, d.day) == (2, 29):
                continue
            if "%y" in f and not (1969 <= d.year <= 2068):
                continue
            pd, pm = R.choice(PREFS), R.choice(PREFS)
            if ("%d" not in f) and not yearless:
                pass
            exp, period = expressible(d, f, pd, pm, today)
            s = d.strftime(f)
            if "%Y" in f and d.year < 1000:
                continue
            st = {"RELATIVE_BASE": base, "TIMEZONE": "UTC", "PREFER_DAY_OF_MONTH": pd, "PREFER_MONTH_OF_YEAR": pm}
            cases.append({"s": s, "langs": ["en"], "settings": st, "fmts": [f], "today": today, "expect": expect_str(exp, period=period), "stratum": "english/" + ("full" if "%d" in f and not yearless else "partial")})
            # lower / upper case names are accepted too
            if any(x in f for x in ("%B", "%b", "%A", "%a", "%p")) and R.random() < 0.3:
                cases.append({"s": R.choice([s.lower(), s.upper()]), "langs": ["en"], "settings": st, "fmts": [f], "today": today, "expect": expect_str(exp, period=period), "stratum": "english/case"})
    # partial formats × all nine preference pairs (what the format cannot express is completed per the preferences)
    for f in ["%Y", "%y", "%B %Y", "%m/%Y", "%Y %H:%M", "%d %B", "%H:%M", "%B", "%b", "%m", "%B %H:%M"]:
        for d in dates[:6] + dates[-2:] + [D(2015, 2, 10, 8, 5), D(2016, 4, 30, 22, 0)]:
            if ("%y" in f and not (1969 <= d.year <= 2068)) or ("%Y" in f and d.year < 1000):
                continue
            if not ("%Y" in f or "%y" in f) and (d.month, d.day) == (2, 29):
                continue
            for pd in PREFS:
                for pm in PREFS:
                    exp, period = expressible(d, f, pd, pm, today)
                    cases.append({"s": d.strftime(f), "langs": ["en"], "settings": {"RELATIVE_BASE": base, "TIMEZONE": "UTC", "PREFER_DAY_OF_MONTH": pd, "PREFER_MONTH_OF_YEAR": pm},
                                  "fmts": [f], "today": today, "expect": expect_str(exp, period=period), "stratum": "partial-all-prefs"})
                    # the custom-format parser takes 'current' day / month and a missing year from the system clock: the same law under
                    # controlled clocks (a 30-day month, the end of February in a common and in a leap year, the 31st)
                    cks = CLOCKS if tier != "quick" else [CLOCKS[(len(cases) // 7) % len(CLOCKS)]]
                    if d.month == 2 and not ("%Y" in f or "%y" in f):
                        cks = cks + [D(2028, 7, 4, 10, 0)]      # a February named without a year, in a leap year
                    for ck in cks:
                        if not ("%Y" in f or "%y" in f) and (d.month, d.day) == (2, 29):
                            continue
                        exp2, period2 = expressible(d, f, pd, pm, ck)
                        cases.append({"s": d.strftime(f), "langs": ["en"], "settings": {"RELATIVE_BASE": base, "TIMEZONE": "UTC", "PREFER_DAY_OF_MONTH": pd, "PREFER_MONTH_OF_YEAR": pm},
                                      "fmts": [f], "today": ck, "clock": ck, "expect": expect_str(exp2, period=period2), "stratum": "partial-all-prefs/clock"})
    # the given format wins over a heuristic reading: an ambiguous numeric string read per the format, not per DATE_ORDER
    for _ in range(20 if tier == "quick" else 300):
        dd, mm, yy = R.randint(1, 12), R.randint(1, 12), R.randint(1970, 2060)
        for f, exp in (("%d/%m/%Y", D(yy, mm, dd)), ("%m/%d/%Y", D(yy, dd, mm))):
            cases.append({"s": "%02d/%02d/%04d" % (dd, mm, yy), "langs": ["en"], "settings": {"RELATIVE_BASE": base, "TIMEZONE": "UTC", "DATE_ORDER": R.choice(["MDY", "DMY", "YMD"])},
                          "fmts": [f], "today": today, "expect": expect_str(exp), "stratum": "format-wins"})
    # month names of a selected language (single-meaning names, %B / %b formats)
    from props.c05 import single_meaning
    ld = langdata()
    known_c05 = set()
    try:
        import json, os
        from common import VERIF
        for e in json.load(open(os.path.join(VERIF, "known_findings.json"), encoding="utf-8")):
            if e.get("property") == "C05" and e.get("status") == "recorded":
                known_c05.add((e["key"]["locale"], e["key"]["name"]))
    except Exception:  # noqa
        pass
    for rec in (ld["langs"] if tier != "quick" else R.sample(ld["langs"], 50)):
        # a localized name that is itself an English month name / abbreviation makes the *raw* string match the format, and the
        # property says that reading wins ("If the raw string matches one of the given formats, that reading is returned"): not in this stratum
        english = {x.lower() for x in list(calendar.month_name[1:]) + list(calendar.month_abbr[1:])}
        names = [(n, i) for n, k, i in single_meaning(rec) if k == "month" and (rec["name"], n) not in known_c05 and n.lower() not in english]
        for name, m in (names if tier != "quick" else R.sample(names, min(len(names), 4))):
            y = R.randint(1950, 2050); dday = R.randint(1, 28)
            for f, s in (("%d %B %Y", "%d %s %d" % (dday, name, y)),):
                cases.append({"s": s, "langs": [rec["name"]], "settings": {"RELATIVE_BASE": base, "TIMEZONE": "UTC"}, "fmts": [f], "today": today,
                              "expect": expect_str(D(y, m, dday)), "stratum": "localized-names"})
            # literal brackets around the fields, two-digit year and a day that could be a year: every literal character of the string must
            # survive the translation (keep_formatting), or strptime fails and a fallback reads the digits in the locale's own order
            if " " not in name and R.random() < (0.5 if tier == "quick" else 1.0):
                y2 = R.randint(1, 28)
                f, s = R.choice([("%d (%B) %y", "%02d (%s) %02d" % (dday, name, y2)), ("[%d] %B %y", "[%02d] %s %02d" % (dday, name, y2)),
                                 ("%d {%B} %y", "%02d {%s} %02d" % (dday, name, y2)), ("%y (%B) %d", "%02d (%s) %02d" % (y2, name, dday))])
                cases.append({"s": s, "langs": [rec["name"]], "settings": {"RELATIVE_BASE": base, "TIMEZONE": "UTC"}, "fmts": [f], "today": today,
                              "expect": expect_str(D(2000 + y2, m, dday)), "stratum": "localized-names/bracket-literals"})
            # the same with a clock time and a fraction that starts with zeros (the string goes through the locale's translation before the
            # format is tried: every digit of every field must survive it)
            if " " not in name and R.random() < (0.5 if tier == "quick" else 1.0):
                us = R.choice([123, 45000, 99999, 1000, 7])
                hh, mi, ss = R.randint(0, 23), R.randint(0, 59), R.randint(0, 59)
                cases.append({"s": "%02d %s %d %02d:%02d:%02d.%06d" % (dday, name, y, hh, mi, ss, us), "langs": [rec["name"]], "settings": {"RELATIVE_BASE": base, "TIMEZONE": "UTC"},
                              "fmts": ["%d %B %Y %H:%M:%S.%f"], "today": today, "expect": expect_str(D(y, m, dday, hh, mi, ss, us)), "stratum": "localized-names/fraction"})
    # the custom-format parser reads the system clock for what a format does not state: run those cases under a controlled clock (today at noon),
    # so that a run which crosses midnight cannot disagree with the expectation computed at its start
    for c_ in cases:
        if "today" in c_ and c_.get("clock") is None:
            c_["clock"] = c_["today"]
    res = decide(ctx, cases, model_share=0.6 if tier == "quick" else 1.0)
    res["assumptions"] = ["'current' day/month and the missing year come from the system clock (read once at the start; the run must not cross midnight)",
                          "localized month names: the result must be the named month whichever parser produces it (the custom format on the translated string, or the absolute parser)",
                          "formats with %z are outside the family (DESIGN §7 #12)"]
    return res
