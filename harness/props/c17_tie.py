"""C17 model tie: the Lean model of the search layer (`DPModel/DP/Search.lean`) against the library, layer by layer.

For a (locale, text) pair the library is run piecewise and everything the model treats as a parameter is *recorded from the library*
(word splitting, dictionary membership / values, `_join_chunk`, `word.strip`, `_token_with_digits_is_ok`, `word_is_tz`, the results of
`get_date_data`); the model then has to reproduce
  * `_simplify_split_align`            (op `align`)
  * the `translate_search` loop        (op `tsent`, per sentence) — and, reassembled with the library's own post-processing, `translate_search`
  * `parse_found_objects` + blank filter (op `found`)
"""
import datetime as dt

STRIP = "()\"'{}[],.،"


def _dateid(ids, d):
    if not d:
        return None
    k = d.isoformat() + "|" + str(d.tzinfo)
    if k not in ids:
        ids[k] = len(ids) + 1
    return ids[k]


def tie_probe(job):
    """returns {"lines": [model ops], "expect": [what each must equal], "skip": reason}"""
    from dateparser.conf import Settings
    from dateparser.date import DateDataParser
    from dateparser.languages.loader import LocaleDataLoader
    from dateparser.search.search import _ExactLanguageSearch
    from dateparser.timezone_parser import word_is_tz
    from dateparser.utils import normalize_unicode
    shortname, text, base = job
    st = {"TIMEZONE": "UTC"}
    if base:
        st["RELATIVE_BASE"] = dt.datetime(2020, 5, 17, 12, 0)
    from dateparser.conf import settings as default_settings
    settings = default_settings.replace(**st)
    loader = LocaleDataLoader()
    loc = loader.get_locale(shortname)
    lines, expect = [], []
    try:
        real_tr, real_or = loc.translate_search(text, settings=settings)
    except Exception as e:  # noqa
        return {"skip": "translate_search raised %s" % type(e).__name__}
    dictionary = loc._get_dictionary(settings=settings)
    sentences = list(loc._sentence_split(text, settings=settings))
    chunk_expect = []
    for sent in sentences:
        ot0 = list(loc._word_split(sent, settings=settings))
        st0 = list(loc._word_split(loc._simplify(normalize_unicode(sent), settings=settings), settings=settings))
        try:
            ot, stt = loc._simplify_split_align(sent, settings=settings)
            exp = {"o": list(ot), "s": list(stt)}
        except Exception as e:  # noqa
            exp = {"e": type(e).__name__}
            ot, stt = None, None
        lines.append({"op": "align", "orig": [[t, normalize_unicode(t.lower())] for t in ot0], "simp": st0})
        expect.append(exp)
        if ot is None:
            return {"lines": lines, "expect": expect}
        last = len(stt) - 1
        dct, joins, strips, digits, tz = {}, {}, {}, {}, {}

        def look(w):
            if w in dictionary:
                v = dictionary[w]
                dct[w] = v if v else ""
        for i, w in enumerate(stt):
            nxt = stt[i + 1] if i < last else ""
            j = loc._join_chunk([w, nxt], settings=settings)
            joins[w + "\x01" + nxt] = j
            look(j); look(w)
            sw = w.strip(STRIP)
            strips[w] = sw
            look(sw)
            digits[w] = bool(loc._token_with_digits_is_ok(w))
            tz[ot[i]] = bool(word_is_tz(ot[i]))
            if i + 1 < len(ot):
                joins[ot[i] + "\x01" + ot[i + 1]] = loc._join_chunk([ot[i], ot[i + 1]], settings=settings)
        lines.append({"op": "tsent", "orig": list(ot), "simp": list(stt), "dict": [[k, v] for k, v in dct.items()], "join": [[k, v] for k, v in joins.items()],
                      "strip": [[k, v] for k, v in strips.items()], "digits": [[k, v] for k, v in digits.items()], "tz": [[k, v] for k, v in tz.items()],
                      "jointUnsupported": loc.shortname in ["zh", "ja"]})
        expect.append({"sentence": True})
        chunk_expect.append(len(lines) - 1)
    # parse_found_objects on the library's own translate_search output, with a recording parser
    bad = shortname in ["vi", "hu"]
    parser = DateDataParser(languages=[shortname] if bad else ["en"], settings=settings)
    ids = {}
    calls = []

    class Rec:
        _settings = parser._settings

        def get_date_data(self, item):
            rb = parser._settings.RELATIVE_BASE
            r = parser.get_date_data(item)
            calls.append([_dateid(ids, rb), item, _dateid(ids, r["date_obj"])])
            return r
    rb0 = parser._settings.RELATIVE_BASE
    searcher = _ExactLanguageSearch(loader)
    to_parse = real_or if bad else real_tr
    try:
        parsed, substrings = searcher.parse_found_objects(parser=Rec(), to_parse=to_parse, original=real_or, translated=real_tr, settings=settings)
        for s_, p_ in zip(substrings, parsed):
            _dateid(ids, p_[0]["date_obj"])
        # what the model has to reproduce is the *final* list of `search_parse` (parse_found_objects + whatever search_parse does to the hits)
        final = _ExactLanguageSearch(loader).search_parse(shortname, text, settings)
        fexp = {"hits": [[s_, _dateid(ids, d_)] for s_, d_ in final]}
    except Exception as e:  # noqa
        fexp = {"e": type(e).__name__}
    finally:
        parser._settings.RELATIVE_BASE = rb0
    # a (rb, item) pair asked twice with different answers would make the recorded table ambiguous (does not happen: get_date_data is a function)
    tbl = {}
    for rb, item, r in calls:
        if tbl.setdefault((rb, item), r) != r:
            return {"lines": lines, "expect": expect, "chunk_lines": chunk_expect, "real": [real_tr, real_or], "skip_found": "ambiguous recorded table"}
    # the model's digit test is str.isdecimal; skip the found layer on texts where isdigit differs
    lines.append({"op": "found", "toParse": list(to_parse), "original": list(real_or), "translated": list(real_tr), "needRb": not bool(settings.RELATIVE_BASE),
                  "rb0": _dateid(ids, rb0) if rb0 else None, "gdd": calls})
    expect.append(fexp)
    odd_digits = any(c.isdigit() != c.isdecimal() for c in text)
    return {"lines": lines, "expect": expect, "chunk_lines": chunk_expect, "real": [real_tr, real_or], "shortname": shortname, "base": base, "odd_digits": odd_digits}


def reassemble(job, chunk_outs):
    """the library's own post-processing applied to the model's chunks → what translate_search must have returned"""
    from dateparser.conf import Settings
    from dateparser.languages.loader import LocaleDataLoader
    shortname, text, base = job
    st = {"TIMEZONE": "UTC"}
    if base:
        st["RELATIVE_BASE"] = dt.datetime(2020, 5, 17, 12, 0)
    from dateparser.conf import settings as default_settings
    settings = default_settings.replace(**st)
    loc = LocaleDataLoader().get_locale(shortname)
    translated, original = [], []
    for out in chunk_outs:
        for ch in out["chunks"]:
            translated.append([it[0] for it in ch])
            original.append([it[1] for it in ch])
    for i in range(len(translated)):
        if "in" in translated[i]:
            translated[i] = loc._clear_future_words(translated[i])
        translated[i] = loc._join_chunk(list(filter(bool, translated[i])), settings=settings)
        original[i] = loc._join_chunk(list(filter(bool, original[i])), settings=settings)
    return [translated, original]


def run_tie(jobs, model, pmap):
    """returns (mismatches, stats)"""
    import collections
    probes = pmap(tie_probe, jobs, chunksize=8, force=True)
    lines = []
    where = []
    for k, p in enumerate(probes):
        for j, l in enumerate(p.get("lines", [])):
            lines.append(l); where.append((k, j))
    outs = model.run(lines)
    per = collections.defaultdict(dict)
    for (k, j), o in zip(where, outs):
        per[k][j] = o
    mism = []
    stats = collections.Counter()
    for k, p in enumerate(probes):
        if "skip" in p:
            stats["skipped:" + p["skip"]] += 1
            continue
        job = jobs[k]
        ok = True
        for j, (l, exp) in enumerate(zip(p["lines"], p["expect"])):
            o = per[k][j]
            if l["op"] == "align":
                stats["align"] += 1
                if len(l["orig"]) != len(l["simp"]):
                    stats["align-unequal-input"] += 1
                if "e" in exp:
                    stats["align-lib-raised"] += 1
                if o != exp:
                    mism.append({"layer": "_simplify_split_align", "locale": job[0], "text": job[1], "input": l, "model": o, "library": exp}); ok = False
            elif l["op"] == "tsent":
                stats["sentences"] += 1
                if "chunks" in o and any(it[3] == 2 for ch in o["chunks"] for it in ch):
                    stats["sentences-with-joined-pair"] += 1
                if "e" in o:
                    mism.append({"layer": "translate_search loop", "locale": job[0], "text": job[1], "input": {"orig": l["orig"], "simp": l["simp"]}, "model": o,
                                 "library": "returned normally"}); ok = False
            elif l["op"] == "found":
                if p.get("odd_digits"):
                    stats["found-skipped-odd-digits"] += 1
                    continue
                stats["found"] += 1
                if len(l["gdd"]) > sum(1 for it in l["toParse"] if len(it) > 2):
                    stats["found-with-split-or-reparse"] += 1
                if "hits" in o and any(h[3] > 0 for h in o["hits"]):
                    stats["found-hit-from-later-piece"] += 1
                got = {"hits": [[h[0], h[1]] for h in o["hits"]]} if "hits" in o else o
                if not job[2] and "hits" in got and "hits" in exp:
                    # no RELATIVE_BASE: the two library runs (recording run, final run) read the clock at different instants, so only the
                    # substrings are comparable
                    got = {"hits": [h[0] for h in got["hits"]]}
                    exp = {"hits": [h[0] for h in exp["hits"]]}
                if "hits" in exp and exp["hits"]:
                    stats["found-with-hits"] += 1
                if got != exp:
                    mism.append({"layer": "parse_found_objects", "locale": job[0], "text": job[1], "input": {k2: l[k2] for k2 in ("toParse", "original", "translated", "needRb", "rb0")},
                                 "recorded_get_date_data_calls": l["gdd"], "model": o, "library": exp}); ok = False
        if ok and p.get("chunk_lines") is not None and all("chunks" in per[k][j] for j in p["chunk_lines"]):
            re_ = reassemble(job, [per[k][j] for j in p["chunk_lines"]])
            stats["translate_search"] += 1
            if any(re_[0]):
                stats["translate_search-with-chunks"] += 1
            if re_ != [list(p["real"][0]), list(p["real"][1])]:
                mism.append({"layer": "translate_search (model chunks + library post-processing)", "locale": job[0], "text": job[1], "model": re_, "library": p["real"]})
    return mism, dict(stats)


def align_synth_probe(job):
    """`_simplify_split_align` on arbitrary token lists: the two `_word_split` calls of the real method are answered from the job"""
    from dateparser.conf import settings as default_settings
    from dateparser.languages.loader import LocaleDataLoader
    orig, simp = job
    loc = LocaleDataLoader().get_locale("en")
    feed = iter([list(orig), list(simp)])
    loc._word_split = lambda string, settings=None: next(feed)       # instance attribute on a private Locale object, gone with it
    try:
        o, s = loc._simplify_split_align("x", settings=default_settings)
        return {"o": list(o), "s": list(s)}
    except Exception as e:  # noqa
        return {"e": type(e).__name__}
    finally:
        del loc._word_split


def run_align_synth(R, n, model, pmap):
    jobs = []
    for _ in range(n):
        alpha = R.choice([["a", "b"], ["a", "b", "c", ""], ["a"], ["a", "b", "c", "d", "e"]])
        base = [R.choice(alpha) for _ in range(R.randint(0, 7))]
        other = list(base)
        for _ in range(R.randint(1, 4)):       # edit: insert / delete / substitute tokens
            k = R.random()
            if k < 0.45 or not other:
                other.insert(R.randint(0, len(other)), R.choice(alpha + ["z"]))
            elif k < 0.8:
                other.pop(R.randrange(len(other)))
            else:
                other[R.randrange(len(other))] = R.choice(alpha + ["z"])
        jobs.append((base, other) if R.random() < 0.5 else (other, base))
    lib = pmap(align_synth_probe, jobs, chunksize=32, force=True)
    mod = model.run([{"op": "align", "orig": [[t, t] for t in o], "simp": s} for o, s in jobs])
    mism = [{"layer": "_simplify_split_align (synthetic token lists)", "orig": o, "simp": s, "model": m, "library": l} for (o, s), m, l in zip(jobs, mod, lib) if m != l]
    import collections
    st = collections.Counter()
    for (o, s), l in zip(jobs, lib):
        st["orig-shorter" if len(o) < len(s) else ("orig-longer" if len(o) > len(s) else "equal")] += 1
        if "e" in l:
            st["library-raised-" + l["e"]] += 1
        elif len(l["o"]) != len(o) or len(l["s"]) != len(s):
            st["padded"] += 1
    return mism, dict(st)
