"""C02 — parse is total: a datetime or None, documented exceptions only (structured fuzz through the public API)."""
import collections
import datetime as dt
import json
import string

import pytz

from common import D, Model, case_model, corpus, langdata, pmap, rng, write_replay, err_kind, canon_dd, load_known

LANGS = ["en", "es", "fr", "de", "ru", "it", "pt", "nl", "tr", "zh", "ja", "ar", "hi", "id", "pl", "fi", "yue", "uk", "th", "he", "fa", "ko", "vi", "el"]
FIXED = ["UTC", "+0530", "-0800", "UTC+5:45", "-0330", "+1000", "AEST", "UTC-12:00", "+1400"]
IANA = ["Europe/Paris", "America/New_York", "Asia/Kolkata", "Australia/Lord_Howe", "Pacific/Kiritimati", "Pacific/Pago_Pago", "Africa/Cairo", "EST", "CET"]
BASES = [D(1, 1, 1), D(1, 1, 1, 0, 0, 1), D(1, 1, 2, 12), D(9999, 12, 31, 23, 59, 59, 999999), D(9999, 12, 31), D(9999, 12, 30, 1), D(2020, 2, 29, 12, 30),
         D(2021, 12, 31, 23, 59, 59), D(1970, 1, 1), D(2000, 1, 1), pytz.utc.localize(D(2020, 5, 17, 10, 0)), pytz.timezone("Asia/Tokyo").localize(D(2021, 3, 3, 3, 3)),
         D(1, 1, 1, tzinfo=dt.timezone.utc), D(9999, 12, 31, 23, 0, tzinfo=dt.timezone(dt.timedelta(hours=-5)))]
DIRECTIVES = ["%d", "%m", "%y", "%Y", "%H", "%I", "%M", "%S", "%f", "%p", "%B", "%b", "%A", "%a", "%j"]
DOC = ("TypeError", "ValueError", "SettingValidationError")


def settings_pool(R, n):
    pool = []
    for _ in range(n):
        st = {"RELATIVE_BASE": R.choice(BASES)}
        if R.random() < 0.5: st["TIMEZONE"] = R.choice(FIXED + IANA)
        if R.random() < 0.3: st["TO_TIMEZONE"] = R.choice(FIXED + IANA)
        if R.random() < 0.3: st["RETURN_AS_TIMEZONE_AWARE"] = R.choice([True, False])
        if R.random() < 0.3: st["DATE_ORDER"] = R.choice(["DMY", "YMD", "MDY", "YDM", "DYM", "MYD"])
        if R.random() < 0.2: st["PREFER_LOCALE_DATE_ORDER"] = R.choice([True, False])
        if R.random() < 0.5: st["PREFER_DATES_FROM"] = R.choice(["past", "future", "current_period"])
        if R.random() < 0.3: st["PREFER_DAY_OF_MONTH"] = R.choice(["first", "last", "current"])
        if R.random() < 0.3: st["PREFER_MONTH_OF_YEAR"] = R.choice(["first", "last", "current"])
        if R.random() < 0.15: st["STRICT_PARSING"] = True
        if R.random() < 0.15: st["REQUIRE_PARTS"] = R.choice([["day"], ["year"], ["month", "day"], ["day", "month", "year"]])
        if R.random() < 0.2: st["NORMALIZE"] = False
        if R.random() < 0.2: st["RETURN_TIME_AS_PERIOD"] = True
        if R.random() < 0.15: st["SKIP_TOKENS"] = R.choice([[], ["t", "at"], ["de"]])
        if R.random() < 0.25: st["PARSERS"] = R.choice([["absolute-time"], ["timestamp", "negative-timestamp", "relative-time", "custom-formats", "absolute-time", "no-spaces-time"],
                                                         ["no-spaces-time"], ["relative-time"], ["negative-timestamp", "timestamp"], ["custom-formats"]])
        if R.random() < 0.1: st["DEFAULT_LANGUAGES"] = R.sample(LANGS, 2)
        if R.random() < 0.1: st["CACHE_SIZE_LIMIT"] = R.choice([0, 1, 5, 1000])
        pool.append(st)
    return pool


def strings(R, corp, n, alphabet):
    out = []
    toks = ["monday", "jan", "march", "2015", "12", "31", "99", "0", "10:30", "25:61", "pm", "am", "ago", "in", "days", "week", "t", "utc", "+0530", "-1000", "z", "1e5",
            "٣", "१२", "：", "年", "月", "日", "vor", "hace", "il y a", "назад", "昨天", "前", "๑"]
    seps = [" ", "-", "/", ".", ",", ":", "  ", "\t", "\n", "\xa0", "", "(", ")", "[", "]", "{", "}", "'", "’", "T", "@", "|"]
    for _ in range(n):
        r = R.random()
        if r < 0.3:
            s = R.choice(corp)
            k = R.random()
            if k < 0.3 and len(s) > 2:
                i = R.randrange(len(s)); s = s[:i] + s[i + 1:]
            elif k < 0.5:
                i = R.randrange(len(s) + 1); s = s[:i] + R.choice(seps + toks) + s[i:]
            elif k < 0.6:
                s = s[:R.randint(0, len(s))]
            elif k < 0.7:
                s = s.upper() if R.random() < 0.5 else s[::-1]
        elif r < 0.5:
            s = "".join(R.choice(toks) + R.choice(seps) for _ in range(R.randint(1, 7)))
        elif r < 0.7:
            s = "".join(R.choice("0123456789" * 3 + "-/.: ,+") for _ in range(R.randint(1, 24)))
        elif r < 0.85:
            s = "".join(R.choice(alphabet) for _ in range(R.randint(0, 30)))
        elif r < 0.9:
            s = R.choice(["", " ", "()", "[ ]", "{}", "\n", ":", "-", "0", "00", "000000", "9" * 40, "1" * 100, "a" * 100, "-" + "9" * 13, "9999999999999999", "12345678901", "１２", "0000-00-00",
                          "9999-12-31 23:59:59.999999 -1200", "0001-01-01 00:00 +1400", "31 feb 2020", "29 feb 1900", "12/31/9999 11:59 pm pst", "monday " * 12, "in 99999999 years",
                          "999999999 days ago", "1 decade ago", "10000 years ago", "in 1e3 days", "١٢ مارس ٢٠١٥"])
        else:
            s = chr(R.randint(0x20, 0x2FFF)) * R.randint(1, 5) + R.choice(toks)
        out.append(s[:100])
    return out


def probe(job):
    """returns ('ok', canonical) | ('exc', kind) and the DateData well-formedness verdict"""
    import dateparser
    from dateparser.date import DateDataParser
    kind, s, kw, fmts = job
    try:
        if kind == "parse":
            r = dateparser.parse(s, date_formats=fmts, **kw)
            if r is not None and not isinstance(r, dt.datetime):
                return ("bad", "parse returned %r" % type(r))
            return ("ok", None if r is None else r.isoformat())
        ddp = DateDataParser(**kw)
        dd = ddp.get_date_data(s, fmts)
        if dd.period not in ("time", "day", "week", "month", "year"):
            return ("bad", "period %r" % (dd.period,))
        if dd.date_obj is None and dd.locale is not None:
            return ("bad", "locale %r without a date" % (dd.locale,))
        if dd.date_obj is not None and not isinstance(dd.date_obj, dt.datetime):
            return ("bad", "date_obj %r" % type(dd.date_obj))
        return ("ok", canon_dd(dd))
    except Exception as e:  # noqa
        return ("exc", err_kind(e))


def probe_seq(job):
    """one process: the calls of the list one after the other (what one call validated must not excuse the next)"""
    return [probe(j) for j in job]


def run(ctx):
    tier = ctx["tier"]
    R = rng("c02")
    alphabet = sorted(json.load(open(__import__("os").path.join(__import__("common").GEN, "alphabet.json"), encoding="utf-8")))
    corp = corpus()
    n = 2500 if tier == "quick" else 60000
    pool = settings_pool(R, 28 if tier == "quick" else 60)
    strs = strings(R, corp, n, alphabet)
    jobs = []
    expect = []          # None = no exception allowed; else the documented kind that must be raised
    for s in strs:
        st = dict(R.choice(pool))
        kw = {"settings": st}
        u = R.random()
        if u < 0.03:
            kw = {"settings": {"RELATIVE_BASE": st["RELATIVE_BASE"]}}            # autodetection (all languages), thin stratum
        elif u < 0.75:
            kw["languages"] = [R.choice(LANGS)]
        elif u < 0.85:
            kw["languages"] = R.sample(LANGS, 2)
        elif u < 0.9:
            kw["locales"] = [R.choice(["en-AU", "fr-CA", "es-MX", "pt-PT", "de-AT", "zh-Hans-SG", "ar-EG"])]
        else:
            kw["languages"] = [R.choice(["en", "fr", "de"])]; kw["region"] = R.choice(["CA", "BE", "CH"]) if kw["languages"][0] != "en" else R.choice(["CA", "AU", "IN"])
        fmts = None
        if R.random() < 0.15:
            ds = R.sample(DIRECTIVES, R.randint(1, 4))
            fmts = [R.choice(["", " ", "-", "/", ":", "."]).join(ds)]
        jobs.append((R.choice(["parse", "gdd"]), s, kw, fmts)); expect.append(None)
    # dates at the very ends of the range × zone settings that push them over the edge, through every parser incl. custom formats
    for s, fm in [("0001-01-01 00:00", "%Y-%m-%d %H:%M"), ("9999-12-31 23:00", "%Y-%m-%d %H:%M"), ("31/12/9999 23:59", "%d/%m/%Y %H:%M"), ("1 January 0001", "%d %B %Y"),
                  ("9999-12-31 23:59:59", None), ("0001-01-01", None), ("January 1, 0001 00:30", None), ("253402300799", None), ("-62135596800", None)]:
        for tzs in [{"TIMEZONE": "UTC", "TO_TIMEZONE": "America/New_York"}, {"TIMEZONE": "UTC", "TO_TIMEZONE": "Asia/Tokyo"}, {"TIMEZONE": "America/Los_Angeles", "TO_TIMEZONE": "UTC"},
                    {"TIMEZONE": "+1400", "TO_TIMEZONE": "UTC", "RETURN_AS_TIMEZONE_AWARE": True}, {"TIMEZONE": "-1200"}, {"TIMEZONE": "Pacific/Kiritimati"}]:
            for pf in ("past", "future"):
                st = dict(tzs, RELATIVE_BASE=R.choice(BASES[:6]), PREFER_DATES_FROM=pf)
                jobs.append((R.choice(["parse", "gdd"]), s, {"languages": ["en"], "settings": st}, [fm] if fm else None)); expect.append(None)
    # local times that are ambiguous or do not exist in an IANA zone (DST transitions), time-only and full strings
    for tzn, amb, gap in [("America/New_York", D(2026, 11, 1, 12, 0), D(2026, 3, 8, 12, 0)), ("Europe/Paris", D(2026, 10, 25, 12, 0), D(2026, 3, 29, 12, 0)),
                          ("Australia/Lord_Howe", D(2026, 4, 5, 12, 0), D(2026, 10, 4, 12, 0))]:
        for b in (amb, gap):
            for s in ("1:30", "2:30", "01:45", "02:15", "%04d-%02d-%02d 01:30" % (b.year, b.month, b.day), "%04d-%02d-%02d 02:30" % (b.year, b.month, b.day), "yesterday 1:30", "1 hour ago"):
                for pf in ("past", "future", "current_period"):
                    st = {"TIMEZONE": tzn, "RELATIVE_BASE": b, "PREFER_DATES_FROM": pf}
                    if R.random() < 0.3:
                        st["TO_TIMEZONE"] = "UTC"
                    jobs.append((R.choice(["parse", "gdd"]), s, {"languages": ["en"], "settings": st}, None)); expect.append(None)
    # composite directives that carry a year of their own (%x, %c, ISO week dates): a leap day must not make an exception escape
    for s_, fm in [("02/29/24", "%x"), ("Thu Feb 29 10:00:00 2024", "%c"), ("2024-09-4", "%G-%V-%u"), ("02/28/24", "%x"), ("060 10:30", "%j %H:%M"), ("2024 060", "%Y %j"),
                   ("29 Feb 10:30", "%d %b %H:%M"), ("Feb 29", "%b %d")]:
        for st in ({}, {"PREFER_DAY_OF_MONTH": "last"}, {"TIMEZONE": "UTC", "TO_TIMEZONE": "+0530"}):
            jobs.append((R.choice(["parse", "gdd"]), s_, {"languages": ["en"], "settings": dict(st, RELATIVE_BASE=D(2020, 5, 17, 12, 0))}, [fm])); expect.append(None)
    # aware reference times (utc, fixed offsets, IANA zones) × every preference × strings that leave the date, the year or the time open
    import datetime as _dt
    import pytz as _pytz
    aware_bases = [D(2020, 5, 17, 12, 0, tzinfo=_dt.timezone.utc), D(2021, 1, 1, 0, 30, tzinfo=_dt.timezone(_dt.timedelta(hours=5, minutes=30))),
                   _pytz.timezone("America/New_York").localize(D(2019, 12, 31, 23, 45)), D(1, 1, 2, 0, 0, tzinfo=_dt.timezone.utc),
                   D(9999, 12, 30, 23, 0, tzinfo=_dt.timezone(_dt.timedelta(hours=-8)))]
    for b in aware_bases:
        for s in ("10:30", "23:59:58", "5 pm", "at 3:15 am", "10:30 EST", "18:05 +0200", "friday", "friday 10:30", "March", "March 3", "10/12/25", "2 days ago", "in 3 hours", "1484823450"):
            for pf in ("past", "future", "current_period"):
                for tzs in ({}, {"TIMEZONE": "UTC"}, {"TIMEZONE": "Europe/Paris"}, {"TIMEZONE": "EST", "RETURN_AS_TIMEZONE_AWARE": True}):
                    if tier == "quick" and R.random() < 0.5:
                        continue
                    st = dict(tzs, RELATIVE_BASE=b, PREFER_DATES_FROM=pf)
                    jobs.append((R.choice(["parse", "gdd"]), s, {"languages": ["en"], "settings": st}, None)); expect.append(None)
    # every name of the library's own timezone table, in the table's spelling, lower case and capitalised, as TIMEZONE / TO_TIMEZONE: whether a
    # spelling is a valid value is the library's decision, but it is a decision about the *setting* — accepted (no exception for any string) or
    # rejected (SettingValidationError for every string), never an exception that depends on the date string
    from props.c11 import table as _tz_table
    tznames = sorted({name for blk in _tz_table() for name, _ in blk["timezones"] if "\\" not in name})
    tznames += ["UTC+03:00", "GMT+3", "UTC-5", "GMT-0330", "Etc/GMT+5", "Australia/ACT", "US/East-Indiana"]
    spell = [sp for nm in tznames for sp in {nm, nm.lower(), nm.capitalize(), nm.upper()}]
    if tier == "quick":
        spell = R.sample(spell, 160) + ["cest", "Pst", "utc+03:00", "gmt+3", "msk"]
    consistent = collections.defaultdict(list)
    for sp in spell:
        for key in ("TIMEZONE", "TO_TIMEZONE"):
            for s_, extra in (("2020-01-15 10:00", {}), ("15 January 2020 10:00 +0200", {}), ("in 2 days", {}), ("2 days ago", {"RELATIVE_BASE": D(2020, 5, 17, 12, 0)}),
                              ("1484823450", {}), ("no date here", {}), ("15.01.2020 10:00 +0100", {"fmt": "%d.%m.%Y %H:%M %z"})):
                extra = dict(extra)
                fm = extra.pop("fmt", None)
                consistent[(sp, key)].append(len(jobs))
                jobs.append(("parse", s_, {"languages": ["en"], "settings": dict(extra, **{key: sp})}, [fm] if fm else None)); expect.append("setting-decides")
    # invalid configuration / wrongly typed arguments: the documented exception, whatever the string
    bad_settings = [({"UNKNOWN": 1}, "SettingValidationError"), ({"DATE_ORDER": "XYZ"}, "SettingValidationError"), ({"STRICT_PARSING": "yes"}, "SettingValidationError"),
                    ({"PREFER_DATES_FROM": "yesterday"}, "SettingValidationError"), ({"REQUIRE_PARTS": ["hour"]}, "SettingValidationError"), ({"PARSERS": ["foo"]}, "SettingValidationError"),
                    ({"PARSERS": ["timestamp", "timestamp"]}, "SettingValidationError"), ({"RELATIVE_BASE": "now"}, "SettingValidationError"), ({"TIMEZONE": 5}, "SettingValidationError"),
                    ({"DEFAULT_LANGUAGES": ["xx"]}, "SettingValidationError"), ({"LANGUAGE_DETECTION_CONFIDENCE_THRESHOLD": 2.0}, "SettingValidationError"),
                    ({"CACHE_SIZE_LIMIT": "1"}, "SettingValidationError"), ({"NORMALIZE": None}, "TypeError"),
                    # a timezone name nothing resolves (neither the tz database nor the library's table) is a wrong value
                    ({"TIMEZONE": "Foo/Bar"}, "SettingValidationError"), ({"TO_TIMEZONE": "Mars/Olympus"}, "SettingValidationError"),
                    ({"TIMEZONE": "UTC", "TO_TIMEZONE": "local"}, "SettingValidationError"), ({"TIMEZONE": "+2500x"}, "SettingValidationError"),
                    # list-valued settings with an element of the wrong type: rejected (SettingValidationError or TypeError) for every string
                    ({"SKIP_TOKENS": [1]}, "rejected"), ({"REQUIRE_PARTS": [1]}, "rejected"), ({"PARSERS": [1]}, "rejected"), ({"DEFAULT_LANGUAGES": [1]}, "rejected"),
                    ({"SKIP_TOKENS": [None, "t"]}, "rejected")]
    for stb, kind in bad_settings:
        for s in R.sample(strs, 3) + ["", "2015-01-01", "10:30", "1 hour ago", "1484823450"]:
            jobs.append((R.choice(["parse", "gdd"]), s, {"settings": stb}, None)); expect.append(kind)
    for kw, kind in [({"languages": "en"}, "TypeError"), ({"locales": "en-AU"}, "TypeError"), ({"region": 5}, "TypeError"), ({"languages": ["xx"]}, "ValueError"),
                     ({"locales": ["en-XX"]}, "ValueError"), ({"locales": ["en-AU", "en-CA"]}, "ValueError"), ({"settings": "x"}, "TypeError")]:
        for s in R.sample(strs, 2) + ["10 March 2015"]:
            jobs.append(("parse", s, kw, None)); expect.append(kind)
    for v in [None, 5, b"2015", 1.5, ["2015"]]:
        jobs.append(("parse", v, {}, None)); expect.append("TypeError")
        jobs.append(("gdd", v, {}, None)); expect.append("TypeError")
    res = pmap(probe, jobs, chunksize=32)
    # a wrongly typed value that is the valid value written as text ('True', '1000', "['day']", '2020-01-01 00:00:00' — what a config file or a
    # query string delivers), *after* the valid value was used in the same process: still rejected, whatever the string
    twins = [("STRICT_PARSING", True), ("NORMALIZE", True), ("PREFER_LOCALE_DATE_ORDER", False), ("RETURN_AS_TIMEZONE_AWARE", True), ("RETURN_TIME_AS_PERIOD", True),
             ("CACHE_SIZE_LIMIT", 1000), ("LANGUAGE_DETECTION_CONFIDENCE_THRESHOLD", 0.5), ("REQUIRE_PARTS", ["day"]), ("PARSERS", ["timestamp", "absolute-time"]),
             ("DEFAULT_LANGUAGES", ["en"]), ("SKIP_TOKENS", ["t"]), ("RELATIVE_BASE", D(2020, 1, 1))]
    seq_jobs = []
    for key, good in twins:
        for s_ in ("12 March 2015", "1 hour ago", "no date here"):
            for api in ("parse", "gdd"):
                seq_jobs.append([(api, s_, {"settings": {key: good}}, None), (api, s_, {"settings": {key: str(good)}}, None),
                                 (api, s_, {"settings": {key: str(good), "TIMEZONE": "UTC"}}, None)])
    seq_res = pmap(probe_seq, seq_jobs, chunksize=1, force=True)
    known = load_known("C02")
    viol = []
    kinds = collections.Counter()
    kh = collections.Counter()
    distinct = set()
    for job, exp, (tag, val) in zip(jobs, expect, res):
        kinds[tag if tag != "exc" else "exc:" + val] += 1
        why = None
        if tag == "bad":
            why = "malformed return value: %s" % val
        elif exp is None:
            if tag == "exc":
                why = "exception %s escaped for a valid configuration" % val
            elif val:
                distinct.add(str(job[1]))
        elif exp == "rejected":
            if tag != "exc" or val not in DOC:
                why = "an invalid setting is not rejected for this string: %s %s" % (tag, val)
        elif exp == "setting-decides":
            if tag == "exc" and val != "SettingValidationError":
                why = "exception %s escaped for a timezone setting" % val
        else:
            if tag != "exc" or val != exp:
                why = "expected %s, got %s %s" % (exp, tag, val)
        if why:
            key = {"escapes": val} if tag == "exc" else None
            if key and any(e.get("key") == key for e in known):
                kh[val] += 1
                continue
            viol.append({"api": job[0], "string": job[1], "kwargs": job[2], "date_formats": job[3], "why": why})
    for sj, sr in zip(seq_jobs, seq_res):
        if sr[0][0] == "exc":
            viol.append({"api": sj[0][0], "string": sj[0][1], "kwargs": sj[0][2], "date_formats": None, "why": "exception %s for a valid setting" % sr[0][1]})
        for j_, r_ in zip(sj[1:], sr[1:]):
            if r_ != ("exc", "SettingValidationError") and tuple(r_) != ("exc", "SettingValidationError"):
                viol.append({"api": j_[0], "string": j_[1], "kwargs": j_[2], "date_formats": None, "earlier_call_in_this_process": {"kwargs": sj[0][2]},
                             "why": "a value of the wrong type (the valid value written as text) is not rejected with SettingValidationError: %s %s" % (r_[0], r_[1])})
    for (sp, key), idxs in consistent.items():
        tags = {("rejected" if res[i] == ("exc", "SettingValidationError") else "accepted") for i in idxs if res[i][0] != "bad"}
        if len(tags) > 1 and len(viol) < 40:
            i = [i for i in idxs if res[i][0] == "exc"][0]
            viol.append({"api": "parse", "string": jobs[i][1], "kwargs": jobs[i][2], "date_formats": jobs[i][3],
                         "why": "the setting %s=%r is rejected for this string and accepted for others" % (key, sp)})
    # model tie: valid-stream cases the model can take (explicit languages, naive/aware RELATIVE_BASE)
    drift = []
    rej = collections.Counter()
    msub = []
    if "model-build" not in ctx["broken"]:
        for i, (job, exp) in enumerate(zip(jobs, expect)):
            if exp is None and job[0] == "gdd" and "languages" in job[2] and "region" not in job[2] and (i % (2 if tier == "quick" else 9) == 0):
                msub.append(i)
        mcases = []
        for i in msub:
            _, s, kw, fmts = jobs[i]
            mcases.append(case_model({"s": s, "langs": kw["languages"], "settings": kw["settings"], "fmts": fmts}))
        mres = Model().run(mcases)
        for i, m in zip(msub, mres):
            if "bad" in m:
                rej[m["bad"]] += 1
                continue
            tag, val = res[i]
            lib = val if tag == "ok" else {"e": val}
            if m != lib:
                drift.append({"case": {"s": jobs[i][1], "kw": jobs[i][2], "fmts": jobs[i][3]}, "model": m, "lib": lib})
    out = [{"replay": write_replay("C02", "escape-%d" % j, {"property": "C02", "kind": "totality / documented-exceptions contract broken", **v})} for j, v in enumerate(viol[:10])]
    if not viol and drift and not ctx["broken"]:
        ctx["broken"]["correspondence"] = json.dumps(drift[:3], ensure_ascii=False, default=str)[:3000]
    cov = {"evaluations": len(jobs) + 3 * len(seq_jobs), "text_twin_sequences": len(seq_jobs), "distinct_nontrivial": len(distinct),
           "rule": "mutated corpus strings, token soups, digit/separator soups, arbitrary characters (|s| ≤ 100) × a bounded pool of settings over every documented key (extreme RELATIVE_BASE, fixed and IANA zones) × languages/locales/region × date_formats of distinct directives; plus an invalid-configuration stream; non-trivial = distinct strings that produced a date",
           "samples": [{"api": j[0], "s": j[1], "kwargs": {k: str(v)[:80] for k, v in j[2].items()}, "date_formats": j[3]} for j in jobs[:: max(1, len(jobs) // 6)][:6]],
           "outcome_kinds": dict(kinds), "contract_violations": len(viol), "invalid_configuration_cases": len([e for e in expect if e]),
           "model_compared": len(msub), "model_rejected": dict(rej), "model_drift": len(drift),
           "model_drift_samples": [json.loads(json.dumps(d, default=str, ensure_ascii=False)) for d in drift[:6]]}
    return {"violations": out, "known": ["%s escapes x%d" % (k, n) for k, n in kh.items()], "coverage": cov, "level": "proof",
            "assumptions": ["the raise-sets of the individual parsers (absolute, relative, timestamp, custom formats) are tied to the model by correspondence; the theorems are the escape analysis of the orchestrator over the except tuples read from the source"]}
