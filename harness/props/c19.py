"""C19 — import survives a missing, empty or truncated on-disk timezone cache.

(a) in-process: `pickle.load` on prefixes of the shipped cache → the exception kinds that occur, each checked against the
    `except` clause of `_load_offsets` as written in /repo (evaluated with the real exception classes);
(b) real `import dateparser` in a subprocess against a scratch copy of the package whose cache is missing / empty / cut at a given
    length, followed by a second import; the table both imports see is compared with the rebuilt table.
"""
import ast
import collections
import io
import json
import os
import pickle
import shutil
import subprocess
import sys
import tempfile

from common import REPO, rng, write_replay, pmap

CACHE_REL = os.path.join("dateparser", "data", "dateparser_tz_cache.pkl")

PROBE = r'''
import sys, json, pickle, os
sys.path.insert(0, sys.argv[1])
try:
    import dateparser.timezone_parser as tp
except BaseException as e:
    print(json.dumps({"import": "ERR:" + type(e).__name__})); sys.exit(0)
import hashlib
def sig(t, a, b):
    h = hashlib.sha256()
    for n, i in t:
        h.update(repr((n, i["regex"].pattern, int(i["regex"].flags), i["offset"].total_seconds())).encode())
    h.update(repr((a.pattern, int(a.flags), b.pattern, int(b.flags))).encode())
    return h.hexdigest(), len(t)
out = {"import": "ok", "table": sig(tp._tz_offsets, tp._search_regex, tp._search_regex_ignorecase)}
# what a rebuild from the source definitions gives, independent of the cache
parts = []
reb = list(tp.build_tz_offsets(parts))
import regex as re
out["rebuilt"] = sig(reb, re.compile("|".join(parts)), re.compile("|".join(parts), re.IGNORECASE))
try:
    with open(os.path.join(sys.argv[1], sys.argv[2]), "rb") as f:
        h, t, a, b = pickle.load(f)
    out["file"] = sig(t, a, b)
except BaseException as e:
    out["file"] = "ERR:" + type(e).__name__
print(json.dumps(out))
'''


def except_classes():
    """the classes of the first `except` of _load_offsets, resolved to real classes"""
    src = open(os.path.join(REPO, "dateparser/timezone_parser.py"), encoding="utf-8").read()
    tree = ast.parse(src)
    for n in ast.walk(tree):
        if isinstance(n, ast.FunctionDef) and n.name == "_load_offsets":
            for h in ast.walk(n):
                if isinstance(h, ast.ExceptHandler):
                    t = h.type
                    names = [ast.unparse(e) for e in t.elts] if isinstance(t, ast.Tuple) else ([ast.unparse(t)] if t is not None else ["BaseException"])
                    env = {"pickle": pickle}
                    env.update(vars(__import__("builtins")))
                    return names, tuple(eval(x, env) for x in names)
    return [], ()


def prefix_kind(args):
    data, n = args
    try:
        pickle.load(io.BytesIO(data[:n]))
        return (n, "ok")
    except BaseException as e:  # noqa
        return (n, type(e).__name__)


_WORK = {}


def trial(args):
    """one crash point against this worker's scratch package copy: (kind, length)"""
    kind, n, root, data = args
    pid = os.getpid()
    pkg = os.path.join(root, "w%d" % pid)
    if pid not in _WORK:
        os.makedirs(pkg, exist_ok=True)
        shutil.copytree(os.path.join(REPO, "dateparser"), os.path.join(pkg, "dateparser"), ignore=shutil.ignore_patterns("__pycache__"))
        if os.path.isdir(os.path.join(REPO, "dateparser_data")):
            shutil.copytree(os.path.join(REPO, "dateparser_data"), os.path.join(pkg, "dateparser_data"), ignore=shutil.ignore_patterns("__pycache__"))
        _WORK[pid] = pkg
    cache = os.path.join(pkg, CACHE_REL)
    if kind == "missing":
        if os.path.exists(cache):
            os.unlink(cache)
    else:
        with open(cache, "wb") as f:
            f.write(data[:n])
    env = dict(os.environ, PYTHONDONTWRITEBYTECODE="1", TZ="UTC")
    env.pop("BUILD_TZ_CACHE", None)
    outs = []
    for _ in range(2):
        p = subprocess.run([sys.executable, "-c", PROBE, pkg, CACHE_REL], stdout=subprocess.PIPE, stderr=subprocess.PIPE, env=env, timeout=120)
        try:
            outs.append(json.loads(p.stdout.decode().strip().splitlines()[-1]))
        except Exception:  # noqa
            outs.append({"import": "ERR:crash", "stderr": p.stderr.decode()[-300:]})
    return (kind, n, outs)


def run(ctx):
    tier = ctx["tier"]
    R = rng("c19")
    data = open(os.path.join(REPO, CACHE_REL), "rb").read()
    N = len(data)
    # (a) exception kinds over prefixes
    if tier == "quick":
        lens = sorted(set(list(range(0, 512)) + list(range(max(0, N - 512), N)) + list(range(0, N, 16))))
    else:
        lens = list(range(0, N))
    kinds = collections.Counter()
    ok_prefix = []
    res = pmap(prefix_kind, [(data, n) for n in lens], chunksize=512)
    for n, k in res:
        kinds[k] += 1
        if k == "ok":
            ok_prefix.append(n)
    names, classes = except_classes()
    uncaught = {}
    for n, k in res:
        if k == "ok":
            continue
        cls = getattr(pickle, k, None) or getattr(__import__("builtins"), k, None)
        if cls is None or not issubclass(cls, classes):
            uncaught.setdefault(k, n)
    # (b) real imports on crash points
    npts = 40 if tier == "quick" else 600
    pts = sorted(set([0, 1, 2, N - 1, N - 2, N // 2] + [R.randrange(0, N) for _ in range(npts)] +
                     [n for k, n in uncaught.items()]))
    root = tempfile.mkdtemp(prefix="dpc19_")
    viol = []
    imports = 0
    try:
        jobs = [("cut", N, root, data), ("missing", 0, root, data)] + [("cut", n, root, data) for n in pts]      # first job: the intact cache (reference)
        results = pmap(trial, jobs, procs=16, chunksize=1) if len(jobs) >= 400 else None
        if results is None:
            import multiprocessing as mp
            with mp.get_context("fork").Pool(16) as pool:
                results = pool.map(trial, jobs, chunksize=1)
        intact = results[0][2][0].get("table") if results and results[0][2][0].get("import") == "ok" else None
        for kind, n, outs in results:
            imports += 2
            o1, o2 = outs
            why = None
            if intact is None:
                why = "import fails with the intact cache: %s" % (results[0][2][0].get("import"),)
            elif o1.get("import") != "ok":
                why = "import fails with the cache %s: %s" % ("missing" if kind == "missing" else "cut at %d bytes" % n, o1.get("import"))
            elif o1["table"] != intact:
                why = "the timezone table differs from the one the intact cache yields (%s entries instead of %s)" % (o1["table"][1], intact[1])
            elif o1["table"] != o1["rebuilt"]:
                why = "table after recovery differs from the table rebuilt from the definitions"
            elif isinstance(o1.get("file"), str):
                why = "cache file is not complete after the import: %s" % o1["file"]
            elif o1["file"] != o1["rebuilt"]:
                why = "repaired cache file holds a different table"
            elif o2.get("import") != "ok" or o2.get("table") != o1["table"]:
                why = "second import differs: %s" % (o2.get("import"),)
            if why:
                viol.append({"state": kind, "length": n, "why": why, "first_import": o1, "second_import": o2})
    finally:
        shutil.rmtree(root, ignore_errors=True)
    out = []
    for j, v in enumerate(viol[:10]):
        out.append({"replay": write_replay("C19", "crash-%d" % j, {"property": "C19", "kind": "import against a damaged cache", **v,
                    "rerun": "copy /repo/dateparser to a scratch dir, truncate data/dateparser_tz_cache.pkl to `length` bytes (or delete it), python -c 'import dateparser'"})})
    if ok_prefix:
        p = write_replay("C19", "prefix-unpickles", {"property": "C19", "kind": "a strict prefix of the cache unpickles successfully (assumption of C19_recover broken)", "lengths": ok_prefix[:20]})
        out.append({"replay": p})
    cov = {"evaluations": len(lens) + imports, "distinct_nontrivial": len(pts) + 1,
           "rule": "prefix lengths of the %d-byte cache: pickle.load in-process on %d lengths (%s), real `import dateparser` twice on %d crash points + the missing-file case; non-trivial = a distinct damaged state on which a real import ran" % (N, len(lens), "all" if tier != "quick" else "every 16th + both ends", len(pts)),
           "samples": [{"state": "cut", "length": n} for n in pts[:5]] + [{"state": "missing"}],
           "prefix_exception_kinds": dict(kinds), "except_clause": names, "kinds_not_caught": uncaught, "crash_points": len(pts), "real_imports": imports,
           "exhaustive": tier != "quick"}
    return {"violations": out, "known": [], "coverage": cov, "level": "proof",
            "assumptions": ["pickle/unpickle are parameters of the model with unpickle(pickle x) = x; that no strict prefix unpickles is checked on the enumerated lengths",
                            "the scratch package copies live under a mkdtemp directory outside /repo and /verif and are removed afterwards"]}
