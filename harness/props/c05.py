"""C05 — every locale's month and weekday names resolve to their meaning (exhaustive walk over the shipped vocabulary)."""
import calendar
import collections
import datetime as dt
import json

from common import D, Model, case_model, langdata, lib_gdd, pmap, rng, write_replay, load_known

MONTHS = [m.lower() for m in calendar.month_name[1:]]
DAYS = [d.lower() for d in calendar.day_name]


def single_meaning(rec):
    """names listed under exactly one month/weekday key and nowhere else in the locale's vocabulary → [(name, kind, index)]"""
    words = dict(rec["words"])
    count = collections.Counter()
    for k, vs in words.items():
        for v in set(x.lower() for x in vs):
            count[v] += 1
    for _, vs in rec["relType"]:
        for v in set(x.lower() for x in vs):
            count[v] += 1
    for v in set(x.lower() for x in rec["skip"] + rec["pertain"]):
        count[v] += 1
    out = []
    for i, m in enumerate(MONTHS):
        for n in dict.fromkeys(words.get(m, [])):
            if count[n.lower()] == 1 and n.strip():
                out.append((n, "month", i + 1))
    for i, d in enumerate(DAYS):
        for n in dict.fromkeys(words.get(d, [])):
            if count[n.lower()] == 1 and n.strip():
                out.append((n, "weekday", i))
    return out


def expected_weekday(base, wd):
    steps = (base.weekday() - wd) % 7
    return (base - dt.timedelta(days=steps)).replace(hour=0, minute=0, second=0, microsecond=0)


def run(ctx):
    tier = ctx["tier"]
    R = rng("c05")
    ld = langdata()
    recs = [(r, "langs") for r in ld["langs"]] + [(r, "locales") for r in ld["locales"]]
    bases = [D(2015, 3, 15, 12, 0), D(2024, 2, 20, 9, 30), D(1987, 11, 8, 23, 0)]     # 8th..24th of a month
    cases = []
    meta = []
    for rec, key in recs:
        sm = single_meaning(rec)
        for name, kind, idx in sm:
            for norm in (True, False):
                if kind == "month":
                    combos = [(15, 2015), (1, 1987)] if tier == "quick" else [(d, y) for d in (1, 9, 15, 28) for y in (1987, 2015, 2024)]
                    for dday, y in combos:
                        for pad in (("%d" % dday,) if tier == "quick" else ("%d" % dday, "%02d" % dday)):
                            st = {"RELATIVE_BASE": bases[0], "TIMEZONE": "UTC"}
                            if not norm:
                                st["NORMALIZE"] = False
                            cases.append({"s": "%s %s %d" % (pad, name, y), key: [rec["name"]], "settings": st})
                            meta.append((rec["name"], norm, name, kind, "%04d-%02d-%02d 00:00:00.000000|naive|day" % (y, idx, dday)))
                else:
                    for b in (bases[:1] if tier == "quick" else bases):
                        st = {"RELATIVE_BASE": b, "TIMEZONE": "UTC"}
                        if not norm:
                            st["NORMALIZE"] = False
                        e = expected_weekday(b, idx)
                        cases.append({"s": name, key: [rec["name"]], "settings": st})
                        meta.append((rec["name"], norm, name, kind, "%04d-%02d-%02d 00:00:00.000000|naive|day" % (e.year, e.month, e.day)))
    lres = pmap(lib_gdd, cases, chunksize=128)
    known = load_known("C05")
    kset = {(e["key"]["locale"], e["key"]["normalize"], e["key"]["name"]) for e in known}
    viol = collections.OrderedDict()
    kh = set()
    ok = 0
    for c, (loc, norm, name, kind, exp), l in zip(cases, meta, lres):
        got = l.get("r")
        g = None if got is None else got.rsplit("|", 1)[0]
        if "e" in l:
            g = "ERR:" + l["e"]
        if g == exp:
            ok += 1
            continue
        k = (loc, norm, name)
        if k in kset:
            kh.add(k)
        else:
            viol.setdefault(k, {"locale": loc, "normalize": norm, "name": name, "kind": kind, "string": c["s"], "expected": exp, "observed": g if g is not None else None})
    # model tie on a sample
    drift = []
    rej = collections.Counter()
    if "model-build" not in ctx["broken"]:
        sub = sorted(R.sample(range(len(cases)), (min(len(cases), 4000) if tier == "quick" else len(cases))))
        mres = Model().run([case_model(cases[i]) for i in sub])
        for i, m in zip(sub, mres):
            if "bad" in m:
                rej[m["bad"]] += 1
            elif m != lres[i]:
                drift.append({"case": cases[i], "model": m, "lib": lres[i]})
    vl = list(viol.values())
    out = [{"replay": write_replay("C05", "name-%d" % j, {"property": "C05", "kind": "a single-meaning month/weekday name does not resolve", **v})} for j, v in enumerate(vl[:10])]
    if vl:
        write_replay("C05", "all-failing-rows", {"property": "C05", "rows": vl})
    if not vl and drift and not ctx["broken"]:
        ctx["broken"]["correspondence"] = json.dumps(drift[:3], ensure_ascii=False, default=str)[:3000]
    cov = {"evaluations": len(cases), "distinct_nontrivial": ok,
           "rule": "every single-meaning month/weekday name of every language and regional locale × NORMALIZE on/off (× days × years, weekday names at reference days 8..24 in the thorough tier); non-trivial = rows that resolve to exactly the listed meaning; exhaustive over the vocabulary",
           "samples": [{"s": cases[i]["s"], "locale": meta[i][0], "normalize": meta[i][1], "expect": meta[i][4]} for i in range(0, len(cases), max(1, len(cases) // 6))][:6],
           "locales": len(recs), "rows_failing_unlisted": len(vl), "rows_known": len(kh), "exhaustive": True,
           "model_compared": len(sub) if "model-build" not in ctx["broken"] else 0, "model_rejected": dict(rej), "model_drift": len(drift),
           "model_drift_samples": [{"s": d["case"]["s"], "model": d["model"], "lib": d["lib"]} for d in drift[:5]]}
    return {"violations": out, "known": ["name %r of locale %s (normalize=%s) does not resolve" % (k[2], k[0], k[1]) for k in sorted(kh)],
            "coverage": cov, "level": "proof"}
