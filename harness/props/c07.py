"""C07 — DATE_ORDER and the locale's own order decide numeric dates."""
import ast
import calendar
import os
import re

from common import D, REPO, langdata, rng
from props.base import decide, expect_str

ORDERS = ["DMY", "DYM", "MDY", "MYD", "YDM", "YMD"]
PREFS = [{"PREFER_DATES_FROM": "future"}, {"PREFER_DATES_FROM": "past"}, {"PREFER_DATES_FROM": "future", "PREFER_DAY_OF_MONTH": "last"},
         {"PREFER_DATES_FROM": "past", "PREFER_MONTH_OF_YEAR": "first"}, {"PREFER_DAY_OF_MONTH": "first", "PREFER_MONTH_OF_YEAR": "last"},
         {"STRICT_PARSING": True}, {"STRICT_PARSING": True, "PREFER_DATES_FROM": "future"}, {"REQUIRE_PARTS": ["day", "month", "year"], "PREFER_DATES_FROM": "future"}]


def negative_offset_spellings():
    """digits HHMM of every supported negative UTC offset, read from /repo/dateparser/timezones.py"""
    src = open(os.path.join(REPO, "dateparser/timezones.py"), encoding="utf-8").read()
    return {a + b for a, b in re.findall(r'UTC\\-(\d\d):(\d\d)', src)}


def write(order, y, m, d, sep, pad):
    f = {"Y": "%04d" % y, "M": ("%02d" % m) if pad else str(m), "D": ("%02d" % d) if pad else str(d)}
    return sep.join(f[c] for c in order)


def run(ctx):
    tier = ctx["tier"]
    R = rng("c07")
    neg = negative_offset_spellings()
    base = D(2022, 5, 17, 9, 0)
    ys = [1, 99, 999, 1000, 1100, 1969, 2024, 9999] + [R.randint(1001, 9998) for _ in range(3 if tier == "quick" else 30)]
    grid = []
    for y in ys:
        for m in ([1, 2, 12, R.randint(3, 11)] if tier == "quick" else range(1, 13)):
            last = calendar.monthrange(y, m)[1]
            for d in sorted({1, 9, 10, 12, 13, last, R.randint(1, last)}):
                grid.append((y, m, d))
    cases = []
    for order in ORDERS:
        for sep in "-/. ":
            for (y, m, d) in grid:
                for pad in (True, False):
                    if not pad and R.random() < 0.5:
                        continue
                    s = write(order, y, m, d, sep, pad)
                    tm = None
                    if R.random() < 0.3:
                        hh, mi = R.randint(0, 23), R.randint(0, 59)
                        s += " %02d:%02d" % (hh, mi)
                        tm = (hh, mi)
                    exp = D(y, m, d, *(tm or (0, 0)))
                    st = {"DATE_ORDER": order, "RELATIVE_BASE": base, "TIMEZONE": "UTC"}
                    # C07_order_decides holds for every preference and strictness: all three fields are written, so none of them may move a
                    # field.  Small zero-padded years always get one (a four-digit token must never be treated as a two-digit year).
                    pref = ""
                    recorded = sep == "-" and order.endswith("Y") and ("%04d" % y) in neg and not tm   # the recorded finding keeps its exact shape
                    if not recorded and (y < 100 or R.random() < 0.25):
                        k = R.choice(PREFS)
                        st.update(k)
                        pref = "+pref"
                    cases.append({"s": s, "langs": ["en"], "settings": st,
                                  "expect": expect_str(exp), "stratum": "explicit/%s/%s%s%s" % (order, {"-": "dash", "/": "slash", ".": "dot", " ": "space"}[sep], "+time" if tm else "", pref),
                                  "_sep": sep, "_order": order, "_y": "%04d" % y, "_time": bool(tm)})
    # the locale's own order
    ld = langdata()
    recs = ld["langs"] + ld["locales"]
    pool = recs if tier != "quick" else recs[::3]
    for r in pool:
        lo = r.get("date_order")
        for plo in (True, False):
            eff = (lo or "MDY") if plo else "MDY"
            for (y, m, d) in [(2015, 3, 14), (1999, 12, 5)] if tier == "quick" else [(2015, 3, 14), (1999, 12, 5), (2024, 2, 29), (2001, 7, 4)]:
                s = write(eff, y, m, d, "/", True)
                key = "locales" if r["name"] in {x["name"] for x in ld["locales"]} else "langs"
                st = {"RELATIVE_BASE": base, "TIMEZONE": "UTC"}
                if not plo:
                    st["PREFER_LOCALE_DATE_ORDER"] = False
                cases.append({"s": s, key: [r["name"]], "settings": st, "expect": expect_str(D(y, m, d)),
                              "stratum": "locale-order/%s/%s" % (eff, "on" if plo else "off"), "_sep": "/", "_order": eff, "_y": "%04d" % y})

    def known_key(c, got):
        if c.get("_sep") == "-" and c.get("_order", "").endswith("Y") and c.get("_y") in neg and not c.get("_time"):
            # the recorded defect produces exactly: the year popped as UTC-HH:MM (result aware at that offset, year from the reference)
            yy = c["_y"]
            off = -(int(yy[:2]) * 3600 + int(yy[2:]) * 60)
            if isinstance(got, str) and not got.startswith("ERR:") and got.split("|")[1] in (str(off), "0") and got.startswith("2022-"):
                return {"rule": "dash-separated year-last date whose year spells a negative UTC offset"}
        return None
    # before any case runs (and before the worker pool forks): absolute-parser failures with the *default* settings object in
    # locales whose own order is not MDY — a DATE_ORDER that is not restored on the failure path would stick to that shared object
    # and be inherited by every settings value created afterwards
    import dateparser
    for lg, bad in (("fr", "32/13/2020"), ("de", "45.45.2020"), ("hu", "2020.13.45"), ("fr", "99 99 99 99")):
        try:
            dateparser.parse(bad, languages=[lg])
        except Exception:  # noqa
            pass
    for (y, m, d) in [(2015, 3, 14), (2020, 2, 3)]:
        for lg in ("tl", "en"):
            for sep in "-/. ":
                cases.append({"s": write("MDY", y, m, d, sep, True), "langs": [lg], "settings": {"RELATIVE_BASE": base, "TIMEZONE": "UTC", "PREFER_LOCALE_DATE_ORDER": False, "PREFER_DAY_OF_MONTH": "first"},
                              "expect": expect_str(D(y, m, d)), "stratum": "after-failed-calls/%s" % lg, "_sep": sep, "_order": "MDY", "_y": "%04d" % y})
        cases.append({"s": write("MDY", y, m, d, "/", True), "langs": ["tl"], "settings": {"RELATIVE_BASE": base, "TIMEZONE": "UTC", "PREFER_MONTH_OF_YEAR": "first"},
                      "expect": expect_str(D(y, m, d)), "stratum": "after-failed-calls/tl-default", "_sep": "/", "_order": "MDY", "_y": "%04d" % y})
    res = decide(ctx, cases, model_share=0.35 if tier == "quick" else 1.0, known_key=known_key)
    return res
