"""C13 — language selection is honoured; autodetection is reproducible (compositional laws checked on the library itself)."""
import collections
import json

from common import D, Model, case_model, corpus, langdata, lib_gdd, pmap, rng, write_replay

BASE = D(2020, 5, 17, 12, 0)


def mk(s, **kw):
    st = {"RELATIVE_BASE": BASE, "TIMEZONE": "UTC"}
    st.update(kw.pop("settings", {}))
    c = {"s": s, "settings": st}
    c.update(kw)
    return c


def belongs(loc, langs):
    """the reported locale is one of the languages or a regional form of one of them (language codes may themselves contain '-': zh-Hans)"""
    return any(loc == l or loc.startswith(l + "-") for l in langs)


def seq_probe(job):
    """one process, the same language list requested with use_given_order on / off / on again"""
    s, L = job
    out = []
    for given in (True, False, True, False):
        out.append(lib_gdd(mk(s, langs=L, **({"givenOrder": True} if given else {}))))
    singles = {l: lib_gdd(mk(s, langs=[l])) for l in L}
    return out, singles


def regional_probe(job):
    """one process: the base language first, then the regional locale (by name, and by language + region) with a word of its own"""
    base_s, base, loc, s = job
    lang, region = loc.rsplit("-", 1)
    return [lib_gdd(mk(base_s, langs=[base])), lib_gdd(mk(s, locales=[loc])), lib_gdd(mk(s, langs=[lang], region=region))]


def chain_probe(job):
    """one FRESH interpreter: a list of selections in order (what was loaded first matters, so the pool's warm workers will not do)"""
    import subprocess, sys, os, json as _json
    from common import REPO, VERIF
    calls = [{"fn": "gdd", "s": s_, "kw": dict({("languages" if k == "langs" else k): v for k, v in kw.items()}, settings={"TIMEZONE": "UTC"})} for s_, kw in job]
    p = subprocess.run([sys.executable, os.path.join(VERIF, "harness", "c03_worker.py"), REPO], input=_json.dumps(calls, ensure_ascii=False).encode(), stdout=subprocess.PIPE,
                       stderr=subprocess.PIPE, env=dict(os.environ, PYTHONHASHSEED="0", TZ="UTC", PYTHONDONTWRITEBYTECODE="1"), timeout=600)
    try:
        outs = _json.loads(p.stdout.decode().strip().splitlines()[-1])
    except Exception:  # noqa
        return [{"e": "WORKER-CRASH"}] * len(job)
    res = []
    for o in outs:
        if "exc" in o:
            res.append({"e": o["exc"]})
        elif o["ok"] is None or o["ok"][0] is None:
            res.append({"r": None})
        else:
            d_, per, loc = o["ok"]
            res.append({"r": "%s.000000|naive|%s|%s" % (d_.replace("T", " "), per, loc)})
    return res


def run(ctx):
    tier = ctx["tier"]
    R = rng("c13")
    ld = langdata()
    order = ld["order"]
    locs_of = collections.defaultdict(list)
    for r in ld["locales"]:
        locs_of[r["lang"]].append(r["name"])
    corp = corpus()
    sel = R.sample(corp, 250 if tier == "quick" else 2500)
    major = order[:30]
    # pass 1: autodetect over a fixed 30-language list (full 205-language autodetection is sampled below)
    det = pmap(lib_gdd, [mk(s, langs=major) for s in sel])
    jobs = []      # (kind, index into cases ...)
    cases = []

    def add(c):
        cases.append(c)
        return len(cases) - 1
    plan = []
    for s, d in zip(sel, det):
        L = d["r"].rsplit("|", 1)[1] if d.get("r") else None
        # random subset containing / not containing the detected language
        k = R.randint(2, 5)
        sub = R.sample(major, k)
        if L and R.random() < 0.6 and L not in sub:
            sub[R.randrange(k)] = L
        given = R.random() < 0.4
        sub_order = sub if given else sorted(sub, key=order.index)
        i_multi = add(mk(s, langs=sub, **({"givenOrder": True} if given else {})))
        singles = [add(mk(s, langs=[l])) for l in sub_order]
        dl = R.sample([l for l in major if l not in sub], 2)
        i_dl = add(mk(s, langs=sub, settings={"DEFAULT_LANGUAGES": dl}, **({"givenOrder": True} if given else {})))
        i_re = add(mk(s, langs=[L])) if L else None
        plan.append((s, L, sub, sub_order, given, i_multi, singles, dl, i_dl, i_re, d))
    # region / locale selection: languages=[l], region=R  ≡  locales=[l-R]
    reg = []
    for lang in (R.sample(list(locs_of), 25) if tier == "quick" else list(locs_of)):
        loc = R.choice(locs_of[lang])
        region = loc.split("-")[-1]
        if lang + "-" + region != loc:
            continue
        s = "03/04/2015"
        reg.append((add(mk(s, langs=[lang], region=region)), add(mk(s, locales=[loc])), lang, loc))
    # several languages with one region (valid for all / some / none of them): the reported locale belongs to the selection and the
    # result is what that very locale gives when selected by name (in a process that never saw the regional selection)
    regions = sorted({r["name"].split("-")[-1] for r in ld["locales"] if "-" in r["name"] and r["name"].split("-")[-1].isupper()})
    infos = {r["name"]: dict(r["words"]) for r in ld["langs"]}
    multi = []
    for _ in range(60 if tier == "quick" else 1200):
        rgn = R.choice(regions) if R.random() < 0.7 else R.choice(["AU", "CA", "CH", "BE", "IN", "US", "GB"])
        have = [l for l in major if (l + "-" + rgn) in locs_of[l]]
        k = R.randint(1, 3)
        L = R.sample(major, k)
        if have and R.random() < 0.7:
            L[R.randrange(k)] = R.choice(have)
        L = list(dict.fromkeys(L))
        target = R.choice(L)
        mn = (infos.get(target, {}).get(R.choice(["march", "august", "december"])) or ["3"])[0]
        s = R.choice(["03/04/2015", "%d %s 2015" % (R.randint(1, 28), mn)])
        given = R.random() < 0.3
        multi.append((add(mk(s, langs=L, region=rgn, **({"givenOrder": True} if given else {}))), s, L, rgn))
    # full autodetection (205 languages) reproducibility on a thin sample
    auto = []
    for s in R.sample(sel, 12 if tier == "quick" else 150):
        auto.append((s, add(mk(s, auto=True))))
    lres = pmap(lib_gdd, cases, chunksize=16, force=True)
    viol = []
    distinct = set()

    def val(i):
        return lres[i].get("r") if "r" in lres[i] else "ERR:" + lres[i]["e"]
    for (s, L, sub, sub_order, given, i_multi, singles, dl, i_dl, i_re, d) in plan:
        rm = val(i_multi)
        first = next((val(i) for i in singles if val(i) is not None), None)
        if rm is not None:
            distinct.add(s)
        if rm != first:
            viol.append({"law": "multi-language result = first successful single-language result", "s": s, "languages": sub, "order_used": sub_order,
                         "use_given_order": given, "multi": rm, "singles": {l: val(i) for l, i in zip(sub_order, singles)}})
        if rm is not None and not str(rm).startswith("ERR:"):
            loc = rm.rsplit("|", 1)[1]
            if not belongs(loc, sub):
                viol.append({"law": "reported locale belongs to the selected languages", "s": s, "languages": sub, "multi": rm})
        rd = val(i_dl)
        if rm is not None and rd != rm:
            viol.append({"law": "DEFAULT_LANGUAGES never changes a result the selected languages produce", "s": s, "languages": sub, "default_languages": dl,
                         "without": rm, "with": rd})
        if rm is None and rd is not None and not str(rd).startswith("ERR:"):
            loc = rd.rsplit("|", 1)[1]
            if not belongs(loc, dl):
                viol.append({"law": "fallback locale belongs to DEFAULT_LANGUAGES", "s": s, "default_languages": dl, "with": rd})
        if L is not None:
            if val(i_re) != d["r"]:
                viol.append({"law": "re-parsing with the reported language gives the identical result", "s": s, "reported": L, "first": d["r"], "again": val(i_re)})
    for i1, i2, lang, loc in reg:
        a, b = val(i1), val(i2)
        if a != b:
            viol.append({"law": "languages=[l], region=R equals locales=[l-R]", "language": lang, "locale": loc, "by_region": a, "by_locale": b})
    # regional selections: reported locale, and the same locale selected by name in clean processes
    byname = []
    for i, s, L, rgn in multi:
        r = val(i)
        if r is None:
            continue
        if str(r).startswith("ERR:"):
            viol.append({"law": "selecting languages with a region never raises", "s": s, "languages": L, "region": rgn, "result": r}); continue
        loc = r.rsplit("|", 1)[1]
        lang = next((l for l in L if loc == l or loc == l + "-" + rgn), None)
        if lang is None:
            viol.append({"law": "reported locale belongs to the selected languages (and carries the selected region or none)", "s": s, "languages": L, "region": rgn, "result": r})
            continue
        byname.append((i, s, L, rgn, loc, mk(s, locales=[loc])))
    bres = pmap(lib_gdd, [b[-1] for b in byname], chunksize=4, force=True)
    for (i, s, L, rgn, loc, _), b in zip(byname, bres):
        if b.get("r") != val(i):
            viol.append({"law": "a regional selection applies the conventions of the locale it reports (same result as selecting that locale by name)", "s": s,
                         "languages": L, "region": rgn, "reported": loc, "by_region": val(i), "by_name_in_a_clean_process": b})
    # both orders of one list inside one process (the loader is shared state)
    seq_jobs = []
    for _ in range(24 if tier == "quick" else 400):
        L = R.sample(major[:12], R.randint(2, 3))
        if L == sorted(L, key=order.index):
            L = L[::-1]
        seq_jobs.append((R.choice(["02-03-2016", "10/11/2012 10:30", "2015-06-07", "3 mars 2019", "5 mayo 2014", "1 März 2020"]), L))
    for (s, L), (outs, singles) in zip(seq_jobs, pmap(seq_probe, seq_jobs, chunksize=1, force=True)):
        for given, o in zip((True, False, True, False), outs):
            usedorder = L if given else sorted(L, key=order.index)
            first = next((singles[l].get("r") for l in usedorder if singles[l].get("r") is not None), None)
            got = o.get("r") if "r" in o else "ERR:" + o["e"]
            if got != first:
                viol.append({"law": "multi-language result = first successful single-language result (same list, both orders, one process)", "s": s, "languages": L,
                             "use_given_order": given, "order_used": usedorder, "multi": got, "expected": first})
    # a regional locale used after its base language in one process, on a month name only the regional vocabulary has ('3 juill 2015' in
    # fr-CA after French was used): the selected locale's own conventions apply, whatever was used before
    import calendar as _cal
    ld2 = langdata()
    bases = {r["name"]: dict(r["words"]) for r in ld2["langs"]}
    reg_jobs = []
    for r in ld2["locales"]:
        if "-" not in r["name"] or r["lang"] not in bases:
            continue
        wl, wb = dict(r["words"]), bases[r["lang"]]
        allw = collections.Counter(w.lower() for k, ws in wl.items() for w in ws)
        bm = (wb.get("march") or wb.get("may") or [None])[0]
        for mi, mname in enumerate(_cal.month_name[1:], 1):
            own = [w for w in wl.get(mname.lower(), []) if w not in wb.get(mname.lower(), []) and allw[w.lower()] == 1 and " " not in w and not any(c.isdigit() for c in w)]
            if own and bm:
                reg_jobs.append((("1 %s 2015" % bm, r["lang"], r["name"], "3 %s 2015" % own[0]), mi))
                break
    if tier == "quick":
        reg_jobs = R.sample(reg_jobs, min(len(reg_jobs), 24)) + [j for j in reg_jobs if j[0][2] in ("fr-CA", "pt-PT", "ar-DZ")]
    for (job, mi), outs in zip(reg_jobs, pmap(regional_probe, [j for j, _ in reg_jobs], chunksize=1, force=True)):
        want = "2015-%02d-03 00:00:00.000000|naive|day|%s" % (mi, job[2])
        for how, o in zip(("locales=[%r]" % job[2], "languages=[%r], region" % job[1]), outs[1:]):
            got = o.get("r") if "r" in o else "ERR:" + o["e"]
            if got != want:
                viol.append({"law": "a regional locale selected after its base language was used applies its own vocabulary", "s": job[3], "selection": how,
                             "earlier_call": {"s": job[0], "languages": [job[1]]}, "expected": want, "observed": got})
    # a regional locale first, then its plain language, then *another* regional locale of that language (and the first one again): each regional
    # selection applies its own date order / vocabulary whatever was loaded before it and in whatever order
    by_lang = collections.defaultdict(list)
    for r in ld2["locales"]:
        if "-" in r["name"] and r["lang"] in bases:
            by_lang[r["lang"]].append(r)
    ORD = {"DMY": "2021-03-02", "MDY": "2021-02-03", "YMD": None}
    chain_jobs = []
    base_order = {r["name"]: r.get("date_order") for r in ld2["langs"]}
    for lang, regs in by_lang.items():
        diff = [r for r in regs if r.get("date_order") in ("DMY", "MDY") and r.get("date_order") != base_order.get(lang)]
        others = [r for r in regs]
        for target in diff[:3 if tier == "quick" else 50]:
            first = next((r for r in others if r["name"] != target["name"]), None)
            if first is None:
                continue
            chain_jobs.append(([("02/03/2021", {"locales": [first["name"]]}), ("02/03/2021", {"langs": [lang]}), ("02/03/2021", {"locales": [target["name"]]})],
                               "%s 00:00:00.000000|naive|day|%s" % (ORD[target["date_order"]], target["name"])))
    if tier == "quick":
        keep = [c for c in chain_jobs if c[0][2][1]["locales"][0] in ("en-AU", "en-NZ", "en-CA", "fr-CA", "es-US", "en-IN")]
        chain_jobs = keep + R.sample(chain_jobs, min(len(chain_jobs), 16))
    for (job, want), outs in zip(chain_jobs, pmap(chain_probe, [j for j, _ in chain_jobs], chunksize=1, force=True)):
        o = outs[-1]
        got = o.get("r") if "r" in o else "ERR:" + o["e"]
        if got != want:
            viol.append({"law": "a regional locale applies its own date order whatever locales of the language were loaded before it", "s": job[-1][0], "selection": job[-1][1],
                         "earlier_calls_in_this_process": [{"s": a, **b} for a, b in job[:-1]], "expected": want, "observed": got})
    # two long-lived parsers whose settings differ only in the *order* of DEFAULT_LANGUAGES (given order requested), both built before either
    # is used: each falls back in its own order
    import subprocess as _sp, sys as _sys, os as _os
    from common import REPO as _REPO, VERIF as _VERIF

    def _fresh(calls):
        p_ = _sp.run([_sys.executable, _os.path.join(_VERIF, "harness", "c03_worker.py"), _REPO], input=json.dumps(calls, ensure_ascii=False).encode(), stdout=_sp.PIPE, stderr=_sp.PIPE,
                     env=dict(_os.environ, PYTHONHASHSEED="0", TZ="UTC", PYTHONDONTWRITEBYTECODE="1"), timeout=600)
        try:
            return json.loads(p_.stdout.decode().strip().splitlines()[-1])
        except Exception:  # noqa
            return [{"exc": "WORKER-CRASH"}] * len(calls)
    dl_pairs = 0
    for sel, d1, d2, s_ in ((["th"], ["en", "fr"], ["fr", "en"], "в 03-04-05"), (["th"], ["hu", "en"], ["en", "hu"], "約 03-04-05"), (["ja"], ["fr", "en", "hu"], ["hu", "en", "fr"], "в 03-04-05")):
        kwa = {"languages": sel, "use_given_order": True, "settings": {"DEFAULT_LANGUAGES": d1}}
        kwb = {"languages": sel, "use_given_order": True, "settings": {"DEFAULT_LANGUAGES": d2}}
        mkc = lambda kw, st: {"fn": "gdd_inst", "s": st, "kw": kw, "kw_key": kw}  # noqa
        alone_a, alone_b = _fresh([mkc(kwa, s_)])[0], _fresh([mkc(kwb, s_)])[0]
        both = _fresh([mkc(kwa, "1 January 2001"), mkc(kwb, "1 January 2001"), mkc(kwa, s_), mkc(kwb, s_)])
        dl_pairs += 1
        for nm, alone, got, kw in (("first-built", alone_a, both[2], kwa), ("second-built", alone_b, both[3], kwb)):
            if got != alone:
                viol.append({"law": "DEFAULT_LANGUAGES are tried in the order given (use_given_order) whatever other parsers exist in the process", "s": s_, "parser": kw,
                             "other_parser_in_the_process": kwb if kw is kwa else kwa, "alone_in_a_fresh_process": alone, "observed": got, "which": nm})
    auto2 = []
    for s, i in auto:
        r = val(i)
        if r and not r.startswith("ERR:"):
            auto2.append((s, r, add(mk(s, langs=[r.rsplit("|", 1)[1].split("-")[0]]) if "-" not in r.rsplit("|", 1)[1] else mk(s, locales=[r.rsplit("|", 1)[1]]))))
    l2 = pmap(lib_gdd, [cases[k] for _, _, k in auto2])
    for (s, r, k), again in zip(auto2, l2):
        if again.get("r") != r:
            viol.append({"law": "autodetection (all languages) is reproducible", "s": s, "first": r, "again": again})
    # model tie
    drift = []
    rej = collections.Counter()
    if "model-build" not in ctx["broken"]:
        sub = list(range(0, len(cases) - len(auto2), 3 if tier == "quick" else 1))
        mres = Model().run([case_model(cases[i]) for i in sub])
        for i, m in zip(sub, mres):
            if "bad" in m:
                rej[m["bad"]] += 1
            elif m != lres[i]:
                drift.append({"case": cases[i], "model": m, "lib": lres[i]})
    out = [{"replay": write_replay("C13", "law-%d" % j, {"property": "C13", "kind": "language-selection law violated on the implementation", **v})} for j, v in enumerate(viol[:10])]
    if not viol and drift and not ctx["broken"]:
        ctx["broken"]["correspondence"] = json.dumps(drift[:3], ensure_ascii=False, default=str)[:3000]
    cov = {"evaluations": len(cases) + len(det), "distinct_nontrivial": len(distinct),
           "rule": "corpus strings × random language subsets/orderings (containing or not the detected language), use_given_order on/off, DEFAULT_LANGUAGES, region vs locale, full autodetection sample; non-trivial = distinct strings with a multi-language result",
           "samples": [{"s": p[0], "languages": p[2], "use_given_order": p[4], "default_languages": p[7]} for p in plan[:5]],
           "laws_checked": 13, "default_language_order_pairs": dl_pairs, "regional_base_regional_chains": len(chain_jobs), "regional_after_base_sequences": len(reg_jobs), "same_list_both_orders_in_one_process": len(seq_jobs), "law_violations": len(viol), "region_locale_pairs": len(reg), "multi_language_region_selections": len(multi), "of_which_parsed": len(byname), "autodetect_all_languages": len(auto),
           "model_compared": len(sub) if "model-build" not in ctx["broken"] else 0, "model_rejected": dict(rej), "model_drift": len(drift),
           "model_drift_samples": [{"s": d["case"]["s"], "langs": d["case"].get("langs"), "model": d["model"], "lib": d["lib"]} for d in drift[:5]]}
    return {"violations": out, "known": [], "coverage": cov, "level": "proof",
            "assumptions": ["the per-locale parse is a function of (locale, string, settings): that is property C03", "loader ordering (sort by language_order, stable) is modelled in the driver and tied by correspondence"]}
