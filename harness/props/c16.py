"""C16 — shipped generated data equals what its sources define (translation validation decided by finite Lean theorems).

Python side (the failing-input search and the byte-level clause):
 (i)  the repo's *own* generator (`dateparser_scripts.write_complete_data(in_memory=True)`) is run on a scratch copy with
      `ruamel.yaml.RoundTripLoader` shimmed by the YAML-subset loader; every produced module must be byte-identical to the shipped file;
 (ii) the pickled timezone table vs `build_tz_offsets` run on the source definitions;
 (iii) the language index vs the data modules on disk.
"""
import glob
import json
import os
import shutil
import subprocess
import sys
import tempfile

from common import REPO, VERIF, write_replay

RUNGEN = r'''
import sys, types, os, json
root, verif = sys.argv[1], sys.argv[2]
sys.path.insert(0, os.path.join(verif, "translator"))
import yamlmini
ru = types.ModuleType("ruamel"); ry = types.ModuleType("ruamel.yaml"); ry.RoundTripLoader = yamlmini.RoundTripLoader
ru.yaml = ry; sys.modules["ruamel"] = ru; sys.modules["ruamel.yaml"] = ry
sys.path.insert(0, root)
import dateparser_scripts.write_complete_data as w
res = w.write_complete_data(in_memory=True)
out = {}
for k, v in res.items():
    name = os.path.basename(k)
    if name.endswith(".py") and name != "__init__.py":
        out[name[:-3]] = v.decode("utf-8") if isinstance(v, bytes) else v
json.dump(out, open(sys.argv[3], "w"))
'''

TZCMP = r'''
import sys, json, pickle
sys.path.insert(0, sys.argv[1])
import regex as re
import dateparser.timezone_parser as tp
parts = []
reb = list(tp.build_tz_offsets(parts))
h, t, a, b = pickle.load(open(sys.argv[2], "rb"))
def row(n, i): return [n, i["regex"].pattern, int(i["regex"].flags), i["offset"].total_seconds()]
diffs = []
if len(reb) != len(t): diffs.append({"len": [len(reb), len(t)]})
for k, (x, y) in enumerate(zip(reb, t)):
    if row(*x) != row(*y): diffs.append({"row": k, "rebuilt": row(*x), "pickled": row(*y)})
s1 = re.compile("|".join(parts)); s2 = re.compile("|".join(parts), re.IGNORECASE)
if (s1.pattern, int(s1.flags)) != (a.pattern, int(a.flags)): diffs.append({"search_regex": "differs"})
if (s2.pattern, int(s2.flags)) != (b.pattern, int(b.flags)): diffs.append({"search_regex_ignorecase": "differs"})
print(json.dumps({"rows": len(t), "diffs": diffs[:20]}))
'''


def run(ctx):
    tier = ctx["tier"]
    viol = []
    root = tempfile.mkdtemp(prefix="dpc16_")
    nmods = 0
    try:
        dst = os.path.join(root, "repo")
        shutil.copytree(REPO, dst, ignore=shutil.ignore_patterns(".git", "tests", "docs", "__pycache__", "*.egg-info", "fuzzing", "artwork"))
        outp = os.path.join(root, "gen.json")
        p = subprocess.run([sys.executable, "-c", RUNGEN, dst, VERIF, outp], stdout=subprocess.PIPE, stderr=subprocess.PIPE, timeout=600,
                           env=dict(os.environ, TZ="UTC", PYTHONDONTWRITEBYTECODE="1"))
        if p.returncode != 0:
            viol.append({"what": "the repository's generator does not run on its own sources", "stderr": p.stderr.decode()[-1500:]})
            gen = {}
        else:
            gen = json.load(open(outp))
        shipped = {os.path.basename(f)[:-3]: open(f, encoding="utf-8").read()
                   for f in glob.glob(os.path.join(REPO, "dateparser/data/date_translation_data/*.py")) if not f.endswith("__init__.py")}
        nmods = len(shipped)
        for lang in sorted(set(gen) | set(shipped)):
            if lang not in shipped:
                viol.append({"module": lang, "what": "the generator produces a module that is not shipped"})
            elif lang not in gen:
                viol.append({"module": lang, "what": "a shipped module is not produced by the generator"})
            elif gen[lang].rstrip("\n") != shipped[lang].rstrip("\n"):
                a, b = gen[lang], shipped[lang]
                k = next((i for i in range(min(len(a), len(b))) if a[i] != b[i]), min(len(a), len(b)))
                viol.append({"module": lang, "what": "shipped module differs from the generator's output", "at_char": k,
                             "generated": a[max(0, k - 60):k + 60], "shipped": b[max(0, k - 60):k + 60]})
        # timezone table
        p = subprocess.run([sys.executable, "-c", TZCMP, REPO, os.path.join(REPO, "dateparser/data/dateparser_tz_cache.pkl")], stdout=subprocess.PIPE,
                           stderr=subprocess.PIPE, timeout=300, env=dict(os.environ, TZ="UTC"))
        try:
            tz = json.loads(p.stdout.decode().strip().splitlines()[-1])
        except Exception:  # noqa
            tz = {"rows": 0, "diffs": [{"error": p.stderr.decode()[-500:]}]}
        for d in tz["diffs"]:
            viol.append({"table": "dateparser_tz_cache.pkl", "what": "pickled timezone table differs from the table rebuilt from timezone_info_list", **d})
    finally:
        shutil.rmtree(root, ignore_errors=True)
    # index
    sys.path.insert(0, os.path.join(VERIF, "translator"))
    from gen import Src, const_eval
    li = Src("dateparser/data/languages_info.py")
    order = const_eval(li.assign("language_order"))
    lld = const_eval(li.assign("language_locale_dict"))
    mods = sorted(shipped)
    if sorted(order) != mods or len(set(order)) != len(order):
        viol.append({"index": "language_order", "what": "language_order does not list exactly the data modules",
                     "only_in_order": sorted(set(order) - set(mods)), "only_on_disk": sorted(set(mods) - set(order)), "duplicates": sorted({x for x in order if order.count(x) > 1})})
    if sorted(lld) != mods:
        viol.append({"index": "language_locale_dict", "what": "keys differ from the data modules", "diff": sorted(set(lld) ^ set(mods))})
    import ast
    for lang in mods:
        try:
            info = ast.literal_eval(shipped[lang].split("=", 1)[1])
        except Exception:  # noqa
            continue
        keys = sorted((info.get("locale_specific") or {}).keys())
        if sorted(lld.get(lang, [])) != keys:
            viol.append({"index": "language_locale_dict[%s]" % lang, "what": "locales listed differ from the module's locale_specific keys",
                         "listed": sorted(lld.get(lang, [])), "defined": keys})
    out = [{"replay": write_replay("C16", "diff-%d" % j, {"property": "C16", "kind": "shipped data differs from what the sources define", **v})} for j, v in enumerate(viol[:10])]
    cov = {"programs": nmods + 2, "disagreements_checked": len(viol), "evaluations": nmods + tz.get("rows", 0) + len(order),
           "distinct_nontrivial": nmods,
           "rule": "every generated language module (byte comparison with the repo's own generator + Lean model equality), every row of the pickled timezone table, every index entry; exhaustive in both tiers",
           "samples": [{"module": m} for m in mods[:3]] + [{"table": "dateparser_tz_cache.pkl", "rows": tz.get("rows")}, {"index": "language_order", "entries": len(order)}],
           "modules_byte_identical": nmods - len([v for v in viol if "module" in v]), "tz_rows": tz.get("rows"), "exhaustive": True}
    return {"violations": out, "known": [], "coverage": cov, "level": "proof",
            "trusted_base": ["native_decide (Lean compiler/interpreter) for the finite theorems C16_modules, C16_tz, C16_index — one `_native.native_decide.ax_*` axiom each",
                             "YAML-subset loader translator/yamlmini.py (self-validating: all 205 modules must come out byte-identical through the repo's own generator)"],
            "assumptions": ["json.dumps serialisation is Python's (byte clause checked in Python, tree equality in Lean)"]}
