"""C09 — PREFER_DATES_FROM selects the past/future occurrence, keeping named parts."""
import calendar
import datetime as dt

from common import D, rng
from props.base import decide, expect_str

WD = ["Monday", "Tuesday", "Wednesday", "Thursday", "Friday", "Saturday", "Sunday"]
MON = [calendar.month_name[i] for i in range(1, 13)]
PREFS = ["past", "future", "current_period"]
OFFS = [("UTC", 0), ("+0530", 19800), ("-0800", -28800), ("+1000", 36000)]


def nearest_weekday(b, wd, pref):
    cur = b.weekday()
    if pref == "future":
        steps = 7 if cur == wd else (wd - cur) % 7
    elif pref == "past":
        steps = -7 if cur == wd else -((cur - wd) % 7)
    else:
        steps = -((cur - wd) % 7)
    return (b + dt.timedelta(days=steps)).replace(hour=0, minute=0, second=0, microsecond=0)


def leap_fix(y, pref):
    """the year a Feb-29 without year is moved to"""
    nxt = y + 1
    while not calendar.isleap(nxt):
        nxt += 1
    prv = y - 1
    while not calendar.isleap(prv):
        prv -= 1
    if pref == "future":
        return nxt
    if pref == "past":
        return prv
    return nxt if nxt - y < y - prv else prv


def month_day(b, m, d, pref):
    """month [+ day] without a year: the occurrence selected by the preference"""
    y = b.year
    def mk(yy):
        try:
            return D(yy, m, d)
        except ValueError:
            return None
    c = mk(y)
    if c is None:          # Feb 29 in a non-leap reference year
        return D(leap_fix(y, pref), m, d)
    if pref == "past" and c > b:
        c2 = mk(y - 1)
        return c2 if c2 else D(leap_fix(y, pref), m, d)
    if pref == "future" and c < b:
        c2 = mk(y + 1)
        return c2 if c2 else D(leap_fix(y, pref), m, d)
    return c


def run(ctx):
    tier = ctx["tier"]
    R = rng("c09")
    cases = []
    # reference dates: every day of a window that contains all weekdays, month/year ends and both leap days
    start = D(2019, 12, 25, 13, 7) if tier != "quick" else D(2023, 12, 20, 13, 7)
    ndays = 1533 if tier != "quick" else 90
    refs = [start + dt.timedelta(days=i) for i in range(ndays)]
    for b in refs:
        for wd in (range(7) if tier != "quick" else R.sample(range(7), 3)):
            for pref in PREFS:
                exp = nearest_weekday(b, wd, pref)
                crosses = exp.month != b.month
                cases.append({"s": WD[wd], "langs": ["en"], "settings": {"RELATIVE_BASE": b, "PREFER_DATES_FROM": pref, "TIMEZONE": "UTC"},
                              "expect": expect_str(exp), "stratum": "weekday/" + pref, "_rule": "shift-crosses-month" if crosses else None})
    # PREFER_MONTH_OF_YEAR must not move a weekday-only / time-only result
    for b in refs[:: max(1, len(refs) // 40)]:
        for pm in ("first", "last"):
            wd = R.randrange(7); pref = R.choice(PREFS)
            cases.append({"s": WD[wd], "langs": ["en"], "settings": {"RELATIVE_BASE": b, "PREFER_DATES_FROM": pref, "PREFER_MONTH_OF_YEAR": pm, "TIMEZONE": "UTC"},
                          "expect": expect_str(nearest_weekday(b, wd, pref)), "stratum": "weekday/month-pref", "_rule": "month-preference-on-weekday-or-time"})
    # time only
    trefs = [D(2021, 8, 31, 13, 7), D(2021, 9, 1, 0, 10), D(2020, 2, 29, 23, 50), D(2021, 12, 31, 18, 45), D(2022, 1, 1, 5, 30), D(2023, 6, 15, 12, 0)]
    times = [(0, 0), (0, 30), (5, 29), (5, 30), (12, 0), (13, 7), (13, 8), (18, 29), (18, 30), (23, 59)]
    if tier != "quick":
        trefs += [D(2022, m, R.choice([1, 15, calendar.monthrange(2022, m)[1]]), R.randint(0, 23), R.randint(0, 59)) for m in range(1, 13)]
        times += [(R.randint(0, 23), R.randint(0, 59)) for _ in range(20)]
    # references inside a minute as well: the string names whole minutes, the reference does not — 'future' must still give a moment not
    # before it when the named minute is the reference's own (13:07 seen from 13:07:30 is already past)
    trefs = trefs + [b0 + dt.timedelta(seconds=R.randint(1, 59), microseconds=R.choice([0, 1, 250000, 999999])) for b0 in trefs]
    for b in trefs:
        for pref in PREFS:
            for tzn, off in (OFFS if tier != "quick" else OFFS[:2]):
                o = dt.timedelta(seconds=off)
                local_b = b + o
                own = [(local_b.hour, local_b.minute)] if (b.second or b.microsecond) else []
                for (hh, mi) in (times if not own else own + [times[(b.minute + off) % len(times)]]):
                    # the reference is the instant b (UTC); the string is a wall-clock time in TIMEZONE
                    cand = local_b.replace(hour=hh, minute=mi, second=0, microsecond=0)
                    if pref == "past" and cand > local_b:
                        cand -= dt.timedelta(days=1)
                    if pref == "future" and cand < local_b:
                        cand += dt.timedelta(days=1)
                    if pref == "current_period":
                        cand = b.replace(hour=hh, minute=mi, second=0, microsecond=0)
                    naive_cand = b.replace(hour=hh, minute=mi, second=0, microsecond=0)
                    rule = None
                    if cand.month != b.month:
                        rule = "shift-crosses-month"
                    cases.append({"s": "%02d:%02d" % (hh, mi), "langs": ["en"],
                                  "settings": {"RELATIVE_BASE": b, "PREFER_DATES_FROM": pref, "TIMEZONE": tzn},
                                  "expect": expect_str(cand), "stratum": "time/%s/%s" % (pref, "utc" if off == 0 else "offset"), "_rule": rule,
                                  "_off": off, "_localdate_differs": local_b.date() != b.date()})
    # time-only strings under IANA zones, with the reference a couple of minutes on either side of the instant the clock time denotes
    # today (that is where the one-day decision is taken); days on which the local and the UTC calendar date agree at the reference
    import pytz
    for tzn in ("Europe/Berlin", "America/New_York", "Asia/Kolkata", "Australia/Adelaide"):
        z = pytz.timezone(tzn)
        for day in ((D(2021, 6, 15), D(2021, 1, 20)) if tier == "quick" else (D(2021, 6, 15), D(2021, 1, 20), D(2022, 3, 10), D(2019, 11, 5))):
            for (hh, mi) in ((12, 0), (9, 30)) + (() if tier == "quick" else ((14, 45), (11, 11))):
                inst = z.localize(day.replace(hour=hh, minute=mi)).astimezone(pytz.utc).replace(tzinfo=None)
                for delta in (-2, 2, -40, 40):
                    b = inst + dt.timedelta(minutes=delta)
                    local_b = pytz.utc.localize(b).astimezone(z).replace(tzinfo=None)
                    if local_b.date() != b.date():
                        continue
                    for pref in PREFS:
                        cand = local_b.replace(hour=hh, minute=mi, second=0, microsecond=0)
                        if pref == "past" and cand > local_b:
                            cand -= dt.timedelta(days=1)
                        if pref == "future" and cand < local_b:
                            cand += dt.timedelta(days=1)
                        if cand.month != b.month:
                            continue
                        cases.append({"s": "%02d:%02d" % (hh, mi), "langs": ["en"], "settings": {"RELATIVE_BASE": b, "PREFER_DATES_FROM": pref, "TIMEZONE": tzn},
                                      "expect": expect_str(cand), "stratum": "time/%s/iana-boundary" % pref, "_rule": None})
                        # the same reference given as an aware datetime (the instant is the same, so is the answer)
                        if delta in (-2, 40):
                            cases.append({"s": "%02d:%02d" % (hh, mi), "langs": ["en"],
                                          "settings": {"RELATIVE_BASE": b.replace(tzinfo=dt.timezone.utc), "PREFER_DATES_FROM": pref, "TIMEZONE": tzn},
                                          "expect": expect_str(cand), "stratum": "time/%s/iana-aware-reference" % pref, "_rule": None})
    # month [+ day] without year, and Feb 29: the property asks for an occurrence on the right side of the reference
    # (not necessarily the nearest one), inside the reference year for current_period, with the named parts kept
    def side_pred(b, m, d, pref, period):
        def pred(got):
            if got is None or got.startswith("ERR:"):
                return False
            f = got.split("|")
            g = dt.datetime.strptime(f[0], "%Y-%m-%d %H:%M:%S.%f")
            if g.month != m or (d is not None and g.day != d) or f[2] != period or f[1] != "naive":
                return False
            feb29 = (m == 2 and d == 29)          # only a *named* 29 February may leave the reference year (it may not exist there)
            span = 8 if m == 2 else 1
            if pref == "past":
                return g <= b and b.year - span <= g.year <= b.year
            if pref == "future":
                return g >= b.replace(hour=0, minute=0, second=0, microsecond=0) and b.year <= g.year <= b.year + span
            return g.year == b.year or (feb29 and abs(g.year - b.year) <= 4)
        return pred
    mrefs = [D(2021, 8, 31, 13, 7), D(2020, 2, 29, 12), D(2023, 1, 1), D(2022, 12, 31, 23, 59), D(2024, 6, 15), D(2100, 3, 1), D(2096, 2, 28)]
    # reference days that do not exist in every month (29th, 30th, 31st), in common and in leap years: a month named alone borrows the
    # reference day and must be clamped inside the reference year
    late = [D(y, m, d, 12, 34) for y in (2021, 2023, 2024) for m in range(1, 13) for d in (29, 30, 31) if d <= calendar.monthrange(y, m)[1]]
    mrefs += late if tier != "quick" else [D(2021, 1, 29, 12, 34), D(2021, 3, 29, 12, 34), D(2023, 12, 29, 12, 34), D(2021, 5, 31, 12, 34), D(2024, 1, 31, 12, 34), D(2024, 3, 30, 12, 34), D(2021, 10, 30, 9)]
    for b in mrefs:
        for m in range(1, 13):
            days = [1, 15, calendar.monthrange(2024, m)[1]] if tier == "quick" else range(1, calendar.monthrange(2024, m)[1] + 1)
            for d in days:
                for pref in PREFS:
                    cases.append({"s": "%d %s" % (d, MON[m - 1]), "langs": ["en"], "settings": {"RELATIVE_BASE": b, "PREFER_DATES_FROM": pref, "TIMEZONE": "UTC"},
                                  "expect": side_pred(b, m, d, pref, "day"), "expect_show": "%d %s on the %s side of %s" % (d, MON[m - 1], pref, b), "stratum": "day-month/" + pref})
            for pref in PREFS:
                cases.append({"s": MON[m - 1], "langs": ["en"], "settings": {"RELATIVE_BASE": b, "PREFER_DATES_FROM": pref, "TIMEZONE": "UTC"},
                              "expect": side_pred(b, m, None, pref, "month"), "expect_show": "%s on the %s side of %s, period month" % (MON[m - 1], pref, b),
                              "stratum": "month-alone/" + pref})
    # two-digit years, reference years 1970..2067: dates earlier and later in the year than the reference, the reference's own
    # two-digit year included (the century must still be chosen by comparing full datetimes)
    for by in (range(1970, 2068) if tier != "quick" else [1970, 1999, 2000, 2015, 2024, 2067]):
        b = D(by, 7, 1, 12)
        yys = sorted(set(([0, 24, 68, 69, 99] if tier == "quick" else list(range(0, 100, 7))) + [by % 100, (by + 1) % 100, (by - 1) % 100]))
        for yy in yys:
            piv = 2000 + yy if yy <= 68 else 1900 + yy
            for (mm, dd) in ((3, 15), (11, 20), (7, 1), (7, 2)):
                for pref in PREFS:
                    c = D(piv, mm, dd)
                    y2 = piv
                    if pref == "past" and c > b:
                        y2 -= 100
                    if pref == "future" and c < b:
                        y2 += 100
                    cases.append({"s": "%02d-%02d-%02d" % (dd, mm, yy), "langs": ["en"], "settings": {"RELATIVE_BASE": b, "PREFER_DATES_FROM": pref, "DATE_ORDER": "DMY", "TIMEZONE": "UTC"},
                                  "expect": expect_str(D(y2, mm, dd)), "stratum": "two-digit-year/" + pref})

    def parse_got(got):
        try:
            return dt.datetime.strptime(got.split("|")[0], "%Y-%m-%d %H:%M:%S.%f")
        except Exception:  # noqa
            return None

    def known_key(c, got):
        """a recorded finding only excuses the *specific wrong value* the recorded defect produces"""
        g = parse_got(got) if isinstance(got, str) else None
        exp = parse_got(c["expect"]) if isinstance(c["expect"], str) else None
        if g is None or exp is None:
            return None
        b = c["settings"]["RELATIVE_BASE"]
        pm = c["settings"].get("PREFER_MONTH_OF_YEAR", "current")
        # the defect: after the shift, the month is overwritten by the preferred month (day kept; December when it does not fit)
        target = {"current": b.month, "first": 1, "last": 12}[pm]
        def pulled(x):
            try:
                return x.replace(month=target)
            except ValueError:
                return x.replace(month=12)
        if c.get("_rule") and g == pulled(exp):
            return {"rule": c["_rule"]}
        if c.get("_off") and c.get("_localdate_differs"):
            # the defect: candidate on the reference's naive date, shifted by the code's UTC comparison
            off = dt.timedelta(seconds=c["_off"]); pref = c["settings"]["PREFER_DATES_FROM"]
            cand = b.replace(hour=exp.hour, minute=exp.minute, second=0, microsecond=0)
            if pref == "past" and b < cand - off:
                cand -= dt.timedelta(days=1)
            if pref == "future" and b > cand - off:
                cand += dt.timedelta(days=1)
            if g == cand or g == pulled(cand):
                return {"rule": "time-only-candidate-day-is-utc-date"}
        return None
    res = decide(ctx, cases, model_share=0.5 if tier == "quick" else 1.0, known_key=known_key)
    return res
