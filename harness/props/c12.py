"""C12 — timezone settings preserve the instant; awareness follows the setting (pytz is the oracle for IANA zones)."""
import datetime as dt
import json
import os
import subprocess
import sys

import pytz

from common import D, REPO, rng, write_replay
from props.base import decide, expect_str

FIXED = {"UTC": 0, "+0530": 19800, "-0800": -28800, "UTC+5:45": 20700, "-0330": -12600, "+1000": 36000, "AEST": 36000, "UTC-3:30": -12600, "+0100": 3600}
AWARE = [True, False, "default"]


def tz_of(name):
    if name in FIXED and name != "UTC":
        return dt.timezone(dt.timedelta(seconds=FIXED[name]))
    return pytz.timezone(name)


def localize(z, w):
    if isinstance(z, dt.timezone):
        return w.replace(tzinfo=z)
    return z.localize(w, is_dst=None)      # raises in gaps / folds


def expected(w, A, B, aware, string_zone=None):
    """instant of wall `w` in zone A (or at the string's own fixed offset), expressed in A then B; awareness per setting"""
    if string_zone is not None:
        inst = w.replace(tzinfo=dt.timezone(dt.timedelta(seconds=string_zone)))
        x = inst.astimezone(tz_of(A))
    else:
        x = localize(tz_of(A), w)
    if B:
        x = x.astimezone(tz_of(B))
    is_aware = aware is True or (aware == "default" and string_zone is not None)
    off = str(int(x.utcoffset().total_seconds())) if is_aware else "naive"
    return x.replace(tzinfo=None), off


LOCAL_PROBE = r'''
import sys, json, os, time, datetime
sys.path.insert(0, sys.argv[1])
import dateparser, pytz
jobs = json.load(sys.stdin)
out = []
for s, st, fmts in jobs:
    if isinstance(st.get("RELATIVE_BASE"), str):
        st["RELATIVE_BASE"] = datetime.datetime.fromisoformat(st["RELATIVE_BASE"])
    try:
        r = dateparser.parse(s, languages=["en"], settings=st, date_formats=fmts)
        out.append(None if r is None else [r.replace(tzinfo=None).isoformat(), None if r.tzinfo is None else r.utcoffset().total_seconds()])
    except Exception as e:
        out.append("ERR:" + type(e).__name__)
print(json.dumps(out))
'''


def run(ctx):
    tier = ctx["tier"]
    R = rng("c12")
    iana = list(pytz.common_timezones)
    zones = list(FIXED) + (R.sample(iana, 25) if tier == "quick" else R.sample(iana, 200)) + ["Europe/Paris", "America/New_York", "Asia/Kolkata", "Australia/Lord_Howe", "Asia/Kathmandu"]
    npairs = 120 if tier == "quick" else 2500
    cases = []
    skipped = 0
    for _ in range(npairs):
        A = R.choice(zones); B = R.choice(zones + [None, None])
        w = D(R.randint(1950, 2037), R.randint(1, 12), R.randint(1, 28), R.randint(0, 23), R.randint(0, 59), R.randint(0, 59))
        aware = R.choice(AWARE)
        st = {"TIMEZONE": A, "RELATIVE_BASE": D(2020, 5, 17, 12, 0)}
        if B:
            st["TO_TIMEZONE"] = B
        if aware != "default":
            st["RETURN_AS_TIMEZONE_AWARE"] = aware
        try:
            ex, off = expected(w, A, B, aware)
        except Exception:  # gap or ambiguous local time
            skipped += 1
            continue
        iso = w.strftime("%Y-%m-%d %H:%M:%S")
        cases.append({"s": iso, "langs": ["en"], "settings": st, "expect": expect_str(ex, off=off), "stratum": "absolute"})
        cases.append({"s": w.strftime("%d.%m.%Y %H:%M:%S"), "langs": ["en"], "settings": st, "fmts": ["%d.%m.%Y %H:%M:%S"],
                      "expect": expect_str(ex, off=off), "stratum": "custom-format"})
        # the string carries its own (fixed) zone
        zname, zoff = R.choice([("+0200", 7200), ("-0500", -18000), ("UTC", 0), ("+0545", 20700)])
        ex2, off2 = expected(w, A, B, aware, string_zone=zoff)
        cases.append({"s": iso + " " + zname, "langs": ["en"], "settings": st, "expect": expect_str(ex2, off=off2), "stratum": "absolute+zone"})
        # custom format that reads the string's own offset (%z): same law as for a zone the absolute parser pops
        zs = "%s%02d%02d" % ("+" if zoff >= 0 else "-", abs(zoff) // 3600, abs(zoff) % 3600 // 60)
        cases.append({"s": w.strftime("%d.%m.%Y %H:%M:%S") + " " + zs, "langs": ["en"], "settings": st, "fmts": ["%d.%m.%Y %H:%M:%S %z"],
                      "expect": expect_str(ex2, off=off2), "stratum": "custom-format+%z"})
        # relative: 'now' is the reference, which a naive RELATIVE_BASE places in TIMEZONE
        stb = dict(st, RELATIVE_BASE=w)
        cases.append({"s": "now", "langs": ["en"], "settings": stb, "expect": expect_str(ex, off=off), "stratum": "relative"})
        # relative phrase that names its own zone: same instant, expressed in TO_TIMEZONE (diagonal TO_TIMEZONE == TIMEZONE included)
        for B2 in ([B] if B else []) + [A]:
            try:
                now = localize(tz_of(A), w)
            except Exception:  # noqa
                break
            zname2, zoff2 = R.choice([("EST", -18000), ("+0200", 7200), ("UTC", 0)])
            x = (now - dt.timedelta(hours=2)).astimezone(tz_of(B2))
            isaw = aware is True or aware == "default"
            st2 = dict(stb, TO_TIMEZONE=B2)
            cases.append({"s": "2 hours ago " + zname2, "langs": ["en"], "settings": st2,
                          "expect": expect_str(x.replace(tzinfo=None), off=str(int(x.utcoffset().total_seconds())) if isaw else "naive"), "stratum": "relative+zone"})
        # relative phrases in calendar units (the wall clock moves by whole days / weeks / months in TIMEZONE, then the result is an
        # instant of that zone): crossing a DST change must not shift the instant
        from dateutil.relativedelta import relativedelta
        ph, delta = R.choice([("1 week ago", relativedelta(weeks=-1)), ("in 1 month", relativedelta(months=1)), ("yesterday", relativedelta(days=-1)),
                              ("tomorrow", relativedelta(days=1)), ("3 days ago", relativedelta(days=-3)), ("in 2 weeks", relativedelta(weeks=2)),
                              ("6 months ago", relativedelta(months=-6)), ("in 1 year", relativedelta(years=1))])
        try:
            w2 = w + delta
            now_a = localize(tz_of(A), w)
            x = localize(tz_of(A), w2)
            if B:
                x = x.astimezone(tz_of(B))
            isaw = aware is True
            wrong = None
            if now_a.utcoffset() != localize(tz_of(A), w2).utcoffset():
                # what the recorded defect produces: the base's UTC offset kept on the shifted wall clock
                y = w2.replace(tzinfo=dt.timezone(now_a.utcoffset()))
                y = y.astimezone(tz_of(B)) if B else y
                wrong = expect_str(y.replace(tzinfo=None), off=str(int(y.utcoffset().total_seconds())) if isaw else "naive",
                                   period="month" if "month" in ph else ("year" if "year" in ph else ("week" if "week" in ph else "day")))
            cases.append({"s": ph, "langs": ["en"], "settings": stb, "stratum": "relative-calendar" + ("/across-dst" if wrong else ""), "wrong_by_dst": wrong,
                          "expect": expect_str(x.replace(tzinfo=None), off=str(int(x.utcoffset().total_seconds())) if isaw else "naive",
                                               period="month" if "month" in ph else ("year" if "year" in ph else ("week" if "week" in ph else "day")))})
        except Exception:  # gap / ambiguous / out of range
            pass
        # timestamp: the instant itself, expressed in TIMEZONE then TO_TIMEZONE
        secs = R.randint(10 ** 9, 2 * 10 ** 9)
        inst = dt.datetime.fromtimestamp(secs, dt.timezone.utc)
        x = inst.astimezone(tz_of(A))
        if B:
            x = x.astimezone(tz_of(B))
        offt = str(int(x.utcoffset().total_seconds())) if aware is True else "naive"
        cases.append({"s": str(secs), "langs": ["en"], "settings": st, "expect": expect_str(x.replace(tzinfo=None), off=offt), "stratum": "timestamp"})
    # IANA zone → a *library abbreviation* as TO_TIMEZONE (the table's offset for that abbreviation decides), in particular the abbreviation
    # the IANA zone itself shows at that moment (CST for Asia/Shanghai, IST for Asia/Kolkata, BST for Europe/London in summer …), whose
    # table offset may differ from the zone's
    from props.c11 import table as tz_table
    abbr = {}
    for blk in tz_table():
        for name, off in blk["timezones"]:
            if "\\" not in name and name not in abbr:
                abbr[name] = off
    collide = ["Asia/Shanghai", "Asia/Kolkata", "Europe/London", "Europe/Dublin", "Asia/Manila", "Asia/Seoul", "America/Havana", "Europe/Moscow", "Asia/Taipei",
               "America/Chicago", "America/New_York", "Europe/Paris", "Australia/Sydney", "Asia/Tokyo"]
    for _ in range(60 if tier == "quick" else 1200):
        A = R.choice(collide) if R.random() < 0.7 else R.choice(iana)
        w = D(R.randint(1950, 2037), R.randint(1, 12), R.randint(1, 28), R.randint(0, 23), R.randint(0, 59))
        try:
            x = localize(tz_of(A), w)
        except Exception:  # noqa
            continue
        own = x.tzname()
        B = own if (own in abbr and R.random() < 0.7) else R.choice(sorted(abbr))
        aware = R.choice(AWARE)
        y = x.astimezone(dt.timezone(dt.timedelta(seconds=abbr[B])))
        st = {"TIMEZONE": A, "TO_TIMEZONE": B, "RELATIVE_BASE": D(2020, 5, 17, 12, 0)}
        if aware != "default":
            st["RETURN_AS_TIMEZONE_AWARE"] = aware
        offs = str(int(y.utcoffset().total_seconds())) if aware is True else "naive"
        cases.append({"s": w.strftime("%Y-%m-%d %H:%M:%S"), "langs": ["en"], "settings": st, "expect": expect_str(y.replace(tzinfo=None), off=offs),
                      "stratum": "iana→abbreviation" + ("/own-name" if B == own else "")})
        cases.append({"s": w.strftime("%d.%m.%Y %H:%M:%S"), "langs": ["en"], "settings": st, "fmts": ["%d.%m.%Y %H:%M:%S"],
                      "expect": expect_str(y.replace(tzinfo=None), off=offs), "stratum": "iana→abbreviation/custom-format"})
    # targeted: zones with DST, bases within a week/month of a transition
    from dateutil.relativedelta import relativedelta
    for A, w in [("Europe/Paris", D(2020, 4, 1, 12, 0)), ("America/New_York", D(2021, 10, 20, 9, 0)), ("Europe/Paris", D(2020, 3, 29, 12, 0)),
                 ("Australia/Lord_Howe", D(2022, 4, 5, 8, 15)), ("America/New_York", D(2021, 3, 20, 23, 30))]:
        for ph, delta in [("1 week ago", relativedelta(weeks=-1)), ("in 1 month", relativedelta(months=1)), ("yesterday", relativedelta(days=-1)), ("in 2 weeks", relativedelta(weeks=2))]:
            for B, aware in ((None, True), ("UTC", False), ("+0530", True)):
                try:
                    now_a = localize(tz_of(A), w); w2 = w + delta; x0 = localize(tz_of(A), w2)
                except Exception:  # noqa
                    continue
                x = x0.astimezone(tz_of(B)) if B else x0
                per = "month" if "month" in ph else ("week" if "week" in ph else "day")
                wrong = None
                if now_a.utcoffset() != x0.utcoffset():
                    y = w2.replace(tzinfo=dt.timezone(now_a.utcoffset())); y = y.astimezone(tz_of(B)) if B else y
                    wrong = expect_str(y.replace(tzinfo=None), off=str(int(y.utcoffset().total_seconds())) if aware else "naive", period=per)
                st = {"TIMEZONE": A, "RELATIVE_BASE": w, "RETURN_AS_TIMEZONE_AWARE": aware}
                if B:
                    st["TO_TIMEZONE"] = B
                cases.append({"s": ph, "langs": ["en"], "settings": st, "stratum": "relative-calendar" + ("/across-dst" if wrong else ""), "wrong_by_dst": wrong,
                              "expect": expect_str(x.replace(tzinfo=None), off=str(int(x.utcoffset().total_seconds())) if aware else "naive", period=per)})

    # relative phrases in clock units are elapsed time: 'in 24 hours' is 24 hours later as an instant, whatever the zone's offset does meanwhile
    # (and so are 23 and 25 hours: the three are one hour apart)
    for A, w in [("Europe/Paris", D(2020, 3, 28, 12, 0)), ("Europe/Paris", D(2020, 10, 24, 22, 30)), ("America/New_York", D(2021, 3, 13, 9, 0)),
                 ("America/New_York", D(2021, 11, 6, 23, 15)), ("Australia/Lord_Howe", D(2022, 4, 2, 8, 15)), ("Europe/Paris", D(2020, 6, 10, 9, 0))]:
        for ph, secs in [("in 24 hours", 86400), ("in 23 hours", 82800), ("in 25 hours", 90000), ("in 48 hours", 172800), ("in 36 hours", 129600),
                         ("24 hours ago", -86400), ("48 hours ago", -172800), ("in 1440 minutes", 86400), ("86400 seconds ago", -86400), ("in 3 hours", 10800),
                         ("in 1 day 2 hours", None)]:
            for B, aware in ((None, True), ("UTC", False), (None, False)):
                now_a = localize(tz_of(A), w)
                if secs is None:   # calendar part on the wall clock, then the clock part as elapsed time
                    try:
                        x0 = tz_of(A).normalize(localize(tz_of(A), w + dt.timedelta(days=1)) + dt.timedelta(hours=2))
                    except Exception:  # noqa
                        continue
                else:
                    x0 = tz_of(A).normalize(now_a + dt.timedelta(seconds=secs))
                x = x0.astimezone(tz_of(B)) if B else x0
                st = {"TIMEZONE": A, "RELATIVE_BASE": w, "RETURN_AS_TIMEZONE_AWARE": aware}
                if B:
                    st["TO_TIMEZONE"] = B
                cases.append({"s": ph, "langs": ["en"], "settings": st, "stratum": "relative-clock" + ("/across-dst" if now_a.utcoffset() != x0.utcoffset() else ""),
                              "expect": expect_str(x.replace(tzinfo=None), off=str(int(x.utcoffset().total_seconds())) if aware else "naive", period="day")})

    # a relative phrase with a clock time: the day moves on the wall clock, the clock time is set, and the result is that local time of the zone
    # (its offset is the one in force *then*, which differs from the reference's across a DST change)
    for A, w in [("America/New_York", D(2020, 3, 9, 1, 0)), ("America/New_York", D(2020, 3, 8, 12, 0)), ("Europe/Paris", D(2020, 10, 26, 1, 30)), ("Europe/Paris", D(2020, 3, 29, 12, 0)),
                 ("Europe/Paris", D(2020, 6, 10, 9, 0)), ("Australia/Lord_Howe", D(2022, 4, 3, 8, 15))]:
        for ph, days, hh, mm in [("1 day ago 14:00", -1, 14, 0), ("yesterday 14:00", -1, 14, 0), ("tomorrow at 03:30", 1, 3, 30), ("yesterday at 00:15", -1, 0, 15), ("2 days ago 23:45", -2, 23, 45),
                                 ("in 1 day 12:00", 1, 12, 0)]:
            for B, aware in ((None, True), ("UTC", False), ("UTC", True)):
                w2 = (w + dt.timedelta(days=days)).replace(hour=hh, minute=mm, second=0, microsecond=0)
                try:
                    x0 = localize(tz_of(A), w2)
                    now_a = localize(tz_of(A), w)
                except Exception:  # noqa
                    continue
                x = x0.astimezone(tz_of(B)) if B else x0
                st = {"TIMEZONE": A, "RELATIVE_BASE": w, "RETURN_AS_TIMEZONE_AWARE": aware}
                if B:
                    st["TO_TIMEZONE"] = B
                cases.append({"s": ph, "langs": ["en"], "settings": st, "stratum": "relative+clock-time" + ("/across-dst" if now_a.utcoffset() != x0.utcoffset() else ""),
                              "expect": expect_str(x.replace(tzinfo=None), off=str(int(x.utcoffset().total_seconds())) if aware else "naive", period="day")})

    # every library abbreviation as TIMEZONE: the string is interpreted at the offset the library's table lists for it (C11's offset), in
    # summer and in winter alike
    for nm in sorted(abbr):
        if tier == "quick" and nm not in ("CET", "EET", "MET", "WET", "EST", "MST", "HST", "GMT") and R.random() < 0.8:
            continue
        for w in (D(2020, 7, 1, 12, 0), D(2020, 1, 15, 9, 30)):
            x = w.replace(tzinfo=dt.timezone(dt.timedelta(seconds=abbr[nm]))).astimezone(dt.timezone.utc)
            wrong = None
            try:
                y = pytz.timezone(nm).localize(w).astimezone(dt.timezone.utc)
                if y != x:
                    wrong = expect_str(y.replace(tzinfo=None), off="0")
            except Exception:  # noqa
                pass
            cases.append({"s": w.strftime("%Y-%m-%d %H:%M"), "langs": ["en"], "settings": {"TIMEZONE": nm, "TO_TIMEZONE": "UTC", "RETURN_AS_TIMEZONE_AWARE": True, "RELATIVE_BASE": D(2020, 5, 17, 12, 0)},
                          "stratum": "abbreviation-as-TIMEZONE", "wrong_as_tzdb": wrong, "expect": expect_str(x.replace(tzinfo=None), off="0")})

    def known_key(c, got):
        from props.base import strip_locale
        if c.get("wrong_as_tzdb") and got is not None and strip_locale(got) == c["wrong_as_tzdb"]:
            return {"rule": "TIMEZONE names both a library abbreviation and a tz-database zone that has DST", "name": c["settings"]["TIMEZONE"]}
        if c.get("wrong_by_dst") and got is not None and strip_locale(got) == c["wrong_by_dst"]:
            return {"rule": "relative-calendar-units-across-dst"}
        return None
    res = decide(ctx, cases, model_share=1.0, known_key=known_key)
    # TIMEZONE='local' under several process zones
    lv = []
    nlocal = 0
    for TZ in ["UTC", "America/New_York", "Asia/Kolkata", "Australia/Lord_Howe"]:
        jobs = []
        exp = []
        for _ in range(12 if tier == "quick" else 150):
            w = D(R.randint(1971, 2037), R.randint(1, 12), R.randint(1, 28), R.randint(0, 23), R.randint(0, 59))
            B = R.choice(["UTC", "+0530", "Europe/Paris", None])
            aware = R.choice([True, False])
            st = {"TIMEZONE": "local", "RETURN_AS_TIMEZONE_AWARE": aware}
            if B:
                st["TO_TIMEZONE"] = B
            try:
                x = pytz.timezone(TZ).localize(w, is_dst=None)
            except Exception:  # noqa
                continue
            if B:
                x = x.astimezone(tz_of(B))
            for s, fmts in ((w.strftime("%Y-%m-%d %H:%M"), None), (w.strftime("%d/%m/%Y %H:%M"), ["%d/%m/%Y %H:%M"])):
                jobs.append((s, st, fmts))
                exp.append([x.replace(tzinfo=None).isoformat(), x.utcoffset().total_seconds() if aware else None])
        # relative phrases from a reference in the process zone, around its DST changes: clock units are elapsed time, calendar units move the
        # wall clock (the process zone is a zoneinfo zone, not a pytz one: a different code path from an IANA TIMEZONE)
        if TZ in ("America/New_York", "Australia/Lord_Howe"):
            zt = pytz.timezone(TZ)
            rb = [D(2020, 3, 8, 3, 30), D(2020, 3, 8, 12, 0), D(2020, 11, 1, 12, 0), D(2020, 6, 10, 9, 0)] if TZ == "America/New_York" else [D(2022, 4, 3, 8, 15), D(2022, 10, 2, 9, 0)]
            for w in rb:
                for ph, cal, secs in (("2 hours ago", 0, -7200), ("in 3 hours", 0, 10800), ("12 hours ago", 0, -43200), ("1 day ago", -1, 0), ("in 1 day", 1, 0), ("in 1 day 2 hours", 1, 7200)):
                    for B, aware in (("UTC", True), (None, False)):
                        try:
                            x = zt.normalize(zt.localize(w + dt.timedelta(days=cal), is_dst=None) + dt.timedelta(seconds=secs)) if cal else zt.normalize(zt.localize(w, is_dst=None) + dt.timedelta(seconds=secs))
                        except Exception:  # noqa
                            continue
                        if B:
                            x = x.astimezone(tz_of(B))
                        st = {"TIMEZONE": "local", "RETURN_AS_TIMEZONE_AWARE": aware, "RELATIVE_BASE": w.isoformat()}
                        if B:
                            st["TO_TIMEZONE"] = B
                        jobs.append((ph, st, None))
                        exp.append([x.replace(tzinfo=None).isoformat(), x.utcoffset().total_seconds() if aware else None])
        p = subprocess.run([sys.executable, "-c", LOCAL_PROBE, REPO], input=json.dumps(jobs).encode(), stdout=subprocess.PIPE, stderr=subprocess.PIPE,
                           env=dict(os.environ, TZ=TZ), timeout=600)
        try:
            got = json.loads(p.stdout.decode().strip().splitlines()[-1])
        except Exception:  # noqa
            got = [None] * len(jobs)
        nlocal += len(jobs)
        for j, e, g in zip(jobs, exp, got):
            if g != e:
                lv.append({"process_TZ": TZ, "string": j[0], "settings": j[1], "date_formats": j[2], "expected": e, "observed": g})
    for k, v in enumerate(lv[:5]):
        res["violations"].append({"replay": write_replay("C12", "local-%d" % k, {"property": "C12", "kind": "TIMEZONE='local' does not use the process zone", **v})})
    res["coverage"]["local_zone_cases"] = nlocal
    res["coverage"]["skipped_gap_or_fold"] = skipped
    res["coverage"]["evaluations"] += nlocal
    res["assumptions"] = ["IANA zones: pytz's database and localize/astimezone are the oracle (the model is parametric there: those cases are 'rejected: iana' on the model side) — partial",
                          "local times in DST gaps or folds are excluded, as the property states", "custom formats with %z are inside (a string that carries its own zone, read by the custom-format parser)"]
    return res
