"""C03 — results depend only on the call's arguments, never on call history: every call of a history is compared with the same
call made alone in a fresh interpreter; also for several PYTHONHASHSEED values."""
import collections
import json
import os
import subprocess
import sys

from common import D, REPO, VERIF, rng, write_replay, load_known

WORKER = os.path.join(VERIF, "harness", "c03_worker.py")


def dtj(d):
    return {"__dt__": d.isoformat()}


def pool(R):
    B1, B2 = dtj(D(2020, 5, 17, 12, 0)), dtj(D(1999, 12, 31, 23, 30))
    P = []
    strings = ["10:30", "Monday", "12/11/2015", "3 days ago", "yesterday at 5pm", "14 juillet 2015 à 10h", "t 1 2 2015", "01-02-03", "March 2015", "2015-03-14T10:30:00",
               "il y a 2 heures", "mañana", "15 de marzo", "1 сентября 2014 г. в 12:15", "hace 3 días", "sept 2011", "12 Ağu 2015", "3 weeks ago at 14:05", "1484823450", "20150314"]
    variants = [{}, {"SKIP_TOKENS": ["de"]}, {"SKIP_TOKENS": []}, {"NORMALIZE": False}, {"DATE_ORDER": "DMY"}, {"DATE_ORDER": "YMD"}, {"PREFER_LOCALE_DATE_ORDER": False},
                {"DEFAULT_LANGUAGES": ["es"]}, {"PARSERS": ["absolute-time"]}, {"PARSERS": ["relative-time", "absolute-time", "no-spaces-time"]},
                {"CACHE_SIZE_LIMIT": 1}, {"CACHE_SIZE_LIMIT": 2}, {"CACHE_SIZE_LIMIT": 0}, {"CACHE_SIZE_LIMIT": 1000}, {"PREFER_DATES_FROM": "past"},
                {"PREFER_DATES_FROM": "future", "PREFER_DAY_OF_MONTH": "last"}, {"STRICT_PARSING": True}, {"TIMEZONE": "+0530", "RETURN_AS_TIMEZONE_AWARE": True},
                {"TIMEZONE": "UTC", "TO_TIMEZONE": "America/New_York"}, {"RETURN_TIME_AS_PERIOD": True}]
    langs = [None, ["en"], ["fr"], ["es"], ["ru"], ["de"], ["tr"], ["en", "fr"], ["fr", "en"], ["tl"], ["ja"], ["zh"]]
    for s in strings:
        for _ in range(4):
            st = dict(R.choice(variants)); st["RELATIVE_BASE"] = R.choice([B1, B2])
            kw = {"settings": st}
            lg = R.choice(langs)
            if lg:
                kw["languages"] = lg
            P.append({"fn": R.choice(["parse", "gdd"]), "s": s, "kw": kw})
    # default-settings calls on complete absolute dates (their result must never depend on earlier custom-settings calls)
    for s in ["2015-03-14 10:30", "14 March 2015", "12/11/2015", "01-02-2003", "10 марта 2015 г.", "Tuesday, 3 January 2012 07:15"]:
        P.append({"fn": "parse", "s": s, "kw": {}})
        P.append({"fn": "gdd", "s": s, "kw": {"languages": ["en", "ru"]}})
    # long-lived DateDataParser instances (created once per history, then reused)
    inst_kws = [{"languages": ["en"], "settings": {"RELATIVE_BASE": B1}}, {"languages": ["en", "fr"], "settings": {"RELATIVE_BASE": B2, "DATE_ORDER": "DMY"}},
                {"settings": {"RELATIVE_BASE": B1, "SKIP_TOKENS": ["de"]}, "languages": ["es", "fr"]}, {"languages": ["ru", "en"], "settings": {"RELATIVE_BASE": B1, "NORMALIZE": False}}]
    for kw in inst_kws:
        for s in ["10:30", "Monday", "12/11/2015", "3 days ago", "15 de marzo", "вчера", "March 2015"]:
            P.append({"fn": "gdd_inst", "s": s, "kw": kw, "kw_key": kw})
    # search calls that share settings values with the instances above, and search calls differing only in NORMALIZE / SKIP_TOKENS
    for t in ["The meeting is on 4 October 1957 at 10:30.", "Le 14 juillet 2015 à 10h, puis demain.", "el 15 de marzo de 2015", "1 сентября 2014 г. и вчера"]:
        for kw in inst_kws:
            P.append({"fn": "search", "s": t, "kw": {"settings": kw["settings"], "languages": kw.get("languages", ["en"])[:1]}})
        for extra in [{"NORMALIZE": False}, {"NORMALIZE": True}, {"SKIP_TOKENS": ["le", "el"]}, {"SKIP_TOKENS": []}]:
            P.append({"fn": "search", "s": t, "kw": {"settings": dict({"RELATIVE_BASE": B1}, **extra)}})
    # settings values WITHOUT a reference time, shared between a long-lived instance and search_dates (results are compared with a
    # fresh process started within the same run; both read the same calendar day)
    for stv in [{"DATE_ORDER": "DMY"}, {"PREFER_DATES_FROM": "past"}]:
        kw = {"languages": ["en"], "settings": stv}
        for s in ["10:30", "14 March", "2015-03-14 10:30", "March"]:
            P.append({"fn": "gdd_inst", "s": s, "kw": kw, "kw_key": kw})
        for t in ["The meeting was on 4 October 1957 and then at 10:30.", "on 1 May 1999. Later, Friday."]:
            P.append({"fn": "search", "s": t, "kw": {"settings": stv, "languages": ["en"]}})
            P.append({"fn": "search", "s": t, "kw": {"settings": stv}})
    # search and calendar calls
    texts = ["The meeting is on 4 October 1957 at 10:30 and again on Monday.", "Le 14 juillet 2015, puis demain.", "вчера и 1 сентября 2014 г.", "nothing here", "in 2 days. On 12/11/2015!"]
    for t in texts:
        for st in [None, {"RELATIVE_BASE": B1}, {"RELATIVE_BASE": B2, "DATE_ORDER": "DMY"}, {"RELATIVE_BASE": B1, "SKIP_TOKENS": ["de"]}]:
            kw = {}
            if st:
                kw["settings"] = st
            if R.random() < 0.5:
                kw["languages"] = R.choice([["en"], ["fr"], ["ru"]])
            if st is None and "days" in t:
                continue        # clock-dependent without a reference time
            P.append({"fn": "search", "s": t, "kw": kw})
    for s in ["جمعه سی ام اسفند ۱۳۸۷", "1393/10/25", "۲۳ مهر ۱۳۹۴"]:
        P.append({"fn": "jalali", "s": s})
    for s in ["14-09-1432", "20 Rajab 1436 10:30"]:
        P.append({"fn": "hijri", "s": s})
    # the same numeric date through both calendars (years the two calendars share): a group whose members must not notice each other
    cal = []
    for s in ["1400/06/29", "1393/10/25", "1432-09-14", "1390/03/10"]:
        P.append({"fn": "jalali", "s": s}); cal.append(len(P) - 1)
        P.append({"fn": "hijri", "s": s}); cal.append(len(P) - 1)
    pool.calendars = cal
    # searches over several languages on texts that no character decides (digits and punctuation only): the language chosen — and with it the
    # reading — must not depend on the interpreter's hash seed
    hs = []
    for t, lg in (("10.11.2012", ["en", "de", "fr"]), ("7/8/2019", ["es", "en"]), ("01/02/03 04:05", ["en", "es", "it", "nl"]), ("on 10.11.2012 and 12.11.2012", ["fr", "en", "de", "ru"])):
        P.append({"fn": "search", "s": t, "kw": {"languages": lg, "add_detected_language": True, "settings": {"RELATIVE_BASE": B1}}}); hs.append(len(P) - 1)
    pool.hashy = hs
    # a skip token that ends in a full stop, used by the first search in the process, and a later search whose sentence splitting depends on
    # which abbreviations the locale knows
    ab = []
    P.append({"fn": "search", "s": "hello 3 May 2019", "kw": {"languages": ["en"], "settings": {"SKIP_TOKENS": ["march."], "RELATIVE_BASE": B1}}}); ab.append(len(P) - 1)
    P.append({"fn": "search", "s": "We met on 12 march. 2020 was a bad year", "kw": {"languages": ["en"], "settings": {"RELATIVE_BASE": B1}}}); ab.append(len(P) - 1)
    pool.abbrev = ab
    # strings that carry a zone, in spellings one of which is a part of another (GMT / GMT+0530, +01:00 / UTC+01:00, CST / GMT+0800 (CST)): what the
    # zone look-up did for one must not be remembered for the next
    zg = []
    for s in ["2015-03-14 10:30 GMT", "2015-03-14 10:30 GMT+0530", "2015-03-14 10:30 UTC", "2015-03-14 10:30 UTC-8", "2015-03-14 10:30 +01:00", "2015-03-14 10:30 UTC+01:00",
              "2015-03-14 10:30 +0100", "2015-03-14 10:30 GMT+0100", "2015-03-14 10:30 CST", "2015-03-14 10:30 GMT+0800 (CST)", "2015-03-14 10:30 EST", "2015-03-14 10:30"]:
        P.append({"fn": "parse", "s": s, "kw": {"languages": ["en"]}}); zg.append(len(P) - 1)
    pool.zones = zg
    # absolute-parser failures with the default settings object in non-MDY locales, and order-sensitive calls that must not notice
    poison = []
    for lg, bad in (("fr", "32/13/2020"), ("de", "45.45.2020"), ("hu", "2020.13.45")):
        P.append({"fn": "parse", "s": bad, "kw": {"languages": [lg]}}); poison.append(len(P) - 1)
    sensitive = []
    for kw in ({"languages": ["tl"]}, {"languages": ["en"], "settings": {"PREFER_LOCALE_DATE_ORDER": False}}, {"languages": ["tl"], "settings": {"PREFER_DAY_OF_MONTH": "first"}}):
        P.append({"fn": "parse", "s": "02/03/2020", "kw": kw}); sensitive.append(len(P) - 1)
    pool.poison, pool.sensitive = poison, sensitive
    # the per-locale dictionaries are shared objects used under each caller's settings: calls on one locale that differ only in what
    # those objects read (SKIP_TOKENS) under both NORMALIZE values, on strings whose reading depends on a skip token
    groups = []
    for lg in ("en", "fr"):
        for norm in (True, False):
            g = []
            for skip in ([], ["t"], ["foo"], ["de"]):
                for s in ("2015-03-12t10:20", "12 foo March 2015", "02 de 03 2015"):
                    P.append({"fn": "parse", "s": s, "kw": {"languages": [lg], "settings": {"RELATIVE_BASE": B1, "NORMALIZE": norm, "SKIP_TOKENS": skip}}}); g.append(len(P) - 1)
            groups.append(g)
    pool.groups = groups
    # region / locale selection: the loader caches locale objects by name, so a call that selects languages with a region must not
    # change what a later call selecting other languages / the same locale by name gets
    regional = []
    for lg, rg in ((["fr", "en"], "AU"), (["fr"], "AU"), (["de"], "AU"), (["en"], "AU"), (["en", "fr"], "CA"), (["es", "pt"], "BR"), (["de", "it"], "CH"), (["ru"], "AU")):
        for s in ("2 mars 2020", "2 March 2020", "02/03/2020", "2 März 2020", "2 марта 2020"):
            P.append({"fn": "gdd", "s": s, "kw": {"languages": lg, "region": rg, "settings": {"RELATIVE_BASE": B1}}}); regional.append(len(P) - 1)
    for loc in ("en-AU", "fr-CA", "en-CA", "pt-BR", "de-CH", "fr", "en", "de"):
        for s in ("2 mars 2020", "2 March 2020", "02/03/2020", "2 März 2020"):
            P.append({"fn": "gdd", "s": s, "kw": {"locales": [loc], "settings": {"RELATIVE_BASE": B1}}}); regional.append(len(P) - 1)
    pool.regional = regional
    # the same language / locale list requested in its given order and in the library's priority order (lists that are not already in
    # priority order, strings that several of the listed languages accept): one request must not decide the order of the other
    ordered = []
    for lg in (["fr", "en"], ["sv", "fr", "es"], ["de", "en"], ["it", "es", "en"]):
        for s in ("02-03-2016", "3 mars 2019", "10/11/2012 10:30", "2015-06-07"):
            for given in (True, False):
                P.append({"fn": "gdd", "s": s, "kw": {"languages": lg, "use_given_order": given, "settings": {"RELATIVE_BASE": B1}}}); ordered.append(len(P) - 1)
    for lc in (["fr-BE", "en-CC"], ["de-AT", "en-GB"]):
        for s in ("02-03-2016", "10/11/2012"):
            for given in (True, False):
                P.append({"fn": "gdd", "s": s, "kw": {"locales": lc, "use_given_order": given, "settings": {"RELATIVE_BASE": B1}}}); ordered.append(len(P) - 1)
    pool.ordered = ordered
    # search_dates with language detection under NORMALIZE=False, and calls that share that settings value on accented strings: detection
    # must neither depend on what was detected before nor leave anything behind on the caller's settings value
    norms = []
    for stv in ({"NORMALIZE": False, "RELATIVE_BASE": B1}, {"NORMALIZE": False, "RELATIVE_BASE": B1, "SKIP_TOKENS": ["vers"]}, {"NORMALIZE": True, "RELATIVE_BASE": B1}):
        for t in ("Rendez-vous le 11 décembre 2014 à 09:00, puis le 3 février 2015.", "Am 5. März 2016 und später.", "El miércoles 4 de marzo de 2015 fue.",
                  "The meeting is on 4 October 1957 at 10:30."):
            P.append({"fn": "search", "s": t, "kw": {"settings": stv}}); norms.append(len(P) - 1)
            P.append({"fn": "search", "s": t, "kw": {"settings": stv, "languages": ["fr", "de", "es", "en"]}}); norms.append(len(P) - 1)
        for lg, s2 in ((["fr"], "11 décembre 2014"), (["fr"], "il y a 3 années"), (["es"], "miércoles 4 de marzo de 2015"), (["de"], "5. März 2016"), (["fr"], "vers le 3 février 2015")):
            P.append({"fn": "parse", "s": s2, "kw": {"languages": lg, "settings": stv}}); norms.append(len(P) - 1)
    pool.norms = norms
    # a valid setting and the same value written as text (wrong type): the second is rejected whatever was validated before it
    tw = []
    for key, good in (("STRICT_PARSING", True), ("CACHE_SIZE_LIMIT", 1000), ("REQUIRE_PARTS", ["day"]), ("NORMALIZE", True), ("DEFAULT_LANGUAGES", ["en"])):
        for val in (good, str(good)):
            P.append({"fn": "parse", "s": "12 March 2015", "kw": {"languages": ["en"], "settings": {key: val}}}); tw.append(len(P) - 1)
    pool.twins = tw
    # failing calls
    P.append({"fn": "parse", "s": "2015", "kw": {"settings": {"UNKNOWN": 1}}})
    P.append({"fn": "parse", "s": "2015", "kw": {"languages": ["xx"]}})
    P.append({"fn": "parse", "s": 5, "kw": {}})
    P.append({"fn": "search", "s": "12 May 2015", "kw": {"languages": ["xx"]}})
    P.append({"fn": "parse", "s": "12 May 2015", "kw": {"settings": {"TIMEZONE": "Mars/Olympus", "RELATIVE_BASE": B1}}})
    return P


def run_worker(calls, hashseed="0"):
    p = subprocess.run([sys.executable, WORKER, REPO], input=json.dumps(calls, ensure_ascii=False).encode(), stdout=subprocess.PIPE, stderr=subprocess.PIPE,
                       env=dict(os.environ, PYTHONHASHSEED=str(hashseed), TZ="UTC", PYTHONDONTWRITEBYTECODE="1"), timeout=600)
    try:
        return json.loads(p.stdout.decode().strip().splitlines()[-1])
    except Exception:  # noqa
        return [{"exc": "WORKER-CRASH", "stderr": p.stderr.decode()[-300:]}] * len(calls)


def _fresh(job):
    call, seed = job
    return run_worker([call], seed)[0]


def _hist(job):
    calls, seed = job
    return run_worker(calls, seed)


def site_of(call, hist):
    """coarse identification of the shared site a divergence belongs to (for the known-findings key)"""
    st = (call.get("kw") or {}).get("settings") or {}
    if "region" in (call.get("kw") or {}) or any("region" in (h.get("kw") or {}) for h in hist):
        return "loader pairs region locales with the wrong language / caches them under the wrong name"
    if call["fn"] == "search" or any(h["fn"] == "search" for h in hist):
        return "search writes RELATIVE_BASE / NORMALIZE / language detector on shared objects"
    return "locale lazy attributes built from the first caller's settings"


def run(ctx):
    tier = ctx["tier"]
    R = rng("c03")
    P = pool(R)
    import multiprocessing as mp
    with mp.get_context("fork").Pool(16) as mpool:
        fresh = mpool.map(_fresh, [(c, "0") for c in P], chunksize=2)
        nh = 120 if tier == "quick" else 2500
        hists = []
        for i in range(nh):
            k = R.randint(2, 10)
            idx = [R.randrange(len(P)) for _ in range(k)]
            seed = "0" if i % 6 else str(R.choice([1, 7, 42, 1234, 99999, 31337, 5, 2024]))
            hists.append((idx, seed))
        # targeted histories around every shared settings value: create a long-lived instance, make other calls that use the same
        # settings *value* (same registry key), then use the instance again
        by_key = collections.defaultdict(lambda: {"inst": [], "other": []})
        for i, c in enumerate(P):
            stv = (c.get("kw") or {}).get("settings")
            if stv is None:
                continue
            k = json.dumps(stv, sort_keys=True)
            (by_key[k]["inst"] if c["fn"] == "gdd_inst" else by_key[k]["other"]).append(i)
        for k, g in by_key.items():
            if not g["inst"] or not g["other"]:
                continue
            for o in g["other"]:
                for _ in range(1 if tier == "quick" else 4):
                    a, b = R.choice(g["inst"]), R.choice(g["inst"])
                    mid = [R.randrange(len(P)) for _ in range(R.randint(0, 2))]
                    hists.append(([a] + mid + [o] + [b], "0"))
        for g in getattr(pool, "groups", []):
            prs = [(a, b) for a in g for b in g if a != b and P[a]["kw"]["settings"]["SKIP_TOKENS"] != P[b]["kw"]["settings"]["SKIP_TOKENS"]]
            for a, b in (prs if tier != "quick" else R.sample(prs, 40)):
                hists.append(([a, b], "0"))
        rg = getattr(pool, "regional", [])
        for _ in range(60 if tier == "quick" else 1500):
            hists.append(([R.choice(rg) for _ in range(R.randint(2, 4))], "0"))
        nm = getattr(pool, "norms", [])
        for _ in range(80 if tier == "quick" else 1500):
            hists.append(([R.choice(nm) for _ in range(R.randint(2, 4))], "0"))
        od = getattr(pool, "ordered", [])
        for _ in range(60 if tier == "quick" else 1200):
            hists.append(([R.choice(od) for _ in range(R.randint(2, 4))], "0"))
        cg = getattr(pool, "calendars", [])
        for _ in range(24 if tier == "quick" else 400):
            hists.append(([R.choice(cg) for _ in range(R.randint(2, 4))], "0"))
        for i_ in getattr(pool, "hashy", []):
            for sd_ in ("1", "7", "42", "1234"):
                hists.append(([i_, i_], sd_))
        abg = getattr(pool, "abbrev", [])
        if abg:
            hists.append((abg, "0")); hists.append((abg[::-1] + abg, "0"))
        zg = getattr(pool, "zones", [])
        for _ in range(40 if tier == "quick" else 600):
            hists.append(([R.choice(zg) for _ in range(R.randint(2, 4))], "0"))
        tg = getattr(pool, "twins", [])
        for k_ in range(0, len(tg), 2):
            hists.append(([tg[k_], tg[k_ + 1]], "0")); hists.append(([tg[k_ + 1], tg[k_], tg[k_ + 1]], "0"))
        # a regional locale loaded first, then the plain language, then another regional locale of that language
        def _find(loc, s_):
            return next(i for i, c in enumerate(P) if c["fn"] == "gdd" and c["s"] == s_ and c["kw"].get("locales") == [loc])
        for r1, b_, r2 in (("en-CA", "en", "en-AU"), ("en-AU", "en", "en-CA"), ("de-CH", "de", "de-CH"), ("fr-CA", "fr", "fr-CA")):
            try:
                hists.append(([_find(r1, "02/03/2020"), _find(b_, "02/03/2020"), _find(r2, "02/03/2020"), _find(r1, "02/03/2020")], "0"))
            except StopIteration:
                pass
        for a in getattr(pool, "poison", []):
            for b in getattr(pool, "sensitive", []):
                hists.append(([a, b], "0"))
        hres = mpool.map(_hist, [([P[i] for i in idx], seed) for idx, seed in hists], chunksize=2)
        # fresh results under the other hash seeds too
        seeds = sorted({s for _, s in hists if s != "0"})
        fresh_seed = {}
        need = sorted({(i, s) for idx, s in hists if s != "0" for i in idx})
        fr = mpool.map(_fresh, [(P[i], s) for i, s in need], chunksize=2)
        for (i, s), r in zip(need, fr):
            fresh_seed[(i, s)] = r
    known = load_known("C03")
    viol = []
    kh = collections.Counter()
    ncalls = 0
    distinct = set()
    for (idx, seed), outs in zip(hists, hres):
        for pos, (i, o) in enumerate(zip(idx, outs)):
            ncalls += 1
            ref = fresh[i] if seed == "0" else fresh_seed[(i, seed)]
            if "ok" in o and o["ok"] is not None:
                distinct.add(i)
            why = None
            if o.get("args_modified"):
                why = "the call modified the settings dict / lists its caller passed"
            elif {k: v for k, v in o.items() if k != "stderr"} != {k: v for k, v in ref.items() if k != "stderr"}:
                why = "outcome after the history differs from the outcome in a fresh process"
            elif seed != "0" and {k: v for k, v in fresh[i].items()} != {k: v for k, v in ref.items()}:
                why = "outcome depends on PYTHONHASHSEED"
            if why:
                key = {"site": site_of(P[i], [P[j] for j in idx[:pos]])}
                if any(e.get("key") == key for e in known):
                    kh[key["site"]] += 1
                    continue
                viol.append({"why": why, "call": P[i], "fresh_process": ref, "after_history": o, "history": [P[j] for j in idx[:pos + 1]], "hashseed": seed})
    # shrink each violation's history to a minimal prefix-subsequence (greedy)
    out = []
    for j, v in enumerate(viol[:6]):
        h = v["history"]
        cur = h[:-1]
        changed = True
        while changed and len(cur) > 0:
            changed = False
            for k in range(len(cur)):
                cand = cur[:k] + cur[k + 1:]
                r = run_worker(cand + [v["call"]], v["hashseed"])[-1]
                if {a: b for a, b in r.items() if a != "stderr"} != {a: b for a, b in v["fresh_process"].items() if a != "stderr"}:
                    cur = cand; changed = True
                    break
        v["minimal_history"] = cur + [v["call"]]
        out.append({"replay": write_replay("C03", "history-%d" % j, {"property": "C03", "kind": "history dependence on the implementation", **v,
                    "rerun": "python harness/c03_worker.py /repo < (minimal_history as JSON); compare the last outcome with the call alone"})})
    # model tie: the Lean model of the Dictionary class caches (C03_cache_refine, C20_dict_getter) against the real class-level caches
    tie_stats = {}
    if "model-build" not in ctx["broken"]:
        from props import c03_tie
        from common import Model, pmap
        tm, tdom, tie_stats = c03_tie.run_tie(rng("c03-tie"), 400 if tier == "quick" else 12000, Model(), pmap)
        for j, dv in enumerate(tdom[:3]):
            out.append({"replay": write_replay("C03", "cache-history-%d" % j, {"property": "C03", "kind": "an access of the Dictionary class cache after a history of accesses does not return its fresh-state value", **dv,
                        "rerun": "harness/props/c03_tie.py probe(history)"})})
        tie_stats["model_drift"] = len(tm)
        if tm and not out and not ctx["broken"]:
            ctx["broken"]["correspondence"] = json.dumps(tm[:3], ensure_ascii=False, default=str)[:4000]
    cov = {"evaluations": ncalls + len(P) + len(need) + tie_stats.get("accesses", 0), "model_tie": tie_stats, "distinct_nontrivial": len(distinct),
           "rule": "histories of 2–10 calls drawn from a pool of %d calls (parse / DateDataParser / search_dates / calendars; settings variants incl. SKIP_TOKENS, NORMALIZE, DATE_ORDER, DEFAULT_LANGUAGES, PARSERS, CACHE_SIZE_LIMIT ∈ {0,1,2,1000}; failing calls), one interpreter per history; each call compared with the same call alone in a fresh interpreter; 1 in 6 histories under another PYTHONHASHSEED; non-trivial = distinct pool calls that returned a value inside a history" % len(P),
           "samples": [{"history": [{"fn": P[i]["fn"], "s": P[i]["s"], "kw": P[i].get("kw")} for i in idx][:4], "hashseed": seed} for idx, seed in hists[:3]],
           "histories": len(hists), "pool": len(P), "calls_compared": ncalls, "history_violations": len(viol), "hash_seeds": seeds}
    return {"violations": out, "known": ["%s (x%d)" % (k, n) for k, n in kh.items()], "coverage": cov, "level": "proof",
            "assumptions": ["md5 of the settings rendering is injective on the settings values used (registry keys)", "default-settings calls use complete absolute dates (clock-free)"]}
