"""C01 — standard absolute date/time formats round-trip exactly; epoch numbers parse to exactly that instant."""
import calendar
import datetime as dt
import itertools

import pytz

from common import D, rng
from props.base import decide, expect_str
from render import family

PREF_DAY = ["current", "first", "last"]
PREF_MON = ["current", "first", "last"]
PREF_FROM = ["current_period", "past", "future"]
FIXED = [("UTC", 0), ("+0530", 19800), ("-0800", -28800), ("UTC+5:45", 20700), ("-0330", -12600), ("+1000", 36000), ("AEST", 36000)]
IANA = ["Europe/Paris", "America/New_York", "Asia/Kolkata", "Australia/Lord_Howe", "Asia/Kathmandu", "America/St_Johns", "Pacific/Apia",
        "Africa/Casablanca", "America/Sao_Paulo", "Europe/Moscow"]


def dates(R, n):
    out = []
    years = [1, 2, 99, 100, 999, 1000, 1582, 1900, 1969, 1970, 2000, 2024, 2038, 9999]
    times = [(0, 0, 0, 0), (11, 59, 59, 999999), (12, 0, 0, 1), (12, 59, 0, 100000), (23, 59, 59, 999999), (0, 30, 7, 123456), (9, 5, 3, 4000)]
    for y in years:
        for (m, d) in [(1, 1), (2, 28), (2, 29), (3, 31), (12, 31), (7, 4), (10, 10)]:
            if d > calendar.monthrange(y, m)[1]:
                continue
            out.append(D(y, m, d, *R.choice(times)))
    while len(out) < n:
        y = R.choice([R.randint(1, 99), R.randint(100, 999), R.randint(1000, 9999)])
        m = R.randint(1, 12)
        d = R.randint(1, calendar.monthrange(y, m)[1])
        t = R.choice(times) if R.random() < 0.4 else (R.randint(0, 23), R.randint(0, 59), R.randint(0, 59), R.choice([0, R.randint(0, 999999), R.randint(0, 999) * 1000]))
        out.append(D(y, m, d, *t))
    return out


def run(ctx):
    tier = ctx["tier"]
    R = rng("c01")
    n = 160 if tier == "quick" else 2500
    bases = [D(2020, 2, 29, 12, 30), D(2021, 8, 31, 13, 7), D(1999, 12, 31, 23, 59, 59), D(2033, 5, 5, 5, 5)]
    prefs = list(itertools.product(PREF_DAY, PREF_MON, PREF_FROM))
    cases = []
    for d in dates(R, n):
        for name, s, exp in family(d):
            pd, pm, pf = R.choice(prefs)
            st = {"RELATIVE_BASE": R.choice(bases), "PREFER_DAY_OF_MONTH": pd, "PREFER_MONTH_OF_YEAR": pm, "PREFER_DATES_FROM": pf, "TIMEZONE": "UTC"}
            aware = name == "rfc2822-z"
            c = {"s": s, "settings": st, "expect": expect_str(exp, off="0" if aware else "naive"), "stratum": name}
            if R.random() < (0.04 if tier == "quick" else 0.02):
                c["auto"] = True
            else:
                c["langs"] = ["en"]
            cases.append(c)
    # epoch numbers
    ne = 400 if tier == "quick" else 8000
    for _ in range(ne):
        secs = R.choice([10 ** 9, 10 ** 10 - 1, 1234567890, 2 ** 31 - 1, 2 ** 31]) if R.random() < 0.1 else R.randint(10 ** 9, 10 ** 10 - 1)
        kind = R.choice(["s", "ms", "us"])
        ms, us = (R.randint(0, 999) if kind != "s" else 0), (R.randint(0, 999) if kind == "us" else 0)
        neg = R.random() < 0.25
        s = ("-" if neg else "") + str(secs) + ("%03d" % ms if kind != "s" else "") + ("%03d" % us if kind == "us" else "")
        val = -secs if neg else secs
        if R.random() < 0.6:
            tzname, off = R.choice(FIXED)
            iana = False
        else:
            tzname = R.choice(IANA); iana = True
        try:
            inst = dt.datetime(1970, 1, 1, tzinfo=dt.timezone.utc) + dt.timedelta(seconds=val)
        except OverflowError:
            continue
        if iana:
            wall = inst.astimezone(pytz.timezone(tzname)).replace(tzinfo=None)
        else:
            wall = (inst + dt.timedelta(seconds=off)).replace(tzinfo=None)
        wall = wall.replace(microsecond=ms * 1000 + us)
        st = {"RELATIVE_BASE": bases[0], "TIMEZONE": tzname}
        parsers = ["timestamp", "negative-timestamp", "relative-time", "absolute-time"] if neg else None
        if parsers:
            st["PARSERS"] = parsers
        cases.append({"s": s, "langs": ["en"], "settings": st, "expect": expect_str(wall), "stratum": "epoch-%s%s/%s" % (kind, "-neg" if neg else "", "iana" if iana else "fixed")})
    # epoch numbers whose instant falls in the repeated hour of a DST change of the configured zone: the instant is unambiguous, so
    # the aware result / the result re-expressed through TO_TIMEZONE must be exactly that instant (both occurrences of the hour)
    for tzname, y, mo, d, h in [("Europe/Paris", 2020, 10, 25, 0), ("Europe/Paris", 2020, 10, 25, 1), ("America/New_York", 2021, 11, 7, 5), ("America/New_York", 2021, 11, 7, 6),
                                ("Australia/Lord_Howe", 2022, 4, 2, 15), ("Europe/London", 2015, 10, 25, 0), ("Europe/London", 2015, 10, 25, 1)]:
        for mi in ([30] if tier == "quick" else [0, 15, 30, 59]):
            inst = dt.datetime(y, mo, d, h, mi, tzinfo=dt.timezone.utc)
            secs = int(inst.timestamp())
            loc = inst.astimezone(pytz.timezone(tzname))
            cases.append({"s": str(secs), "langs": ["en"], "settings": {"RELATIVE_BASE": bases[0], "TIMEZONE": tzname, "RETURN_AS_TIMEZONE_AWARE": True},
                          "expect": expect_str(loc.replace(tzinfo=None), off=str(int(loc.utcoffset().total_seconds()))), "stratum": "epoch-fold/aware"})
            cases.append({"s": str(secs), "langs": ["en"], "settings": {"RELATIVE_BASE": bases[0], "TIMEZONE": tzname, "TO_TIMEZONE": "UTC"},
                          "expect": expect_str(inst.replace(tzinfo=None)), "stratum": "epoch-fold/to-utc"})
            cases.append({"s": str(secs), "langs": ["en"], "settings": {"RELATIVE_BASE": bases[0], "TIMEZONE": tzname},
                          "expect": expect_str(loc.replace(tzinfo=None)), "stratum": "epoch-fold/naive"})
    # every name of the tz database as TIMEZONE (not only the common ones): names that contain one of the library's abbreviations (Etc/GMT+5,
    # Australia/ACT, EST5EDT, CET …) must still mean the tz database's zone; one instant in January and one in July
    tricky = ["CET", "EET", "MET", "WET", "EST5EDT", "CST6CDT", "MST7MDT", "PST8PDT", "Etc/GMT+5", "Etc/GMT-3", "Etc/GMT-14", "Etc/GMT+12", "Australia/ACT", "Australia/West",
              "Brazil/East", "Brazil/West", "US/East-Indiana", "Etc/UTC", "GB", "NZ", "ROK", "Navajo"]
    names = sorted(pytz.all_timezones) if tier != "quick" else tricky + R.sample(sorted(pytz.all_timezones), 40)
    for tzname in names:
        for inst in (dt.datetime(2020, 1, 15, 12, 0, tzinfo=dt.timezone.utc), dt.datetime(2008, 7, 2, 12, 0, tzinfo=dt.timezone.utc)):
            secs = int(inst.timestamp())
            loc = inst.astimezone(pytz.timezone(tzname))
            cases.append({"s": str(secs) + "263", "langs": ["en"], "settings": {"RELATIVE_BASE": bases[0], "TIMEZONE": tzname},
                          "expect": expect_str(loc.replace(tzinfo=None, microsecond=263000)), "stratum": "epoch/every-tz-database-name"})
    res = decide(ctx, cases, model_share=1.0)
    res["assumptions"] = ["IANA zones for the epoch form: the model is parametric (cases reported as rejected 'iana'); pytz is the oracle",
                          "the English string→token glue (sanitize, translate, tokenizer classification) is modelled and validated by the model tie on every sampled date"]
    return res
