"""C04 — relative expressions are exact calendar arithmetic on the base."""
import calendar
import datetime as dt
import itertools

import pytz

from common import D, lib_gdd, pmap, rng, write_replay
from props.base import decide, expect_str

UNITS = ["second", "minute", "hour", "day", "week", "month", "year", "decade"]
LIN = {"second": 1, "minute": 60, "hour": 3600, "day": 86400, "week": 604800}


def shift(b, sign, counts):
    """own arithmetic: months (years, decades folded in) with clamp first, then the linear part; None when out of range"""
    months = counts.get("month", 0) + 12 * counts.get("year", 0) + 120 * counts.get("decade", 0)
    idx = b.year * 12 + b.month - 1 + sign * months
    y, m = divmod(idx, 12)
    m += 1
    if not (1 <= y <= 9999):
        return None
    d = min(b.day, calendar.monthrange(y, m)[1])
    try:
        t = b.replace(year=y, month=m, day=d)
        secs = sum(LIN[u] * counts.get(u, 0) for u in LIN)
        return t + dt.timedelta(seconds=sign * secs)
    except (OverflowError, ValueError):
        return None


def period_of(counts):
    if "day" in counts:
        return "day"
    for u in ("week", "month"):
        if u in counts:
            return u
    if "year" in counts or "decade" in counts:
        return "year"
    return "day"


def phrase(R, counts, sign):
    parts = ["%d %s%s" % (n, u, "" if n == 1 else "s") for u, n in counts.items()]
    body = R.choice([" ", ", ", " and "] if len(parts) > 1 else [" "]).join(parts) if len(parts) > 1 else parts[0]
    return ("in " + body) if sign > 0 else (body + " ago")


def run(ctx):
    tier = ctx["tier"]
    R = rng("c04")
    bases = [D(2020, 2, 29, 12, 30, 15), D(2021, 8, 31, 13, 7), D(2021, 12, 31, 23, 59, 59, 999999), D(2023, 1, 31), D(2000, 3, 31, 0, 0),
             D(1800, 1, 1), D(2200, 12, 31, 23, 59), D(2024, 3, 30, 6), D(2019, 10, 31, 18, 45)]
    nb = 6 if tier == "quick" else 60
    for _ in range(nb):
        y = R.randint(1800, 2200); m = R.randint(1, 12)
        bases.append(D(y, m, R.choice([1, 28, calendar.monthrange(y, m)[1]]), R.randint(0, 23), R.randint(0, 59), R.randint(0, 59)))
    ns = [0, 1, 2, 11, 12, 13, 45, 120, 365, 1000, 5000]
    cases = []
    for b in bases:
        st0 = {"RELATIVE_BASE": b, "TIMEZONE": "UTC"}
        for u in UNITS:
            for n in (ns if tier != "quick" else R.sample(ns, 5) + [1]):
                for sign in (1, -1):
                    c = {u: n}
                    exp = shift(b, sign, c)
                    per = period_of(c)
                    tap = R.random() < 0.15
                    st = dict(st0, RETURN_TIME_AS_PERIOD=True) if tap else st0
                    cases.append({"s": phrase(R, c, sign), "langs": ["en"], "settings": st, "expect": None if exp is None else expect_str(exp, period=per),
                                  "stratum": "single/%s/%s" % (u, "in" if sign > 0 else "ago")})
        # two and three units
        combos = list(itertools.combinations(UNITS, 2)) + list(itertools.combinations(UNITS, 3))
        for us in (combos if tier != "quick" else R.sample(combos, 10)):
            c = {u: R.choice([1, 2, 3, 7, 13, 40]) for u in us}
            if "decade" in c and "year" in c and R.random() < 0.5:
                pass
            sign = R.choice([1, -1])
            exp = shift(b, sign, c)
            cases.append({"s": phrase(R, c, sign), "langs": ["en"], "settings": st0, "expect": None if exp is None else expect_str(exp, period=period_of(c)),
                          "stratum": "multi/%d" % len(us)})
        # words
        W = [("now", 1, {}), ("today", 1, {}), ("yesterday", -1, {"day": 1}), ("tomorrow", 1, {"day": 1}),
             ("last week", -1, {"week": 1}), ("next week", 1, {"week": 1}), ("last month", -1, {"month": 1}), ("next month", 1, {"month": 1}),
             ("last year", -1, {"year": 1}), ("next year", 1, {"year": 1})]
        for w, sign, c in W:
            exp = shift(b, sign, c)
            cases.append({"s": w, "langs": ["en"], "settings": st0, "expect": None if exp is None else expect_str(exp, period=period_of(c)), "stratum": "word"})
        # explicit clock time replaces the time of day
        for _ in range(3 if tier == "quick" else 12):
            u = R.choice(["day", "week", "month", "year"]); n = R.randint(1, 30); sign = R.choice([1, -1])
            hh, mi = R.randint(0, 23), R.randint(0, 59)
            if R.random() < 0.3:
                hh, mi = b.hour, b.minute      # the clock time written in the phrase is the base's own time of day
            exp = shift(b, sign, {u: n})
            tap = R.random() < 0.5
            st = dict(st0, RETURN_TIME_AS_PERIOD=True) if tap else st0
            if exp is not None:
                exp2 = exp.replace(hour=hh, minute=mi, second=0, microsecond=0)
                per = "time" if tap else period_of({u: n})      # the phrase carries a clock time: 'time' whenever time-as-period is requested
                cases.append({"s": phrase(R, {u: n}, sign) + " %02d:%02d" % (hh, mi), "langs": ["en"], "settings": st,
                              "expect": expect_str(exp2, period=per), "stratum": "time-override"})
        # direction without 'in'/'ago'
        for pf in ("past", "future", "current_period"):
            n = R.randint(1, 20); u = R.choice(["day", "hour", "month"])
            sign = 1 if pf == "future" else -1
            exp = shift(b, sign, {u: n})
            cases.append({"s": "%d %s%s" % (n, u, "" if n == 1 else "s"), "langs": ["en"], "settings": dict(st0, PREFER_DATES_FROM=pf),
                          "expect": None if exp is None else expect_str(exp, period=period_of({u: n})), "stratum": "bare/" + pf})
        # decimals that are exact in binary (sub-day units)
        for _ in range(2 if tier == "quick" else 10):
            u = R.choice(["hour", "minute", "second"]); n = R.choice([0.5, 1.5, 2.25, 10.75, 3.125]); sign = R.choice([1, -1])
            exp = b + dt.timedelta(seconds=sign * n * LIN[u])
            s = ("in %s %ss" % (str(n).replace(".", R.choice([".", ","])), u)) if sign > 0 else ("%s %ss ago" % (n, u))
            cases.append({"s": s, "langs": ["en"], "settings": st0, "expect": expect_str(exp, period="day"), "stratum": "decimal"})
        # decimals in one unit of a two-unit phrase (several units add up; both decimal marks the relative patterns accept, both directions)
        for _ in range(2 if tier == "quick" else 10):
            u1, u2 = R.choice([("hour", "minute"), ("minute", "second"), ("hour", "second")])
            n1 = R.choice([0.5, 1.5, 2.25, 10.75]); n2 = R.randint(2, 50); sign = R.choice([1, -1]); mark = R.choice([".", ","])
            first = R.random() < 0.7          # which unit carries the decimal
            a, b_ = (str(n1).replace(".", mark), str(n2)) if first else (str(n2), str(n1).replace(".", mark))
            secs = (n1 * LIN[u1] + n2 * LIN[u2]) if first else (n2 * LIN[u1] + n1 * LIN[u2])
            body = "%s %ss %s %ss" % (a, u1, b_, u2)
            s = ("in " + body) if sign > 0 else (body + " ago")
            cases.append({"s": s, "langs": ["en"], "settings": st0, "expect": expect_str(b + dt.timedelta(seconds=sign * secs), period="day"),
                          "stratum": "decimal-multi", "_dm": (mark, first, sign),
                          # what the recorded defect yields: the digits after the comma read as the count
                          "_dm_wrong": expect_str(b + dt.timedelta(seconds=sign * ((int(str(n1).split(".")[1]) * LIN[u1] + n2 * LIN[u2]) if first
                                                                                     else (n2 * LIN[u1] + int(str(n1).split(".")[1]) * LIN[u2]))), period="day")})
    # range ends: the answer must be None
    for b, s in [(D(1, 1, 2), "3 days ago"), (D(9999, 12, 30), "in 2 days"), (D(5, 1, 1), "1 decade ago"), (D(9990, 6, 1), "in 10 years"), (D(9999, 1, 31), "in 12 months")]:
        cases.append({"s": s, "langs": ["en"], "settings": {"RELATIVE_BASE": b, "TIMEZONE": "UTC"}, "expect": None, "stratum": "overflow"})

    def known_key(c, got):
        # recorded defect: ',' is dropped when the phrase is split into words, so a decimal comma survives only in the count that the
        # locale's relative pattern matches together with the direction word ('in N unit' = the first count, 'N unit ago' = the last);
        # in any other position '1,5 hours' is read as '1 5 hours' = 5 hours.  The finding covers exactly that reading.
        dm = c.get("_dm")
        if dm and dm[0] == "," and ((dm[2] < 0 and dm[1]) or (dm[2] > 0 and not dm[1])) and isinstance(got, str) and got.startswith(c["_dm_wrong"]):
            return {"rule": "decimal comma in a count that is not adjacent to the direction word of a multi-unit relative phrase"}
        return None
    res = decide(ctx, cases, model_share=1.0, known_key=known_key)
    # implicit now: base is the current instant expressed in TIMEZONE, then TO_TIMEZONE (bracketed clock)
    zones = ["UTC", "+0530", "-0800", "Europe/Paris", "America/New_York", "Asia/Kolkata", "Australia/Lord_Howe", "Asia/Tokyo"]
    pairs = [(a, b2) for a in zones for b2 in [None] + zones]
    if tier == "quick":
        pairs = R.sample(pairs, 16)
    nowv = []

    def tzobj(n):
        if n in ("+0530",):
            return dt.timezone(dt.timedelta(minutes=330))
        if n == "-0800":
            return dt.timezone(dt.timedelta(hours=-8))
        return pytz.timezone(n)
    for a, b2 in pairs:
        st = {"TIMEZONE": a}
        if b2:
            st["TO_TIMEZONE"] = b2
        t0 = dt.datetime.now(dt.timezone.utc)
        r = lib_gdd({"s": "2 hours ago", "langs": ["en"], "settings": st})
        t1 = dt.datetime.now(dt.timezone.utc)
        z = tzobj(b2 or a)
        lo = (t0 - dt.timedelta(hours=2)).astimezone(z).replace(tzinfo=None)
        hi = (t1 - dt.timedelta(hours=2)).astimezone(z).replace(tzinfo=None)
        got = r.get("r")
        ok = False
        if got:
            g = dt.datetime.strptime(got.split("|")[0], "%Y-%m-%d %H:%M:%S.%f")
            ok = lo - dt.timedelta(milliseconds=1) <= g <= hi + dt.timedelta(milliseconds=1) and got.split("|")[1] == "naive"
        if not ok:
            nowv.append({"s": "2 hours ago", "settings": st, "expected_between": [str(lo), str(hi)], "observed": got or r})
    # implicit now under a controlled clock: instants around DST changes of the TIMEZONE zone, including the *first* occurrence of the repeated
    # hour (where the zone's wall clock alone does not determine the instant); clock units are elapsed time from the current instant
    from common import pmap, lib_gdd as _gdd
    ck_cases = []
    for zn, clocks in (("Europe/Paris", [D(2020, 10, 25, 0, 30), D(2020, 10, 25, 1, 30), D(2020, 10, 24, 23, 45), D(2020, 3, 29, 0, 30), D(2020, 3, 29, 1, 15), D(2020, 7, 1, 12, 0)]),
                       ("America/New_York", [D(2021, 11, 7, 5, 30), D(2021, 11, 7, 6, 30), D(2021, 3, 14, 6, 30), D(2021, 3, 14, 7, 5)]),
                       ("Australia/Lord_Howe", [D(2022, 4, 2, 14, 45), D(2022, 4, 2, 15, 15)])):
        z = pytz.timezone(zn)
        for ck in clocks:
            inst = ck.replace(tzinfo=dt.timezone.utc)
            for ph, secs in (("in 1 hour", 3600), ("1 hour ago", -3600), ("30 minutes ago", -1800), ("in 90 minutes", 5400), ("in 45 seconds", 45), ("in 3 hours", 10800), ("2 hours ago", -7200)):
                for b2 in (None, "UTC", "+0530"):
                    x = (inst + dt.timedelta(seconds=secs)).astimezone(tzobj(b2) if b2 else z)
                    st = {"TIMEZONE": zn}
                    if b2:
                        st["TO_TIMEZONE"] = b2
                    ck_cases.append({"s": ph, "langs": ["en"], "settings": st, "clock": ck, "expect": expect_str(x.replace(tzinfo=None), period="day")})
    ck_res = pmap(_gdd, [{k: v for k, v in c.items() if k != "expect"} for c in ck_cases], force=True)
    from props.base import strip_locale
    for c, r in zip(ck_cases, ck_res):
        got = r.get("r") if "r" in r else "ERR:" + str(r.get("e"))
        if (strip_locale(got) if got and not got.startswith("ERR:") else got) != c["expect"]:
            nowv.append({"s": c["s"], "settings": c["settings"], "system_clock_utc": str(c["clock"]), "expected": c["expect"], "observed": got})
    res["coverage"]["implicit_now_controlled_clock_cases"] = len(ck_cases)
    res["coverage"]["evaluations"] += len(ck_cases)
    for j, v in enumerate(nowv[:5]):
        res["violations"].append({"replay": write_replay("C04", "now-%d" % j, {"property": "C04", "kind": "implicit now is not the current instant in TIMEZONE/TO_TIMEZONE", **v})})
    res["coverage"]["implicit_now_pairs"] = len(pairs)
    res["coverage"]["evaluations"] += len(pairs)
    res["assumptions"] = ["decimal counts: only values exact in binary are checked against exact arithmetic (Python float rounding is not modelled) — partial",
                          "implicit now: the clock is read before and after each call and the result must lie in between; IANA zones use pytz as oracle"]
    return res
