"""C08 — missing day/month are completed exactly as configured; period is truthful."""
import calendar

from common import D, rng
from props.base import decide, expect_str

MONTHS = [calendar.month_name[i] for i in range(1, 13)]


def clamp(y, m, d):
    return min(d, calendar.monthrange(y, m)[1])


def day_for(pref, y, m, refday):
    return {"first": 1, "last": calendar.monthrange(y, m)[1], "current": clamp(y, m, refday)}[pref]


def run(ctx):
    tier = ctx["tier"]
    R = rng("c08")
    years = [1, 4, 100, 400, 1900, 2000, 2023, 2024, 9999] + [R.randint(1000, 9998) for _ in range(4 if tier == "quick" else 40)]
    refs = [D(2021, 1, 31, 10, 0), D(2020, 2, 29, 0, 0), D(2023, 3, 30), D(2022, 12, 1), D(2019, 8, 28, 23, 59)]
    if tier != "quick":
        refs += [D(2024, m, d) for m in (1, 5, 10) for d in (29, 30, 31) if d <= calendar.monthrange(2024, m)[1]]
    prefs = ["current", "first", "last"]
    today = D.today().replace(hour=12, minute=0, second=0, microsecond=0)
    cases = []
    for y in years:
        ys = "%04d" % y
        for ref in refs:
            for pd in prefs:
                for pm in prefs:
                    st = {"RELATIVE_BASE": ref, "PREFER_DAY_OF_MONTH": pd, "PREFER_MONTH_OF_YEAR": pm, "TIMEZONE": "UTC"}
                    months = range(1, 13) if (tier != "quick" or y in (1900, 2000, 2023, 2024)) else [2, R.randint(1, 12)]
                    for m in months:
                        # month + year (absolute parser)
                        if y >= 1000:
                            d = day_for(pd, y, m, ref.day)
                            cases.append({"s": "%s %s" % (MONTHS[m - 1], ys), "langs": ["en"], "settings": st,
                                          "expect": expect_str(D(y, m, d), period="month"), "stratum": "month-year/abs"})
                        # custom format (its 'current' day comes from the system clock)
                        dcf = day_for(pd, y, m, today.day)
                        cases.append({"s": "%s %s" % (MONTHS[m - 1], ys), "langs": ["en"], "settings": st, "fmts": ["%B %Y"], "today": today,
                                      "expect": expect_str(D(y, m, dcf), period="month"), "stratum": "month-year/format"})
                    # year only
                    if y >= 1000:
                        mm = {"first": 1, "last": 12, "current": ref.month}[pm]
                        d = day_for(pd, y, mm, ref.day)
                        cases.append({"s": ys, "langs": ["en"], "settings": st, "expect": expect_str(D(y, mm, d), period="year"), "stratum": "year/abs"})
                    mm = {"first": 1, "last": 12, "current": today.month}[pm]
                    cases.append({"s": ys, "langs": ["en"], "settings": st, "fmts": ["%Y"], "today": today,
                                  "expect": expect_str(D(y, mm, day_for(pd, y, mm, today.day)), period="year"), "stratum": "year/format"})
                    # full date: preferences irrelevant
                    m = R.randint(1, 12); d = R.randint(1, calendar.monthrange(y, m)[1])
                    cases.append({"s": "%s-%02d-%02d" % (ys, m, d), "langs": ["en"], "settings": st,
                                  "expect": expect_str(D(y, m, d), period="day"), "stratum": "full/abs"})
                    cases.append({"s": "%d %s %s 10:30" % (d, MONTHS[m - 1], ys), "langs": ["en"], "settings": dict(st, RETURN_TIME_AS_PERIOD=True),
                                  "expect": expect_str(D(y, m, d, 10, 30), period="time"), "stratum": "full+time/abs"})
    # the custom-format parser reads the system clock for what a format does not state: run those cases under a controlled clock (today at noon),
    # so that a run which crosses midnight cannot disagree with the expectation computed at its start
    for c_ in cases:
        if "today" in c_ and c_.get("clock") is None:
            c_["clock"] = c_["today"]
    res = decide(ctx, cases, model_share=1.0)
    res["assumptions"] = ["the system clock does not cross midnight during the run (custom-format 'current' day)",
                          "English month names are translated to themselves by the `en` locale (checked by the model tie)"]
    return res
