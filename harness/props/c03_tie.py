"""Model tie for the `Dictionary` class caches (Lean: DPModel/DP/Shared.lean `getCached`, theorems C03_cache_refine / C20_dict_getter).

A history is a list of accesses (settings key, locale) with a CACHE_SIZE_LIMIT per settings key.  The library side performs each access with
a real `Dictionary` getter on the real class-level cache and records what came back (identified by the (settings key, locale) whose fresh-state value it
equals, or KeyError) and the key order of the cache; the driver's `dcache` op answers the same for the model."""
import json

LOCS = ["en", "fr", "ru", "fi", "fr-CA", "en-AU", "pt-PT"]      # regional locales have entries of their own (the key is the locale name)
GETTERS = [("_get_sorted_words_from_cache", "_sorted_words_cache"), ("_get_match_relative_regex_cache", "_match_relative_regex_cache"),
           ("_get_split_regex_cache", "_split_regex_cache")]


def gen(R, n):
    out = []
    for i in range(n):
        nk = R.randint(1, 4)
        limits = [[k, R.choice([0, 1, 1, 2, 2, 3, 1000])] for k in range(1, nk + 1)]
        ops = [[R.randint(1, nk), R.randrange(len(LOCS))] for _ in range(R.randint(2, 14))]
        out.append({"limits": limits, "ops": ops, "getter": i % len(GETTERS)})
    return out


def probe(job):
    """library side (runs in a forked worker)"""
    from dateparser.conf import settings as default
    from dateparser.languages.dictionary import Dictionary
    from dateparser.languages.loader import default_loader
    gname, cname = GETTERS[job["getter"]]
    caches = [getattr(Dictionary, c) for _, c in GETTERS] + [Dictionary._sorted_relative_strings_cache, Dictionary._split_relative_regex_cache]
    saved = [dict(c) for c in caches]
    try:
        infos = [default_loader.get_locale(n).info for n in LOCS]

        def val(x):
            return x.pattern if hasattr(x, "pattern") else list(x)
        S = {k: default.replace(CACHE_SIZE_LIMIT=lim, SKIP_TOKENS=["key%d" % k]) for k, lim in job["limits"]}
        ref = {}
        for k in S:          # the value in a fresh state, per settings key and locale
            for l, info in enumerate(infos):
                for c in caches:
                    c.clear()
                ref[(k, l)] = val(getattr(Dictionary(info, S[k]), gname)())
        for c in caches:
            c.clear()
        idx = {S[k].registry_key: k for k in S}
        cache = getattr(Dictionary, cname)
        steps = []
        for k, l in job["ops"]:
            d = Dictionary(infos[l], S[k])
            try:
                v = val(getattr(d, gname)())
                out = [list(x) for x in ref if ref[x] == v]
                out = ([k, l] if [k, l] in out else out[0]) if out else "other"
            except KeyError:
                out = "KeyError"
            except Exception as e:  # noqa
                out = "EXC:" + type(e).__name__
            steps.append({"out": out, "order": [idx.get(x, -1) for x in cache]})
        return {"steps": steps}
    finally:
        for c, s in zip(caches, saved):
            c.clear(); c.update(s)


def run_tie(R, n, model, pmap):
    jobs = gen(R, n)
    lib = pmap(probe, jobs, chunksize=8)
    mod = model.run([{"op": "dcache", "limits": j["limits"], "ops": j["ops"]} for j in jobs])
    mism, domain = [], []
    stats = {"histories": len(jobs), "accesses": sum(len(j["ops"]) for j in jobs), "evictions_seen": 0, "limits": {}}
    for j, a, m in zip(jobs, lib, mod):
        for _, lim in j["limits"]:
            stats["limits"][str(lim)] = stats["limits"].get(str(lim), 0) + 1
        prev = []
        for (k, l), sa, sm in zip(j["ops"], a["steps"], m.get("steps", [])):
            if len(sa["order"]) < len(prev) + (0 if k in prev else 1):
                stats["evictions_seen"] += 1
            prev = sa["order"]
            if sa["out"] != [k, l]:   # the property itself: the access must return the fresh-state value of its own settings and locale
                domain.append({"history": j, "step": [k, l], "returned": sa["out"]})
            if sm["out"] != sa["out"] or sm["order"] != sa["order"]:
                mism.append({"layer": "dictionary-cache", "history": j, "getter": GETTERS[j["getter"]][0], "step": [k, l], "lib": sa, "model": sm})
                break
        if len(m.get("steps", [])) != len(a["steps"]):
            mism.append({"layer": "dictionary-cache", "history": j, "lib": a, "model": m})
    return mism, domain, stats
