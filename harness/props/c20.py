"""C20 — concurrent calls return what the same calls return sequentially: exhaustive single-preemption exploration.

For every pair (A, B) of the pool and both roles, A is preempted once at every executed library line (a real second thread runs B to
completion while A is parked), in a warm process; plus preemptions at sampled lines in *cold* processes (cache-building paths)."""
import collections
import json
import os
import subprocess
import sys

from common import D, REPO, VERIF, rng, write_replay, load_known

WORKER = os.path.join(VERIF, "harness", "c20_worker.py")
B1 = {"__dt__": D(2020, 5, 17, 12, 0).isoformat()}
B2 = {"__dt__": D(2001, 7, 15, 8, 30).isoformat()}


def call(s, langs, **st):
    st = dict(st); st.setdefault("RELATIVE_BASE", B1)
    return {"fn": "parse", "s": s, "kw": {"languages": langs, "settings": st}}


def pairs(tier):
    P = []
    # same configuration (settings value's DATE_ORDER is the locales' own order)
    P.append(("same-config", call("02/03/2015 10:30", ["en"]), call("March 5, 2014", ["en"])))
    P.append(("same-config", call("2 days ago", ["en"]), call("02/03/2015", ["en"])))
    P.append(("same-config", call("02/03/2015", ["fr"], DATE_ORDER="DMY"), call("le 5 mars 2014", ["fr"], DATE_ORDER="DMY")))
    # differing only in settings no shared code reads
    P.append(("benign-settings", call("02/03/2015 10:30", ["en"], TIMEZONE="UTC"), call("02/03/2015 10:30", ["en"], TIMEZONE="+0530", RETURN_AS_TIMEZONE_AWARE=True)))
    P.append(("benign-settings", call("March 2015", ["en"], PREFER_DAY_OF_MONTH="first"), call("March 2015", ["en"], PREFER_DAY_OF_MONTH="last", PREFER_DATES_FROM="past")))
    P.append(("same-config", call("March 5, 2014", ["en"]), call("an hour ago", ["en"])))      # B needs one of the locale's simplifications
    P.append(("same-config", call("March 5, 2014", ["en"]), call("in 2 weeks", ["en"])))       # B needs one of the locale's counted relative patterns
    # differing only in the reference instant (relative phrases, incomplete dates), or in a zone word the string itself carries
    P.append(("benign-settings", call("2 days ago", ["en"]), call("3 weeks ago", ["en"], RELATIVE_BASE=B2)))
    P.append(("benign-settings", call("March", ["en"], PREFER_DATES_FROM="past"), call("Friday 10:30", ["en"], RELATIVE_BASE=B2, PREFER_DATES_FROM="past")))
    P.append(("same-config", call("1 hour ago EST", ["en"]), call("in 1 hour", ["en"])))
    # a small CACHE_SIZE_LIMIT (changes neither vocabulary nor date order): the class-level dictionary caches evict while the other call reads
    P.append(("benign-settings", call("12 March 2015 10:30", ["en"], CACHE_SIZE_LIMIT=1), call("5 March 2014", ["en"], CACHE_SIZE_LIMIT=1, PREFER_DATES_FROM="past")))
    # differing in language / date order, SKIP_TOKENS, NORMALIZE
    P.append(("date-order", call("02/03/2015", ["fr"]), call("02/03/2015", ["en"])))
    # no settings argument at all: both calls run on the process-wide default Settings object (no re-initialisation on entry), complete absolute
    # dates so that no reference time is needed; a locale with a day-first order next to English, in both roles
    nos = lambda s_, l_: {"fn": "parse", "s": s_, "kw": {"languages": l_}}  # noqa
    P.append(("date-order", nos("02/03/2015", ["fr"]), nos("02/03/2015", ["en"])))
    P.append(("date-order", nos("10/11/2012 10:30", ["en"]), nos("03.04.2021", ["de"])))
    P.append(("date-order", nos("02/03/2015", ["fr"]), nos("02/03/2015", ["tl"])))      # Tagalog: the one language without an order of its own
    P.append(("date-order", call("02/03/2015", ["fr"]), call("04/05/2016", ["fr"])))
    P.append(("skip-tokens", call("02 de 03 2015", ["en"], SKIP_TOKENS=["de"]), call("02 de 03 2015", ["en"], SKIP_TOKENS=["t"])))
    if tier != "quick":
        P.append(("same-config", call("yesterday", ["en"]), call("in 2 weeks", ["en"])))
        P.append(("same-config", {"fn": "search", "s": "on 4 October 1957 at 10:30", "kw": {"languages": ["en"], "settings": {"RELATIVE_BASE": B1}}}, call("02/03/2015", ["en"])))
        P.append(("date-order", call("02/03/2015", ["fr"]), call("02/03/2015", ["tl"])))
        P.append(("normalize", call("1 décembre 2015", ["fr"], NORMALIZE=True), call("1 décembre 2015", ["fr"], NORMALIZE=False)))
        P.append(("benign-settings", call("Monday", ["en"], PREFER_DATES_FROM="future"), call("Monday", ["en"], PREFER_DATES_FROM="past")))
    return P


def run_job(job):
    p = subprocess.run([sys.executable, WORKER, REPO], input=json.dumps(job).encode(), stdout=subprocess.PIPE, stderr=subprocess.PIPE,
                       env=dict(os.environ, TZ="UTC", PYTHONDONTWRITEBYTECODE="1", PYTHONHASHSEED="0"), timeout=3000)
    try:
        return json.loads(p.stdout.decode().strip().splitlines()[-1])
    except Exception:  # noqa
        return {"error": p.stderr.decode()[-500:]}


def run(ctx):
    tier = ctx["tier"]
    R = rng("c20")
    P = pairs(tier)
    jobs = []
    meta = []
    PARTS = 3       # the preemption points of one (pair, role) are spread over this many processes
    for cls, A, B in P:
        for (X, Y, role) in ((A, B, "A-preempted"), (B, A, "B-preempted")):
            for part in range(PARTS):
                job = {"A": X, "B": Y, "warm": True, "part": [part, PARTS]}
                if tier == "quick" and cls not in ("same-config", "benign-settings"):
                    job["stride"] = 3          # pairs that are known to race: every third line is enough to keep the finding visible
                jobs.append(job); meta.append((cls, X, Y, role, part))
    import multiprocessing as mp
    with mp.get_context("fork").Pool(16) as pool:
        res = pool.map(run_job, jobs, chunksize=1)
        # cold exploration: a fresh process per sampled preemption point
        cold_jobs = []
        cold_meta = []
        for (cls, X, Y, role, part), r in zip(meta, res):
            n = r.get("lines") or 0
            if not n or part != 0:
                continue
            ks = sorted(R.sample(range(1, 4 * n), min(4 * n - 1, 5 if tier == "quick" else 120)))   # cold runs execute more lines than warm ones
            for k in ks:
                cold_jobs.append({"A": X, "B": Y, "warm": False, "ks": [k]}); cold_meta.append((cls, X, Y, role, k))
        # every executed line of the Settings registry constructor (the object is published before it is complete): always explored cold
        for (cls, X, Y, role, part), r in zip(meta, res):
            if part != 0 or cls not in ("date-order", "same-config"):
                continue
            for occ in range(1, 9):
                cold_jobs.append({"A": X, "B": Y, "warm": False, "ks": [occ], "site": "dateparser/utils/__init__.py:constructor"}); cold_meta.append((cls, X, Y, role, "registry-%d" % occ))
            # lazily built per-locale attributes (first use of a locale by two threads): every line of the builders
            if cls == "same-config":
                for site, nocc in (("dateparser/languages/locale.py:_get_simplifications", 24 if tier == "quick" else 120), ("dateparser/languages/locale.py:_set_splitters", 6),
                                   ("dateparser/languages/locale.py:_set_wordchars", 6), ("dateparser/languages/locale.py:_get_dictionary", 8),
                                   ("dateparser/languages/locale.py:_get_relative_translations", 6),
                                   ("dateparser/languages/locale.py:_generate_relative_translations", 30 if tier == "quick" else 200)):
                    for occ in range(1, nocc + 1):
                        cold_jobs.append({"A": X, "B": Y, "warm": False, "ks": [occ], "site": site}); cold_meta.append((cls, X, Y, role, "%s-%d" % (site.split(":")[1], occ)))
        cold = pool.map(run_job, cold_jobs, chunksize=2)
        # sequential references for the cold runs: A alone, B alone, each in its own process
        refs = {}
        uniq = []
        for cls, A, B in P:
            for c in (A, B):
                k = json.dumps(c, sort_keys=True)
                if k not in refs:
                    refs[k] = None; uniq.append(c)
        rr = pool.map(run_job, [{"A": c, "B": c, "warm": False, "ks": [10 ** 9]} for c in uniq], chunksize=1)
        for c, r in zip(uniq, rr):
            refs[json.dumps(c, sort_keys=True)] = (r.get("divergent") or [{}])[0].get("ra")
    known = load_known("C20")
    known_sites = {e["key"]["site"] for e in known if "site" in e.get("key", {}) and "victim" not in e["key"]}
    no_order_victim = any(e.get("key") == {"site": "Settings.DATE_ORDER", "victim": "locale without date_order"} for e in known)
    viol = []
    kh = collections.Counter()
    points = 0
    per_pair = []
    for (cls, X, Y, role, _), r in zip(meta, res):
        if "error" in r:
            viol.append({"why": "explorer failed", "detail": r["error"], "A": X, "B": Y})
            continue
        points += r["tried"]
        per_pair.append({"class": cls, "role": role, "lines": r["lines"], "divergent_points": len(r["divergent"])})
        for dv in r["divergent"]:
            sites = dv["changed"] or ["(no shared variable changed)"]
            # the recorded findings all describe the *preempted* call continuing on state the other call changed; a call that ran to
            # completion without interruption and still returned something else is not one of them
            b_right = dv["rb"] == r["ref"][1]
            if not b_right and set(sites) <= {"Settings.DATE_ORDER", "(no shared variable changed)"} and no_order_victim and (Y.get("kw", {}).get("languages") == ["tl"]):
                kh["Settings.DATE_ORDER read by a locale without an order of its own (uninterrupted call wrong)"] += 1
                continue
            if cls in ("same-config", "benign-settings") or not set(sites) <= known_sites or not b_right:
                viol.append({"why": "a single preemption changes a result" + ("" if b_right else " of the call that ran uninterrupted"), "pair_class": cls, "role": role, "A": X, "B": Y, "preempt_at_line_event": dv["k"], "where": dv["where"],
                             "sequential": r["ref"], "interleaved": [dv["ra"], dv["rb"]], "shared_variables_changed_by_B": dv["changed"], "process": "warm"})
            else:
                for s in sites:
                    kh[s] += 1
    # shared sites each pair is known to race on (from the exhaustive warm exploration, both roles); in a cold process the shared
    # objects do not exist before B runs, so a cold divergence is attributed to the sites its pair showed when warm
    pair_sites = collections.defaultdict(set)
    for (cls, X, Y, role, _), r in zip(meta, res):
        for dv in r.get("divergent", []):
            pk = tuple(sorted([json.dumps(X, sort_keys=True), json.dumps(Y, sort_keys=True)]))
            pair_sites[pk] |= set(dv["changed"] or ["(no shared variable changed)"])
    nblocked = 0
    for (cls, X, Y, role, k), r in zip(cold_meta, cold):
        if "error" in r:
            continue
        nblocked += r.get("blocked", 0)
        if not r.get("divergent"):
            continue
        points += 1
        dv = r["divergent"][0]
        ra0, rb0 = refs[json.dumps(X, sort_keys=True)], refs[json.dumps(Y, sort_keys=True)]
        if dv["where"] is None:
            continue      # k beyond the last executed line: B simply ran after A
        if dv["ra"] != ra0 or dv["rb"] != rb0:
            pk = tuple(sorted([json.dumps(X, sort_keys=True), json.dumps(Y, sort_keys=True)]))
            sites = sorted(set(dv["changed"]) | pair_sites.get(pk, set())) or ["(no shared variable changed)"]
            if str(dv["where"]).endswith("utils/__init__.py:constructor"):
                sites = ["Settings registry constructor"]
            if (cls in ("same-config", "benign-settings") and sites != ["Settings registry constructor"]) or not set(sites) <= known_sites or dv["rb"] != rb0:
                viol.append({"why": "a single preemption changes a result", "pair_class": cls, "role": role, "A": X, "B": Y, "preempt_at_line_event": k, "where": dv["where"],
                             "sequential": [ra0, rb0], "interleaved": [dv["ra"], dv["rb"]], "shared_variables_changed_by_B": dv["changed"], "process": "cold"})
            else:
                for s in sites:
                    kh[s] += 1
    out = [{"replay": write_replay("C20", "schedule-%d" % j, {"property": "C20", "kind": "schedule: preempt A once, run B to completion, resume A", **v,
            "rerun": "echo '{\"A\":…,\"B\":…,\"warm\":true,\"ks\":[k]}' | python harness/c20_worker.py /repo"})} for j, v in enumerate(viol[:10])]
    cov = {"evaluations": points, "distinct_nontrivial": sum(1 for p in per_pair if p["lines"]),
           "rule": "every executed library line of A is a preemption point (warm process, exhaustive) for every pair and both roles; plus sampled preemption points in cold processes; non-trivial = (pair, role) combinations explored",
           "samples": per_pair[:6], "pairs": len(P), "per_pair": per_pair, "cold_points": len(cold_jobs), "cold_points_blocked_by_a_lock": nblocked, "schedule_violations": len(viol), "states": points, "transitions": points,
           "traces_validated_against_impl": points}
    return {"violations": out, "known": ["shared site %s (x%d divergent schedules)" % (k, n) for k, n in kh.items()], "coverage": cov, "level": "proof",
            "assumptions": ["GIL-atomic bytecodes; one preemption per schedule; preemption inside a bytecode, C-level races in `regex` and multi-switch schedules are not exhibited — partial"]}
