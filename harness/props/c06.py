"""C06 — every locale's relative phrases mean what their English canon means (exhaustive walk over the shipped vocabulary)."""
import collections
import json
import re

from common import D, Model, case_model, langdata, lib_gdd, pmap, rng, write_replay, load_known

NUMGROUP = "(\\d+[.,]?\\d*)"
COUNTS = ["0", "1", "2", "3", "11", "45", "120"]
DECIMALS = ["1.5", "2,5"]


def single_phrases(rec):
    """fixed phrases listed under exactly one canon and nowhere else in the vocabulary → [(phrase, canon)]"""
    count = collections.Counter()
    words = dict(rec["words"])
    for k, vs in words.items():
        for v in set(x.lower() for x in vs):
            count[v] += 1
    for _, vs in rec["relType"]:
        for v in set(x.lower() for x in vs):
            count[v] += 1
    for v in set(x.lower() for x in rec["skip"] + rec["pertain"]):
        count[v] += 1
    out = []
    for canon, vs in rec["relType"]:
        for p in dict.fromkeys(vs):
            if count[p.lower()] == 1 and p.strip():
                out.append((p, canon))
    return out


def patterns(rec):
    """counted patterns usable by plain substitution (one number group, no other regex syntax) listed under exactly one canon"""
    seen = collections.Counter()
    for canon, vs in rec["relRegex"]:
        for p in set(vs):
            seen[p] += 1
    out = []
    for canon, vs in rec["relRegex"]:
        for p in dict.fromkeys(vs):
            rest = p.replace(NUMGROUP, "")
            if p.count(NUMGROUP) == 1 and seen[p] == 1 and not re.search(r"[\\()\[\]?*+|{}^$]", rest) and "\\1" in canon:
                out.append((p, canon))
    return out


def run(ctx):
    tier = ctx["tier"]
    R = rng("c06")
    ld = langdata()
    recs = [(r, "langs") for r in ld["langs"]] + ([(r, "locales") for r in ld["locales"]] if tier != "quick" else [(r, "locales") for r in R.sample(ld["locales"], 40)])
    bases = [D(2021, 8, 31, 13, 7)] if tier == "quick" else [D(2021, 8, 31, 13, 7), D(2020, 2, 29, 23, 59), D(2023, 1, 1, 0, 0)]
    cases = []       # pairs: (localized in locale, canon in English)
    meta = []
    npat = 0
    for rec, key in recs:
        for norm in (True, False):
            for phrase, canon in single_phrases(rec):
                for b in bases:
                    st = {"RELATIVE_BASE": b, "TIMEZONE": "UTC"}
                    if not norm:
                        st["NORMALIZE"] = False
                    cases.append({"s": phrase, key: [rec["name"]], "settings": st})
                    cases.append({"s": canon, "langs": ["en"], "settings": {"RELATIVE_BASE": b, "TIMEZONE": "UTC"}})
                    meta.append((rec["name"], norm, phrase, canon, "fixed"))
            for pat, canon in patterns(rec):
                ns = COUNTS if tier != "quick" else [R.choice(COUNTS), "1"]
                # decimals where the pattern allows them (sub-day units): both spellings in the thorough tier, one (fixed by the pattern's
                # position, not by the PRNG) in the quick tier
                subday = bool(re.search(r"hour|minute|second", canon))
                npat += 1
                ns = list(dict.fromkeys(ns)) + ((DECIMALS if tier != "quick" else [DECIMALS[npat % 2]]) if subday and (tier != "quick" or npat % 5 == 0) else [])
                for n in ns:
                    b = R.choice(bases)
                    st = {"RELATIVE_BASE": b, "TIMEZONE": "UTC"}
                    if not norm:
                        st["NORMALIZE"] = False
                    cases.append({"s": pat.replace(NUMGROUP, n), key: [rec["name"]], "settings": st})
                    cases.append({"s": canon.replace("\\1", n), "langs": ["en"], "settings": {"RELATIVE_BASE": b, "TIMEZONE": "UTC"}})
                    meta.append((rec["name"], norm, pat, canon, "count=" + n))
    lres = pmap(lib_gdd, cases, chunksize=128)
    known = load_known("C06")
    kset = {(e["key"]["locale"], e["key"]["normalize"], e["key"]["phrase"]) for e in known if "count" not in e["key"]}
    # findings that concern one count only (e.g. the decimal comma): other counts of the same phrase are still judged
    kcount = {(e["key"]["locale"], e["key"]["normalize"], e["key"]["phrase"], e["key"]["count"]) for e in known if "count" in e["key"]}
    viol = collections.OrderedDict()
    kh = set()
    ok = 0
    for j, (loc, norm, phrase, canon, kind) in enumerate(meta):
        a, b = lres[2 * j], lres[2 * j + 1]
        va = a.get("r").rsplit("|", 1)[0] if a.get("r") else ("ERR:" + a["e"] if "e" in a else None)
        vb = b.get("r").rsplit("|", 1)[0] if b.get("r") else ("ERR:" + b["e"] if "e" in b else None)
        if va == vb and vb is not None:
            ok += 1
            continue
        if vb is None or str(vb).startswith("ERR:"):
            continue      # the English canon itself does not parse for this count (e.g. out of range): nothing to compare with
        k = (loc, norm, phrase)
        if k in kset:
            kh.add(k)
        elif kind.startswith("count=") and k + (kind[6:],) in kcount:
            kh.add(k + (kind[6:],))
        else:
            v = viol.setdefault(k, {"locale": loc, "normalize": norm, "phrase": phrase, "canon": canon, "failing": []})
            if len(v["failing"]) < 4:
                v["failing"].append({"kind": kind, "string": cases[2 * j]["s"], "localized_result": va, "english": cases[2 * j + 1]["s"], "english_result": vb,
                                     "reference": str(cases[2 * j]["settings"]["RELATIVE_BASE"])})
    drift = []
    rej = collections.Counter()
    if "model-build" not in ctx["broken"]:
        sub = sorted(R.sample(range(0, len(cases), 2), (min(len(cases) // 2, 3000) if tier == "quick" else len(cases) // 2)))
        mres = Model().run([case_model(cases[i]) for i in sub])
        for i, m in zip(sub, mres):
            if "bad" in m:
                rej[m["bad"]] += 1
            elif m != lres[i]:
                drift.append({"case": cases[i], "model": m, "lib": lres[i]})
    vl = list(viol.values())
    out = [{"replay": write_replay("C06", "phrase-%d" % j, {"property": "C06", "kind": "a relative phrase does not mean what its English canon means", **v})} for j, v in enumerate(vl[:10])]
    if vl:
        write_replay("C06", "all-failing-rows", {"property": "C06", "rows": vl})
    if not vl and drift and not ctx["broken"]:
        ctx["broken"]["correspondence"] = json.dumps(drift[:3], ensure_ascii=False, default=str)[:3000]
    cov = {"evaluations": len(cases), "distinct_nontrivial": ok,
           "rule": "every single-meaning fixed relative phrase and every plainly substitutable counted pattern of every language (and regional locales) × NORMALIZE on/off × counts {0,1,2,3,11,45,120} (+ decimals for sub-day units) × reference times, each compared with its English canon parsed under the same reference time; non-trivial = rows that agree with a parsed canon",
           "samples": [{"localized": cases[2 * j]["s"], "locale": meta[j][0], "canon": cases[2 * j + 1]["s"]} for j in range(0, len(meta), max(1, len(meta) // 6))][:6],
           "rows": len(meta), "rows_failing_unlisted": len(vl), "rows_known": len(kh),
           "model_compared": len(sub) if "model-build" not in ctx["broken"] else 0, "model_rejected": dict(rej), "model_drift": len(drift),
           "model_drift_samples": [{"s": d["case"]["s"], "model": d["model"], "lib": d["lib"]} for d in drift[:5]]}
    return {"violations": out, "known": [("(%s, normalize=%s) %r" % k[:3]) + ((" with count %s only" % k[3]) if len(k) > 3 else "") for k in sorted(kh, key=str)], "coverage": cov, "level": "proof"}
