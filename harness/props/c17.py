"""C17 — search_dates is total and its hits are well-formed, in-text, in order."""
import calendar
import collections
import datetime as dt
import json
import re

from common import D, Model, corpus, langdata, pmap, rng, write_replay, load_known, err_kind

BASE = D(2020, 5, 17, 12, 0)
FILLER = ["the meeting was held", "and then we left", "es war einmal", "il était une fois", "потом мы ушли", "xyz", "foo bar baz", "la casa es", "它是", "そして",
          "see you", "RE: invoice", "p. 12", "no. 7", "call me", "am", "on", "in", "at 5", "etc.", "Mr. Smith", "v.1.2", "10%", "a-b", "(draft)", "“quoted”"]
PUNCT = [" ", ". ", ", ", "\n", "! ", "? ", " - ", "; ", " ", "  ", "。", "،", " — ", ": ", "...", "\t", " (", ") ", "\r\n", "¿", "¡", " | ",
         # free-standing punctuation tokens (kept in a chunk with an empty translation)
         " , ", " ] ", " [ ", " ' ", " ( ", " ) ", " . ", " \" ", " } "]


def langstr(R, info):
    words = dict(info["words"])
    names = [n for m in calendar.month_name[1:] for n in words.get(m.lower(), [])]
    wds = [n for m in calendar.day_name for n in words.get(m.lower(), [])]
    r = R.random()
    if r < 0.4 and names:
        return "%d %s %d" % (R.randint(1, 28), R.choice(names), R.choice([2015, 1999, 2024]))
    if r < 0.5 and wds:
        return R.choice(wds)
    if r < 0.7:
        rt = [w for _, v in info["relType"] for w in v]
        if rt:
            return R.choice(rt)
    rr = [p for _, v in info["relRegex"] for p in v]
    if rr:
        p = R.choice(rr).replace("(\\d+[.,]?\\d*)", R.choice(["1", "2", "3", "12"]))
        if "\\" not in p and "?" not in p:
            return p
    return "%02d/%02d/%04d" % (R.randint(1, 12), R.randint(1, 28), R.choice([2015, 1999]))


def norm_ws(s):
    """comparison "up to whitespace": whitespace is ignored altogether (no-word-spacing locales join tokens across line breaks)"""
    return re.sub(r"\s+", "", s)


def probe(job):
    from dateparser.search import search_dates
    text, langs, base, add = job
    kw = {}
    if langs:
        kw["languages"] = langs
    if base:
        kw["settings"] = {"RELATIVE_BASE": BASE, "TIMEZONE": "UTC"}
    try:
        r = search_dates(text, add_detected_language=add, **kw)
    except Exception as e:  # noqa
        return {"exc": err_kind(e)}
    if r is None:
        return {"r": None}
    out = []
    for t in r:
        if not (isinstance(t, tuple) and len(t) == (3 if add else 2) and isinstance(t[0], str) and isinstance(t[1], dt.datetime)):
            return {"malformed": repr(t)[:200]}
        out.append([t[0], t[1].isoformat()] + ([t[2]] if add else []))
    return {"r": out, "empty_list": len(r) == 0}


def probe_seq(job):
    """one process: the same text searched under several language selections one after the other"""
    text, sels, base = job
    return [probe((text, langs, base, True)) for langs in sels]


def run(ctx):
    tier = ctx["tier"]
    R = rng("c17")
    ld = langdata()
    infos = {r["name"]: r for r in ld["langs"]}
    order = ld["order"]
    corp = corpus()
    n = 1500 if tier == "quick" else 40000
    # phrases whose simplification changes the number of tokens (exercise `_simplify_split_align`)
    resym = re.compile(r"[\\\[\]\(\)\?\*\+\|\{\}\^\$\.]")
    recount = {r["name"]: [k for k, v in r.get("simps", []) if not resym.search(k) and len(k.split()) != len((v[0] if v else "").split())] for r in ld["langs"]}
    jobs = []
    for i in range(n):
        lang = order[i % len(order)] if i < 3 * len(order) else (R.choice(order) if R.random() < 0.75 else R.choice(["en", "ru", "es", "fr", "de", "ja", "zh", "yue", "zh-Hant", "zh-Hans", "th", "ar", "fa", "hi", "vi", "hu"]))
        parts = []
        for _ in range(R.randint(1, 4)):
            r = R.random()
            if r < 0.12 and recount.get(lang):
                parts.append(R.choice(recount[lang]) + R.choice(["", " 10:30", " 2015"]))
            elif r < 0.5:
                parts.append(langstr(R, infos[lang]))
            elif r < 0.7:
                parts.append(R.choice(corp))
            else:
                parts.append(R.choice(FILLER))
            parts.append(R.choice(PUNCT))
        if R.random() < 0.5:
            parts = parts[:-1]          # text ends with a date string / word, not with punctuation
        text = "".join(parts)[:300]
        u = R.random()
        langs = [lang] if u < 0.85 else (None if u < 0.93 else [lang, "en"])
        jobs.append((text, langs, R.random() < 0.7, R.random() < 0.3))
    # a hit that carries its own zone (it becomes the reference for what follows when no RELATIVE_BASE is given) before a date whose year is
    # written with two digits, and the other way round
    for t_ in ("Deployed 2020-03-05T10:00:00Z, invoice dated 12/05/21.", "Treffen am 10. März 2020 10:00 UTC. Rechnung vom 12.05.21", "会議 2020年3月5日 10:00 UTC 、 12/05/21",
               "invoice dated 12/05/21, deployed 2020-03-05 10:00 +0200.", "5 March 2020 10:00 EST and then 03.04.19 and 1 May 99"):
        for lg_ in (None, ["en"], ["de"], ["ja"]):
            for b_ in (False, True):
                jobs.append((t_, lg_, b_, True))
    res = pmap(probe, jobs, chunksize=16)
    # the same text under several language selections in one process (autodetection, its own language, other languages, pairs): what one
    # selection found out about the text must not leak into the next
    seq = []
    hist = {}
    for text, langs, base, _add in R.sample(jobs, 60 if tier == "quick" else 1500):
        own = langs[0] if langs else "en"
        sels = [None, [own], [R.choice(["en", "fr", "es", "ru", "de", "zh", "ja", "uk", "yue"])], [own, "en"], [R.choice(order)], None]
        R.shuffle(sels)
        seq.append((text, sels, base))
    for (text, sels, base), rr in zip(seq, pmap(probe_seq, seq, chunksize=1, force=True)):
        for k_, (langs, r) in enumerate(zip(sels, rr)):
            hist[len(jobs)] = sels[:k_]
            jobs.append((text, langs, base, True)); res.append(r)
    known = load_known("C17")
    viol = []
    kinds = collections.Counter()
    hits = 0
    distinct = set()
    for ji, ((text, langs, base, add), r) in enumerate(zip(jobs, res)):
        why = None
        if "exc" in r:
            kinds["exc:" + r["exc"]] += 1
            why = "search_dates raised %s" % r["exc"]
        elif "malformed" in r:
            why = "malformed tuple %s" % r["malformed"]
        elif r["r"] is None:
            kinds["none"] += 1
        else:
            kinds["hits"] += 1
            if r.get("empty_list"):
                why = "returned an empty list instead of None"
            pos = 0
            nt = norm_ws(text)
            langs_seen = set()
            for t in r["r"]:
                sub = t[0]
                if not sub.strip():
                    why = "blank substring %r" % sub
                    break
                k = nt.find(norm_ws(sub), pos)
                if k < 0:
                    why = ("substring %r does not occur in the text" % sub) if norm_ws(sub) not in nt else ("substring %r is out of text order" % sub)
                    break
                pos = k
                if add:
                    langs_seen.add(t[2])
            if why is None and add:
                if len(langs_seen) != 1:
                    why = "several languages in one result: %s" % sorted(langs_seen)
                elif langs and not (langs_seen <= set(langs)):
                    why = "language %s is not among the requested %s" % (sorted(langs_seen), langs)
            if why is None:
                hits += len(r["r"]); distinct.add(text)
        if why:
            viol.append({"text": text, "languages": langs, "relative_base": base, "add_detected_language": add, "why": why, "observed": r,
                         **({"same_text_searched_earlier_in_this_process_with_languages": hist[ji]} if ji in hist else {})})
    # model tie: the Lean model of the search layer against the library, layer by layer (see c17_tie.py)
    tie_mism, tie_stats = [], {}
    if "model-build" not in ctx["broken"]:
        from props import c17_tie
        tj = [(langs[0], text, base) for (text, langs, base, add) in jobs if langs and len(langs) == 1]
        tj = tj[:: max(1, len(tj) // (400 if tier == "quick" else 6000))]
        tie_mism, tie_stats = c17_tie.run_tie(tj, Model(), pmap)
        am, ast_ = c17_tie.run_align_synth(R, 3000 if tier == "quick" else 60000, Model(), pmap)
        tie_mism += am
        tie_stats["align_synthetic"] = ast_
        if tie_mism and not viol and not ctx["broken"]:
            ctx["broken"]["correspondence"] = json.dumps(tie_mism[:3], ensure_ascii=False, default=str)[:4000]
    out = [{"replay": write_replay("C17", "search-%d" % j, {"property": "C17", "kind": "search_dates contract broken", **v,
            "python": "from dateparser.search import search_dates; print(search_dates(%r%s))" % (v["text"], ", languages=%r" % v["languages"] if v["languages"] else "")})}
           for j, v in enumerate(viol[:10])]
    cov = {"evaluations": len(jobs), "distinct_nontrivial": len(distinct),
           "rule": "texts ≤ 300 chars of multilingual date strings + corpus strings + filler prose joined by mutated punctuation/spacing/line breaks; every one of the 205 languages explicitly (round-robin first), autodetection, two-language lists; ± RELATIVE_BASE, ± add_detected_language; non-trivial = distinct texts with well-formed hits",
           "samples": [{"text": j[0], "languages": j[1]} for j in jobs[:: max(1, len(jobs) // 6)][:6]],
           "outcome_kinds": dict(kinds), "hits_checked": hits, "contract_violations": len(viol),
           "model_tie": tie_stats, "model_drift": len(tie_mism), "model_drift_samples": [{k: m.get(k) for k in ("layer", "locale", "text")} for m in tie_mism[:5]]}
    return {"violations": out, "known": [], "coverage": cov, "level": "proof",
            "assumptions": ["'occurs in the text up to whitespace' = containment after collapsing whitespace runs; text order = each hit is found at or after the previous one"]}
