"""C11 — a timezone written in the string yields exactly that offset (exhaustive over the library's table)."""
import ast
import copy
import datetime as dt
import os
import pickle
import re

from common import D, REPO, pmap, rng, write_replay, load_known

BODIES = [("2014-05-01 10:30", D(2014, 5, 1, 10, 30)), ("March 5, 2020 11:59 PM", D(2020, 3, 5, 23, 59)), ("29 February 2016 00:00:01", D(2016, 2, 29, 0, 0, 1)),
          ("1999-12-31 23:59:59", D(1999, 12, 31, 23, 59, 59)), ("Tue, 03 Jan 2012 07:15:00", D(2012, 1, 3, 7, 15)), ("10 June 2030 12:00", D(2030, 6, 10, 12, 0))]


def table():
    src = open(os.path.join(REPO, "dateparser/timezones.py"), encoding="utf-8").read()
    tree = ast.parse(src)
    for n in tree.body:
        if isinstance(n, ast.Assign) and n.targets[0].id == "timezone_info_list":
            return ast.literal_eval(n.value)
    return []


def spellings(off, negzero=False):
    neg = off < 0 or negzero
    a = abs(off); h, m = a // 3600, a % 3600 // 60
    sg = "-" if neg else "+"
    hm = str(h) if m == 0 else "%d:%02d" % (h, m)
    out = ["%s%02d%02d" % (sg, h, m), "%s%02d:%02d" % (sg, h, m), "UTC%s%s" % (sg, hm), "UTC%s%02d:%02d" % (sg, h, m), "UTC%s%02d%02d" % (sg, h, m),
           "GMT%s%02d:%02d" % (sg, h, m), "GMT%s%s" % (sg, hm), "GMT%s%02d%02d" % (sg, h, m)]
    if m == 0:
        out += ["UTC%s%02d" % (sg, h), "GMT%s%02d" % (sg, h)]
    return out


def spelling_class(sp):
    """shape of an offset spelling: digits → 'H', e.g. '+HHHH', 'UTC+H:HH'"""
    return re.sub(r"\d", "H", sp).replace("-", "+")


def probe(job):
    import dateparser
    s, langs = job
    try:
        r = dateparser.parse(s, languages=langs) if langs else dateparser.parse(s)
    except Exception as e:  # noqa
        return {"err": type(e).__name__}
    if r is None:
        return {"r": None}
    out = {"wall": r.replace(tzinfo=None).isoformat(), "off": None if r.tzinfo is None else r.utcoffset().total_seconds()}
    if r.tzinfo is not None:
        try:
            p = pickle.loads(pickle.dumps(r)); c = copy.copy(r); dc = copy.deepcopy(r)
            out["copies"] = all(x == r and x.utcoffset() == r.utcoffset() and x.replace(tzinfo=None) == r.replace(tzinfo=None) for x in (p, c, dc))
        except Exception as e:  # noqa
            out["copies"] = "ERR:" + type(e).__name__
    return out


def run(ctx):
    tier = ctx["tier"]
    R = rng("c11")
    tbl = table()
    names = {}
    offsets = []
    for blk in tbl:
        for name, off in blk["timezones"]:
            if "\\" in name:
                m = re.match(r"UTC\\([+-])(\d\d):(\d\d)$", name)
                if m:
                    offsets.append((off, m.group(1) == "-"))
            elif name not in names:
                names[name] = off
    jobs = []
    meta = []
    bodies = BODIES if tier != "quick" else BODIES[:2]
    for off, negz in dict.fromkeys(offsets):
        for sp in spellings(off, negz):
            for (b, bd) in bodies:
                for langs in (["en"], None) if (tier != "quick" or R.random() < 0.1) else (["en"],):
                    jobs.append((b + " " + sp, langs)); meta.append(("offset", sp, off, bd, None))
    for name, off in names.items():
        variants = [(name, "upper"), (name.lower(), "lower")]
        for txt, kind in variants:
            for (b, bd) in (bodies if tier != "quick" else [R.choice(BODIES)]):
                forms = [b + " " + txt, b + " (" + txt + ")"] if kind == "upper" else [b + " " + txt]
                for f in forms:
                    for langs in (["en"], None) if (tier != "quick" or R.random() < 0.05) else (["en"],):
                        jobs.append((f, langs)); meta.append(("abbr", txt, off, bd, name))
    # an offset, in every spelling, *before a parenthesised abbreviation* (as browsers print dates: "GMT+0800 (CST)"): the offset written
    # decides, the wall clock is the one written
    pnames = [n for n in ("CST", "EST", "CET", "IST", "PST") if n in names]
    for off, negz in dict.fromkeys(offsets):
        for sp in spellings(off, negz):
            for (b, bd) in (bodies if tier != "quick" else bodies[:1]):
                ab = R.choice(pnames)
                jobs.append((b + " " + sp + " (" + ab + ")", ["en"])); meta.append(("offset+paren", sp, off, bd, None))
    # no zone in the string ⇒ naive
    for (b, bd) in BODIES:
        jobs.append((b, ["en"])); meta.append(("none", "", None, bd, None))
    res = pmap(probe, jobs, chunksize=32)
    known = load_known("C11")
    viol = []
    khits = {}
    ok_aware = 0
    for (s, langs), (kind, txt, off, bd, name), r in zip(jobs, meta, res):
        why = None
        if "err" in r:
            why = "exception " + r["err"]
        elif r.get("r", 1) is None:
            why = "not parsed"
        elif kind == "none":
            if r["off"] is not None:
                why = "aware result for a string without a zone"
            elif r["wall"] != bd.isoformat():
                why = "wall clock changed: %s" % r["wall"]
        else:
            if r["off"] is None:
                why = "naive result although the string names a zone"
            elif r["off"] != off:
                why = "offset %s instead of the listed %s" % (r["off"], off)
            elif r["wall"] != bd.isoformat():
                why = "wall clock %s instead of %s" % (r["wall"], bd.isoformat())
            elif r.get("copies") is not True:
                why = "pickle/copy round trip: %s" % (r.get("copies"),)
            else:
                ok_aware += 1
        if why:
            key = {"name": name} if name else None
            if kind == "offset+paren" and why == "not parsed":
                key = {"rule": "offset-before-parenthesised-abbreviation", "spelling": spelling_class(txt)}
            hit = [e for e in known if key and e.get("key") == key]
            if hit and kind == "offset+paren":
                pk = "paren:" + key["spelling"]
                khits[pk] = khits.get(pk, 0) + 1
            elif hit:
                khits[name] = khits.get(name, 0) + 1
            else:
                viol.append({"string": s, "languages": langs, "zone_text": txt, "listed_offset": off, "why": why, "observed": r})
    out = [{"replay": write_replay("C11", "tz-%d" % j, {"property": "C11", "kind": "zone written in the string", **v,
                                                       "python": "import dateparser; print(repr(dateparser.parse(%r%s)))" % (v["string"], ", languages=%r" % v["languages"] if v["languages"] else "")})}
           for j, v in enumerate(viol[:10])]
    cov = {"evaluations": len(jobs), "distinct_nontrivial": ok_aware,
           "rule": "every UTC offset of the table × every accepted spelling, every abbreviation (upper, lower, parenthesised), every offset spelling before a parenthesised abbreviation × bodies × {en, autodetect}; non-trivial = an aware result with exactly the listed offset and the written wall clock that survives pickle/copy/deepcopy",
           "samples": [{"s": jobs[i][0], "languages": jobs[i][1], "listed_offset": meta[i][2]} for i in range(0, len(jobs), max(1, len(jobs) // 6))][:6],
           "abbreviations": len(names), "utc_offsets": len(dict.fromkeys(offsets)), "violations": len(viol), "exhaustive": True}
    return {"violations": out, "known": [("offset spelled %s before a parenthesised abbreviation is not parsed (only (UTC|GMT)±HH[:]MM tolerates what follows it) (x%d)" % (k[6:], n)) if k.startswith("paren:") else
                                         ("abbreviation %s never recognised with English/autodetect (NORMALIZE strips the caron before the zone is popped) (x%d)" % (k, n)) for k, n in sorted(khits.items())],
            "coverage": cov, "level": "proof",
            "trusted_base": ["native_decide for the finite walk theorems c11_abbrev / c11_offsets (Lean compiler, one axiom each)"],
            "assumptions": ["default settings (TIMEZONE='local') with TZ=UTC in the harness", "pickling/copying of tzinfo objects is Python object protocol: checked on the library only (not expressible in the model)"]}
