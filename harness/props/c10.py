"""C10 — strictness only filters; strict results never borrow from the clock (relational check on the library)."""
import calendar
import collections
import itertools
import json

from common import D, Model, case_model, corpus, langdata, lib_gdd, load_known, pmap, rng, write_replay

PARTS = ["day", "month", "year"]
REQS = [[], ["day"], ["month"], ["year"], ["day", "month"], ["day", "year"], ["month", "year"], ["day", "month", "year"]]
B1 = D(2012, 11, 13, 7, 45)
B2 = D(2031, 4, 2, 18, 5)


def gen_partial(R, info):
    """a string stating a chosen subset of {day, month, year, weekday, time} in the language; returns (s, stated-parts)"""
    words = dict(info["words"])
    mnames = [(i + 1, n) for i, mname in enumerate(calendar.month_name[1:]) for n in words.get(mname.lower(), [])[:2]]
    wnames = [n for mname in calendar.day_name for n in words.get(mname.lower(), [])[:1]]
    parts = set(p for p in PARTS if R.random() < 0.6)
    pieces = []
    if "day" in parts:
        pieces.append(str(R.randint(13, 28)))
    if "month" in parts:
        if not mnames:
            return None
        pieces.append(R.choice(mnames)[1])
    if "year" in parts:
        pieces.append(str(R.choice([1987, 2003, 2016, 2040])))
    if R.random() < 0.25 and wnames:
        pieces.insert(0, R.choice(wnames))
    if R.random() < 0.3:
        pieces.append("%02d:%02d" % (R.randint(0, 23), R.randint(0, 59)))
    if not pieces:
        return None
    return " ".join(pieces), sorted(parts)


def mk(s, langs, req, strict, base, fmts=None, parsers=None):
    st = {"RELATIVE_BASE": base, "TIMEZONE": "UTC"}
    if strict:
        st["STRICT_PARSING"] = True
    if req:
        st["REQUIRE_PARTS"] = list(req)
    if parsers:
        st["PARSERS"] = parsers
    c = {"s": s, "langs": langs, "settings": st}
    if fmts:
        c["fmts"] = fmts
    return c


def run(ctx):
    tier = ctx["tier"]
    R = rng("c10")
    ld = langdata()
    infos = {r["name"]: r for r in ld["langs"]}
    corp = corpus()
    items = []   # (s, langs, fmts, parsers, stated-parts or None)
    ABS = ["absolute-time"]
    # corpus strings: the language is detected once (non-strict run over 20 major languages); the laws are then checked with that
    # single language selected — with several languages a *different* language may legitimately accept what the first one
    # rejected under strictness, which is language selection (C13), not strictness
    LK = ["en", "es", "fr", "de", "ru", "it", "pt", "nl", "tr", "zh", "ja", "ar", "hi", "id", "pl", "fi", "sv", "uk", "cs", "he"]
    csel = corp if tier != "quick" else R.sample(corp, 500)
    det = pmap(lib_gdd, [mk(s, LK, [], False, B1, None, ABS) for s in csel])
    for s, dres in zip(csel, det):
        if dres.get("r"):
            items.append((s, [dres["r"].rsplit("|", 1)[1]], None, ABS, None))
    nlang = 4 if tier == "quick" else 25
    for lang in ld["order"]:
        for _ in range(nlang):
            g = gen_partial(R, infos[lang])
            if g:
                # the "which parts does the string state" oracle is only trusted for English names (other languages' short names
                # can be ambiguous between month and weekday — C05's subject); the relational laws apply to every language
                items.append((g[0], [lang], None, ABS, g[1] if lang == "en" else None))
    for _ in range(150 if tier == "quick" else 1500):
        g = gen_partial(R, infos["en"])
        if g:
            items.append((g[0], ["en"], None, ABS, g[1]))
    # two numeric fields — a one/two-digit number and a four-digit year — state the year and *one* of day / month, whatever the language's
    # date order: no result when both day and month are required
    for lang in ld["order"]:
        for _ in range(2 if tier == "quick" else 8):
            n = R.choice([R.randint(1, 12), R.randint(1, 12), R.randint(13, 31)])
            y = R.choice([1999, 2015, 2024])
            form = R.choice(["%02d %d", "%d %d", "%02d/%d", "%02d-%d"]) % (n, y) if R.random() < 0.6 else R.choice(["%d %02d", "%d/%02d", "%d.%02d"]) % (y, n)
            items.append((form, [lang], None, ABS, ["year", "one-of-day-month"]))
    # a '00' placeholder where a day or a month would stand, next to a four-digit year ('00/03/2021', '15.00.2021', '00 March 2021'): the
    # placeholder states nothing, so under strictness there is either no result or one that does not depend on the reference time
    for lang in (ld["order"] if tier != "quick" else ["en", "fr", "de", "ru", "zh", "hu", "es", "ja"] + R.sample(ld["order"], 12)):
        words = dict(infos[lang]["words"])
        mn = (words.get("march") or [None])[0]
        forms = ["00/03/2021", "00.03.2021", "03/00/2021", "15.00.2021", "15/00/2021", "2021-00-15", "2021/03/00"]
        if mn and " " not in mn:
            forms += ["00 %s 2021" % mn, "%s 00, 2021" % mn, "00 %s 2021 10:30" % mn]
        for f_ in (forms if tier != "quick" else R.sample(forms, 4)):
            items.append((f_, [lang], None, ABS, None))
    # custom formats and timestamps
    FM = [("%B %Y", lambda: "%s %d" % (R.choice(calendar.month_name[1:]), R.choice([1999, 2024])), ["month", "year"]),
          ("%B", lambda: R.choice(calendar.month_name[1:]), ["month"]),
          ("%d %B", lambda: "%d %s" % (R.randint(1, 28), R.choice(calendar.month_name[1:])), ["day", "month"]),
          ("%Y", lambda: str(R.choice([1999, 2024])), ["year"]),
          ("%H:%M", lambda: "%02d:%02d" % (R.randint(0, 23), R.randint(0, 59)), []),
          ("%d/%m/%Y", lambda: "%02d/%02d/%d" % (R.randint(1, 28), R.randint(1, 12), R.choice([1999, 2024])), PARTS)]
    for f, g, stated in FM:
        for _ in range(6 if tier == "quick" else 60):
            items.append((g(), ["en"], [f], ["custom-formats"], stated))
    for _ in range(20 if tier == "quick" else 200):
        items.append((str(R.randint(10 ** 9, 10 ** 10 - 1)) + R.choice(["", "123", "123456"]), ["en"], None, ["timestamp"], PARTS))
    cases = []
    index = []
    for it in items:
        s, langs, fmts, parsers, stated = it
        lk = langs
        confs = [([], True)] + [(rq, False) for rq in (REQS[1:] if tier != "quick" else R.sample(REQS[1:], 3))] + \
                [(rq, True) for rq in (REQS[1:] if tier != "quick" else R.sample(REQS[1:], 2))]      # both settings at once: strict must still win
        base_i = len(cases)
        cases.append(mk(s, lk, [], False, B1, fmts, parsers))          # non-strict reference
        for rq, strict in confs:
            cases.append(mk(s, lk, rq, strict, B1, fmts, parsers))
            cases.append(mk(s, lk, rq, strict, B2, fmts, parsers))
        index.append((it, base_i, confs))
    lres = pmap(lib_gdd, cases)
    viol = []
    known = load_known("C10")
    stats = collections.Counter()
    distinct = set()

    def val(i):
        l = lres[i]
        if "e" in l:
            return "ERR:" + l["e"]
        return None if l["r"] is None else l["r"].rsplit("|", 1)[0]   # locale may legitimately differ; compare date+period

    for it, b, confs in index:
        s, langs, fmts, parsers, stated = it
        ref = val(b)
        k = b + 1
        for rq, strict in confs:
            v1, v2 = val(k), val(k + 1)
            k += 2
            stats["pairs"] += 1
            need = PARTS if strict else rq
            if v1 is not None:
                stats["strict-results"] += 1
                distinct.add((s, tuple(rq), strict))
            why = None
            if v1 is not None and str(v1).startswith("ERR:"):
                why = "exception escaped: %s" % v1
            elif v1 is not None and v1 != ref:
                why = "strictness changed a result: non-strict %r, strict %r" % (ref, v1)
            elif strict and v1 is not None and v2 is not None and v1 != v2:
                why = "strict result depends on the reference time: %r vs %r" % (v1, v2)
            elif strict and (v1 is None) != (v2 is None):
                why = "strict acceptance depends on the reference time: %r vs %r" % (v1, v2)
            elif not strict and v1 is not None and v2 is not None:
                # each required part is clock independent
                d1, d2 = v1.split("|")[0], v2.split("|")[0]
                p1 = {"year": d1[0:4], "month": d1[5:7], "day": d1[8:10]}
                p2 = {"year": d2[0:4], "month": d2[5:7], "day": d2[8:10]}
                bad = [p for p in rq if p1[p] != p2[p]]
                if bad:
                    why = "required part(s) %s differ between reference times: %r vs %r" % (bad, v1, v2)
            if why is None and stated is not None and v1 is not None and not str(v1).startswith("ERR:"):
                if "one-of-day-month" in stated:
                    missing = ["day and month (one number cannot be both)"] if ("day" in need and "month" in need) else []
                else:
                    missing = [p for p in need if p not in stated]
                if missing:
                    why = "result although the string does not state %s" % missing
            if why:
                key = {"parser": (parsers or ["default"])[0], "rule": why.split(":")[0].split(" although")[0]}
                hit = [e for e in known if e.get("key") == key]
                if hit:
                    stats["known"] += 1
                else:
                    viol.append({"s": s, "langs": langs, "fmts": fmts, "parsers": parsers, "require": rq, "strict": strict, "why": why,
                                 "nonstrict": ref, "strict_b1": v1, "strict_b2": v2, "bases": [str(B1), str(B2)], "stated": stated})
    # model tie on a subsample
    drift = []
    rej = collections.Counter()
    if "model-build" not in ctx["broken"]:
        sub = list(range(0, len(cases), 7 if tier == "quick" else 2))
        sub = [i for i in sub if cases[i].get("langs") and len(cases[i]["langs"]) == 1]
        mres = Model().run([case_model(cases[i]) for i in sub])
        for i, m in zip(sub, mres):
            if "bad" in m:
                rej[m["bad"]] += 1
            elif m != lres[i]:
                drift.append({"case": cases[i], "model": m, "lib": lres[i]})
    out = []
    for j, v in enumerate(viol[:10]):
        out.append({"replay": write_replay("C10", "relation-%d" % j, {"property": "C10", "kind": "strictness relation violated on the implementation", **v})})
    if not viol and drift and not ctx["broken"]:
        ctx["broken"]["correspondence"] = json.dumps(drift[:3], ensure_ascii=False, default=str)[:3000]
    cov = {"evaluations": len(cases), "distinct_nontrivial": len(distinct),
           "rule": "every (string, REQUIRE_PARTS/strict) pair is run at two distant reference times and against the non-strict run; non-trivial = the strict run returned a date",
           "samples": [{"s": it[0], "langs": it[1], "fmts": it[2], "stated": it[4]} for it, _, _ in index[:: max(1, len(index) // 6)][:6]],
           "relation_pairs": stats["pairs"], "strict_results": stats["strict-results"], "relation_violations": len(viol),
           "model_compared": len(sub) if "model-build" not in ctx["broken"] else 0, "model_rejected": dict(rej), "model_drift": len(drift),
           "model_drift_samples": [{"s": d["case"]["s"], "model": d["model"], "lib": d["lib"]} for d in drift[:5]]}
    return {"violations": out, "known": (["known relation failures x%d" % stats["known"]] if stats["known"] else []), "coverage": cov, "level": "proof",
            "assumptions": ["the reported locale may differ between strict and non-strict runs (another language may accept the string); date, offset and period are compared"]}
