"""Common driver for property modules: domain stream (oracle = closed form of the property theorem) + model tie."""
import collections
import json
import time

from common import Model, case_model, lib_gdd, pmap, write_replay, load_known, rng, D


def expect_str(dt, off="naive", period="day", locale=None):
    s = "%04d-%02d-%02d %02d:%02d:%02d.%06d|%s|%s" % (dt.year, dt.month, dt.day, dt.hour, dt.minute, dt.second, dt.microsecond, off, period)
    return s if locale is None else s + "|" + locale


def strip_locale(r):
    """canonical result without the locale field"""
    if r is None:
        return None
    return r.rsplit("|", 1)[0]


def decide(ctx, cases, *, model_share=1.0, known_key=None, fidelity=None, nontrivial=None, compare_locale=False):
    """cases: list of dict(case..., expect=<canonical without locale | None | callable(libres)->bool>, stratum=str)
    returns result dict for check.py"""
    pid = ctx["pid"]
    t0 = time.time()
    lres = pmap(lib_gdd, [{k: v for k, v in c.items() if k not in ('expect', 'expect_show')} for c in cases])
    viol = []
    known_hits = collections.Counter()
    strata = collections.Counter()
    known = load_known(pid)
    distinct = set()
    for c, l in zip(cases, lres):
        strata[c.get("stratum", "-")] += 1
        got = l.get("r", None) if "r" in l else "ERR:" + l["e"]
        exp = c["expect"]
        if callable(exp):
            ok = exp(got)
            exp_show = c.get("expect_show", "<predicate>")
        else:
            g = got if (got is None or compare_locale or got.startswith("ERR:")) else strip_locale(got)
            ok = (g == exp)
            exp_show = exp
        if got is not None and not str(got).startswith("ERR:"):
            distinct.add((c["s"], json.dumps(c.get("settings", {}), default=str, sort_keys=True)))
        if not ok:
            k = known_key(c, got) if known_key else None
            hit = None
            if k is not None:
                for e in known:
                    if e.get("key") == k:
                        hit = e
                        break
            if hit:
                known_hits[json.dumps(hit["key"], ensure_ascii=False, sort_keys=True) + " " + hit.get("what", "")] += 1
            else:
                viol.append({"case": c, "expected": exp_show, "observed": got})
    # model tie on a subsample (model = implementation on the property's domain)
    R = rng("model-sub/" + pid)
    sub = [i for i in range(len(cases)) if model_share >= 1.0 or R.random() < model_share]
    drift = []
    rejected = collections.Counter()
    if sub and "model-build" not in ctx["broken"]:
        model = Model()
        mres = model.run([case_model(cases[i]) for i in sub])
        for i, m in zip(sub, mres):
            if "bad" in m:
                rejected[m["bad"]] += 1
                continue
            if m != lres[i]:
                drift.append({"case": cases[i], "model": m, "lib": lres[i]})
    out_viol = []
    for j, v in enumerate(viol[:10]):
        c = dict(v["case"]); c.pop("expect", None)
        path = write_replay(pid, "domain-%d" % j, {"property": pid, "kind": "implementation violates the property's closed form",
                                                   "case": c, "expected": v["expected"], "observed": v["observed"],
                                                   "rerun": "./check --replay <this file>"})
        out_viol.append({"replay": path})
    if not viol and drift and not ctx["broken"]:
        # the model and the implementation disagree on the property's domain although the oracle is satisfied:
        # the tie is broken (reported as a broken obligation by check.py → no-failing-input-found)
        ctx["broken"]["correspondence"] = json.dumps(drift[:3], ensure_ascii=False, default=str)[:3000]
    cov = {"evaluations": len(cases), "distinct_nontrivial": len(distinct),
           "rule": "domain stream stratified by the model's case split; non-trivial = the library returned a date for a distinct (string, settings) pair",
           "samples": [{"s": c["s"], "settings": {k: str(v) for k, v in c.get("settings", {}).items()}, "langs": c.get("langs"),
                        "expect": c["expect"] if not callable(c["expect"]) else c.get("expect_show")} for c in cases[:: max(1, len(cases) // 5)][:6]],
           "strata": dict(strata), "model_compared": len(sub), "model_rejected": dict(rejected), "model_drift": len(drift),
           "model_drift_samples": [{"s": d["case"]["s"], "model": d["model"], "lib": d["lib"]} for d in drift[:5]],
           "domain_violations": len(viol), "known_findings_matched": sum(known_hits.values()),
           "lib_wall_s": round(time.time() - t0, 1)}
    return {"violations": out_viol, "known": ["%s (x%d)" % (k, n) for k, n in known_hits.items()], "coverage": cov, "level": "proof"}
