"""Runs a list of API calls (JSON on stdin) in ONE fresh interpreter, in order; prints one canonical outcome per call.
Also verifies that no call modified the settings dict / lists its caller passed."""
import copy
import datetime
import json
import os
import sys
import time

os.environ["TZ"] = "UTC"; time.tzset()
sys.path.insert(0, sys.argv[1])


def revive(o):
    if isinstance(o, dict):
        if "__dt__" in o:
            return datetime.datetime.fromisoformat(o["__dt__"])
        return {k: revive(v) for k, v in o.items()}
    if isinstance(o, list):
        return [revive(x) for x in o]
    return o


def canon(r):
    if r is None:
        return None
    if isinstance(r, datetime.datetime):
        return r.isoformat()
    if isinstance(r, list):
        return [[t[0], t[1].isoformat()] + list(t[2:]) for t in r]
    return repr(r)


def main():
    calls = revive(json.load(sys.stdin))
    import dateparser
    from dateparser.date import DateDataParser
    # dateparser.search and the calendars are imported only when a call needs them: importing dateparser.search builds the search singleton,
    # which loads every plain language — a history of its own that would hide what depends on the order locales are first loaded in
    out = []
    instances = {}
    for c in calls:
        kw = c.get("kw", {})
        before = copy.deepcopy(kw)
        try:
            fn = c["fn"]
            if fn == "parse":
                r = canon(dateparser.parse(c["s"], **kw))
            elif fn == "gdd":
                init = {k: v for k, v in kw.items() if k != "date_formats"}
                dd = DateDataParser(**init).get_date_data(c["s"], kw.get("date_formats"))
                r = [canon(dd.date_obj), dd.period, dd.locale]
            elif fn == "gdd_inst":
                # a DateDataParser instance that lives across calls (created on first use with these arguments)
                init = {k: v for k, v in kw.items() if k != "date_formats"}
                ikey = json.dumps(c["kw_key"], sort_keys=True)
                if ikey not in instances:
                    instances[ikey] = DateDataParser(**init)
                dd = instances[ikey].get_date_data(c["s"], kw.get("date_formats"))
                r = [canon(dd.date_obj), dd.period, dd.locale]
            elif fn == "search":
                from dateparser.search import search_dates
                r = canon(search_dates(c["s"], **kw))
            elif fn == "jalali":
                from dateparser.calendars.jalali import JalaliCalendar
                dd = JalaliCalendar(c["s"]).get_date()
                r = None if dd is None else [canon(dd.date_obj), dd.period]
            elif fn == "hijri":
                from dateparser.calendars.hijri import HijriCalendar
                dd = HijriCalendar(c["s"]).get_date()
                r = None if dd is None else [canon(dd.date_obj), dd.period]
            else:
                r = "bad-fn"
            o = {"ok": r}
        except BaseException as e:  # noqa
            o = {"exc": type(e).__name__}
        if kw != before:
            o["args_modified"] = True
        out.append(o)
    print(json.dumps(out, ensure_ascii=False))


if __name__ == "__main__":
    main()
