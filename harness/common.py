"""Shared machinery of the correspondence harness.

* `Model`      — pipes JSON lines to the compiled Lean driver (`lean/.lake/build/bin/dpdriver`)
* `lib_gdd`    — runs `DateDataParser(...).get_date_data` on the real library, canonicalised
* `case_model` — converts a harness case to the model's line protocol
* evidence / replay / known-findings helpers
"""
import datetime as _dt
import hashlib
import json
import os
import random
import subprocess
import sys
import time

os.environ["TZ"] = os.environ.get("DP_TZ", "UTC")
time.tzset()

VERIF = os.path.dirname(os.path.dirname(os.path.abspath(__file__)))
REPO = os.environ.get("DP_REPO", "/repo")
if REPO not in sys.path:
    sys.path.insert(0, REPO)
LEAN = os.path.join(VERIF, "lean")
DRIVER = os.path.join(LEAN, ".lake", "build", "bin", "dpdriver")
GEN = os.path.join(LEAN, "gen")

D = _dt.datetime


def seed():
    try:
        return int(os.environ.get("VERIF_SEED", "1"))
    except ValueError:
        return int(hashlib.sha256(os.environ["VERIF_SEED"].encode()).hexdigest()[:8], 16)


def rng(tag=""):
    return random.Random("%d/%s" % (seed(), tag))


# --------------------------------------------------------------------------- model driver
class Model:
    def __init__(self):
        self.alphabet = set(json.load(open(os.path.join(GEN, "alphabet.json"), encoding="utf-8")))

    def run(self, cases, chunk=None):
        """cases: list of dicts → list of dict outputs (same order)"""
        if not cases:
            return []
        nproc = min(16, max(1, len(cases) // 200)) if chunk is None else chunk
        parts = [cases[i::nproc] for i in range(nproc)]
        procs = []
        for part in parts:
            inp = "\n".join(json.dumps(c, ensure_ascii=False) for c in part) + "\n"
            p = subprocess.Popen([DRIVER, GEN], stdin=subprocess.PIPE, stdout=subprocess.PIPE, stderr=subprocess.PIPE)
            procs.append((p, inp))
        outs = []
        import threading
        results = [None] * len(procs)

        def work(i, p, inp):
            results[i] = p.communicate(inp.encode("utf-8"))
        ths = [threading.Thread(target=work, args=(i, p, inp)) for i, (p, inp) in enumerate(procs)]
        for t in ths:
            t.start()
        for t in ths:
            t.join()
        per = []
        for (p, _), (so, se), part in zip(procs, results, parts):
            lines = so.decode("utf-8").split("\n")
            if lines and lines[-1] == "":
                lines.pop()
            if p.returncode != 0 or len(lines) != len(part):
                raise RuntimeError("dpdriver failed (rc=%s, %d/%d lines): %s" % (p.returncode, len(lines), len(part), se.decode()[:500]))
            per.append([json.loads(l) for l in lines])
        out = [None] * len(cases)
        for k, res in enumerate(per):
            for j, r in enumerate(res):
                out[k + j * nproc] = r
        return out


# --------------------------------------------------------------------------- canonical forms
def canon_dt(d):
    if d is None:
        return None
    off = "naive" if d.tzinfo is None else str(int(d.utcoffset().total_seconds()))
    return "%04d-%02d-%02d %02d:%02d:%02d.%06d|%s" % (d.year, d.month, d.day, d.hour, d.minute, d.second, d.microsecond, off)


def canon_dd(dd):
    if dd is None or dd.date_obj is None:
        return {"r": None}
    return {"r": "%s|%s|%s" % (canon_dt(dd.date_obj), dd.period, dd.locale or "")}


def err_kind(e):
    from dateparser.conf import SettingValidationError
    import pytz
    if isinstance(e, SettingValidationError):
        return "SettingValidationError"
    if isinstance(e, pytz.UnknownTimeZoneError):
        return "UnknownTimeZoneError"
    for k in (ValueError, OverflowError, IndexError, KeyError, TypeError, AttributeError, AssertionError):
        if type(e) is k:
            return k.__name__
    for k in (ValueError, OverflowError, IndexError, KeyError, TypeError, AttributeError, AssertionError):
        if isinstance(e, k):
            return k.__name__
    return "Other:" + type(e).__name__


_pytz_cache = {}


def pytz_knows(name):
    import pytz
    if name not in _pytz_cache:
        try:
            pytz.timezone(name)
            _pytz_cache[name] = True
        except Exception:
            _pytz_cache[name] = False
    return _pytz_cache[name]


def dtj(d):
    return {"y": d.year, "mo": d.month, "d": d.day, "h": d.hour, "mi": d.minute, "s": d.second, "us": d.microsecond}


def case_model(c):
    """harness case → model line.  c = {s, langs|locales|auto, region, givenOrder, settings{...}, fmts, today}"""
    st = c.get("settings", {})
    m = {"op": "gdd", "s": c["s"]}
    if c.get("auto"):
        m["auto"] = True
    if c.get("langs"):
        m["langs"] = list(c["langs"])
    if c.get("locales"):
        m["locales"] = list(c["locales"])
    if c.get("region"):
        m["region"] = c["region"]
    if c.get("givenOrder"):
        m["givenOrder"] = True
    if c.get("fmts"):
        m["fmts"] = list(c["fmts"])
    b = st.get("RELATIVE_BASE")
    if b is None:
        raise ValueError("model cases need RELATIVE_BASE")
    m["now"] = dtj(b)
    if b.tzinfo is not None:
        m["nowOff"] = int(b.utcoffset().total_seconds())
    today = c.get("today") or RUN_TODAY
    m["today"] = dtj(today)
    tz = st.get("TIMEZONE", "local")
    m["tz"] = tz
    m["tzPytz"] = pytz_knows(tz)
    if "DATE_ORDER" in st:
        m["order"] = st["DATE_ORDER"]; m["orderGiven"] = True
    if "PREFER_LOCALE_DATE_ORDER" in st:
        m["plo"] = st["PREFER_LOCALE_DATE_ORDER"]
    if st.get("TO_TIMEZONE"):
        m["totz"] = st["TO_TIMEZONE"]; m["totzPytz"] = pytz_knows(st["TO_TIMEZONE"])
    if "RETURN_AS_TIMEZONE_AWARE" in st:
        m["aware"] = st["RETURN_AS_TIMEZONE_AWARE"]
    for k, mk in (("PREFER_DAY_OF_MONTH", "pd"), ("PREFER_MONTH_OF_YEAR", "pm"), ("PREFER_DATES_FROM", "pf"), ("STRICT_PARSING", "strict"),
                  ("REQUIRE_PARTS", "req"), ("NORMALIZE", "norm"), ("RETURN_TIME_AS_PERIOD", "tap"), ("SKIP_TOKENS", "skip"),
                  ("PARSERS", "parsers"), ("DEFAULT_LANGUAGES", "dl")):
        if k in st:
            m[mk] = st[k]
    return m


_ddp_cache = {}


class _ClockMeta(type):
    def __instancecheck__(cls, obj):
        return isinstance(obj, _dt.datetime)


# the calendar day of this run, at noon: what custom-format cases without a clock of their own see as "now" (library and model alike), so that a
# run crossing midnight stays consistent with itself
RUN_TODAY = _dt.datetime.combine(_dt.date.today(), _dt.time(12, 0))


def fake_clock(fixed):
    """a `datetime` class whose now()/today() return `fixed` (naive = UTC wall clock); everything else is the real class"""
    class FakeDatetime(_dt.datetime, metaclass=_ClockMeta):
        @classmethod
        def now(cls, tz=None):
            if tz is None:
                return fixed
            return fixed.replace(tzinfo=_dt.timezone.utc).astimezone(tz)

        @classmethod
        def today(cls):
            return fixed

        @classmethod
        def utcnow(cls):
            return fixed
    return FakeDatetime


class clock_at:
    """harness-side control of the system clock the library reads (modules that did `from datetime import datetime`); TZ is UTC in the harness"""
    MODS = ("dateparser.utils", "dateparser.date", "dateparser.parser", "dateparser.freshness_date_parser")

    def __init__(self, fixed):
        self.fixed = fixed

    def __enter__(self):
        import importlib
        self.saved = []
        fk = fake_clock(self.fixed)
        for m in self.MODS:
            mod = importlib.import_module(m)
            self.saved.append((mod, mod.datetime))
            mod.datetime = fk

    def __exit__(self, *a):
        for mod, real in self.saved:
            mod.datetime = real


def lib_gdd(c):
    """run the real library on a harness case; returns canonical dict"""
    from dateparser.date import DateDataParser
    st = dict(c.get("settings", {}))
    kw = {}
    if c.get("langs"):
        kw["languages"] = list(c["langs"])
    if c.get("locales"):
        kw["locales"] = list(c["locales"])
    if c.get("region"):
        kw["region"] = c["region"]
    if c.get("givenOrder"):
        kw["use_given_order"] = True
    if c.get("clock") is None and c.get("fmts"):
        c = dict(c, clock=c.get("today") or RUN_TODAY)      # custom formats read the system clock: pin it for the run (see RUN_TODAY)
    try:
        if c.get("clock") is not None:
            with clock_at(c["clock"]):
                ddp = DateDataParser(settings=st, **kw)
                r = ddp.get_date_data(c["s"], c.get("fmts"))
                return canon_dd(r)
        ddp = DateDataParser(settings=st, **kw)
        r = ddp.get_date_data(c["s"], c.get("fmts"))
        return canon_dd(r)
    except Exception as e:  # noqa
        return {"e": err_kind(e)}


def lib_parse(s, **kw):
    import dateparser
    try:
        return canon_dt(dateparser.parse(s, **kw))
    except Exception as e:  # noqa
        return "ERR:" + err_kind(e)


# --------------------------------------------------------------------------- parallel map over cases (fork pool)
def pmap(fn, items, procs=16, chunksize=64, force=False):
    if (len(items) < 400 and not force) or procs <= 1:
        return [fn(x) for x in items]
    import multiprocessing as mp
    ctx = mp.get_context("fork")
    with ctx.Pool(procs) as pool:
        return pool.map(fn, items, chunksize=chunksize)


# --------------------------------------------------------------------------- corpus, languages
def corpus():
    return json.load(open(os.path.join(VERIF, "corpus", "corpus.json"), encoding="utf-8"))


def langdata():
    return json.load(open(os.path.join(GEN, "langdata.json"), encoding="utf-8"))


# --------------------------------------------------------------------------- findings / replays / evidence
def load_known(pid):
    p = os.path.join(VERIF, "known_findings.json")
    try:
        data = json.load(open(p, encoding="utf-8"))
    except FileNotFoundError:
        return []
    return [e for e in data if e.get("property") == pid and e.get("status") == "recorded"]


def write_replay(pid, name, payload):
    d = os.path.join(VERIF, "replays")
    os.makedirs(d, exist_ok=True)
    path = os.path.join(d, "%s-%s.json" % (pid, name))
    with open(path, "w", encoding="utf-8") as f:
        json.dump(payload, f, ensure_ascii=False, indent=1, default=str)
    return path


def write_evidence(pid, tier, level, coverage, wall_s, violations=0, assumptions=None):
    d = os.path.join(VERIF, "evidence")
    os.makedirs(d, exist_ok=True)
    ev = {"property_id": pid, "tier": tier, "seed": seed(), "level": level, "coverage": coverage,
          "wall_s": round(wall_s, 2), "violations": violations}
    if assumptions:
        ev["assumptions"] = assumptions
    with open(os.path.join(d, pid + ".json"), "w", encoding="utf-8") as f:
        json.dump(ev, f, ensure_ascii=False, indent=1, default=str)
    return ev
