"""The fixed family F of standard renderings (C01) — mirrored by the record shapes of lean/DPProofs/C01.lean."""
import calendar

MON = [calendar.month_name[i] for i in range(1, 13)]
ABBR = [calendar.month_abbr[i] for i in range(1, 13)]
WK = [calendar.day_abbr[i] for i in range(7)]


def y4(d):
    return "%04d" % d.year


def trunc(d, **kw):
    return d.replace(**kw)


def family(d):
    """list of (format-name, string, expected datetime truncated to the precision written)"""
    ymd = "%s-%02d-%02d" % (y4(d), d.month, d.day)
    hms = "%02d:%02d:%02d" % (d.hour, d.minute, d.second)
    h12 = d.hour % 12 or 12
    ap = "AM" if d.hour < 12 else "PM"
    day0 = d.replace(hour=0, minute=0, second=0, microsecond=0)
    sec = d.replace(microsecond=0)
    mnt = d.replace(second=0, microsecond=0)
    ms3 = d.replace(microsecond=d.microsecond // 1000 * 1000)
    return [
        ("iso-date", ymd, day0),
        ("iso-hm", "%s %02d:%02d" % (ymd, d.hour, d.minute), mnt),
        ("iso-hms", "%s %s" % (ymd, hms), sec),
        ("iso-T", "%sT%s" % (ymd, hms), sec),
        ("iso-us", "%s %s.%06d" % (ymd, hms, d.microsecond), d),
        ("iso-T-us", "%sT%s.%06d" % (ymd, hms, d.microsecond), d),
        ("iso-ms", "%s %s.%03d" % (ymd, hms, d.microsecond // 1000), ms3),
        ("iso-T-ms", "%sT%s.%03d" % (ymd, hms, d.microsecond // 1000), ms3),
        ("rfc2822", "%s, %02d %s %s %s" % (WK[d.weekday()], d.day, ABBR[d.month - 1], y4(d), hms), sec),
        ("rfc2822-z", "%s, %02d %s %s %s +0000" % (WK[d.weekday()], d.day, ABBR[d.month - 1], y4(d), hms), sec),
        ("long-mdy", "%s %d, %s" % (MON[d.month - 1], d.day, y4(d)), day0),
        ("long-dmy", "%d %s %s" % (d.day, MON[d.month - 1], y4(d)), day0),
        ("abbr-12h", "%s %d, %s %d:%02d %s" % (ABBR[d.month - 1], d.day, y4(d), h12, d.minute, ap), mnt),
        ("long-dmy-hms", "%d %s %s %s" % (d.day, MON[d.month - 1], y4(d), hms), sec),
    ]
