import itertools
comps=['day','month','year']
txt={'day':'pad2c d','month':'pad2c m','year':'pad4c y'}
out=['''import DPProofs.C01String
import DPProofs.C07
/-!
# C07 at string level (GENERATED text, one block per order × separator, same script): three numeric fields written in the order `O`
with `/`, `-` or a space between them are read as exactly that day, month and year — from the characters, for every valid date.
-/
namespace DP

theorem tkCls_slash : tkCls '/' = 2 := by decide
theorem stripWs_slash : stripWs ['/'] = ['/'] := by decide

def fieldText (y m d : Nat) : Comp → List Char
  | .year => pad4c y | .month => pad2c m | .day => pad2c d

/-- three fields written in the order `O`, separated by `sep` -/
def renderOrder (O : List Comp) (sep : Char) (y m d : Nat) : List Char :=
  match O with
  | [a, b, c] => fieldText y m d a ++ [sep] ++ fieldText y m d b ++ [sep] ++ fieldText y m d c
  | _ => []

def micOf (y m d : Nat) : Comp → Option (List Char) := fun c => some (fieldText y m d c)
''']
names=[]
for perm in itertools.permutations(comps):
    for sepname,sep in (('slash','/'),('dash','-'),('space',' ')):
        a,b,c=perm
        nm='%s_%s_%s_%s'%(a[0],b[0],c[0],sepname)
        names.append((perm,sep,nm))
        toks="[(%s, 0), (['%s'], 2), (%s, 0), (['%s'], 2), (%s, 0)]"%(txt[a],sep,txt[b],sep,txt[c])
        ssep="[]" if sep==' ' else "['%s']"%sep   # the separator token after .strip()
        stoks="[(%s, 0), (%s, 2), (%s, 0), (%s, 2), (%s, 0)]"%(txt[a],ssep,txt[b],ssep,txt[c])
        out.append('''
theorem c07_%(nm)s (st : PSettings) (hst : st.order = [.%(a)s, .%(b)s, .%(c)s]) (y m d : Nat) (hd : DateOk y m d) :
    absParse st (renderOrder [.%(a)s, .%(b)s, .%(c)s] '%(sep)s' y m d) = .ok ({ y := y, mo := m, d := d }, .day) := by
  have hy : y ≤ 9999 := hd.y2
  have hm : m < 100 := by have := hd.m2; omega
  have hdd : d < 100 := by have := hd.d2; have := dim_le_31 y m; omega
  have y1 : y / 1000 < 10 := by omega
  have y2 : y / 100 %% 10 < 10 := by omega
  have y3 : y / 10 %% 10 < 10 := by omega
  have y4 : y %% 10 < 10 := by omega
  have m1 : m / 10 < 10 := by omega
  have m2 : m %% 10 < 10 := by omega
  have d1 : d / 10 < 10 := by omega
  have d2 : d %% 10 < 10 := by omega
  have htok : tokenize (renderOrder [.%(a)s, .%(b)s, .%(c)s] '%(sep)s' y m d) = .ok %(toks)s := by
    simp [tokenize, tokGo, renderOrder, fieldText, pad4c, pad2c, tkCls_dch, tkCls_dash, tkCls_slash, tkCls_space, y1, y2, y3, y4, m1, m2, d1, d2]
  have hno : ∀ t ∈ %(stoks)s, ¬ '.' ∈ (t : List Char × Nat).1 := by
    intro t ht
    simp only [List.mem_cons, List.not_mem_nil, or_false] at ht
    rcases ht with rfl | rfl | rfl | rfl | rfl <;>
      first | exact dot_pad4 y hy | exact colon_pad2 m hm '.' (by simp) | exact colon_pad2 d hdd '.' (by simp) | simp
  have hcls : classify #%(stoks)s =
      [.%(a)s, .%(b)s, .%(c)s].map (fun c => fieldTI c (pad4c y) (pad2c m) (pad2c d) y m d true true (micOf y m d) false) := by
    simp [classify, fieldTI, micOf, fieldText, tiYear4, tiSmall, fmt_m, fmt_d, fmt_y, fmt_Y, dirNum_m2, dirNum_d2, dirNum_y2, dirNum_Y2, dirNum_Y4,
      dirNum_four_none, hy, hm, hdd, List.zipIdx,
      allAscii_pad4 y hy, natOfAscii_pad4 y hy, micro_pad4 y hy, merid_pad4 y hy, skip_pad4 y hy, colon_pad4 y hy,
      allAscii_pad2 m hm, natOfAscii_pad2 m hm, micro_pad2 m hm, merid_pad2 m hm, skip_pad2 m hm, colon_pad2 m hm ':' (by simp),
      allAscii_pad2 d hdd, natOfAscii_pad2 d hdd, micro_pad2 d hdd, merid_pad2 d hdd, skip_pad2 d hdd, colon_pad2 d hdd ':' (by simp)]
    exact ⟨dotAfter_false _ (fun t ht => hno t (List.mem_cons_of_mem _ ht)) _, dotAfter_false _ (fun t ht => hno t (List.mem_cons_of_mem _ ht)) _,
      dotAfter_false _ (fun t ht => hno t (List.mem_cons_of_mem _ ht)) _⟩
  unfold absParse
  rw [htok]
  simp only [bind, Except.bind, List.map_cons, List.map_nil, stripWs_pad4 y hy, stripWs_pad2 m hm, stripWs_pad2 d hdd, stripWs_dash, stripWs_slash, stripWs_space]
  rw [hcls]
  exact C07_order_decides st _ (by simp [allOrders]) hst y m d hd.y1 hd.y2 hd.m1 hd.m2 hd.d1 hd.d2 (pad4c y) (pad2c m) (pad2c d) rfl
    (by simp [pad2c]) (by simp [pad2c]) true true (fun _ => rfl) (fun _ => rfl) (micOf y m d) false
'''%dict(nm=nm,a=a,b=b,c=c,sep=sep,toks=toks,stoks=stoks))
out.append('''
/-- **C07_order_string**: for each of the six DATE_ORDER values `O` in force and the separators `/`, `-` and space, a valid date whose fields are written
    in the order `O` (two-digit day and month, four-digit year) is read as exactly that date — the whole absolute parser, from the characters. -/
theorem C07_order_string (st : PSettings) (O : List Comp) (hO : O ∈ allOrders) (hst : st.order = O) (sep : Char) (hsep : sep = '/' ∨ sep = '-' ∨ sep = ' ')
    (y m d : Nat) (hd : DateOk y m d) :
    absParse st (renderOrder O sep y m d) = .ok ({ y := y, mo := m, d := d }, .day) := by
  simp only [allOrders, List.mem_cons, List.mem_nil_iff, or_false] at hO
  rcases hsep with rfl | rfl | rfl <;> rcases hO with rfl | rfl | rfl | rfl | rfl | rfl
''')
order_in_allOrders=[('day','month','year'),('day','year','month'),('month','day','year'),('month','year','day'),('year','day','month'),('year','month','day')]
for sepname in ('slash','dash','space'):
    for perm in order_in_allOrders:
        nm='%s_%s_%s_%s'%(perm[0][0],perm[1][0],perm[2][0],sepname)
        out.append("  · exact c07_%s st hst y m d hd\n"%nm)
out.append("\nend DP\n")
open('/verif/lean/DPProofs/C07String.lean','w').write("".join(out))

# ---------------------------------------------------------------- '.' between the fields (DPProofs/C07DotString.lean)
out=['''import DPProofs.C07Dot
/-!
# C07 at string level with '.' between the fields (GENERATED text, one block per order, same script)

The stage-1 records now carry whatever the "a '.' follows this token" look-up of the real `_parser` yields (`dotOf`, the expression of
`classify` verbatim; it depends on the order and on whether day and month are written alike); `C07_order_decides_dots` holds for every
value of those flags. The `H.M` clock reading (`hmMerge`) is ruled out by `classify` itself: each candidate pair is followed by another '.'.
-/
namespace DP

/-- the look-up `'.' in tokens[tokens.index((token, 0)) + 1][0]` of `classify`, as a function of the raw token list -/
def dotOf (raw : Array (List Char × Nat)) (tok : List Char) : Bool :=
  match raw.toList.findIdx? (fun (t : List Char × Nat) => t.1 == tok && t.2 == 0) with
  | none => false
  | some j => match raw[j+1]? with
    | none => false
    | some (t2, _) => t2.contains '.'
''']
for perm in itertools.permutations(comps):
    a,b,c=perm
    nm='%s_%s_%s_dot'%(a[0],b[0],c[0])
    toks="[(%s, 0), (['.'], 2), (%s, 0), (['.'], 2), (%s, 0)]"%(txt[a],txt[b],txt[c])
    out.append('''
theorem c07_%(nm)s (st : PSettings) (hst : st.order = [.%(a)s, .%(b)s, .%(c)s]) (y m d : Nat) (hd : DateOk y m d) :
    absParse st (renderOrder [.%(a)s, .%(b)s, .%(c)s] '.' y m d) = .ok ({ y := y, mo := m, d := d }, .day) := by
  have hy : y ≤ 9999 := hd.y2
  have hm : m < 100 := by have := hd.m2; omega
  have hdd : d < 100 := by have := hd.d2; have := dim_le_31 y m; omega
  have y1 : y / 1000 < 10 := by omega
  have y2 : y / 100 %% 10 < 10 := by omega
  have y3 : y / 10 %% 10 < 10 := by omega
  have y4 : y %% 10 < 10 := by omega
  have m1 : m / 10 < 10 := by omega
  have m2 : m %% 10 < 10 := by omega
  have d1 : d / 10 < 10 := by omega
  have d2 : d %% 10 < 10 := by omega
  have htok : tokenize (renderOrder [.%(a)s, .%(b)s, .%(c)s] '.' y m d) = .ok %(toks)s := by
    simp [tokenize, tokGo, renderOrder, fieldText, pad4c, pad2c, tkCls_dch, tkCls_dot, y1, y2, y3, y4, m1, m2, d1, d2]
  have hcls : classify #%(toks)s =
      [.%(a)s, .%(b)s, .%(c)s].map (fun c => fieldTID c (pad4c y) (pad2c m) (pad2c d) y m d true true (micOf y m d)
        (fun c => dotOf #%(toks)s (fieldText y m d c))) := by
    simp [classify, dotOf, fieldTID, micOf, fieldText, tiYear4, tiSmall, fmt_m, fmt_d, fmt_y, fmt_Y, dirNum_m2, dirNum_d2, dirNum_y2, dirNum_Y2, dirNum_Y4,
      dirNum_four_none, hy, hm, hdd, List.zipIdx,
      allAscii_pad4 y hy, natOfAscii_pad4 y hy, micro_pad4 y hy, merid_pad4 y hy, skip_pad4 y hy, colon_pad4 y hy,
      allAscii_pad2 m hm, natOfAscii_pad2 m hm, micro_pad2 m hm, merid_pad2 m hm, skip_pad2 m hm, colon_pad2 m hm ':' (by simp),
      allAscii_pad2 d hdd, natOfAscii_pad2 d hdd, micro_pad2 d hdd, merid_pad2 d hdd, skip_pad2 d hdd, colon_pad2 d hdd ':' (by simp)]
    exact ⟨rfl, rfl, rfl⟩
  unfold absParse
  rw [htok]
  simp only [bind, Except.bind, List.map_cons, List.map_nil, stripWs_pad4 y hy, stripWs_pad2 m hm, stripWs_pad2 d hdd, stripWs_dot]
  rw [hcls]
  exact C07_order_decides_dots st _ (by simp [allOrders]) hst y m d hd.y1 hd.y2 hd.m1 hd.m2 hd.d1 hd.d2 (pad4c y) (pad2c m) (pad2c d) rfl
    (by simp [pad2c]) (by simp [pad2c]) true true (fun _ => rfl) (fun _ => rfl) (micOf y m d) _
'''%dict(nm=nm,a=a,b=b,c=c,toks=toks))
out.append('''
/-- **C07_order_string_dot**: the statement of `C07_order_string` for '.' between the fields ('31.12.2020', '2020.31.12', …): the '.'
    makes `classify` consider the `H.M` clock reading and the fraction-of-a-second look-up for every field, and neither changes the date read. -/
theorem C07_order_string_dot (st : PSettings) (O : List Comp) (hO : O ∈ allOrders) (hst : st.order = O)
    (y m d : Nat) (hd : DateOk y m d) :
    absParse st (renderOrder O '.' y m d) = .ok ({ y := y, mo := m, d := d }, .day) := by
  simp only [allOrders, List.mem_cons, List.mem_nil_iff, or_false] at hO
  rcases hO with rfl | rfl | rfl | rfl | rfl | rfl
''')
for perm in order_in_allOrders:
    out.append("  · exact c07_%s_%s_%s_dot st hst y m d hd\n"%(perm[0][0],perm[1][0],perm[2][0]))
out.append('''
/-- **C07_order_string_all**: every order × every separator of the property ('/', '-', '.', ' ') × every valid date, from the characters. -/
theorem C07_order_string_all (st : PSettings) (O : List Comp) (hO : O ∈ allOrders) (hst : st.order = O) (sep : Char)
    (hsep : sep ∈ ['-', '/', '.', ' ']) (y m d : Nat) (hd : DateOk y m d) :
    absParse st (renderOrder O sep y m d) = .ok ({ y := y, mo := m, d := d }, .day) := by
  simp only [List.mem_cons, List.mem_nil_iff, or_false] at hsep
  rcases hsep with rfl | rfl | rfl | rfl
  · exact C07_order_string st O hO hst _ (Or.inr (Or.inl rfl)) y m d hd
  · exact C07_order_string st O hO hst _ (Or.inl rfl) y m d hd
  · exact C07_order_string_dot st O hO hst y m d hd
  · exact C07_order_string st O hO hst _ (Or.inr (Or.inr rfl)) y m d hd

/-- non-vacuity: 29 February 2024 written year-first with dots is a rendering the theorem speaks about, and the model reads it. -/
example : absParse { order := [.year, .month, .day] } (renderOrder [.year, .month, .day] '.' 2024 2 29)
    = .ok ({ y := 2024, mo := 2, d := 29 }, .day) :=
  C07_order_string_all _ _ (by simp [allOrders]) rfl '.' (by simp) 2024 2 29 ⟨by decide, by decide, by decide, by decide, by decide, by decide⟩
example : renderOrder [.year, .month, .day] '.' 2024 2 29 = "2024.02.29".toList := by decide

end DP
''')
open('/verif/lean/DPProofs/C07DotString.lean','w').write("".join(out))
