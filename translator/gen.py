#!/venv/bin/python
"""Translator: /repo's current working tree  ->  lean/DPModel/Gen/*.lean + lean/gen/*.json

Moves *data*, never logic: constants, regex sources (+flags), directive lists, `except (...)` tuples,
the timezone definition list, settings defaults, language data, Unicode facts for the finite alphabet A.
Files are rewritten only when their content changes (so `lake build` stays incremental).
Also writes gen/fingerprints.json: sha256 of the position-free AST dump of every hand-modelled function.
"""
import ast, hashlib, importlib, json, os, pickle, sys, unicodedata, glob, io, re

REPO = os.environ.get("DP_REPO", "/repo")
VERIF = os.path.dirname(os.path.dirname(os.path.abspath(__file__)))
GEN_LEAN = os.path.join(VERIF, "lean", "DPModel", "Gen")
GEN_DATA = os.path.join(VERIF, "lean", "gen")
sys.path.insert(0, REPO)

changed = []


def write_if_changed(path, text):
    os.makedirs(os.path.dirname(path), exist_ok=True)
    try:
        old = open(path, encoding="utf-8").read()
    except FileNotFoundError:
        old = None
    if old != text:
        with open(path + ".tmp", "w", encoding="utf-8") as f:
            f.write(text)
        os.replace(path + ".tmp", path)
        changed.append(os.path.relpath(path, VERIF))


# ----------------------------------------------------------------------------- Lean literal helpers
def lstr(s):
    out = ['"']
    for c in s:
        o = ord(c)
        if c == "\\":
            out.append("\\\\")
        elif c == '"':
            out.append('\\"')
        elif c == "\n":
            out.append("\\n")
        elif c == "\t":
            out.append("\\t")
        elif c == "\r":
            out.append("\\r")
        elif o < 32 or o == 127 or (0x80 <= o < 0xA0) or o in (0x2028, 0x2029, 0xFEFF, 0x200E, 0x200F, 0x200B, 0x200C, 0x200D, 0x061C) or (0xD800 <= o <= 0xDFFF):
            if o <= 0xFFFF:
                out.append("\\u%04x" % o)
            else:
                out.append(c)
        else:
            out.append(c)
    out.append('"')
    return "".join(out)


def llist(xs, f=lstr):
    return "[" + ", ".join(f(x) for x in xs) + "]"


def lbool(b):
    return "true" if b else "false"


# ----------------------------------------------------------------------------- AST access
class Src:
    def __init__(self, rel):
        self.rel = rel
        self.path = os.path.join(REPO, rel)
        self.text = open(self.path, encoding="utf-8").read()
        self.tree = ast.parse(self.text)

    def _scope(self, qual):
        """qual like 'Class.method' or '' -> body list"""
        body = self.tree.body
        if qual:
            for part in qual.split("."):
                for n in body:
                    if isinstance(n, (ast.ClassDef, ast.FunctionDef)) and n.name == part:
                        body = n.body
                        break
                else:
                    raise KeyError("%s: scope %s not found" % (self.rel, qual))
        return body

    def assign(self, name, qual="", deep=False):
        body = self._scope(qual)
        nodes = body
        if deep:
            nodes = [x for n in body for x in ast.walk(n)]
        for n in nodes:
            if isinstance(n, ast.Assign):
                for t in n.targets:
                    if isinstance(t, ast.Name) and t.id == name:
                        return n.value
        raise KeyError("%s: %s.%s not found" % (self.rel, qual, name))

    def func(self, qual):
        body = self.tree.body
        node = None
        for part in qual.split("."):
            for n in body:
                if isinstance(n, (ast.ClassDef, ast.FunctionDef)) and n.name == part:
                    node = n
                    body = n.body
                    break
            else:
                raise KeyError("%s: %s not found" % (self.rel, qual))
        return node

    def fingerprint(self, qual):
        n = self.func(qual)
        # drop docstring
        b = list(n.body)
        if b and isinstance(b[0], ast.Expr) and isinstance(getattr(b[0], "value", None), ast.Constant) and isinstance(b[0].value.value, str):
            b = b[1:]
        dump = ast.dump(ast.Module(body=b, type_ignores=[]), annotate_fields=False, include_attributes=False)
        return hashlib.sha256(dump.encode()).hexdigest()[:16]


def const_eval(node, env=None):
    """literal_eval extended with %-formatting / + / join of known names"""
    env = env or {}
    if isinstance(node, ast.Constant):
        return node.value
    if isinstance(node, ast.Name) and node.id in env:
        return env[node.id]
    if isinstance(node, (ast.List, ast.Tuple)):
        return [const_eval(e, env) for e in node.elts]
    if isinstance(node, ast.Dict):
        return {const_eval(k, env): const_eval(v, env) for k, v in zip(node.keys, node.values)}
    if isinstance(node, ast.BinOp) and isinstance(node.op, ast.Mod):
        return const_eval(node.left, env) % (tuple(const_eval(node.right, env)) if isinstance(node.right, ast.Tuple) else const_eval(node.right, env))
    if isinstance(node, ast.BinOp) and isinstance(node.op, ast.Add):
        return const_eval(node.left, env) + const_eval(node.right, env)
    if isinstance(node, ast.JoinedStr):
        return "".join(const_eval(v, env) if not isinstance(v, ast.FormattedValue) else str(const_eval(v.value, env)) for v in node.values)
    if isinstance(node, ast.Call) and isinstance(node.func, ast.Attribute) and node.func.attr == "join":
        return const_eval(node.func.value, env).join(const_eval(node.args[0], env))
    if isinstance(node, ast.Call) and getattr(node.func, "id", None) == "OrderedDict":
        return dict((k, v) for k, v in const_eval(node.args[0], env))
    return ast.literal_eval(node)


FLAGMAP = {"I": "I", "IGNORECASE": "I", "U": "U", "UNICODE": "U", "M": "M", "MULTILINE": "M", "S": "S", "DOTALL": "S"}


def flags_of(node):
    if node is None:
        return set()
    if isinstance(node, ast.Attribute):
        return {FLAGMAP[node.attr]}
    if isinstance(node, ast.BinOp) and isinstance(node.op, ast.BitOr):
        return flags_of(node.left) | flags_of(node.right)
    raise ValueError("flags: " + ast.dump(node))


def regex_of(node, env=None):
    """re.compile(pat, flags) -> (pattern, flagset)"""
    assert isinstance(node, ast.Call) and node.func.attr == "compile", ast.dump(node)
    pat = const_eval(node.args[0], env)
    fl = None
    if len(node.args) > 1:
        fl = node.args[1]
    for kw in node.keywords:
        if kw.arg == "flags":
            fl = kw.value
    return pat, flags_of(fl)


def except_names(fn_node):
    """list of the exception-name tuples of every `except` in a function, in source order"""
    out = []
    for n in ast.walk(fn_node):
        if isinstance(n, ast.ExceptHandler):
            t = n.type
            if t is None:
                out.append(["BaseException"])
            elif isinstance(t, ast.Tuple):
                out.append([ast.unparse(e).split(".")[-1] for e in t.elts])
            else:
                out.append([ast.unparse(t).split(".")[-1]])
    return out



def lazy_fact(src):
    """Locale's lazily built attributes (tested with `is None`): inside every method, is the attribute assigned only once its value is complete?
    False when an empty container is assigned to it, or when it is mutated (append / update / item assignment …) after the assignment."""
    tree = ast.parse(src)
    cls = [n for n in ast.walk(tree) if isinstance(n, ast.ClassDef) and n.name == "Locale"][0]
    lazy = set()
    for n in ast.walk(cls):
        if isinstance(n, ast.Compare) and isinstance(n.ops[0], ast.Is) and isinstance(n.comparators[0], ast.Constant) and n.comparators[0].value is None:
            t = ast.unparse(n.left)
            if t.startswith("self._"):
                lazy.add(t)
    MUT = {"append", "extend", "update", "add", "insert", "setdefault", "pop", "remove", "clear", "sort", "reverse"}
    state = {"ok": True}

    def visit(stmts, published):
        for st in stmts:
            own = [st] if not hasattr(st, "body") else [getattr(st, "test", None), getattr(st, "iter", None)]
            for e in own:
                if e is None:
                    continue
                for x in ast.walk(e):
                    if isinstance(x, ast.Call) and isinstance(x.func, ast.Attribute) and x.func.attr in MUT and ast.unparse(x.func.value) in published:
                        state["ok"] = False
                    if isinstance(x, ast.Subscript) and isinstance(x.ctx, (ast.Store, ast.Del)) and ast.unparse(x.value) in published:
                        state["ok"] = False
                    if isinstance(x, ast.AugAssign) and ast.unparse(x.target) in published:
                        state["ok"] = False
            if isinstance(st, ast.Assign):
                for t in st.targets:
                    if ast.unparse(t) in lazy:
                        v = st.value
                        if isinstance(v, (ast.List, ast.Dict, ast.Set)) and not (getattr(v, "elts", None) or getattr(v, "keys", None)):
                            state["ok"] = False
                        if isinstance(v, ast.Call) and not v.args and not v.keywords and getattr(v.func, "id", getattr(v.func, "attr", "")) in ("OrderedDict", "dict", "list", "set", "defaultdict", "deque"):
                            state["ok"] = False          # an empty container published first and filled afterwards
                        published.add(ast.unparse(t))
            for part in ("body", "orelse", "finalbody"):
                if hasattr(st, part):
                    visit(getattr(st, part), published)
            if isinstance(st, ast.Try):
                for h in st.handlers:
                    visit(h.body, published)
    for fn in cls.body:
        if isinstance(fn, ast.FunctionDef) and fn.name != "__init__":
            visit(fn.body, set())
    return state["ok"], len(lazy)

# ----------------------------------------------------------------------------- shared-state inventory
INV_MUT = {"append", "extend", "update", "add", "insert", "setdefault", "pop", "remove", "clear", "popitem", "discard", "appendleft"}
INV_CTORS = {"dict", "list", "set", "OrderedDict", "defaultdict", "deque", "Counter"}
def is_mutable_init(v):
    if isinstance(v, (ast.Dict, ast.List, ast.Set)):
        return True
    return isinstance(v, ast.Call) and getattr(v.func, "id", getattr(v.func, "attr", "")) in INV_CTORS
def shared_state_inventory(repo):
    out = set()
    for path in sorted(glob.glob(os.path.join(repo, "dateparser/**/*.py"), recursive=True)):
        rel = os.path.relpath(path, repo)
        if "/data/" in rel or rel.endswith("timezones.py"):
            continue
        tree = ast.parse(open(path, encoding="utf-8").read())
        mod = rel[:-3].replace("/", ".")
        classes = {n.name for n in tree.body if isinstance(n, ast.ClassDef)}
        # names mutated anywhere inside functions of this module (subscript store / mutator call / global rebinding)
        mutated, globs = set(), set()
        for fn in ast.walk(tree):
            if isinstance(fn, (ast.FunctionDef, ast.AsyncFunctionDef)):
                for x in ast.walk(fn):
                    if isinstance(x, ast.Global):
                        globs.update(x.names)
                    if isinstance(x, ast.Subscript) and isinstance(x.ctx, (ast.Store, ast.Del)):
                        mutated.add(ast.unparse(x.value).split("[")[0])
                    if isinstance(x, ast.Call) and isinstance(x.func, ast.Attribute) and x.func.attr in INV_MUT:
                        mutated.add(ast.unparse(x.func.value).split("[")[0])
                for d in fn.decorator_list:
                    dn = ast.unparse(d)
                    if "lru_cache" in dn or dn.split("(")[0].split(".")[-1] in ("cache", "cached_property"):
                        out.add("%s:%s@%s" % (mod, fn.name, dn.split("(")[0].split(".")[-1]))
        for g in globs:
            out.add("%s:global %s" % (mod, g))
        for n in tree.body:
            if isinstance(n, ast.Assign) and len(n.targets) == 1 and isinstance(n.targets[0], ast.Name):
                name = n.targets[0].id
                if is_mutable_init(n.value) and name in mutated:
                    out.add("%s:%s (mutated container)" % (mod, name))
                if isinstance(n.value, ast.Call) and isinstance(n.value.func, ast.Name) and (n.value.func.id[:1].isupper() or n.value.func.id in classes) and n.value.func.id not in ("OrderedDict", "Path"):
                    out.add("%s:%s = %s()" % (mod, name, n.value.func.id))
            if isinstance(n, ast.ClassDef):
                for c in n.body:
                    if isinstance(c, ast.Assign) and len(c.targets) == 1 and isinstance(c.targets[0], ast.Name) and is_mutable_init(c.value):
                        nm = c.targets[0].id
                        empty = not (getattr(c.value, "keys", None) or getattr(c.value, "elts", None) or getattr(c.value, "args", None))
                        if empty or any(m.endswith("." + nm) or m == nm for m in mutated):
                            out.add("%s:%s.%s (class-level container)" % (mod, n.name, nm))
    return sorted(out)

# ----------------------------------------------------------------------------- constants
def gen_consts():
    L = []
    emit = L.append
    emit("/-! GENERATED by translator/gen.py from /repo — do not edit. -/")
    emit("namespace DP.Gen")

    def S(name, val, src):
        emit("/-- %s -/\ndef %s : String := %s" % (src, name, lstr(val)))

    def SL(name, val, src):
        emit("/-- %s -/\ndef %s : List String := %s" % (src, name, llist(val)))

    def RX(name, pf, src):
        pat, fl = pf
        emit("/-- %s  flags=%s -/\ndef %s : String × Bool := (%s, %s)" % (src, "".join(sorted(fl)), name, lstr(pat), lbool("I" in fl)))

    p = Src("dateparser/parser.py")
    SL("timeDirectives", const_eval(p.assign("time_directives", "_time_parser")), "parser.py _time_parser.time_directives")
    SL("parserSkipTokens", const_eval(p.assign("skip_tokens", "_parser.__init__")), "parser.py _parser.__init__ skip_tokens")
    SL("weekdayAbbr", const_eval(p.assign("days", "_parser._correct_for_time_frame")), "parser.py _correct_for_time_frame days")
    for nm, var in [("reMeridian", "MERIDIAN"), ("reMicrosecond", "MICROSECOND"), ("reNspCompatible", "NSP_COMPATIBLE"),
                    ("reEightDigit", "EIGHT_DIGIT"), ("reHourMinute", "HOUR_MINUTE_REGEX")]:
        RX(nm, regex_of(p.assign(var)), "parser.py " + var)
    chart = const_eval(p.assign("date_order_chart"))
    emit("def dateOrderChart : List (String × String) := " + llist(chart.items(), lambda kv: "(%s, %s)" % (lstr(kv[0]), lstr(kv[1]))))
    cl = const_eval(p.assign("chart_list", "resolve_date_order"))
    emit("def dateOrderLists : List (String × List String) := " + llist(cl.items(), lambda kv: "(%s, %s)" % (lstr(kv[0]), llist(kv[1]))))
    nd = const_eval(p.assign("num_directives", "_parser"))
    emit("def numDirectives : List (String × List String) := " + llist(nd.items(), lambda kv: "(%s, %s)" % (lstr(kv[0]), llist(kv[1]))))
    ad = const_eval(p.assign("alpha_directives", "_parser"))
    emit("def alphaDirectives : List (String × List String) := " + llist(ad.items(), lambda kv: "(%s, %s)" % (lstr(kv[0]), llist(kv[1]))))
    for nm, var in [("nspDateformats", "_dateformats"), ("nspPreferred", "_preferred_formats"),
                    ("nspPreferred8", "_preferred_formats_ordered_8_digit"), ("nspTimeformats", "_timeformats")]:
        SL(nm, const_eval(p.assign(var, "_no_spaces_parser")), "parser.py _no_spaces_parser." + var)
    per = const_eval(p.assign("period", "_no_spaces_parser"))
    emit("def nspPeriod : List (String × List String) := " + llist(sorted(per.items()), lambda kv: "(%s, %s)" % (lstr(kv[0]), llist(kv[1]))))
    SL("getDatetimeObjMsgs", const_eval(p.assign("error_msgs", "_parser._get_datetime_obj", deep=True)), "parser.py _get_datetime_obj error_msgs")
    def CL(name, val, src):
        emit("/-- %s -/\ndef %s : List Char := [%s]" % (src, name, ", ".join("Char.ofNat %d" % ord(c) for c in val)))
    CL("tokenizerDigits", const_eval(p.assign("digits", "tokenizer")), "parser.py tokenizer.digits")
    CL("tokenizerLetters", const_eval(p.assign("letters", "tokenizer")), "parser.py tokenizer.letters")
    emit("/-- parser.py _time_parser.time_directives as character lists (proof-facing copy) -/")
    emit("def timeDirectivesC : List (List Char) := [%s]" % ", ".join("[%s]" % ", ".join("Char.ofNat %d" % ord(c) for c in d) for d in const_eval(p.assign("time_directives", "_time_parser"))))
    emit("def parserSkipTokensC : List (List Char) := [%s]" % ", ".join("[%s]" % ", ".join("Char.ofNat %d" % ord(c) for c in d) for d in const_eval(p.assign("skip_tokens", "_parser.__init__"))))

    d = Src("dateparser/date.py")
    apos = [unicodedata.lookup(e.value[3:-1]) if False else e for e in const_eval(d.assign("APOSTROPHE_LOOK_ALIKE_CHARS"))]
    SL("apostropheChars", apos, "date.py APOSTROPHE_LOOK_ALIKE_CHARS")
    for nm, var in [("reNbsp", "RE_NBSP"), ("reSpaces", "RE_SPACES"), ("reTrimSpaces", "RE_TRIM_SPACES"), ("reTrimColons", "RE_TRIM_COLONS"),
                    ("reSanitizeSkip", "RE_SANITIZE_SKIP"), ("reSanitizeRussian", "RE_SANITIZE_RUSSIAN"),
                    ("reSanitizeCroatian", "RE_SANITIZE_CROATIAN"), ("reSanitizePeriod", "RE_SANITIZE_PERIOD"),
                    ("reSanitizeOn", "RE_SANITIZE_ON"), ("reSearchTimestamp", "RE_SEARCH_TIMESTAMP"),
                    ("reSearchNegTimestamp", "RE_SEARCH_NEGATIVE_TIMESTAMP")]:
        RX(nm, regex_of(d.assign(var)), "date.py " + var)
    # replacement templates used by sanitize_date, in call order
    subs = []
    for n in ast.walk(d.func("sanitize_date")):
        if isinstance(n, ast.Call) and isinstance(n.func, ast.Attribute) and n.func.attr == "sub" and isinstance(n.func.value, ast.Name):
            subs.append((n.func.value.id, const_eval(n.args[0])))
    emit("/-- date.py sanitize_date: (regex constant, replacement) of every `.sub` call, source order -/")
    emit("def sanitizeDateSubs : List (String × String) := " + llist(subs, lambda kv: "(%s, %s)" % (lstr(kv[0]), lstr(kv[1]))))
    subs = []
    for n in ast.walk(d.func("sanitize_spaces")):
        if isinstance(n, ast.Call) and isinstance(n.func, ast.Attribute) and n.func.attr == "sub":
            subs.append((n.func.value.id, const_eval(n.args[0])))
    emit("def sanitizeSpacesSubs : List (String × String) := " + llist(subs, lambda kv: "(%s, %s)" % (lstr(kv[0]), lstr(kv[1]))))
    # parser registry order and except tuples
    pr = d.assign("_parsers", "_DateLocaleParser.__init__", deep=True) if False else None
    for n in ast.walk(d.func("_DateLocaleParser.__init__")):
        if isinstance(n, ast.Assign) and isinstance(n.targets[0], ast.Attribute) and n.targets[0].attr == "_parsers":
            SL("parserNames", [const_eval(k) for k in n.value.keys], "date.py _DateLocaleParser._parsers keys")
    def EX(name, fn):
        ex = except_names(d.func(fn))
        emit("/-- date.py %s: exception names of each `except`, source order -/\ndef %s : List (List String) := %s" % (fn, name, llist(ex, llist)))
    EX("exceptTryFreshness", "_DateLocaleParser._try_freshness_parser")
    EX("exceptTryParser", "_DateLocaleParser._try_parser")
    EX("exceptTryTimestamp", "_DateLocaleParser._try_timestamp_parser")
    # _try_parser: is the shared DATE_ORDER put back on every way out — in each handler (or a finally), and on the normal path before the return?
    tp = d.func("_DateLocaleParser._try_parser")
    def _restores(stmts):
        return any(isinstance(x, ast.Assign) and ast.unparse(x.targets[0]).endswith("_settings.DATE_ORDER") and ast.unparse(x.value) == "_order" for st in stmts for x in ast.walk(st))
    r_catch = r_ok = False
    for n in ast.walk(tp):
        if isinstance(n, ast.Try):
            fin = _restores(n.finalbody)
            r_catch = fin or (bool(n.handlers) and all(_restores(h.body) for h in n.handlers))
            after = tp.body[tp.body.index(n) + 1:] if n in tp.body else []
            r_ok = fin or _restores(n.body) or _restores(n.orelse) or _restores(after)
    emit("/-- date.py _try_parser: every `except` handler (or a `finally`) assigns the saved DATE_ORDER back -/\ndef tryParserRestoresOnCatch : Bool := " + lbool(r_catch))
    emit("/-- date.py _try_parser: the normal path assigns the saved DATE_ORDER back -/\ndef tryParserRestoresOnReturn : Bool := " + lbool(r_ok))

    EX("exceptParseWithFormats", "parse_with_formats")
    def EXTRY(name, fn, callee):
        """except names of the `try` of `fn` whose body calls `callee` ([] when that call is not guarded)"""
        names = []
        for n in ast.walk(d.func(fn)):
            if isinstance(n, ast.Try) and any(isinstance(c, ast.Call) and callee in ast.unparse(c.func) for b in n.body for c in ast.walk(b)):
                for h in n.handlers:
                    t = h.type
                    names.append(["BaseException"] if t is None else ([ast.unparse(e).split(".")[-1] for e in t.elts] if isinstance(t, ast.Tuple) else [ast.unparse(t).split(".")[-1]]))
                break
        emit("/-- date.py %s: except names of the try around the call of %s -/\ndef %s : List (List String) := %s" % (fn, callee, name, llist(names, llist)))
    EXTRY("exceptPwfStrptime", "parse_with_formats", "strptime")
    EXTRY("exceptPwfZone", "parse_with_formats", "apply_timezone_from_settings")
    SL("validPeriods", [c for n in ast.walk(d.func("_DateLocaleParser._is_valid_date_data")) if isinstance(n, ast.Compare) and isinstance(n.ops[0], ast.NotIn) for c in const_eval(n.comparators[0])], "date.py _is_valid_date_data periods")
    # does parse_with_formats consult strictness? (call to _check_strict_parsing present)
    pwf_calls = [ast.unparse(n.func) for n in ast.walk(d.func("parse_with_formats")) if isinstance(n, ast.Call)]
    emit("/-- date.py parse_with_formats calls `_check_strict_parsing` -/\ndef pwfChecksStrict : Bool := " + lbool(any("_check_strict_parsing" in c for c in pwf_calls)))

    # parse_with_formats: is a missing year filled in before the missing month / day are completed? (line order of the two steps)
    pwf = d.func("parse_with_formats")
    ln_year = [n.lineno for n in ast.walk(pwf) if isinstance(n, ast.Call) and getattr(n.func, "attr", "") == "replace" and any(k.arg == "year" for k in n.keywords)]
    ln_day = [n.lineno for n in ast.walk(pwf) if isinstance(n, ast.Call) and ast.unparse(n.func).endswith(("set_correct_day_from_settings", "set_correct_month_from_settings"))]
    emit("/-- date.py parse_with_formats: the current year is filled in before the missing month / day are completed -/\ndef pwfYearFirst : Bool := " + lbool(bool(ln_year) and bool(ln_day) and max(ln_year) < min(ln_day)))

    ps = Src("dateparser/parser.py")
    init_src = ast.unparse(ps.func("_parser.__init__"))
    emit("/-- parser.py _parser.__init__: a displaced numeric token fills one unresolved attribute (popped), not every one of them -/\ndef unknownFillOnce : Bool := " + lbool(".pop(" in init_src[init_src.find("get_unresolved_attrs"):]))
    f = Src("dateparser/freshness_date_parser.py")
    units = const_eval(f.assign("_UNITS"))
    S("freshUnits", units, "freshness_date_parser.py _UNITS")
    RX("reFreshPattern", regex_of(f.assign("PATTERN"), {"_UNITS": units}), "freshness_date_parser.py PATTERN")
    SL("freshSkip", const_eval(f.assign("skip", "FreshnessDateDataParser._are_all_words_units"), {"_UNITS": units}), "freshness _are_all_words_units skip")
    emit("def exceptFreshParseTime : List (List String) := " + llist(except_names(f.func("FreshnessDateDataParser._parse_time")), llist))
    byc = None
    for n in ast.walk(f.func("FreshnessDateDataParser.parse")):
        if isinstance(n, ast.If) and "RETURN_TIME_AS_PERIOD" in ast.unparse(n.test):
            byc = any(isinstance(c, ast.Compare) and isinstance(c.ops[0], ast.NotEq) for c in ast.walk(n.test))
    emit("/-- freshness_date_parser.py parse: period 'time' is decided by `old_date != date` (true) or by a clock time having been parsed (false) -/\ndef freshTimePeriodByChange : Bool := " + lbool(bool(byc)))
    SL("freshPeriodKeys", [c for n in ast.walk(f.func("FreshnessDateDataParser._parse_date")) if isinstance(n, ast.For) for c in const_eval(n.iter)], "freshness _parse_date period keys")

    # the pytz branch of _parse_date: how the shift is split, and whether localize gets the reference's DST flag
    fp = f.func("FreshnessDateDataParser._parse_date")
    parts = {ast.unparse(n.targets[0]): ast.unparse(n.value) for n in ast.walk(fp) if isinstance(n, ast.Assign) and ast.unparse(n.targets[0]) in ("calendar_part", "clock_part")}
    by_units = len(parts) == 2 and all("kwargs" in v and "td." not in v for v in parts.values())
    hint = any(isinstance(n, ast.Call) and ast.unparse(n.func).endswith("tz.localize") and any(k.arg == "is_dst" and "now.dst()" in ast.unparse(k.value) for k in n.keywords) for n in ast.walk(fp))
    emit("/-- freshness_date_parser.py _parse_date (pytz branch): the calendar / clock split is made on the units the phrase counts (kwargs), not on the normalised relativedelta -/\ndef freshSplitByPhraseUnits : Bool := " + lbool(by_units))
    corrects = any(isinstance(n, ast.If) and "utcoffset()" in ast.unparse(n.test) and any(isinstance(x, ast.Assign) and "utcoffset()" in ast.unparse(x.value) for x in n.body) for n in ast.walk(fp))
    emit("/-- freshness_date_parser.py _parse_date (other zones): when the offset changes across the clock part the wall clock is moved by the difference -/\ndef freshLocalZoneCorrects : Bool := " + lbool(corrects))
    emit("/-- freshness_date_parser.py _parse_date (pytz branch): `tz.localize` is given the reference's DST flag -/\ndef freshLocalizeUsesDstHint : Bool := " + lbool(hint))
    t = Src("dateparser/timezone_parser.py")
    emit("/-- timezone_parser.py _load_offsets: exception names caught around the cache read -/")
    emit("def exceptLoadOffsets : List (List String) := " + llist(except_names(t.func("_load_offsets")), llist))
    lo = t.func("_load_offsets")
    lo_src = ast.unparse(lo)
    emit("/-- _load_offsets writes through a temporary file and os.replace (atomic publish) -/\ndef loadOffsetsAtomicWrite : Bool := " + lbool("os.replace" in lo_src or "os.rename" in lo_src))

    dd = Src("dateparser/languages/dictionary.py")
    hard = const_eval(dd.assign("PARSER_HARDCODED_TOKENS"))
    SL("parserHardcodedTokens", hard, "dictionary.py PARSER_HARDCODED_TOKENS")
    SL("parserKnownTokens", const_eval(dd.assign("PARSER_KNOWN_TOKENS")), "dictionary.py PARSER_KNOWN_TOKENS")
    SL("alwaysKeepTokens", const_eval(dd.assign("ALWAYS_KEEP_TOKENS"), {"PARSER_HARDCODED_TOKENS": hard}), "dictionary.py ALWAYS_KEEP_TOKENS")
    SL("knownWordTokens", const_eval(dd.assign("KNOWN_WORD_TOKENS")), "dictionary.py KNOWN_WORD_TOKENS")
    atc = dd.func("Dictionary._add_to_cache")
    skips = False
    for n in ast.walk(atc):
        if isinstance(n, ast.For):
            for c in ast.walk(n):
                if isinstance(c, ast.Compare) and isinstance(c.ops[0], ast.NotEq) and "registry_key" in ast.unparse(c):
                    if any(isinstance(x, ast.Delete) or (isinstance(x, ast.Call) and getattr(x.func, "attr", "") == "pop") for x in ast.walk(n)):
                        skips = True
    emit("/-- dictionary.py Dictionary._add_to_cache evicts the oldest key *other than* the current settings key -/\ndef evictSkipsCurrent : Bool := " + lbool(skips))
    # the cache getters: does any of them index a class-level cache again after a statement that may insert into it?
    dcls = [n for n in ast.walk(dd.tree) if isinstance(n, ast.ClassDef) and n.name == "Dictionary"][0]
    def _cache_subscripts(node):
        return [x for x in ast.walk(node) if isinstance(x, ast.Subscript) and isinstance(x.ctx, ast.Load) and re.search(r"_cache\b", ast.unparse(x.value)) and not isinstance(x.value, ast.Subscript)]
    read_once = True
    n_getters = 0
    for fn in dcls.body:
        if isinstance(fn, ast.FunctionDef) and fn.name.startswith("_get_") and "cache" in fn.name:
            n_getters += 1
            inserted = False
            for st in fn.body:
                if inserted and _cache_subscripts(st):
                    read_once = False
                if any(isinstance(x, ast.Call) and re.search(r"_add_to_cache|_construct_", ast.unparse(x.func)) for x in ast.walk(st)) and not isinstance(st, ast.Return):
                    inserted = True
                if isinstance(st, ast.Try):
                    # a look-up in the try body, a build in the handler: the handler must not index the cache again
                    for h in st.handlers:
                        if _cache_subscripts(h):
                            read_once = False
    emit("/-- dictionary.py Dictionary._get_*cache: no getter indexes the shared cache again after the statement that may insert into it -/\ndef dictGettersReadOnce : Bool := " + lbool(read_once and n_getters >= 5))
    emit("/-- dictionary.py Dictionary: number of cache getters the fact above was read from -/\ndef dictGetterCount : Nat := %d" % n_getters)
    for nm, var in [("reParentheses", "PARENTHESES_PATTERN"), ("reNumeral", "NUMERAL_PATTERN"), ("reKeepToken", "KEEP_TOKEN_PATTERN")]:
        RX(nm, regex_of(dd.assign(var)), "dictionary.py " + var)

    ut = Src("dateparser/utils/__init__.py")
    csrc = ast.unparse(ut.func("registry"))
    i_pub = csrc.find("registry_dict[key] =")
    i_key = csrc.find("'registry_key'") if "'registry_key'" in csrc else csrc.find('"registry_key"')
    emit("/-- utils/__init__.py registry: the new instance gets its registry_key before it is stored in the shared dictionary -/\ndef registryCompletesFirst : Bool := " + lbool(0 <= i_key < i_pub))
    ldr = Src("dateparser/languages/loader.py")
    emit("/-- loader.py _construct_locales: a language without the requested region falls back to the plain language (is not dropped) -/\ndef loaderFallsBack : Bool := " + lbool("_filter_valid_locales(" not in ast.unparse(ldr.func("_construct_locales"))))
    # every Locale the loader builds gets a private deep copy of the language data, and combine_dicts builds a fresh mapping without
    # touching its arguments (no early `return <argument>`, no in-place `+=` / `.extend` / `.update` on values it was given)
    ld_fn = ldr.func("LocaleDataLoader._load_data")
    loc_calls = [n for n in ast.walk(ld_fn) if isinstance(n, ast.Call) and getattr(n.func, "id", "") == "Locale"]
    copies = bool(loc_calls) and all(any(k.arg == "language_info" and isinstance(k.value, ast.Call) and getattr(k.value.func, "id", "") == "deepcopy" for k in c.keywords) for c in loc_calls)
    emit("/-- loader.py _load_data: every Locale is built from a deep copy of the language data -/\ndef loaderCopiesLanguageData : Bool := " + lbool(copies))
    cd = ut.func("combine_dicts")
    argn = {a.arg for a in cd.args.args}
    pure = True
    for n in ast.walk(cd):
        if isinstance(n, ast.Return) and isinstance(n.value, ast.Name) and n.value.id in argn:
            pure = False
        if isinstance(n, ast.AugAssign):
            pure = False
        if isinstance(n, ast.Call) and isinstance(n.func, ast.Attribute) and n.func.attr in ("extend", "update", "append", "insert") and not ast.unparse(n.func.value).startswith("combined"):
            pure = False
    emit("/-- utils combine_dicts: returns a fresh mapping and modifies neither argument -/\ndef combineDictsFresh : Bool := " + lbool(pure))
    lc = Src("dateparser/languages/locale.py")
    RX("reNumeralPattern", regex_of(lc.assign("NUMERAL_PATTERN")), "locale.py NUMERAL_PATTERN")
    ok_lazy, n_lazy = lazy_fact(lc.text)
    emit("/-- locale.py Locale: no lazily built attribute (`if self._x is None: ...`) is assigned empty and filled afterwards, or modified after it has been assigned to `self` -/\ndef lazyAttrsPublishComplete : Bool := " + lbool(ok_lazy and n_lazy >= 5))
    emit("/-- locale.py Locale: number of lazily built attributes the fact above was read from -/\ndef lazyAttrCount : Nat := %d" % n_lazy)

    # translate_search: constants and the shape of the two-token look-ahead test
    ts = lc.func("Locale.translate_search")
    SL("tsDashes", const_eval(lc.assign("dashes", "Locale.translate_search")), "locale.py translate_search dashes")
    SL("tsJointUnsupported", const_eval(lc.assign("word_joint_unsupported_languages", "Locale.translate_search")), "locale.py translate_search word_joint_unsupported_languages")
    strip_args = sorted({const_eval(n.args[0]) for n in ast.walk(ts) if isinstance(n, ast.Call) and getattr(n.func, "attr", "") == "strip" and n.args})
    S("tsStripChars", strip_args[0] if len(strip_args) == 1 else "", "locale.py translate_search word.strip(...) characters")
    guarded = False
    for n in ast.walk(ts):
        if isinstance(n, ast.If) and "current_and_next_joined in dictionary" in ast.unparse(n.test):
            guarded = any(isinstance(c, ast.Compare) and ast.unparse(c).replace(" ", "") in ("i<last_token_index", "last_token_index>i", "i+1<=last_token_index", "i!=last_token_index")
                          for c in ast.walk(n.test))
    emit("/-- locale.py translate_search: the two-token look-ahead branch is guarded by `i < last_token_index` -/\ndef tsLookaheadGuarded : Bool := " + lbool(guarded))
    se = Src("dateparser/search/search.py")
    SL("searchSplitters", const_eval(se.assign("splitters", "_ExactLanguageSearch.split_if_not_parsed")), "search.py split_if_not_parsed splitters")
    SL("searchBadTranslate", const_eval(se.assign("bad_translate_with_search", "_ExactLanguageSearch.search_parse")), "search.py bad_translate_with_search")
    pfo = se.func("_ExactLanguageSearch.parse_found_objects")
    SL("searchStripChars", [const_eval(n.args[0]) for n in ast.walk(pfo) if isinstance(n, ast.Call) and getattr(n.func, "attr", "") == "strip" and n.args], "search.py parse_found_objects .strip(...) arguments, source order")
    SL("searchItemReplace", [const_eval(n.args[0]) for n in ast.walk(se.func("_ExactLanguageSearch.parse_item")) if isinstance(n, ast.Call) and getattr(n.func, "attr", "") == "replace"], "search.py parse_item removed substrings")
    RX("reSearchRelative", regex_of(se.assign("RELATIVE_REG")), "search.py RELATIVE_REG")

    _o, _lld, _lm, _infos = load_lang_infos()
    SL("langsWithoutDateOrder", sorted(n for n, i in _infos.items() if "date_order" not in i), "data/date_translation_data: languages whose data has no date_order of its own")

    cf = Src("dateparser/conf.py")
    gk = cf.func("Settings.get_key")
    comps = [n for n in ast.walk(gk) if isinstance(n, (ast.ListComp, ast.GeneratorExp, ast.SetComp))]
    covers = bool(comps) and all(not g.ifs for c in comps for g in c.generators) and "str(" in ast.unparse(gk) and "sorted(" in ast.unparse(gk)
    emit("/-- conf.py Settings.get_key: the registry key is built from *every* item of the settings mapping (no item is filtered out), sorted -/\ndef settingsKeyCoversEveryItem : Bool := " + lbool(covers))
    SL("sharedStateInventory", shared_state_inventory(REPO), "process-wide mutable state of the package (outside the data modules): module-level singletons, `global` names, class-level containers, mutated module-level containers, functools caches")

    sp = Src("dateparser/utils/strptime.py")
    RX("reTimeMatcher", regex_of(sp.assign("TIME_MATCHER")), "utils/strptime.py TIME_MATCHER")
    RX("reMsSearcher", regex_of(sp.assign("MS_SEARCHER")), "utils/strptime.py MS_SEARCHER")

    st = Src("dateparser_data/settings.py")
    defaults = const_eval(st.assign("default_parsers"))
    SL("defaultParsers", defaults, "dateparser_data/settings.py default_parsers")
    sd = st.assign("settings")
    sdict = {}
    for k, v in zip(sd.keys, sd.values):
        try:
            sdict[const_eval(k)] = const_eval(v, {"default_parsers": defaults})
        except Exception:
            sdict[const_eval(k)] = ast.unparse(v)
    emit("/-- dateparser_data/settings.py settings (rendered) -/")
    emit("def settingsDefaults : List (String × String) := " + llist(sdict.items(), lambda kv: "(%s, %s)" % (lstr(kv[0]), lstr(json.dumps(kv[1], ensure_ascii=False, default=str)))))

    zeros = [cp for cp in range(0x110000) if unicodedata.category(chr(cp)) == "Nd" and unicodedata.digit(chr(cp)) == 0]
    emit("/-- zero code point of every Unicode block of decimal digits (category Nd), from the interpreter that runs the library -/")
    emit("def ndZeros : List Nat := [%s]" % ", ".join(str(z) for z in zeros))
    emit("end DP.Gen")
    write_if_changed(os.path.join(GEN_LEAN, "Consts.lean"), "\n".join(L) + "\n")
    return sdict


# ----------------------------------------------------------------------------- timezone definitions
def gen_tzinfo():
    t = Src("dateparser/timezones.py")
    lst = const_eval(t.assign("timezone_info_list"))
    L = ["/-! GENERATED from /repo/dateparser/timezones.py — do not edit. -/", "namespace DP.Gen",
         "structure TzInfoBlock where\n  patterns : List String\n  replace : List (String × String)\n  timezones : List (String × Int)\nderiving Inhabited"]
    blocks = []
    for i, b in enumerate(lst):
        tzs = b["timezones"]
        chunks = [tzs[j:j + 100] for j in range(0, len(tzs), 100)]
        for j, ch in enumerate(chunks):
            L.append("def tzBlock%d_%d : List (String × Int) := %s" % (i, j, llist(ch, lambda x: "(%s, %d)" % (lstr(x[0]), x[1]))))
        L.append("def tzBlock%d : TzInfoBlock := { patterns := %s, replace := %s, timezones := %s }" % (
            i, llist(b["regex_patterns"]), llist(b.get("replace", []), lambda x: "(%s, %s)" % (lstr(x[0]), lstr(x[1]))),
            " ++ ".join("tzBlock%d_%d" % (i, j) for j in range(len(chunks))) or "[]"))
        blocks.append("tzBlock%d" % i)
    L.append("def timezoneInfoList : List TzInfoBlock := [%s]" % ", ".join(blocks))
    L.append("end DP.Gen")
    write_if_changed(os.path.join(GEN_LEAN, "TzInfo.lean"), "\n".join(L) + "\n")
    return lst


# ----------------------------------------------------------------------------- language data
def load_lang_infos():
    """ast.literal_eval of every data/date_translation_data/<lang>.py (no import)"""
    li = Src("dateparser/data/languages_info.py")
    order = const_eval(li.assign("language_order"))
    lld = const_eval(li.assign("language_locale_dict"))
    try:
        lmap = const_eval(li.assign("language_map"))
    except Exception:
        lmap = {}
    infos = {}
    for path in sorted(glob.glob(os.path.join(REPO, "dateparser/data/date_translation_data/*.py"))):
        name = os.path.basename(path)[:-3]
        if name == "__init__":
            continue
        tree = ast.parse(open(path, encoding="utf-8").read())
        for n in tree.body:
            if isinstance(n, ast.Assign) and n.targets[0].id == "info":
                infos[name] = ast.literal_eval(n.value)
    return order, lld, lmap, infos


def lang_record(name, info, known_words):
    d = {"name": name, "skip": info.get("skip", []), "pertain": info.get("pertain", []),
         "words": [[w, info[w]] for w in known_words if w in info],
         "relType": [[k, v] for k, v in info.get("relative-type", {}).items()],
         "relRegex": [[k, v] for k, v in info.get("relative-type-regex", {}).items()],
         "simps": [[list(s.keys())[0], [str(list(s.values())[0])]] for s in info.get("simplifications", [])],
         "nws": info.get("no_word_spacing") == "True",
         "ssg": info.get("sentence_splitter_group", 1) or 1}
    if "date_order" in info:
        d["date_order"] = info["date_order"]
    return d


def combine_dicts(primary, supplementary):
    """dateparser.utils.combine_dicts (used by Locale for regional overlays)"""
    out = {}
    for k, v in primary.items():
        if k in supplementary:
            if isinstance(v, list):
                out[k] = v + supplementary[k]
            elif isinstance(v, dict):
                out[k] = combine_dicts(v, supplementary[k])
            else:
                out[k] = supplementary[k]
        else:
            out[k] = v
    for k, v in supplementary.items():
        if k not in primary:
            out[k] = v
    return out


def gen_lang(known_words):
    order, lld, lmap, infos = load_lang_infos()
    recs = []
    for lang in order:
        if lang not in infos:
            continue
        info = infos[lang]
        recs.append(lang_record(lang, info, known_words))
    # regional locales: combine_dicts(language info, locale_specific[loc]) as Locale.__init__/loader does
    locs = []
    for lang in order:
        info = infos.get(lang)
        if not info:
            continue
        for loc, spec in (info.get("locale_specific") or {}).items():
            merged = combine_dicts({k: v for k, v in info.items() if k != "locale_specific"}, spec)
            r = lang_record(loc, merged, known_words)
            r["lang"] = lang
            locs.append(r)
    data = {"order": order, "langs": recs, "locales": locs, "language_locale_dict": lld, "language_map": lmap}
    write_if_changed(os.path.join(GEN_DATA, "langdata.json"), json.dumps(data, ensure_ascii=False))
    return order, lld, lmap, infos


# ----------------------------------------------------------------------------- tz table in effect (what the library loaded)
def gen_tz_runtime():
    os.environ.setdefault("TZ", "UTC")
    import dateparser.timezone_parser as tp
    ents = [{"name": n, "pat": i["regex"].pattern, "flags": int(i["regex"].flags), "off": int(i["offset"].total_seconds())} for n, i in tp._tz_offsets]
    data = {"entries": ents, "search": tp._search_regex.pattern, "searchI": tp._search_regex_ignorecase.pattern}
    write_if_changed(os.path.join(GEN_DATA, "tz.json"), json.dumps(data, ensure_ascii=False))
    return data


# ----------------------------------------------------------------------------- Unicode table
EXTRA_ALPHABET = "«»“”‘’„‚–—…·•、。，；：！？（）【】「」『』《》〈〉°№§¿¡×÷€£¥"


def gen_utable(infos, tzinfo):
    import regex as re
    from dateparser.utils import normalize_unicode
    alphabet = set(chr(i) for i in range(32, 127)) | set("\t\n\r\x0b\x0c\xa0\x1c\x1d\x1e\x1f\x85  ‎‏َُ\xb7\xbb") | set(EXTRA_ALPHABET)
    alphabet |= set(chr(i) for i in range(0xA0, 0x250))       # Latin-1 supplement, Latin extended A/B
    alphabet |= set(chr(i) for i in range(0x370, 0x530))      # Greek, Cyrillic
    alphabet |= set(chr(i) for i in range(0x2000, 0x2070))    # general punctuation / spaces

    def walk(o):
        if isinstance(o, str):
            alphabet.update(o)
        elif isinstance(o, dict):
            for k, v in o.items():
                walk(k); walk(v)
        elif isinstance(o, (list, tuple)):
            for x in o:
                walk(x)
    walk(infos)
    walk(tzinfo)
    walk(json.load(open(os.path.join(VERIF, "corpus", "corpus.json"), encoding="utf-8")))
    extra = os.path.join(VERIF, "corpus", "alphabet_extra.txt")
    if os.path.exists(extra):
        alphabet.update(open(extra, encoding="utf-8").read())
    for path in glob.glob(os.path.join(REPO, "dateparser/calendars/*.py")) + glob.glob(os.path.join(REPO, "dateparser/search/*.py")):
        alphabet.update(open(path, encoding="utf-8").read())
    for c in list(alphabet):
        for x in (c.lower(), c.upper(), c.casefold(), normalize_unicode(c), unicodedata.normalize("NFKD", c)):
            alphabet.update(x)
    for i in range(0x110000):
        c = chr(i)
        if unicodedata.category(c) == "Nd":
            alphabet.add(c)
    alphabet = sorted(c for c in alphabet if not (0xD800 <= ord(c) <= 0xDFFF))

    def foldrep(c):
        cands = {c, c.lower(), c.upper(), c.casefold(), c.title()}
        cands |= {x.lower() for x in cands} | {x.upper() for x in cands}
        cands = {x for x in cands if len(x) == 1}
        eq = sorted(x for x in cands if re.fullmatch(re.escape(c), x, re.I | re.U))
        return min(eq) if eq else c
    W = re.compile(r"\w", re.U); Sp = re.compile(r"\s", re.U); Dg = re.compile(r"\d", re.U)
    rows = []
    for c in alphabet:
        dv = unicodedata.digit(c, 0) if c.isdecimal() else 0
        rows.append("(%d, ⟨%s, %d, %s, %s, %s, %s, %s, %s, %d, %s⟩)" % (
            ord(c), lstr(c.lower()), ord(foldrep(c)), lbool(W.fullmatch(c)), lbool(Sp.fullmatch(c)), lbool(Dg.fullmatch(c)),
            lbool(c.isalpha()), lbool(c.isdigit()), lbool(c.isdecimal()), dv, lstr(normalize_unicode(c))))
    nchunk = (len(rows) + 199) // 200
    text = """/-! GENERATED by translator/gen.py from the interpreter that runs the library — do not edit. -/
namespace DP
structure UInfo where
  lower : String
  fold : Nat
  w : Bool
  s : Bool
  d : Bool
  alpha : Bool
  dig : Bool
  dec : Bool
  digval : Nat
  nfkd : String
deriving Inhabited
namespace Gen
""" + "\n".join("def utab%d : List (Nat × UInfo) := [\n%s]" % (i, ",\n".join(rows[i * 200:(i + 1) * 200])) for i in range(nchunk)) \
        + "\ndef utableRaw : List (Nat × UInfo) := " + " ++ ".join("utab%d" % i for i in range(nchunk)) + "\nend Gen\nend DP\n"
    write_if_changed(os.path.join(GEN_LEAN, "UTable.lean"), text)
    write_if_changed(os.path.join(GEN_DATA, "alphabet.json"), json.dumps("".join(alphabet), ensure_ascii=False))
    # Nd blocks: (zero code point) for every run of 10 decimal digits
    zeros = [ord(c) for c in alphabet if c.isdecimal() and unicodedata.digit(c) == 0]
    return alphabet, zeros


# ----------------------------------------------------------------------------- fingerprints
MODELLED = {
    "dateparser/parser.py": ["_parser.__init__", "_parser._parse", "_parser._results", "_parser._get_datetime_obj", "_parser._correct_for_time_frame",
                             "_parser._correct_for_day", "_parser._correct_for_month", "_parser._get_period", "_parser.parse", "_parser._get_correct_leap_year",
                             "_parser._get_datetime_obj_params", "_check_strict_parsing", "tokenizer.tokenize", "tokenizer._switch", "_time_parser.__call__",
                             "_no_spaces_parser.parse", "_no_spaces_parser._find_best_matching_date", "_no_spaces_parser._get_period", "_no_spaces_parser.__init__",
                             "no_space_parser_eligibile", "resolve_date_order", "get_unresolved_attrs"],
    "dateparser/date.py": ["sanitize_spaces", "sanitize_date", "get_date_from_timestamp", "parse_with_formats", "_DateLocaleParser._parse",
                           "_DateLocaleParser._try_timestamp_parser", "_DateLocaleParser._try_freshness_parser", "_DateLocaleParser._try_parser",
                           "_DateLocaleParser._try_given_formats", "_DateLocaleParser._is_valid_date_data", "DateDataParser.__init__",
                           "DateDataParser.get_date_data", "DateDataParser._get_applicable_locales"],
    "dateparser/date_parser.py": ["DateParser.parse"],
    "dateparser/freshness_date_parser.py": ["FreshnessDateDataParser._are_all_words_units", "FreshnessDateDataParser._parse_time", "FreshnessDateDataParser.parse",
                                            "FreshnessDateDataParser._parse_date", "FreshnessDateDataParser.get_kwargs"],
    "dateparser/timezone_parser.py": ["pop_tz_offset_from_string", "word_is_tz", "build_tz_offsets", "_load_offsets", "StaticTzInfo.localize"],
    "dateparser/utils/__init__.py": ["strip_braces", "normalize_unicode", "combine_dicts", "get_timezone_from_tz_string", "localize_timezone", "apply_tzdatabase_timezone",
                                     "apply_dateparser_timezone", "apply_timezone", "apply_timezone_from_settings", "get_last_day_of_month", "get_previous_leap_year",
                                     "get_next_leap_year", "set_correct_day_from_settings", "set_correct_month_from_settings", "_get_missing_parts"],
    "dateparser/utils/strptime.py": ["strptime", "patch_strptime"],
    "dateparser/conf.py": ["Settings.__init__", "Settings.__new__", "Settings.get_key", "Settings._updateall", "Settings.replace", "apply_settings", "check_settings"],
    "dateparser/languages/dictionary.py": ["Dictionary.__init__", "Dictionary.are_tokens_valid", "Dictionary.split", "Dictionary._add_to_cache", "Dictionary._split_by_known_words",
                                           "Dictionary._should_capture", "Dictionary._get_sorted_words_from_cache", "Dictionary._get_split_regex_cache",
                                           "Dictionary._get_sorted_relative_strings_from_cache", "Dictionary._get_split_relative_regex_cache",
                                           "Dictionary._get_match_relative_regex_cache", "NormalizedDictionary._normalize"],
    "dateparser/languages/locale.py": ["Locale.__init__", "Locale.is_applicable", "Locale.translate", "Locale._translate_numerals", "Locale._get_relative_translations",
                                       "Locale._generate_relative_translations", "Locale.translate_search", "Locale._simplify_split_align", "Locale._simplify",
                                       "Locale._generate_simplifications", "Locale._join", "Locale._clear_future_words", "Locale._get_dictionary",
                                       "Locale._sentence_split", "Locale._split", "Locale.get_wordchars_for_detection", "Locale.to_parserinfo", "Locale._join_chunk"],
    "dateparser/languages/loader.py": ["LocaleDataLoader.get_locales", "LocaleDataLoader._load_data", "LocaleDataLoader._construct_locales", "LocaleDataLoader.get_locale_map",
                                       "LocaleDataLoader._load_data"],
    "dateparser/search/search.py": ["_ExactLanguageSearch.search", "_ExactLanguageSearch.search_parse", "_ExactLanguageSearch.parse_found_objects",
                                    "_ExactLanguageSearch.split_if_not_parsed", "_ExactLanguageSearch.split_by", "_ExactLanguageSearch.choose_best_split",
                                    "_ExactLanguageSearch.rate_split", "_ExactLanguageSearch.parse_item", "_ExactLanguageSearch.set_relative_base",
                                    "_ExactLanguageSearch.get_current_language", "DateSearchWithDetection.search_dates", "DateSearchWithDetection.preprocess_text",
                                    "_get_relative_base", "date_is_relative"],
    "dateparser/search/__init__.py": ["search_dates"],
    "dateparser/search/detection.py": ["BaseLanguageDetector.get_unique_characters", "BaseLanguageDetector.character_check", "AutoDetectLanguage._best_language",
                                       "AutoDetectLanguage.detect_language", "ExactLanguages.detect_language"],
    "dateparser/calendars/__init__.py": ["CalendarBase.get_date", "non_gregorian_parser.parse", "non_gregorian_parser.to_latin", "non_gregorian_parser._get_datetime_obj",
                                         "non_gregorian_parser._get_datetime_obj_params", "non_gregorian_parser.handle_two_digit_year"],
    "dateparser/calendars/jalali_parser.py": ["jalali_parser.to_latin", "jalali_parser.replace_months", "jalali_parser.replace_weekdays", "jalali_parser.replace_digits",
                                              "jalali_parser.replace_days", "jalali_parser.replace_time", "jalali_parser._get_datetime_obj", "jalali_parser.handle_two_digit_year",
                                              "PersianDate.weekday"],
    "dateparser/calendars/hijri_parser.py": ["hijri_parser.to_latin", "hijri_parser._replace_time_conventions", "hijri_parser.handle_two_digit_year", "hijri.from_gregorian",
                                             "hijri.to_gregorian", "hijri.month_length", "HijriDate.weekday"],
    "dateparser/__init__.py": ["parse"],
}


def gen_fingerprints():
    out = {}
    for rel, quals in MODELLED.items():
        try:
            s = Src(rel)
        except Exception as e:
            out[rel] = "unreadable: %s" % e
            continue
        for q in quals:
            try:
                out["%s::%s" % (rel, q)] = s.fingerprint(q)
            except Exception as e:
                out["%s::%s" % (rel, q)] = "missing"
    write_if_changed(os.path.join(GEN_DATA, "fingerprints.json"), json.dumps(out, indent=1, sort_keys=True))
    return out


def main():
    sdict = gen_consts()
    tzinfo = gen_tzinfo()
    dd = Src("dateparser/languages/dictionary.py")
    known = const_eval(dd.assign("KNOWN_WORD_TOKENS"))
    order, lld, lmap, infos = gen_lang(known)
    tzr = gen_tz_runtime()
    alphabet, zeros = gen_utable(infos, tzinfo)
    gen_fingerprints()
    print(json.dumps({"changed": changed, "alphabet": len(alphabet), "languages": len(infos), "tz_entries": len(tzr["entries"])}))


if __name__ == "__main__":
    main()
