#!/venv/bin/python
"""Translator part for C16: sources of the generated data → Lean literals + finite theorems (regenerated every run).

lean/DPProofs/Gen16/{Base,L_<lang>,Tz,Index,All}.lean   (gitignored)
"""
import json, os, sys, glob, pickle, subprocess, ast
from collections import OrderedDict
HERE = os.path.dirname(os.path.abspath(__file__))
sys.path.insert(0, HERE)
import yamlmini
from gen import lstr, llist, write_if_changed, REPO, VERIF, changed, Src, const_eval

OUT = os.path.join(VERIF, "lean", "DPProofs", "Gen16")


def emit(o):
    if isinstance(o, dict):
        return "J.obj [" + ", ".join("(%s, %s)" % (lstr(str(k)), emit(v)) for k, v in o.items()) + "]"
    if isinstance(o, (list, tuple)):
        return "J.arr [" + ", ".join(emit(x) for x in o) + "]"
    if isinstance(o, bool):
        return 'J.str "%s"' % o
    if isinstance(o, int):
        return "J.num %d" % o
    if isinstance(o, str):
        return "J.str " + lstr(o)
    if o is None:
        return "J.null"
    raise TypeError(type(o))


def safe(lang):
    return lang.replace("-", "_")


def shipped_info(lang):
    path = os.path.join(REPO, "dateparser/data/date_translation_data", lang + ".py")
    tree = ast.parse(open(path, encoding="utf-8").read())
    for n in tree.body:
        if isinstance(n, ast.Assign) and n.targets[0].id == "info":
            return ast.literal_eval(n.value)
    raise KeyError(lang)


def sources():
    root = os.path.join(REPO, "dateparser_data")
    cl = {os.path.basename(p)[:-5] for p in glob.glob(os.path.join(root, "cldr_language_data/date_translation_data/*.json"))}
    sp = {os.path.basename(p)[:-5] for p in glob.glob(os.path.join(root, "supplementary_language_data/date_translation_data/*.yaml"))}
    ol = Src("dateparser_scripts/order_languages.py")
    avoid = set(ast.literal_eval(ol.assign("avoid_languages")))
    return root, cl - avoid, sp


def main():
    root, cldr_langs, supp_langs = sources()
    all_langs = sorted(cldr_langs | supp_langs)
    base = yamlmini.load(open(os.path.join(root, "supplementary_language_data/base_data.yaml"), encoding="utf-8"))
    write_if_changed(os.path.join(OUT, "Base.lean"), "import DPModel.DP.Generator\nnamespace DP.Gen16\ndef base : J := %s\nend DP.Gen16\n" % emit(base))
    shipped_mods = sorted(os.path.basename(p)[:-3] for p in glob.glob(os.path.join(REPO, "dateparser/data/date_translation_data/*.py")) if not p.endswith("__init__.py"))
    names = []
    for lang in all_langs:
        cldr = {}
        p = os.path.join(root, "cldr_language_data/date_translation_data/%s.json" % lang)
        if lang in cldr_langs and os.path.exists(p):
            cldr = json.load(open(p, encoding="utf-8"), object_pairs_hook=OrderedDict)
        supp = {}
        p = os.path.join(root, "supplementary_language_data/date_translation_data/%s.yaml" % lang)
        if lang in supp_langs:
            supp = yamlmini.load(open(p, encoding="utf-8")) or {}
        try:
            shipped = shipped_info(lang)
            sh = emit(shipped)
        except Exception:
            sh = "J.null"
        n = safe(lang)
        text = ("import DPProofs.Gen16.Base\nnamespace DP.Gen16\n"
                "def cldr_%s : J := %s\n\ndef supp_%s : J := %s\n\ndef shipped_%s : J := %s\n\n"
                "def ok_%s : Bool := generateJ %s cldr_%s supp_%s base == shipped_%s\n"
                "theorem c16_%s : ok_%s = true := by native_decide\nend DP.Gen16\n") % (n, emit(cldr), n, emit(supp), n, sh, n, lstr(lang), n, n, n, n, n)
        write_if_changed(os.path.join(OUT, "L_%s.lean" % n), text)
        names.append(n)
    # remove stale language files
    keep = {"L_%s.lean" % n for n in names} | {"Base.lean", "Tz.lean", "Index.lean", "All.lean"}
    for p in glob.glob(os.path.join(OUT, "*.lean")):
        if os.path.basename(p) not in keep:
            os.unlink(p)
    # timezone table as stored in the pickle (read in a scratch interpreter: unpickling runs code)
    code = ("import pickle,json,sys\nsys.path.insert(0,%r)\nimport regex\n"
            "h,t,a,b=pickle.load(open(%r,'rb'))\n"
            "print(json.dumps({'rows':[[n,i['regex'].pattern,int(i['regex'].flags),int(i['offset'].total_seconds())] for n,i in t],"
            "'search':a.pattern,'searchFlags':int(a.flags),'searchI':b.pattern,'searchIFlags':int(b.flags),"
            "'iflag':int(regex.compile('x',regex.I).flags),'nflag':int(regex.compile('x').flags)}))") % (REPO, os.path.join(REPO, "dateparser/data/dateparser_tz_cache.pkl"))
    try:
        out = subprocess.run([sys.executable, "-c", code], stdout=subprocess.PIPE, stderr=subprocess.PIPE, timeout=120, env=dict(os.environ, TZ="UTC"))
        pk = json.loads(out.stdout.decode())
    except Exception as e:  # unreadable cache: an empty table makes the theorem fail, the harness explains
        pk = {"rows": [], "search": "", "searchI": "", "searchFlags": -1, "searchIFlags": -1, "iflag": 0, "nflag": 0}
    rows = pk["rows"]
    chunks = [rows[i:i + 100] for i in range(0, len(rows), 100)]
    L = ["import DPModel.DP.Generator\nnamespace DP.Gen16"]
    for i, ch in enumerate(chunks):
        L.append("def pklRows%d : List TzRow := [%s]" % (i, ", ".join("{ name := %s, pattern := %s, offset := %d }" % (lstr(r[0]), lstr(r[1]), r[3]) for r in ch)))
    L.append("def pklRows : List TzRow := " + (" ++ ".join("pklRows%d" % i for i in range(len(chunks))) or "[]"))
    L.append("def pklSearch : String := %s" % lstr(pk["search"]))
    L.append("def pklSearchI : String := %s" % lstr(pk["searchI"]))
    L.append("/-- every row regex is compiled IGNORECASE, `_search_regex` without it, `_search_regex_ignorecase` with it (flag words compared by the translator) -/")
    flags_ok = all(r[2] == pk["iflag"] for r in rows) and pk["searchFlags"] == pk["nflag"] and pk["searchIFlags"] == pk["iflag"]
    L.append("def pklFlagsOk : Bool := %s" % ("true" if flags_ok else "false"))
    L.append("def tzOk : Bool :=\n  let r := buildTzOffsets Gen.timezoneInfoList\n  r.1 == pklRows && \"|\".intercalate r.2 == pklSearch && \"|\".intercalate r.2 == pklSearchI && pklFlagsOk")
    L.append("theorem c16_tz : tzOk = true := by native_decide\nend DP.Gen16")
    write_if_changed(os.path.join(OUT, "Tz.lean"), "\n".join(L) + "\n")
    # index
    li = Src("dateparser/data/languages_info.py")
    order = const_eval(li.assign("language_order"))
    lld = const_eval(li.assign("language_locale_dict"))
    try:
        lmap = const_eval(li.assign("language_map"))
    except Exception:
        lmap = {}
    loc_keys = {}
    for lang in shipped_mods:
        try:
            loc_keys[lang] = list((shipped_info(lang).get("locale_specific") or {}).keys())
        except Exception:
            loc_keys[lang] = []
    I = ["namespace DP.Gen16",
         "def languageOrder : List String := %s" % llist(order),
         "def dataModules : List String := %s" % llist(shipped_mods),
         "def generatorLanguages : List String := %s" % llist(all_langs),
         "def languageLocaleDict : List (String × List String) := %s" % llist(lld.items(), lambda kv: "(%s, %s)" % (lstr(kv[0]), llist(kv[1]))),
         "def localeSpecificKeys : List (String × List String) := %s" % llist(sorted(loc_keys.items()), lambda kv: "(%s, %s)" % (lstr(kv[0]), llist(kv[1]))),
         "def languageMapValues : List String := %s" % llist(sorted({x for v in lmap.values() for x in v})),
         "def sortS (xs : List String) : List String := (xs.toArray.qsort (· < ·)).toList",
         "def noDup (xs : List String) : Bool := (sortS xs).eraseDups.length == xs.length",
         "/-- the language index lists exactly the languages that have data modules (= the generator's languages), without duplicates,",
         "    and exactly the locales those modules define -/",
         "def indexOk : Bool :=",
         "  noDup languageOrder && sortS languageOrder == sortS dataModules && sortS dataModules == sortS generatorLanguages &&",
         "  sortS (languageLocaleDict.map (·.1)) == sortS languageOrder &&",
         "  languageOrder.all (fun l => sortS (((languageLocaleDict.find? (·.1 == l)).map (·.2)).getD []) == sortS (((localeSpecificKeys.find? (·.1 == l)).map (·.2)).getD [])) &&",
         "  languageMapValues.all (fun l => languageOrder.contains l)",
         "theorem c16_index : indexOk = true := by native_decide",
         "end DP.Gen16"]
    write_if_changed(os.path.join(OUT, "Index.lean"), "\n".join(I) + "\n")
    A = ["import DPProofs.Gen16.Tz", "import DPProofs.Gen16.Index"] + ["import DPProofs.Gen16.L_%s" % n for n in names]
    A.append("namespace DP.Gen16")
    A.append("def allLanguageChecks : List (String × Bool) := [%s]" % ", ".join("(%s, ok_%s)" % (lstr(n), n) for n in names))
    A.append("/-- **C16_modules**: every shipped language module equals what the generator model produces from its sources -/")
    A.append("theorem C16_modules : allLanguageChecks.all (·.2) = true := by native_decide")
    A.append("/-- **C16_tz**: the pickled timezone table equals the table rebuilt from `timezone_info_list` -/\ntheorem C16_tz : tzOk = true := c16_tz")
    A.append("/-- **C16_index** -/\ntheorem C16_index : indexOk = true := c16_index")
    A.append("theorem C16_count : allLanguageChecks.length = %d := by rfl" % len(names))
    A.append("end DP.Gen16")
    write_if_changed(os.path.join(OUT, "All.lean"), "\n".join(A) + "\n")
    print(json.dumps({"changed": changed, "languages": len(names), "tz_rows": len(rows)}))


if __name__ == "__main__":
    main()
