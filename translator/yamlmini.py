"""Throwaway probe: YAML-subset loader sufficient for dateparser's supplementary data."""
import re
from collections import OrderedDict

def _scalar(tok):
    tok=tok.strip()
    if tok=='' : return None
    if tok[0]=='"' and tok[-1]=='"' and len(tok)>=2:
        body=tok[1:-1]
        out=[];i=0
        while i<len(body):
            c=body[i]
            if c=='\\':
                n=body[i+1]
                m={'n':'\n','t':'\t','"':'"','\\':'\\','/':'/','0':'\0',' ':' '}
                if n in m: out.append(m[n]); i+=2
                elif n=='x': out.append(chr(int(body[i+2:i+4],16))); i+=4
                elif n=='u': out.append(chr(int(body[i+2:i+6],16))); i+=6
                else: raise ValueError('escape '+n)
            else: out.append(c); i+=1
        return ''.join(out)
    if tok[0]=="'" and tok[-1]=="'" and len(tok)>=2:
        return tok[1:-1].replace("''","'")
    if re.fullmatch(r'[-+]?[0-9]+',tok): return int(tok)
    if tok in ('true','True'): return True
    if tok in ('false','False'): return False
    if tok in ('null','~'): return None
    return tok

def _strip_comment(line):
    # remove ' #...' outside quotes
    out=[];q=None
    for i,c in enumerate(line):
        if q:
            out.append(c)
            if c==q and not (q=='"' and line[i-1]=='\\'): q=None
            continue
        if c in '"\'' and (i==0 or line[i-1] in ' [,:-'):
            q=c; out.append(c); continue
        if c=='#' and (i==0 or line[i-1] in ' \t'): break
        out.append(c)
    return ''.join(out).rstrip()

def _flow_seq(tok):
    assert tok[0]=='[' and tok[-1]==']', tok
    body=tok[1:-1]; items=[];cur=[];q=None
    for i,c in enumerate(body):
        if q:
            cur.append(c)
            if c==q and not (q=='"' and body[i-1]=='\\'): q=None
            continue
        if c in '"\'' and ''.join(cur).strip()=='' : q=c; cur.append(c); continue
        if c==',': items.append(''.join(cur)); cur=[]; continue
        cur.append(c)
    if ''.join(cur).strip(): items.append(''.join(cur))
    return [_scalar(x) for x in items]

def _split_kv(text):
    """split 'key: value' at first ':' followed by space/end, outside quotes"""
    q=None
    for i,c in enumerate(text):
        if q:
            if c==q and not (q=='"' and text[i-1]=='\\'): q=None
            continue
        if c in '"\'' and i==0: q=c; continue
        if c==':' and (i+1==len(text) or text[i+1] in ' \t'):
            return text[:i].rstrip(), text[i+1:].strip()
    return None

def load(stream):
    text=stream.read() if hasattr(stream,'read') else stream
    lines=[]
    for raw in text.split('\n'):
        l=_strip_comment(raw.rstrip('\r'))
        if l.strip()=='' or l.strip()=='---': continue
        lines.append((len(l)-len(l.lstrip(' ')), l.strip()))
    pos=[0]
    def value(tok):
        if tok.startswith('['): return _flow_seq(tok)
        return _scalar(tok)
    def block(indent):
        ind,txt=lines[pos[0]]
        if txt.startswith('- ') or txt=='-':
            out=[]
            while pos[0]<len(lines) and lines[pos[0]][0]==indent and (lines[pos[0]][1].startswith('- ') or lines[pos[0]][1]=='-'):
                item=lines[pos[0]][1][1:].strip()
                kv=_split_kv(item) if item and item[0] not in '"\'[' else (_split_kv(item) if item and item[0] in '"\'' else None)
                pos[0]+=1
                if item=='':
                    out.append(block(lines[pos[0]][0]))
                elif kv is not None:
                    k,v=kv
                    d=OrderedDict(); d[_scalar(k)]=value(v) if v!='' else None
                    out.append(d)
                else:
                    out.append(value(item))
            return out
        else:
            out=OrderedDict()
            while pos[0]<len(lines) and lines[pos[0]][0]==indent and not lines[pos[0]][1].startswith('- '):
                kv=_split_kv(lines[pos[0]][1])
                if kv is None: raise ValueError('bad line %r'%(lines[pos[0]],))
                k,v=kv; pos[0]+=1
                if v=='':
                    if pos[0]<len(lines) and lines[pos[0]][0]>indent or (pos[0]<len(lines) and lines[pos[0]][0]==indent and lines[pos[0]][1].startswith('- ')):
                        out[_scalar(k)]=block(lines[pos[0]][0])
                    else: out[_scalar(k)]=None
                else:
                    out[_scalar(k)]=value(v)
            return out
    res=block(lines[0][0]) if lines else None
    if pos[0]!=len(lines): raise ValueError('trailing at %r'%(lines[pos[0]],))
    return res

class RoundTripLoader:
    def __init__(self,stream): self.stream=stream
    def get_data(self): return load(self.stream)
