import DPModel.DP.Lang
import DPModel.DP.Parser
/-!
# The rest of the pipeline: sanitising, timezone table, `date_parser.parse`, freshness parser, timestamp and
custom-format parsers, the no-spaces parser, `_DateLocaleParser` and `DateDataParser.get_date_data`.

Fixed-offset zones are concrete; IANA zones are *not* modelled (the driver refuses such cases).
Catch tuples of the `try` blocks are read from the source (`Gen.except*`).
-/
namespace DP

def rx (p : String × Bool) : (Re × Nat) × Flags :=
  (match parse p.1 with | .ok r => r | .error _ => (.cls false [], 0), { icase := p.2 })
def rxs (p : String) : Re × Nat := match parse p with | .ok r => r | .error _ => (.cls false [], 0)
def subR (r : (Re × Nat) × Flags) (repl s : String) : String := sub r.2 r.1.1 r.1.2 repl s
def searchR (r : (Re × Nat) × Flags) (s : String) : Option (Nat × Nat × Caps) :=
  let a := s.toList.toArray; searchFrom r.2 r.1.1 r.1.2 a (a.size + 2) 0
def subS (fl : Flags) (p : Re × Nat) (repl s : String) : String := sub fl p.1 p.2 repl s
def searchS (fl : Flags) (p : Re × Nat) (s : String) : Option (Nat × Nat × Caps) :=
  let a := s.toList.toArray; searchFrom fl p.1 p.2 a (a.size + 2) 0

-- ---------------- which Python exception classes catch which model error
def classCatches (cls : String) (e : PyErr) : Bool :=
  match cls with
  | "BaseException" | "Exception" => true
  | "ValueError" => (match e with | .value _ => true | _ => false)
  | "OverflowError" | "ArithmeticError" => e == .overflow
  | "IndexError" => e == .index
  | "KeyError" => e == .key || e == .unknownTz
  | "LookupError" => e == .index || e == .key || e == .unknownTz
  | "TypeError" => e == .type
  | "AttributeError" => e == .attr
  | "AssertionError" => e == .assertion
  | "UnknownTimeZoneError" => e == .unknownTz
  | _ => false
/-- is `e` caught by the first `except` of a function whose except-tuples were extracted from the source? -/
def caughtBy (excepts : List (List String)) (e : PyErr) : Bool :=
  match excepts with
  | [] => false
  | names :: _ => names.any (fun c => classCatches c e)

-- ---------------- date.py sanitising (patterns and replacement templates from the source)
def RE_NBSP := rx Gen.reNbsp
def RE_SPACES := rx Gen.reSpaces
def RE_TRIM_SPACES := rx Gen.reTrimSpaces
def RE_TRIM_COLONS := rx Gen.reTrimColons
def RE_SANITIZE_SKIP := rx Gen.reSanitizeSkip
def RE_SANITIZE_RUSSIAN := rx Gen.reSanitizeRussian
def RE_SANITIZE_CROATIAN := rx Gen.reSanitizeCroatian
def RE_SANITIZE_PERIOD := rx Gen.reSanitizePeriod
def RE_SANITIZE_ON := rx Gen.reSanitizeOn
def replOf (tbl : List (String × String)) (name : String) (dflt : String) : String :=
  ((tbl.find? (·.1 == name)).map (·.2)).getD dflt

def sanitizeSpaces (s : String) : String :=
  let t := Gen.sanitizeSpacesSubs
  let s := subR RE_NBSP (replOf t "RE_NBSP" " ") s
  let s := subR RE_SPACES (replOf t "RE_SPACES" " ") s
  subR RE_TRIM_SPACES (replOf t "RE_TRIM_SPACES" "\\1") s
def sanitizeDate (s : String) : String :=
  let t := Gen.sanitizeDateSubs
  let s := subR RE_SANITIZE_SKIP (replOf t "RE_SANITIZE_SKIP" " ") s
  let s := subR RE_SANITIZE_RUSSIAN (replOf t "RE_SANITIZE_RUSSIAN" "\\1 ") s
  let s := subR RE_SANITIZE_CROATIAN (replOf t "RE_SANITIZE_CROATIAN" "\\1.\\2.\\3 ") s
  let s := sanitizeSpaces s
  let s := subR RE_SANITIZE_PERIOD (replOf t "RE_SANITIZE_PERIOD" "") s
  let s := subR RE_SANITIZE_ON (replOf t "RE_SANITIZE_ON" "\\1") s
  let s := subR RE_TRIM_COLONS (replOf t "RE_TRIM_COLONS" "\\1") s
  let ap := replOf t "RE_SANITIZE_APOSTROPHE" "'"
  let s := s.toList.foldl (fun acc c => if Gen.apostropheChars.contains (String.singleton c) then acc ++ ap else acc.push c) ""
  pyStrip s

-- ---------------- timezone table
structure TzEntry where
  name : String
  re : Re × Nat
  offset : Int
deriving Inhabited
structure TzTable where
  entries : Array TzEntry
  searchI : Re × Nat      -- _search_regex_ignorecase
  search : Re × Nat       -- _search_regex (word_is_tz)
deriving Inhabited

def popTz (T : TzTable) (s : String) : String × Option (String × Int) :=
  if (searchS { icase := true } T.searchI s).isNone then (s, none) else
  let a := s.toList.toArray
  match T.entries.findSome? (fun e => match searchFrom { icase := true } e.re.1 e.re.2 a (a.size + 2) 0 with
      | some (st, en, _) => some (e, st, en) | none => none) with
  | some (e, st, en) => (slice a 0 (st + 1) ++ slice a en a.size, some (e.name, e.offset))
  | none => (s, none)

/-- the table look-up of `get_timezone_from_tz_string` / `apply_dateparser_timezone` -/
def tableTz (T : TzTable) (name : String) : Option Int :=
  let a := (" " ++ name).toList.toArray
  T.entries.findSome? (fun e => match searchFrom { icase := true } e.re.1 e.re.2 a (a.size + 2) 0 with
      | some _ => some e.offset | none => none)

/-- how a TIMEZONE / TO_TIMEZONE string resolves; `iana` = pytz knows it (not modelled) -/
inductive TzRes | fixed (off : Int) | iana | unknown
deriving Repr, Inhabited, DecidableEq

structure ADT where
  t : DT
  off : Option Int     -- none = naive
deriving Inhabited, Repr, DecidableEq

/-- `datetime.astimezone(tz)` for fixed offsets, in CPython's two steps: `utc = self - offset` (OverflowError when the UTC wall clock is
    not representable, even if the final value would be), then `tz.fromutc(utc) = utc + new offset` -/
def astimezone (x : ADT) (b : Int) : Except PyErr ADT := do
  let a := x.off.getD 0
  let u ← x.t.addSeconds (-a)
  let t ← u.addSeconds b
  return { t, off := some b }

structure Settings where
  dateOrder : String := "MDY"
  dateOrderGiven : Bool := false
  preferLocaleOrder : Bool := true
  timezone : String := "UTC"
  tzLocalize : TzRes := .fixed 0      -- get_timezone_from_tz_string(TIMEZONE): pytz first, then the table
  tzApply : TzRes := .fixed 0         -- apply_timezone(…, TIMEZONE): the table first, then pytz
  toTimezone : Option String := none
  toTzApply : TzRes := .fixed 0
  aware : Option Bool := none         -- none = 'default'
  preferDay : Pref3 := .current
  preferMonth : Pref3 := .current
  preferDates : PrefDates := .currentPeriod
  now : DT := { y := 2020, mo := 1, d := 1 }
  nowOff : Option Int := none
  strict : Bool := false
  requireParts : List Comp := []
  skipTokens : List String := ["t"]
  normalize : Bool := true
  timeAsPeriod : Bool := false
  parsers : List String := Gen.defaultParsers
  defaultLanguages : List String := []
  today : DT := { y := 2026, mo := 9, d := 30 }
  localOff : Int := 0                 -- offset of the process-local zone (TZ=UTC in the harness)
deriving Inhabited

def compOfName : String → Option Comp
  | "day" => some .day | "month" => some .month | "year" => some .year | _ => none
def orderOf (o : String) : List Comp :=
  match Gen.dateOrderLists.find? (·.1 == o) with
  | some (_, l) => l.filterMap compOfName
  | none => []

def stripBraces (s : String) : String := String.ofList (s.toList.filter (fun c => !"{}()<>[]".toList.contains c))
def isLocalTz (st : Settings) : Bool := hasSub (pyLower st.timezone) "local"

def needFixed (r : TzRes) : Except PyErr Int :=
  match r with
  | .fixed o => .ok o
  | .iana => .error (.other "iana")
  | .unknown => .error .unknownTz

def applyAwareness (st : Settings) (x : ADT) (ptz : Bool) : ADT :=
  match st.aware with
  | some false => { x with off := none }
  | none => if !ptz then { x with off := none } else x
  | some true => x

def psettingsOf (st : Settings) (order : String) (tzOff : Int) : PSettings :=
  { order := orderOf order, preferDay := st.preferDay, preferMonth := st.preferMonth, preferDates := st.preferDates,
    now := st.now, nowOff := st.nowOff, strict := st.strict, requireParts := st.requireParts,
    timeAsPeriod := st.timeAsPeriod, tzOffset := tzOff }

-- ---------------- no-spaces parser
def nspAll : List String :=
  Gen.nspDateformats ++ (Gen.nspDateformats.flatMap (fun x => Gen.nspTimeformats.map (fun y => x ++ y))) ++ Gen.nspTimeformats
/-- `sorted(_all, key=lambda x: x.lower().startswith(k), reverse=True)` — stable, matching formats first -/
def nspSorted (k : String) : List String :=
  let hit := fun (x : String) => (x.toLower).startsWith k
  nspAll.filter hit ++ nspAll.filter (fun x => !hit x)
def nspFormats (order : String) : List String :=
  if order == "%m%d%y" then Gen.nspPreferred ++ nspSorted order else nspSorted order
def nspPeriodOf (fmt : String) : Period :=
  match Gen.nspPeriod.find? (fun (_, drvs) => drvs.any (fun d => hasSub fmt d)) with
  | some ("day", _) => .day
  | some ("month", _) => .month
  | _ => .year
def missingParts (fmt : String) : List Comp :=
  let has := fun (ds : List String) => ds.any (fun d => hasSub fmt d)
  (if has ["%d", "%-d", "%j", "%-j"] then [] else [Comp.day]) ++
  (if has ["%b", "%B", "%m", "%-m"] then [] else [Comp.month]) ++
  (if has ["%y", "%-y", "%Y"] then [] else [Comp.year])

def nspParse (st : Settings) (order : String) (s0 : String) : Except PyErr (DT × Period) := do
  -- no_space_parser_eligibile: first run of non-digits absent or exactly ":"
  let nd := searchR (rx Gen.reNspCompatible) s0
  let eligible := match nd with
    | none => true
    | some (a, b, _) => (s0.toList.toArray.extract a b).toList == [':']
  if !eligible then throw (.value .unable)
  let s := String.ofList (s0.toList.filter (· != ':'))
  if s.isEmpty then throw (.value .empty)
  let toks ← tokenize s.toList
  let ps := psettingsOf st order 0
  let ord := ((Gen.dateOrderChart.find? (·.1 == order)).map (·.2)).getD "%m%d%y"
  let tryFmt := fun (tok : List Char) (fmt : String) => match dpStrptimeC tok fmt.toList with | .ok t => some t | _ => none
  -- settings.DATE_ORDER is always truthy here (a non-empty string), so the 8-digit shortcut is dead code
  let mut ambiguous : Option (DT × Period) := none
  for (tok, _) in toks do
    for fmt in nspFormats ord do
      match tryFmt tok fmt with
      | none => pure ()
      | some t =>
        if t.y < 1000 then ambiguous := some (t, nspPeriodOf fmt)
        else
          match checkStrict ps (missingParts fmt) with
          | .ok _ => return (t, nspPeriodOf fmt)
          | .error _ => pure ()
  match ambiguous with
  | some r => return r
  | none => throw (.value .unable)

-- ---------------- the timezone pipeline of date_parser.parse
/-- what `DateParser.parse` does with the naive datetime `t` returned by the parse method: attach the string's own zone
    (`ptz`) or the TIMEZONE setting, convert to TIMEZONE (when the string named a zone) and to TO_TIMEZONE, then apply
    RETURN_AS_TIMEZONE_AWARE -/
def zonePipeline (st : Settings) (ptz : Option Int) (t : DT) : Except PyErr ADT := do
  let x1 : ADT ← match ptz with
    | some o =>
      if isLocalTz st then pure { t, off := some o }
      else do
        let b ← needFixed st.tzApply
        astimezone { t, off := some o } b
    | none =>
      if isLocalTz st then pure { t, off := some st.localOff }
      else do
        let b ← needFixed st.tzLocalize
        pure { t, off := some b }
  let x2 : ADT ← if st.toTimezone.isSome then (do let b ← needFixed st.toTzApply; astimezone x1 b) else pure x1
  return applyAwareness st x2 ptz.isSome

/-- the instant an aware datetime denotes (µs since ordinal 0, UTC) -/
def ADT.instant (x : ADT) : Int := x.t.micros - (x.off.getD 0) * 1000000

-- ---------------- date_parser.parse
/-- `DateParser.parse` with `parse_method` ∈ {`_parse_absolute`, `_parse_nospaces`} -/
def dateParserParse (T : TzTable) (st : Settings) (order : String) (nospaces : Bool) (s : String) : Except PyErr (ADT × Period) := do
  if pyStrip s == "" then throw (.value .empty)
  let s := stripBraces s
  let (s, ptz) := popTz T s

  let tzOff : Int := match ptz with
    | some (_, o) => o
    | none => (match st.tzLocalize with | .fixed o => o | _ => 0)
  let (t, period) ← if nospaces then nspParse st order s else absParse (psettingsOf st order tzOff) s.toList
  let x ← zonePipeline st (ptz.map (·.2)) t
  return (x, period)

-- ---------------- freshness
def PATTERN := rx Gen.reFreshPattern
def skipWordRe := rxs ("|".intercalate Gen.freshSkip)
def reIn := rxs "\\bin\\b"
def reAgo := rxs "\\bago\\b"
def reFuture := rxs "\\bfuture\\b"
def reAgoIn := rxs "\\b(?:ago|in)\\b"
def reNonWord := rxs "\\W"

def allWordsUnits (s : String) : Bool :=
  let s := subR RE_SPACES " " (pyStrip s)
  let words := (split {} reNonWord.1 reNonWord.2 s).filter (· != "")
  words.all (fun w => match matchAt { icase := false } skipWordRe.1 skipWordRe.2 w.toList.toArray 0 with | .ok _ _ => true | _ => false)

/-- decimal string → (numerator, 10^k) -/
def parseDecimal (s : String) : Int × Nat :=
  let s := s.replace "," "."
  match s.splitOn "." with
  | [a] => (natOfDigits a, 1)
  | [a, b] => (natOfDigits (a ++ b), 10 ^ b.length)
  | _ => (0, 1)

def findAllUnits (s : String) : List (String × String) :=
  let a := s.toList.toArray
  let rec go (fuel pos : Nat) (acc : List (String × String)) : List (String × String) :=
    match fuel with
    | 0 => acc.reverse
    | fuel+1 =>
      match (if pos > a.size then none else searchFrom PATTERN.2 PATTERN.1.1 PATTERN.1.2 a (a.size + 2) pos) with
      | none => acc.reverse
      | some (_, e, c) =>
        let g := fun n => match c[n]? with | some (some (x, y)) => slice a x y | _ => ""
        go fuel (if e == pos then e + 1 else e) ((g 1, g 2) :: acc)
  go (a.size + 2) 0 []

def roundHalfEven (num : Int) (den : Nat) : Int :=
  let d : Int := den
  let q := num / d; let r := num % d
  if 2 * r < d then q else if 2 * r > d then q + 1 else (if q % 2 == 0 then q else q + 1)

/-- the relative offset a phrase denotes: whole months (years, decades folded in) and a linear part in µs -/
structure RelDelta where
  years : Int
  months : Int
  micros : Int
  period : Period
deriving Repr, DecidableEq, Inhabited

/-- the period rule of `_parse_date`: 'day' when days are counted, else the first of `Gen.freshPeriodKeys` that is counted -/
def relPeriodOf (has : String → Bool) : Period :=
  if has "days" then .day else
  match Gen.freshPeriodKeys.find? has with
  | some "weeks" => .week | some "months" => .month | some "years" => .year | _ => .day

/-- the direction rule of `_parse_date`: `in` ⇒ +; otherwise + only when future dates are preferred and there is no `ago` -/
def relPlus (hasIn hasAgo : Bool) (pd : PrefDates) : Bool := hasIn || (pd == .future && !hasAgo)

/-- `get_kwargs` + `relativedelta(**kwargs)` normalisation; `none` = no unit found; ValueError for non-integer years/months -/
def relDeltaOf (s : String) : Except PyErr (Option RelDelta) := do
  let m := findAllUnits s
  if m.isEmpty then return none
  let kw : List (String × (Int × Nat)) := m.foldl (fun acc (num, unit) =>
    let k := (pyLower unit) ++ "s"; (acc.filter (·.1 != k)) ++ [(k, parseDecimal num)]) []
  let get := fun (kw : List (String × (Int × Nat))) (k : String) => (kw.find? (fun e => e.1 == k)).map (fun e => e.2)
  let kw : List (String × (Int × Nat)) := match get kw "decades" with
    | some (n, d) =>
      let yrs : Int × Nat := match get kw "years" with | some (n2, d2) => (n * 10 * d2 + n2 * d, d * d2) | none => (n * 10, d)
      (kw.filter (fun e => e.1 != "decades" && e.1 != "years")) ++ [("years", yrs)]
    | none => kw
  let get := get kw
  let period : Period := relPeriodOf (fun k => (get k).isSome)
  let intOf := fun (v : Option (Int × Nat)) => match v with
    | none => some (0 : Int)
    | some (n, d) => if n % (d : Int) == 0 then some (n / d) else none
  let some yrs := intOf (get "years") | throw (.value .other)
  let some mos := intOf (get "months") | throw (.value .other)
  let lin : List (String × Int) := [("weeks", 604800000000), ("days", 86400000000), ("hours", 3600000000), ("minutes", 60000000), ("seconds", 1000000)]
  let (num, den) := lin.foldl (fun (acc : Int × Nat) (k, us) => match get k with
    | some (n, d) => (acc.1 * d + n * us * acc.2, acc.2 * d)
    | none => acc) (0, 1)
  return some { years := yrs, months := mos, micros := roundHalfEven num den, period }

/-- the period after an explicit clock time was applied: 'time' when time-as-period is requested (the source decides whether the
    clock time must also have changed the datetime: `Gen.freshTimePeriodByChange`) -/
def freshPeriod (tap : Bool) (changed : Bool) (p : Period) : Period :=
  if tap && (if Gen.freshTimePeriodByChange then changed else true) then .time else p

/-- `now ± relativedelta`: month arithmetic with day clamp first, then the linear part -/
def applyRelDelta (now : DT) (sign : Int) (rd : RelDelta) : Except PyErr DT := do
  let t1 ← rdAddYM now (sign * rd.years) (sign * rd.months)
  t1.addMicros (sign * rd.micros)

def freshnessParse (T : TzTable) (st : Settings) (s0 : String) : Except PyErr (Option (ADT × Period)) := do
  let s := stripBraces s0
  let (s, ptz) := popTz T s
  -- _parse_time
  let ts := subR PATTERN "" s
  let ts := subS {} reAgoIn "" ts
  let time : Option DT ← match timeParser ts.toList with
    | .ok t => pure (some t)
    | .error e => if caughtBy Gen.exceptFreshParseTime e then pure none else throw e

  let local_ := isLocalTz st
  let mut now : ADT := { t := st.now, off := st.nowOff }
  if !local_ then
    if now.off.isNone then
      let b ← needFixed st.tzLocalize
      now := { now with off := some b }
  if let some (_, o) := ptz then
    if now.off.isSome then now ← astimezone now o else now := { now with off := some o }
  if now.off.isNone then now := { now with off := some st.localOff }
  if !allWordsUnits s then return none
  let some rd ← relDeltaOf s | return none
  let plus := relPlus (searchS {} reIn s).isSome (searchS {} reAgo s).isSome st.preferDates
  let sign : Int := if plus then 1 else -1
  let t2 ← applyRelDelta now.t sign rd
  let mut date : ADT := { t := t2, off := now.off }
  let mut period := rd.period
  if let some tm := time then
    let nd := { date.t with h := tm.h, mi := tm.mi, s := tm.s, us := tm.us }
    period := freshPeriod st.timeAsPeriod (nd != date.t) period
    date := { date with t := nd }
  if st.toTimezone.isSome then
    let b ← needFixed st.toTzApply
    date ← astimezone date b
  return some (applyAwareness st date ptz.isSome, period)

-- ---------------- timestamp, formats
def RE_TS := rx Gen.reSearchTimestamp
def RE_NTS := rx Gen.reSearchNegTimestamp

def applyTzFromSettings (st : Settings) (t : DT) : Except PyErr ADT := do
  let mut x : ADT := { t, off := some st.localOff }
  if !isLocalTz st then
    let b ← needFixed st.tzLocalize
    x := { t, off := some b }
  if st.toTimezone.isSome then
    let b ← needFixed st.toTzApply
    x ← astimezone x b
  return (if st.aware == some true then x else { x with off := none })

/-- seconds from the (fictitious) ordinal-0 midnight to 1970-01-01T00:00:00 : `date(1970,1,1).toordinal() * 86400` -/
def epochSecs : Nat := 62135683200

/-- `datetime.fromtimestamp(seconds, fixed-offset zone).replace(microsecond=frac, tzinfo=None)` -/
def timestampCore (secs off : Int) (frac : Nat) : Except PyErr DT :=
  let total : Int := (epochSecs : Int) + secs + off
  if total < 0 then .error .overflow else
  match ofMicrosN (total.toNat * 1000000) with
  | .ok t => .ok { t with us := frac }
  | .error e => .error e

def timestampParse (st : Settings) (negative : Bool) (s : String) : Except PyErr (Option (ADT × Period)) := do
  match searchR (if negative then RE_NTS else RE_TS) s with
  | none => return none
  | some (_, _, c) =>
    let a := s.toList.toArray
    let g := fun n => match c[n]? with | some (some (x, y)) => some (slice a x y) | _ => none
    let g1 := (g 1).getD "0"
    let secs : Int := if g1.startsWith "-" then -((natOfDigits (String.ofList (g1.toList.drop 1)) : Nat) : Int) else (natOfDigits g1 : Nat)
    let ms := natOfDigits ((g 2).getD "0"); let us := natOfDigits ((g 3).getD "0")
    let off : Int ← if isLocalTz st then pure st.localOff else needFixed st.tzLocalize
    let t ← timestampCore secs off (ms * 1000 + us)
    let x ← applyTzFromSettings st t
    return some (x, if st.timeAsPeriod then .time else .day)

inductive PwfOutcome | bad | res (r : Except PyErr (Option (ADT × Period)))

/-- outcome of one format of `parse_with_formats` -/
inductive PwfStep | bad | skip | err (e : PyErr) | hit (v : ADT × Period)

/-- completion of the parts a format cannot express (not guarded by any `try`) -/
def pwfComplete (st : Settings) (f : String) (t : DT) : Except PyErr (DT × Period) := do
  let missingMonth := !(hasSub f "%m" || hasSub f "%b" || hasSub f "%B")
  let missingDay := !hasSub f "%d"
  let yearless := !(hasSub f "%y" || hasSub f "%Y")
  let mut t := t
  let mut period := Period.day
  -- the source fills the current year in before (`Gen.pwfYearFirst`) or after the completion of month and day
  if yearless && Gen.pwfYearFirst then t ← t.replaceYear st.today.y
  if missingMonth && missingDay then
    period := .year; t ← setMonth st.preferMonth t st.today.mo; t ← setDay st.preferDay t st.today.d
  else if missingMonth then
    period := .year; t ← setMonth st.preferMonth t st.today.mo
  else if missingDay then
    period := .month; t ← setDay st.preferDay t st.today.d
  if yearless && !Gen.pwfYearFirst then t ← t.replaceYear st.today.y
  return (t, period)

/-- strictness as `parse_with_formats` applies it (only if the source calls `_check_strict_parsing` there) -/
def pwfStrictOk (st : Settings) (f : String) : Bool :=
  if Gen.pwfChecksStrict then
    (match checkStrict (psettingsOf st st.dateOrder 0) (missingParts f) with | .ok _ => true | .error _ => false)
  else true

def pwfOne (st : Settings) (s : String) (f : String) : PwfStep :=
  match strptimeC s.toList f.toList true with
  | .bad => .bad
  | .err e => if caughtBy Gen.exceptPwfStrptime e then .skip else .err e
  | .ok t =>
    if !pwfStrictOk st f then .skip else
    match pwfComplete st f t with
    | .error e => .err e
    | .ok (t, period) =>
      -- the zone settings, under the `try` the source puts around `apply_timezone_from_settings` (if any)
      match applyTzFromSettings st t with
      | .ok x => .hit (x, period)
      | .error e => if caughtBy Gen.exceptPwfZone e then .skip else .err e

def parseWithFormats (st : Settings) (s : String) : List String → PwfOutcome
  | [] => .res (.ok none)
  | f :: fs =>
    match pwfOne st s f with
    | .bad => .bad
    | .skip => parseWithFormats st s fs
    | .err e => .res (.error e)
    | .hit v => .res (.ok (some v))

-- ---------------- orchestrator
structure LocEntry where
  name : String                 -- shortname reported in DateData.locale
  L : Loc
  dateOrder : Option String
deriving Inhabited

structure Result where
  x : ADT
  period : Period
  locale : String
deriving Inhabited

def showADT (x : ADT) : String := x.t.show ++ "|" ++ (match x.off with | some o => toString o | none => "naive")

inductive GddOutcome | bad (why : String) | res (r : Except PyErr (Option Result))

/-- one parser of `_DateLocaleParser._parsers`; `Sum.inl why` = outside the modelled subset -/
def runParser (T : TzTable) (st : Settings) (le : LocEntry) (s : String) (fmts : List String) (pname : String) :
    Sum String (Except PyErr (Option (ADT × Period))) :=
  if pname == "timestamp" || pname == "negative-timestamp" then
    (match timestampParse st (pname == "negative-timestamp") s with
     | .error e => if caughtBy Gen.exceptTryTimestamp e then .inr (.ok none) else .inr (.error e)
     | r => .inr r)
  else if pname == "relative-time" then
    (match freshnessParse T st (le.L.translate s false) with
     | .error e => if caughtBy Gen.exceptTryFreshness e then .inr (.ok none) else .inr (.error e)
     | r => .inr r)
  else if pname == "custom-formats" then
    (if fmts.isEmpty then .inr (.ok none) else
      match parseWithFormats st (le.L.translate s true) fmts with
      | .bad => .inl "format"
      | .res r => .inr r)
  else if pname == "absolute-time" || pname == "no-spaces-time" then
    let order := if st.preferLocaleOrder && !st.dateOrderGiven then le.dateOrder.getD st.dateOrder else st.dateOrder
    (match dateParserParse T st order (pname == "no-spaces-time") (le.L.translate s false) with
     | .ok (x, p) => .inr (.ok (some (x, p)))
     | .error e => if caughtBy Gen.exceptTryParser e then .inr (.ok none) else .inr (.error e))
  else .inr (.error .key)

/-- `_DateLocaleParser._parse`: the parsers of PARSERS in order; the first valid DateData wins -/
def localeParseGo (T : TzTable) (st : Settings) (le : LocEntry) (s : String) (fmts : List String) : List String → GddOutcome
  | [] => .res (.ok none)
  | pname :: rest =>
    match runParser T st le s fmts pname with
    | .inl why => .bad why
    | .inr (.error (.other "iana")) => .bad "iana"
    | .inr (.error e) => .res (.error e)
    | .inr (.ok (some (x, p))) =>
      if Gen.validPeriods.contains p.name then .res (.ok (some { x, period := p, locale := le.name }))
      else localeParseGo T st le s fmts rest
    | .inr (.ok none) => localeParseGo T st le s fmts rest

def localeParse (T : TzTable) (st : Settings) (le : LocEntry) (s : String) (fmts : List String) : GddOutcome :=
  localeParseGo T st le s fmts st.parsers

/-- the loop over the selected locales: a locale is tried when it is applicable to the string or to its zone-stripped form;
    the first one whose parse yields a result wins -/
def tryLocales (T : TzTable) (st : Settings) (cands : List String) (s : String) (fmts : List String) : List LocEntry → GddOutcome
  | [] => .res (.ok none)
  | le :: rest =>
    if cands.any (fun c => le.L.isApplicable c) then
      match localeParse T st le s fmts with
      | .res (.ok none) => tryLocales T st cands s fmts rest
      | r => r
    else tryLocales T st cands s fmts rest

/-- the DEFAULT_LANGUAGES fallback: tried without an applicability test -/
def tryDefaults (T : TzTable) (st : Settings) (s : String) (fmts : List String) : List LocEntry → GddOutcome
  | [] => .res (.ok none)
  | le :: rest =>
    match localeParse T st le s fmts with
    | .res (.ok none) => tryDefaults T st s fmts rest
    | r => r

/-- the strings a locale's applicability is tested on -/
def candidates (T : TzTable) (s : String) : List String :=
  let stripped := (popTz T s).1
  if stripped == s then [s] else [s, stripped]

/-- `DateDataParser.get_date_data` given the ordered locale list (`locs`) and the DEFAULT_LANGUAGES locales (`dflt`) -/
def getDateData (T : TzTable) (st : Settings) (locs dflt : List LocEntry) (s : String) (fmts : List String) : GddOutcome :=
  match parseWithFormats st s fmts with
  | .bad => .bad "format"
  | .res (.error (.other "iana")) => .bad "iana"
  | .res (.error e) => .res (.error e)
  | .res (.ok (some (x, p))) => .res (.ok (some { x, period := p, locale := "" }))
  | .res (.ok none) =>
    let s := sanitizeDate s
    match tryLocales T st (candidates T s) s fmts locs with
    | .res (.ok none) => tryDefaults T st s fmts dflt
    | r => r

end DP
