import DPModel.Py.Date
import DPModel.Py.Strptime
import DPModel.Gen.Consts
/-!
# Model of the search layer (`Locale.translate_search`, `Locale._simplify_split_align`,
# `_ExactLanguageSearch.parse_found_objects / split_if_not_parsed / split_by / choose_best_split / set_relative_base`)

Token level: sentence splitting, word splitting, the dictionary, `_join_chunk`, `word_is_tz`, `_token_with_digits_is_ok`
and `DateDataParser.get_date_data` are *parameters* (fields of `Env` / function arguments); what is modelled is everything
that indexes, inserts, removes, splits, counts and orders.  Python operations that can raise (`list[i]`, `list.remove`)
are explicit (`Except PyErr`).
-/
namespace DP.Search

/-! ## `_simplify_split_align` -/

/-- an original token together with `normalize_unicode(token.lower())` (what the alignment compares) -/
structure OTok where
  raw : String
  norm : String
deriving Repr, DecidableEq, Inhabited

def OTok.blank : OTok := ⟨"", ""⟩

/-- Python `list.insert(i, x)` (an index past the end appends) -/
def pyInsert {α} (l : List α) (i : Nat) (x : α) : List α := l.take i ++ x :: l.drop i

/-- the `for i, token in enumerate(iterated): …` loop of `_simplify_split_align`: `other` is the list being padded -/
def alignGo {γ β} (kIt : γ → String) (kOt : β → String) (blank : β) : List γ → Nat → List β → Bool → List β
  | [], _, other, _ => other
  | tok :: rest, i, other, ae =>
    match other[i]? with
    | some o =>
      if kIt tok == kOt o then alignGo kIt kOt blank rest (i + 1) other false
      else if !ae then alignGo kIt kOt blank rest (i + 1) other true
      else alignGo kIt kOt blank rest (i + 1) (pyInsert other i blank) true
    | none => alignGo kIt kOt blank rest (i + 1) (pyInsert other i blank) ae

/-- Python `list.remove(x)` for the blank element: removes the first blank, `ValueError` when there is none -/
def removeFirst {β} (isBlank : β → Bool) : List β → Except PyErr (List β)
  | [] => .error (.value .other)
  | x :: xs => if isBlank x then .ok xs else (removeFirst isBlank xs).map (x :: ·)

/-- `while len(original_tokens) != len(simplified_tokens): …remove("")` -/
def equalize : Nat → List OTok → List String → Except PyErr (List OTok × List String)
  | 0, o, s => if o.length = s.length then .ok (o, s) else .error (.other "fuel")
  | fuel + 1, o, s =>
    if o.length = s.length then .ok (o, s)
    else if o.length > s.length then
      match removeFirst (fun t : OTok => t.raw == "") o with
      | .ok o' => equalize fuel o' s
      | .error e => .error e
    else
      match removeFirst (fun t : String => t == "") s with
      | .ok s' => equalize fuel o s'
      | .error e => .error e

def alignTokens (orig : List OTok) (simp : List String) : Except PyErr (List OTok × List String) :=
  if orig.length = simp.length then .ok (orig, simp)
  else if orig.length < simp.length then
    let o' := alignGo (fun s : String => s) OTok.norm OTok.blank simp 0 orig false
    equalize (o'.length + simp.length) o' simp
  else
    let s' := alignGo OTok.norm (fun s : String => s) "" orig 0 simp false
    equalize (orig.length + s'.length) orig s'

/-! ## `translate_search`, one sentence -/

structure Env where
  /-- `dictionary[w]` when `w in dictionary`; the falsy values (`None`, `""`) are both rendered `""` -/
  dict : String → Option String
  /-- `_join_chunk` -/
  join : List String → String
  /-- `word.strip("()\"'{}[],.،")` -/
  strip : String → String
  digitsOk : String → Bool
  isTz : String → Bool
  /-- `self.shortname in word_joint_unsupported_languages` -/
  jointUnsupported : Bool
  /-- the source guards the look-ahead branch with `i < last_token_index` (generated: `Gen.tsLookaheadGuarded`) -/
  guarded : Bool := Gen.tsLookaheadGuarded
  dashes : List String := Gen.tsDashes

/-- one element of a chunk: translated text, original text, index of its first original token, number of original tokens -/
structure Item where
  t : String
  o : String
  i : Nat
  n : Nat
deriving Repr, DecidableEq, Inhabited

/-- loop state; `cur` and `done` are kept newest-first -/
structure St where
  cur : List Item := []
  done : List (List Item) := []
  skip : Bool := false
deriving Repr, Inhabited

def idx (l : List String) (i : Nat) : Except PyErr String :=
  match l[i]? with
  | some x => .ok x
  | none => .error .index

def St.push (st : St) (it : Item) : St := { st with cur := it :: st.cur }
def St.flush (st : St) : St := if st.cur.isEmpty then st else { st with cur := [], done := st.cur :: st.done }

/-- one iteration, given whether a next token exists (`i < last_token_index`) and the joined look-ahead key -/
def stepCore (E : Env) (orig : List String) (st : St) (i : Nat) (word : String) (hasNext : Bool) (joined : String) : Except PyErr St :=
  if st.skip then .ok { st with skip := false }
  else if word == "" || word == " " then
    (idx orig i).map (fun o => st.push ⟨word, o, i, 1⟩)
  else if (!E.guarded || hasNext) && (E.dict joined).isSome && !E.dashes.contains word && !E.jointUnsupported then
    match idx orig i with
    | .error e => .error e
    | .ok o1 =>
      match idx orig (i + 1) with
      | .error e => .error e
      | .ok o2 => .ok { (st.push ⟨(E.dict joined).getD "", E.join [o1, o2], i, 2⟩) with skip := true }
  else if (E.dict word).isSome && !E.dashes.contains word then
    (idx orig i).map (fun o => st.push ⟨(E.dict word).getD "", o, i, 1⟩)
  else if (E.dict (E.strip word)).isSome && !E.dashes.contains word then
    let sw := E.strip word
    let punct := String.ofList (word.toList.drop sw.length)
    let tv := (E.dict sw).getD ""
    (idx orig i).map (fun o => st.push ⟨if punct != "" && tv != "" then tv ++ punct else tv, o, i, 1⟩)
  else if E.digitsOk word then
    (idx orig i).map (fun o => st.push ⟨word, o, i, 1⟩)
  else if st.cur.isEmpty then .ok st
  else
    match idx orig i with
    | .error e => .error e
    | .ok o => if E.isTz o then .ok (st.push ⟨word, o, i, 1⟩) else .ok st.flush

def step (E : Env) (orig simp : List String) (st : St) (i : Nat) (word : String) : Except PyErr St :=
  stepCore E orig st i word (decide (i < simp.length - 1))
    (E.join [word, if i < simp.length - 1 then simp.getD (i + 1) "" else ""])

def loop (E : Env) (orig simp : List String) : List String → Nat → St → Except PyErr St
  | [], _, st => .ok st
  | w :: ws, i, st =>
    match step E orig simp st i w with
    | .error e => .error e
    | .ok st' => loop E orig simp ws (i + 1) st'

/-- chunks of one sentence, oldest first, each chunk oldest first -/
def sentenceChunks (E : Env) (orig simp : List String) : Except PyErr (List (List Item)) :=
  (loop E orig simp simp 0 {}).map (fun st => (st.flush.done.map List.reverse).reverse)

/-! ## Python `str.split(sep)`, `str.count(sep)`, `str.strip(chars)` on character lists -/

def splitGo (sep : List Char) : List Char → Nat → List Char → List (List Char)
  | [], _, cur => [cur.reverse]
  | _ :: rest, skip + 1, cur => splitGo sep rest skip cur
  | c :: rest, 0, cur =>
    if sep.isPrefixOf (c :: rest) then cur.reverse :: splitGo sep rest (sep.length - 1) []
    else splitGo sep rest 0 (c :: cur)

def countGo (sep : List Char) : List Char → Nat → Nat
  | [], _ => 0
  | _ :: rest, skip + 1 => countGo sep rest skip
  | c :: rest, 0 =>
    if sep.isPrefixOf (c :: rest) then countGo sep rest (sep.length - 1) + 1
    else countGo sep rest 0

/-- `s.split(sep)` for a non-empty separator -/
def pySplit (s sep : List Char) : List (List Char) := splitGo sep s 0 []
/-- `s.count(sep)` for a non-empty separator -/
def pyCount (s sep : List Char) : Nat := countGo sep s 0
/-- `s.strip(chars)` -/
def pyStrip (s chars : List Char) : List Char :=
  ((s.dropWhile chars.contains).reverse.dropWhile chars.contains).reverse
/-- `s.replace(old, "")` -/
def pyRemoveAll (s old : List Char) : List Char := (pySplit s old).flatten
/-- `sep.join(parts)` -/
def pyJoin (sep : List Char) : List (List Char) → List Char
  | [] => []
  | [x] => x
  | x :: xs => x ++ sep ++ pyJoin sep xs

def isSub (needle : List Char) : List Char → Bool
  | [] => needle.isEmpty
  | c :: rest => needle.isPrefixOf (c :: rest) || isSub needle rest

/-! ## `parse_found_objects` -/

/-- what `parser.get_date_data(item)["date_obj"]` returned: `none`, or an opaque identifier of the datetime -/
abbrev DateId := Option Nat

/-- the parser parameter: (RELATIVE_BASE currently on the parser's settings, item) → date -/
abbrev Gdd := DateId → List Char → DateId

def isRelative (translated : List Char) : Bool :=
  ["ago", "in", "from now", "tomorrow", "today", "yesterday"].any (fun w => isSub w.toList translated)

/-- `set_relative_base`: the date of the last entry that is not relative (`None` when there is none) -/
def relBaseOf : List (DateId × Bool) → DateId      -- newest first
  | [] => none
  | (d, rel) :: rest => if rel then relBaseOf rest else d

/-- `parse_item`; returns (date, is_relative, RELATIVE_BASE left on the parser's settings) -/
def parseItem (gdd : Gdd) (rb : DateId) (item translatedItem : List Char) (parsedNewestFirst : List (DateId × Bool)) (needRb : Bool) :
    DateId × Bool × DateId :=
  let item := Gen.searchItemReplace.foldl (fun it w => pyRemoveAll it w.toList) item
  let r := gdd rb item
  let rel := isRelative translatedItem
  let base := if needRb then relBaseOf parsedNewestFirst else none
  match base with
  | some b => (gdd (some b) item, rel, some b)
  | none => (r, rel, rb)

/-- `split_by` -/
def groupsOf (sep : List Char) (parts : List (List Char)) (k : Nat) (n : Nat) : List (List Char) :=
  (List.range ((n + k - 1) / k)).map (fun q => pyJoin sep ((parts.drop (q * k)).take k))

def splitBy (item original sep : List Char) : List (List (List Char) × List (List Char)) :=
  let ia := pySplit item sep
  let oa := pySplit original sep
  if pyCount item sep ≤ 2 then [(ia, oa)]
  else (ia, oa) :: [2, 3].map (fun k => (groupsOf sep ia k ia.length, groupsOf sep oa k ia.length))

def splitIfNotParsed (item original : List Char) : List (List (List Char) × List (List Char)) :=
  Gen.searchSplitters.flatMap (fun sp =>
    let sep := sp.toList
    if isSub sep item && pyCount item sep == pyCount original sep then splitBy item original sep else [])

/-- a hit: substring, date, chunk index, piece index (the last two are provenance, for the ordering theorem) -/
structure Hit where
  sub : List Char
  date : DateId
  ci : Nat
  pj : Nat
deriving Repr, DecidableEq, Inhabited

def idxC (l : List (List Char)) (i : Nat) : Except PyErr (List Char) :=
  match l[i]? with
  | some x => .ok x
  | none => .error .index

/-- inner loop over the pieces of one split: returns the parsed list (oldest first) with substrings, and the RELATIVE_BASE left -/
def parseSplit (gdd : Gdd) (needRb : Bool) (strip2 : List Char) (tr og : List (List Char)) :
    List (List Char) → Nat → List (DateId × Bool × List Char × Nat) → DateId → Except PyErr (List (DateId × Bool × List Char × Nat) × DateId)
  | [], _, acc, rb => .ok (acc.reverse, rb)
  | jtem :: rest, j, acc, rb =>
    if jtem.length ≤ 2 then parseSplit gdd needRb strip2 tr og rest (j + 1) acc rb
    else
      match idxC tr j with
      | .error e => .error e
      | .ok tj =>
        let (d, rel, rb') := parseItem gdd rb jtem tj (acc.map (fun x => (x.1, x.2.1))) needRb
        match idxC og j with
        | .error e => .error e
        | .ok oj => parseSplit gdd needRb strip2 tr og rest (j + 1) ((d, rel, pyStrip oj strip2, j) :: acc) rb'

/-- rating of one candidate split as `choose_best_split` computes it, compared as exact fractions:
    (not_parsed / n, n, without_digits / n) with 0 when the numerator is 0 -/
structure Rating where
  n : Nat
  notParsed : Nat
  noDigits : Nat
deriving Repr, DecidableEq

def hasDigit (s : List Char) : Bool := s.any Char.isDigit     -- ASCII only here; the driver passes the flag computed by Python's str.isdigit

/-- `a/n < b/m` for fractions with the convention 0/0 = 0 -/
def fracLt (a n b m : Nat) : Bool := decide (a * m < b * n)
def fracEq (a n b m : Nat) : Bool := decide (a * m = b * n)

/-- key order `(p[1][1], p[1][0], p[1][2])` -/
def ratingLt (x y : Rating) : Bool :=
  let xn := max x.n 1; let yn := max y.n 1
  fracLt x.notParsed xn y.notParsed yn ||
  (fracEq x.notParsed xn y.notParsed yn && (decide (x.n < y.n) || (x.n == y.n && fracLt x.noDigits xn y.noDigits yn)))

/-- index of the first minimum (Python `min` keeps the first of equal keys) -/
def argminGo : List Rating → Nat → Nat → Rating → Nat
  | [], _, best, _ => best
  | r :: rest, i, best, br => if ratingLt r br then argminGo rest (i + 1) i r else argminGo rest (i + 1) best br

def argmin : List Rating → Nat
  | [] => 0
  | r :: rest => argminGo rest 1 0 r

structure FEnv where
  gdd : Gdd
  needRb : Bool
  /-- digit test of a substring as Python's `any(char.isdigit() …)` sees it -/
  hasDigit : List Char → Bool := hasDigit

def strip1 : List Char := (Gen.searchStripChars.getD 0 "").toList
def strip2 : List Char := (Gen.searchStripChars.getD 1 "").toList

/-- all candidate splits parsed: for each, (parsed pieces, RELATIVE_BASE left) — the RELATIVE_BASE threads through in source order -/
def parseSplits (F : FEnv) : List (List (List Char) × List (List Char)) → DateId →
    Except PyErr (List (List (DateId × Bool × List Char × Nat)) × DateId)
  | [], rb => .ok ([], rb)
  | (tr, og) :: rest, rb =>
    match parseSplit F.gdd F.needRb strip2 tr og tr 0 [] rb with
    | .error e => .error e
    | .ok (ps, rb') =>
      match parseSplits F rest rb' with
      | .error e => .error e
      | .ok (pss, rb'') => .ok (ps :: pss, rb'')

def ratingOf (F : FEnv) (ps : List (DateId × Bool × List Char × Nat)) : Rating :=
  { n := ps.length, notParsed := (ps.filter (fun p => p.1.isNone)).length, noDigits := (ps.filter (fun p => !F.hasDigit p.2.2.1)).length }

/-- the `for i, item in enumerate(to_parse)` loop; `parsed` newest first -/
def foundGo (F : FEnv) (original translated : List (List Char)) :
    List (List Char) → Nat → List (DateId × Bool) → List Hit → DateId → Except PyErr (List Hit)
  | [], _, _, hits, _ => .ok hits.reverse
  | item :: rest, i, parsed, hits, rb =>
    if item.length ≤ 2 then foundGo F original translated rest (i + 1) parsed hits rb
    else
      match idxC translated i with
      | .error e => .error e
      | .ok ti =>
        let (d, rel, rb1) := parseItem F.gdd rb item ti parsed F.needRb
        if d.isSome then
          match idxC original i with
          | .error e => .error e
          | .ok oi => foundGo F original translated rest (i + 1) ((d, rel) :: parsed) (⟨pyStrip oi strip1, d, i, 0⟩ :: hits) rb1
        else
          match idxC original i with
          | .error e => .error e
          | .ok oi =>
            let splits := splitIfNotParsed item oi
            if splits.isEmpty then foundGo F original translated rest (i + 1) parsed hits rb1
            else
              match parseSplits F splits rb1 with
              | .error e => .error e
              | .ok (pss, rb2) =>
                let best := (pss.getD (argmin (pss.map (ratingOf F))) [])
                let good := best.filter (fun p => p.1.isSome)
                foundGo F original translated rest (i + 1)
                  ((good.map (fun p => (p.1, p.2.1))).reverse ++ parsed)
                  ((good.map (fun p => (⟨p.2.2.1, p.1, i, p.2.2.2⟩ : Hit))).reverse ++ hits) rb2

/-- `parse_found_objects` followed by the blank filter of `search_parse` -/
def parseFound (F : FEnv) (toParse original translated : List (List Char)) (rb0 : DateId) : Except PyErr (List Hit) :=
  (foundGo F original translated toParse 0 [] [] rb0).map (fun hs => hs.filter (fun h => !(h.sub.all DP.isWs)))

end DP.Search
