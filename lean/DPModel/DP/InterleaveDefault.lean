import DPModel.Gen.Consts
/-!
# Two calls on the process-wide *default* Settings object (no `settings=` argument), single preemption

Without a settings argument nothing re-initialises the shared object on entry; a call through `_try_parser` does `save` (`_order = DATE_ORDER`),
`write` (DATE_ORDER := the locale's own order, or — for a language whose data has none, `Gen.langsWithoutDateOrder` — the value just saved),
`parse` (reads DATE_ORDER), `restore`.
-/
namespace DP.SharedDefault

inductive Act | save | write | parse | restore
deriving DecidableEq, Repr

def callActs : List Act := [.save, .write, .parse, .restore]

structure Thread where
  order : Option Nat         -- the locale's own date order, if its data has one
  saved : Nat := 0
  seen : Option Nat := none
deriving Repr, DecidableEq

def stepAct (cur : Nat) (t : Thread) : Act → Nat × Thread
  | .save => (cur, { t with saved := cur })
  | .write => (t.order.getD t.saved, t)
  | .parse => (cur, { t with seen := some cur })
  | .restore => (t.saved, t)

def runActs (cur : Nat) (t : Thread) : List Act → Nat × Thread
  | [] => (cur, t)
  | a :: as => let r := stepAct cur t a; runActs r.1 r.2 as

/-- A runs its first `k` actions, B runs to completion, A resumes -/
def preempt (cur : Nat) (a b : Thread) (k : Nat) : Thread × Thread :=
  let r1 := runActs cur a (callActs.take k)
  let r2 := runActs r1.1 b callActs
  let r3 := runActs r2.1 r1.2 (callActs.drop k)
  (r3.2, r2.2)

def sequential (cur : Nat) (a b : Thread) : Thread × Thread :=
  let r1 := runActs cur a callActs
  let r2 := runActs r1.1 b callActs
  (r1.2, r2.2)

end DP.SharedDefault
