import DPModel.DP.Shared
/-!
# Single-preemption interleavings of two calls over the shared Settings object

A call that goes through `_try_parser` performs, on the Settings object registered under its settings *value*:
`reinit` (the `Settings.__init__` re-run on the registry hit, resets DATE_ORDER to the value's own), `save`, `write`
(DATE_ORDER := the locale's order), `parse` (reads DATE_ORDER), `restore`.  Two calls with the same settings value share the object.
-/
namespace DP.Shared

inductive Act | reinit | save | write | parse | restore
deriving DecidableEq, Repr

/-- the action sequence of one call -/
def callActs : List Act := [.reinit, .save, .write, .parse, .restore]

structure Thread where
  localeOrder : Nat          -- date order of the call's locale
  saved : Nat := 0
  seen : Option Nat := none  -- the order its parse read
deriving Repr, DecidableEq

structure World where
  cur : Nat                  -- DATE_ORDER field of the shared object
  base : Nat                 -- DATE_ORDER of the settings value (what `__init__` writes)
deriving Repr, DecidableEq

def stepAct (w : World) (t : Thread) : Act → World × Thread
  | .reinit => ({ w with cur := w.base }, t)
  | .save => (w, { t with saved := w.cur })
  | .write => ({ w with cur := t.localeOrder }, t)
  | .parse => (w, { t with seen := some w.cur })
  | .restore => ({ w with cur := t.saved }, t)

def runActs (w : World) (t : Thread) : List Act → World × Thread
  | [] => (w, t)
  | a :: as => let r := stepAct w t a; runActs r.1 r.2 as

/-- A runs its first `k` actions, B runs to completion, A resumes -/
def preempt (w : World) (a b : Thread) (k : Nat) : Thread × Thread :=
  let r1 := runActs w a (callActs.take k)
  let r2 := runActs r1.1 b callActs
  let r3 := runActs r2.1 r1.2 (callActs.drop k)
  (r3.2, r2.2)

/-- sequential execution: A then B -/
def sequential (w : World) (a b : Thread) : Thread × Thread :=
  let r1 := runActs w a callActs
  let r2 := runActs r1.1 b callActs
  (r1.2, r2.2)

end DP.Shared
