import DPModel.DP.Tokenizer
import DPModel.Py.Strptime
/-!
# `dateparser.parser._parser` in two stages

Stage 1 (`classify`) maps every filtered token (type 0 or 1) to a record `TI` of the outcomes of the
fixed directives on it and of the look-arounds the `__init__` loop performs.  Stage 2 (`absParseToks`)
is the control flow of `__init__` / `_parse` / `_results` / `_correct_for_time_frame` / month and day
preferences / `_get_period` over records only.  Property theorems case-split on the *flags* of the
records and carry the *values* symbolically.
-/
namespace DP

inductive Comp | day | month | year
deriving DecidableEq, Repr, Inhabited

inductive Pref3 | current | first | last          -- PREFER_DAY_OF_MONTH / PREFER_MONTH_OF_YEAR
deriving DecidableEq, Repr, Inhabited
inductive PrefDates | currentPeriod | past | future
deriving DecidableEq, Repr, Inhabited

structure PSettings where
  order : List Comp := [.month, .day, .year]
  preferDay : Pref3 := .current
  preferMonth : Pref3 := .current
  preferDates : PrefDates := .currentPeriod
  now : DT := { y := 2020, mo := 1, d := 1 }
  nowOff : Option Int := none          -- utcoffset (s) of an aware RELATIVE_BASE
  strict : Bool := false
  requireParts : List Comp := []
  timeAsPeriod : Bool := false
  tzOffset : Int := 0                  -- utcoffset (s) of the string's zone or of TIMEZONE (time-only comparison)
deriving Repr, Inhabited

/-- stage-1 record of one filtered token -/
structure TI where
  text : List Char
  ty : Nat
  m : Option Nat := none          -- %m
  d : Option Nat := none          -- %d
  y2 : Option Nat := none         -- %y (pivoted)
  y4 : Option Nat := none         -- %Y
  intVal : Option Nat := none     -- int(token)
  wk : Option Nat := none         -- %A / %a : weekday index of the first three letters
  mon : Option Nat := none        -- %B
  monb : Option Nat := none       -- %b
  micro : Option (List Char) := none    -- MICROSECOND.search(token).group()
  merid : Option (List Char) := none    -- MERIDIAN.search(token).group()
  skip : Bool := false            -- token ∈ skip_tokens
  colon : Bool := false           -- ':' ∈ token
  hmMerge : Option (List Char) := none  -- "H:M" text when the hour.minute branch fires here
  dotAfterSame : Bool := false    -- '.' ∈ tokens[tokens.index((token,0))+1][0]
  hmDotAfter : Bool := false      -- the same look-up for the merged token
deriving Repr, Inhabited, DecidableEq

inductive TokRef where
  | pair (t : TI)                 -- `(token, type)` tuple
  | plain (s : List Char)         -- bare string set by the unresolved-attribute fill
deriving Repr, Inhabited, DecidableEq

structure PS where
  day : Option Nat := none
  month : Option Nat := none
  year : Option Nat := none
  weekdaySet : Bool := false
  wkIdx : Option Nat := none
  timeSet : Bool := false
  tokDay : Option TokRef := none
  tokMonth : Option TokRef := none
  tokYear : Option TokRef := none
  tokTime : Option (List Char) := none
  autoOrder : List Comp := []
  unset : List (TI × Comp) := []
  skipIndex : List Nat := []
  skipYear : Bool := false
deriving Repr, Inhabited, DecidableEq

def truthy : Option Nat → Bool | some v => v != 0 | none => false
def PS.getC (p : PS) : Comp → Option Nat | .day => p.day | .month => p.month | .year => p.year
def PS.getT (p : PS) : Comp → Option TokRef | .day => p.tokDay | .month => p.tokMonth | .year => p.tokYear
def PS.setC (p : PS) (c : Comp) (v : Nat) : PS :=
  match c with | .day => { p with day := some v } | .month => { p with month := some v } | .year => { p with year := some v }
def PS.setT (p : PS) (c : Comp) (t : TokRef) : PS :=
  match c with | .day => { p with tokDay := some t } | .month => { p with tokMonth := some t } | .year => { p with tokYear := some t }

/-- `num_directives[c]` as selectors on the record -/
def numDirs : Comp → List (TI → Option Nat)
  | .month => [TI.m] | .day => [TI.d] | .year => [TI.y2, TI.y4]

/-- one directive attempt of `parse_number`; `none` = fall through to the next directive -/
def tryDir (p : PS) (c : Comp) (t : TI) (f : TI → Option Nat) : Option PS :=
  match f t with
  | none => none
  | some v =>
    if !truthy (p.getC c) then
      some (({ p with autoOrder := p.autoOrder ++ [c] }.setT c (.pair t)).setC c v)
    else
      match p.getT c with
      | some (.pair prev) =>
        if prev.ty = 0 then
          (match f prev with
           | some _ => none
           | none => some (({ p with autoOrder := p.autoOrder ++ [c], unset := p.unset ++ [(prev, c)] }.setT c (.pair t)).setC c v))
        else none
      | _ => none        -- a bare string cannot be unpacked: TypeError is not a ValueError … unreachable (fill runs last)

def tryDirs (p : PS) (c : Comp) (t : TI) : List (TI → Option Nat) → Option PS
  | [] => none
  | f :: fs => match tryDir p c t f with | some r => some r | none => tryDirs p c t fs

def parseNumber (p : PS) (t : TI) : List Comp → Except PyErr PS
  | [] => .error (.value .unable)
  | c :: cs =>
    if c = .year ∧ p.skipYear = true then parseNumber p t cs else
    match tryDirs p c t (numDirs c) with
    | some r => .ok (if t.text.length = 4 ∧ c = .year then { r with skipYear := true } else r)
    | none => parseNumber p t cs

def replaceFirst (xs : List Comp) (a b : Comp) : List Comp :=
  match xs with
  | [] => []
  | x :: rest => if x = a then b :: rest else x :: replaceFirst rest a b

/-- one month directive (`%B` or `%b`) of `parse_alpha`; `none` = the attempt raised inside `except Exception: pass` -/
def alphaMonthStep (p : PS) (t : TI) (mv : Option Nat) : Option PS :=
  match mv with
  | none => none
  | some v =>
    if !truthy p.month then some { p with month := some v, tokMonth := some (.pair t) }
    else if p.autoOrder.contains .month then
      some { p with month := some v, day := p.month, tokDay := p.tokMonth, tokMonth := some (.pair t),
                    autoOrder := replaceFirst p.autoOrder .month .day }
    else none

def parseAlpha (p : PS) (t : TI) : Except PyErr PS :=
  if t.wk.isSome ∧ p.weekdaySet = false then .ok { p with weekdaySet := true, wkIdx := t.wk }
  else
    match alphaMonthStep p t t.mon with
    | some r => .ok r
    | none => match alphaMonthStep p t t.monb with
      | some r => .ok r
      | none => .error (.value .unable)

/-- the time-detection block of the `__init__` loop at filtered index `i` (token `t`): `some (tt, skips)` when a time
    token is recognised — its assembled text and the indices to skip -/
def timeDetect (toks : List TI) (i : Nat) (t : TI) : Option (List Char × List Nat) :=
  let merged := t.hmMerge
  let token := merged.getD t.text
  let skipAdd := if merged.isSome then [i+1] else []
  let meridianIndex := if merged.isSome then i + 2 else i + 1
  let hasColon := merged.isSome || t.colon
  let dotAfter := if merged.isSome then t.hmDotAfter else t.dotAfterSame
  let micro : Option (List Char) := if hasColon && dotAfter then (toks[i+1]?).bind TI.micro else none
  let meridianIndex := if micro.isSome then meridianIndex + 1 else meridianIndex
  let meridian : Option (List Char) := (toks[meridianIndex]?).bind TI.merid
  if hasColon || meridian.isSome || micro.isSome then
    let (tt, sk) := match meridian, micro with
      | some me, none => (token ++ [' '] ++ me, [meridianIndex])
      | none, some mi => (token ++ ['.'] ++ mi, [i+1])
      | some me, some mi => (token ++ ['.'] ++ mi ++ [' '] ++ me, [i+1, meridianIndex])
      | none, none => (token, [])
    some (tt, skipAdd ++ sk)
  else none

/-- one iteration of the `__init__` loop on a token that is neither skipped nor a skip token -/
def initStep (st : PSettings) (toks : List TI) (i : Nat) (t : TI) (p : PS) : Except PyErr PS :=
  match (if p.timeSet then none else timeDetect toks i t) with
  | some (tt, sk) => .ok { p with tokTime := some tt, timeSet := true, skipIndex := p.skipIndex ++ sk }
  | none => if t.ty = 0 then parseNumber p t st.order else parseAlpha p t

/-- the `__init__` loop over filtered tokens -/
def initLoop (st : PSettings) (toks : List TI) : Nat → Nat → PS → Except PyErr PS
  | 0, _, p => .ok p
  | fuel+1, i, p =>
    match toks[i]? with
    | none => .ok p
    | some t =>
      if p.skipIndex.contains i then initLoop st toks fuel (i+1) p else
      if t.skip then initLoop st toks fuel (i+1) p else
      match initStep st toks i t p with
      | .error e => .error e
      | .ok p' => initLoop st toks fuel (i+1) p'

/-- unresolved attributes are filled from numeric tokens displaced by a later, better fitting token: each such token fills *one*
    unresolved attribute (`unset_numbers.pop()`, last token first; `Gen.unknownFillOnce` records that the source does so) -/
def fillUnknown (p : PS) : Except PyErr PS :=
  let nums := (p.unset.filter (fun (tc : TI × Comp) => tc.1.ty = 0)).reverse
  let unknown := [Comp.year, .month, .day].filter (fun a => (p.getC a).isNone)
  (unknown.zip nums).foldlM (fun (q : PS) (x : Comp × (TI × Comp)) =>
    match x.2.1.intVal with
    | some v => pure ((q.setC x.1 v).setT x.1 (.plain x.2.1.text))
    | none => .error (.value .other)) p

def checkStrict (st : PSettings) (missing : List Comp) : Except PyErr Unit :=
  if st.strict ∧ missing ≠ [] then .error (.value .strict)
  else if st.requireParts ≠ [] ∧ missing ≠ [] then
    if st.requireParts.any (fun x => missing.contains x) then .error (.value .strict) else .ok ()
  else .ok ()

/-- `_get_leap_year`: walk until a leap year is found (at most 8 steps are ever needed) -/
def leapSearch (future : Bool) : Nat → Nat → Nat
  | 0, y => y
  | fuel+1, y => let y' := if future then y + 1 else y - 1
                 if isLeap y' then y' else leapSearch future fuel y'
def nextLeap (y : Nat) : Nat := leapSearch true 12 y
def prevLeap (y : Nat) : Nat := leapSearch false 12 y
def correctLeap (pref : PrefDates) (y : Nat) : Nat :=
  match pref with
  | .future => nextLeap y
  | .past => prevLeap y
  | .currentPeriod => let n := nextLeap y; let pv := prevLeap y; if n - y < y - pv then n else pv

/-- truthiness of `self._token_<attr>`: a `(token, type)` tuple is truthy; a bare string is only ever stored
    after `int(token)` succeeded, hence is non-empty -/
def tokTruthy : Option TokRef → Bool
  | some _ => true
  | none => false

/-- does the message of this error contain one of `_get_datetime_obj`'s trigger texts? -/
def subAt : List Char → List Char → Bool
  | [], _ => true
  | _ :: _, [] => false
  | n :: ns, c :: cs => n == c && subAt ns cs
/-- `needle in hay` on character lists (structural, kernel-reducible) -/
def hasSubC (needle : List Char) : List Char → Bool
  | [] => needle.isEmpty
  | c :: cs => subAt needle (c :: cs) || hasSubC needle cs
def dayMsgTriggers : Bool := Gen.getDatetimeObjMsgs.any (fun m => hasSubC m.toList "day is out of range for month".toList)

def getDatetimeObj (st : PSettings) (p : PS) (y mo d h mi s us : Nat) : Except PyErr DT :=
  match mkDT y mo d h mi s us with
  | .ok t => .ok t
  | .error (.value .dayRange) =>
    if dayMsgTriggers then
      if !(tokTruthy p.tokDay || p.weekdaySet) then mkDT y mo (dim y mo) h mi s us
      else if !tokTruthy p.tokYear ∧ d = 29 ∧ mo = 2 ∧ isLeap y = false then
        mkDT (correctLeap st.preferDates y) mo d h mi s us
      else .error (.value .dayRange)
    else .error (.value .dayRange)
  | .error e => .error e

/-- `time_parser`: the first directive of `Gen.timeDirectives` that parses the stripped string -/
def stripWs (s : List Char) : List Char := ((s.dropWhile isWs).reverse.dropWhile isWs).reverse
def timeParserGo (ts : List Char) : List (List Char) → Except PyErr DT
  | [] => .error (.value .fmt)
  | f :: fs =>
    match dpStrptimeC ts f with
    | .ok t => .ok t
    | .err (.value _) => timeParserGo ts fs
    | .err e => .error e
    | .bad => .error (.other "bad-directive")
def timeParser (ts : List Char) : Except PyErr DT := timeParserGo (stripWs ts) Gen.timeDirectivesC

def pick (v : Option Nat) (dflt : Nat) : Nat := match v with | some x => if x ≠ 0 then x else dflt | none => dflt

def missingOf (p : PS) : List Comp := [Comp.day, .month, .year].filter (fun f => !truthy (p.getC f))

/-- `_results` after the strictness check -/
def resultsCore (st : PSettings) (p : PS) : Except PyErr DT := do
  let time ← match p.tokTime with
    | some tt => (timeParser tt).map some
    | none => pure none
  let d := pick p.day st.now.d; let mo := pick p.month st.now.mo; let y := pick p.year st.now.y
  match time with
  | some t => getDatetimeObj st p y mo d t.h t.mi t.s t.us
  | none => getDatetimeObj st p y mo d 0 0 0 0

def results (st : PSettings) (p : PS) : Except PyErr DT :=
  match checkStrict st (missingOf p) with
  | .error e => .error e
  | .ok _ => resultsCore st p

def isFuture (pd : PrefDates) : Bool := pd = .future
def isPast (pd : PrefDates) : Bool := pd = .past

/-- comparable instant of `now` (UTC wall micros when RELATIVE_BASE is aware, its own wall clock otherwise) -/
def nowCmp (st : PSettings) : Int := st.now.micros - (st.nowOff.getD 0) * 1000000

/-- number of days `_correct_for_time_frame` moves a weekday-only date: `cur` = weekday of the reference date, `tg` = named weekday -/
def weekdaySteps (pd : PrefDates) (cur tg : Nat) : Int :=
  if isFuture pd then (if cur = tg then 7 else ((tg + 7 - cur) % 7 : Nat))
  else (if cur = tg then (if isPast pd then -7 else 0) else -(((cur + 7 - tg) % 7 : Nat) : Int))

def correctTimeFrame (st : PSettings) (p : PS) (t0 : DT) : Except PyErr DT := do
  let anyYMD := tokTruthy p.tokYear || tokTruthy p.tokMonth || tokTruthy p.tokDay
  let mut t := t0
  if p.weekdaySet ∧ !anyYMD then
    let cur := t.weekday
    let steps : Int :=
      match p.wkIdx with
      | none => 0
      | some tg => weekdaySteps st.preferDates cur tg
    t ← t.addDays steps
  let now := nowCmp st
  if truthy p.month ∧ !truthy p.year then
    let r : Except PyErr DT :=
      if now < t.micros then (if isPast st.preferDates then t.replaceYear (t.y - 1) else .ok t)
      else (if isFuture st.preferDates then t.replaceYear (t.y + 1) else .ok t)
    match r with
    | .ok t' => t := t'
    | .error (.value m) =>
      if t.d = 29 ∧ t.mo = 2 then t ← t.replaceYear (correctLeap st.preferDates t.y) else throw (.value m)
    | .error e => throw e
  let twoDigit : Bool := match p.tokYear with | some (.pair ti) => decide (ti.text.length = 2) | _ => false
  if twoDigit then
    if now < t.micros then
      if isPast st.preferDates then t ← t.replaceYear (t.y - 100)
    else
      if isFuture st.preferDates then t ← t.replaceYear (t.y + 100)
  if (p.tokTime.map (fun s => !s.isEmpty)).getD false ∧ !(anyYMD || p.weekdaySet) then
    if isPast st.preferDates then
      let cmp ← t.addSeconds (-st.tzOffset)
      if now < cmp.micros then t ← t.addDays (-1)
    if isFuture st.preferDates then
      let cmp ← t.addSeconds (-st.tzOffset)
      if now > cmp.micros then t ← t.addDays 1
  return t

/-- `set_correct_day_from_settings(date, settings, current_day=now.day)` -/
def setDay (pref : Pref3) (t : DT) (cur : Nat) : Except PyErr DT :=
  let last := dim t.y t.mo
  let v := match pref with | .first => 1 | .last => last | .current => cur
  match t.replaceDay v with
  | .ok r => .ok r
  | .error (.value _) => t.replaceDay last
  | .error e => .error e
def setMonth (pref : Pref3) (t : DT) (cur : Nat) : Except PyErr DT :=
  let v := match pref with | .first => 1 | .last => 12 | .current => cur
  match t.replaceMonth v with
  | .ok r => .ok r
  | .error (.value _) => t.replaceMonth 12
  | .error e => .error e

inductive Period | time | day | week | month | year
deriving DecidableEq, Repr, Inhabited
def Period.name : Period → String
  | .time => "time" | .day => "day" | .week => "week" | .month => "month" | .year => "year"

def getPeriod (st : PSettings) (p : PS) : Period :=
  if st.timeAsPeriod ∧ p.timeSet then .time
  else if p.timeSet ∨ truthy p.day then .day
  else if truthy p.month then .month else if truthy p.year then .year else .day

/-- month preference: `_correct_for_month` -/
def correctMonth (st : PSettings) (p : PS) (t : DT) : Except PyErr DT :=
  if tokTruthy p.tokMonth then .ok t else setMonth st.preferMonth t st.now.mo
/-- day preference: `_correct_for_day` -/
def correctDay (st : PSettings) (p : PS) (t : DT) : Except PyErr DT :=
  if tokTruthy p.tokDay || p.weekdaySet || (p.tokTime.map (fun s => !s.isEmpty)).getD false then .ok t
  else setDay st.preferDay t st.now.d

/-- everything `_parser.parse` does after `_results` -/
def finish (st : PSettings) (p : PS) (t : DT) : Except PyErr (DT × Period) :=
  match correctTimeFrame st p t with
  | .error e => .error e
  | .ok t1 =>
    match correctMonth st p t1 with
    | .error e => .error e
    | .ok t2 =>
      match correctDay st p t2 with
      | .error e => .error e
      | .ok t3 => .ok (t3, getPeriod st p)

/-- the parse state after the `__init__` loop and the unresolved-attribute fill -/
def parseState (st : PSettings) (toks : List TI) : Except PyErr PS :=
  match initLoop st toks (toks.length + 1) 0 {} with
  | .error e => .error e
  | .ok p => fillUnknown p

/-- stage 2: `_parser.parse` after tokenisation and classification -/
def absParseToks (st : PSettings) (toks : List TI) : Except PyErr (DT × Period) :=
  match parseState st toks with
  | .error e => .error e
  | .ok p =>
    match results st p with
    | .error e => .error e
    | .ok t => finish st p t

-- ------------------------------------------------------------------ stage 1

def strpVal (tok fmt : String) (sel : DT → Nat) : Option Nat :=
  match dpStrptimeC tok.toList fmt.toList with
  | .ok t => some (sel t)
  | _ => none

def allAsciiDigits (s : List Char) : Bool := !s.isEmpty && s.all asciiDigit
def natOfAscii (s : List Char) : Nat := s.foldl (fun acc c => acc * 10 + (c.toNat - 48)) 0

/-- first maximal-by-greedy `\d{1,6}`: first ASCII/Unicode digit, then up to five more -/
def microSearch : List Char → Option (List Char)
  | [] => none
  | c :: cs => if isDecDigit c then some (c :: (cs.takeWhile isDecDigit).take 5) else microSearch cs
def meridSearch : List Char → Option (List Char)
  | [] => none
  | [_] => none
  | a :: b :: rest => if (a == 'a' || a == 'p') && b == 'm' then some [a, b] else meridSearch (b :: rest)

def dirNum (tok : List Char) (fmt : List Char) (sel : DT → Nat) : Option Nat :=
  match dpStrptimeC tok fmt with | .ok t => some (sel t) | _ => none

def nameIdx (names : List (List Char)) (tok : List Char) : Option Nat :=
  names.findIdx? (fun n => n == tok.map lowerA)

/-- HOUR_MINUTE_REGEX on "H:M" -/
def hourMinuteOk (s : List Char) : Bool :=
  match matchItems true [.dir 'H', .lit ':', .dir 'M'] s {} with
  | some fd =>
    -- ^([0-9]|0[0-9]|1[0-9]|2[0-3]):[0-5][0-9]$ : ASCII only, minute exactly two digits
    s.all (fun c => asciiDigit c || c == ':') && (match s.reverse with | _ :: _ :: ':' :: _ => true | _ => false) && fd.H.isSome
  | none => false

/-- stage 1: classification of the filtered tokens of a raw token list (already `.strip()`ped) -/
def classify (raw : Array (List Char × Nat)) : List TI :=
  let filtered : Array (List Char × Nat × Nat) :=
    ((raw.toList.zipIdx).filterMap (fun ((t, ty), i) => if ty ≤ 1 then some (t, ty, i) else none)).toArray
  let dotAfter := fun (tok : List Char) =>
    match raw.toList.findIdx? (fun (t : List Char × Nat) => t.1 == tok && t.2 == 0) with
    | none => false
    | some j => match raw[j+1]? with
      | none => false
      | some (t2, _) => t2.contains '.'
  (filtered.toList.zipIdx).map (fun ((tok, ty, orig), index) =>
    let hm : Option (List Char) :=
      match raw[orig+1]? with
      | none => none
      | some (nt, _) =>
        let before := nt == ['.']
        let after := orig != 0 && ((raw[orig-1]?).map (fun (t : List Char × Nat) => t.1)) == some ['.']
        if before && !after then
          match filtered[index+1]? with
          | none => none
          | some (nextTok, _, nextOrig) =>
            let isLast := index + 1 == filtered.size - 1
            let cond : Option Bool := if isLast then some true else ((raw[nextOrig+1]?).map (fun (t : List Char × Nat) => t.1 != ['.']))
            match cond with
            | some true => let nt := tok ++ [':'] ++ nextTok; if hourMinuteOk nt then some nt else none
            | _ => none
        else none
    { text := tok, ty := ty,
      m := if ty = 0 then dirNum tok "%m".toList DT.mo else none,
      d := if ty = 0 then dirNum tok "%d".toList DT.d else none,
      y2 := if ty = 0 then dirNum tok "%y".toList DT.y else none,
      y4 := if ty = 0 then dirNum tok "%Y".toList DT.y else none,
      intVal := if allAsciiDigits tok then some (natOfAscii tok) else none,
      wk := if ty = 1 then ((nameIdx dayNamesC tok).orElse (fun _ => nameIdx dayAbbrC tok)).bind (fun _ =>
              Gen.weekdayAbbr.findIdx? (fun d => d.toList == (tok.take 3).map lowerA)) else none,
      mon := if ty = 1 then (nameIdx monthNamesC tok).map (· + 1) else none,
      monb := if ty = 1 then (nameIdx monthAbbrC tok).map (· + 1) else none,
      micro := microSearch tok, merid := meridSearch tok,
      skip := Gen.parserSkipTokensC.contains tok, colon := tok.contains ':',
      hmMerge := hm, dotAfterSame := dotAfter tok, hmDotAfter := (hm.map dotAfter).getD false })

/-- `_parser.parse(datestring, settings, tz)` -/
def absParse (st : PSettings) (s : List Char) : Except PyErr (DT × Period) := do
  let toks ← tokenize s
  let raw := (toks.map (fun (t, ty) => (stripWs t, ty))).toArray
  absParseToks st (classify raw)

end DP
