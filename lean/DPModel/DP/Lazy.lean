import DPModel.Gen.Consts
/-!
# Lazily built attributes of `Locale` (`languages/locale.py`): `if self._x is None: build; self._x = value`

A first use builds the value in `n` steps and assigns it to the shared locale object; a second thread may read the attribute between any
two steps.  `Gen.lazyAttrsPublishComplete` records whether the source assigns the attribute only when the value is complete.
-/
namespace DP.Lazy

inductive Step | fill | publish
deriving DecidableEq, Repr

/-- the builder's steps in source order: `n` elements, and the assignment to the shared object last (`true`) or first -/
def steps (publishComplete : Bool) (n : Nat) : List Step :=
  if publishComplete then List.replicate n .fill ++ [.publish] else .publish :: List.replicate n .fill

structure World where
  built : Nat := 0
  published : Bool := false
deriving DecidableEq, Repr

def run (w : World) : Step → World
  | .fill => { w with built := w.built + 1 }
  | .publish => { w with published := true }

/-- what a second thread reading the attribute now gets: `None` (it builds its own value), the complete value, or a part of it -/
inductive Seen | absent | complete | part (k : Nat)
deriving DecidableEq, Repr

def read (n : Nat) (w : World) : Seen := if w.published then (if w.built = n then .complete else .part w.built) else .absent

/-- the builder parked after `k` of its steps -/
def parkedAfter (publishComplete : Bool) (n k : Nat) : World := ((steps publishComplete n).take k).foldl run {}

end DP.Lazy
