import DPModel.Gen.Consts
/-!
# The `registry` class decorator (`utils/__init__.py`): one shared instance per settings value

The constructor is three steps — create the instance, give it its `registry_key`, store it in the shared dictionary — and a second
thread may run its own lookup between any two of them.  `Gen.registryCompletesFirst` records the order the source uses.
-/
namespace DP.Registry

inductive Step | create | setKey | publish
deriving DecidableEq, Repr

/-- the constructor's steps in source order -/
def steps (completesFirst : Bool) : List Step :=
  if completesFirst then [.create, .setKey, .publish] else [.create, .publish, .setKey]

structure World where
  created : Bool := false
  hasKey : Bool := false
  published : Bool := false
deriving DecidableEq, Repr

def run (w : World) : Step → World
  | .create => { w with created := true }
  | .setKey => { w with hasKey := true }
  | .publish => { w with published := true }

/-- what a second thread that looks the key up now gets: nothing (it will create its own), or the published instance — with or without its key -/
inductive Seen | absent | complete | incomplete
deriving DecidableEq, Repr

def lookup (w : World) : Seen := if w.published then (if w.hasKey then .complete else .incomplete) else .absent

/-- the first thread parked after `k` of its steps -/
def parkedAfter (completesFirst : Bool) (k : Nat) : World := ((steps completesFirst).take k).foldl run {}

end DP.Registry
