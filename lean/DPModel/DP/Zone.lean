import DPModel.Gen.Consts
/-!
# Relative dates in a tz-database zone (`freshness_date_parser.py`, the pytz branch of `_parse_date`)

A zone is what pytz presents: the offset and the DST flag in force at each instant, and `localize`, the offset pytz attaches to a wall clock
given an `is_dst` hint.  Times are integers (seconds); the calendar part of a phrase (years, months, weeks, days) is a function on wall
clocks, the clock part (hours, minutes, seconds) a number of seconds.
-/
namespace DP.Zone

structure Zone where
  offAt : Int → Int          -- UTC instant ↦ UTC offset in force
  dstAt : Int → Bool         -- UTC instant ↦ DST in force
  localize : Int → Bool → Int  -- wall clock, is_dst hint ↦ the offset `tz.localize` attaches

structure Aware where
  wall : Int
  off : Int
deriving DecidableEq, Repr

def Aware.instant (a : Aware) : Int := a.wall - a.off

/-- an aware datetime as the zone itself would show it -/
def Zone.shows (z : Zone) (a : Aware) : Prop := a.off = z.offAt a.instant

/-- `tz.normalize(dt)`: the same instant with the offset in force -/
def Zone.normalize (z : Zone) (a : Aware) : Aware := { wall := a.instant + z.offAt a.instant, off := z.offAt a.instant }

/-- the units a phrase counts (`get_kwargs`; counts are non-negative) -/
structure Units where
  days : Nat := 0            -- weeks folded in
  hours : Nat := 0
  minutes : Nat := 0
  seconds : Nat := 0
deriving DecidableEq, Repr

def Units.clockSeconds (u : Units) : Nat := u.hours * 3600 + u.minutes * 60 + u.seconds

/-- (days moved on the wall clock, seconds moved on the instant): by the units the phrase counts, or — as the first repair had it — by the
    fields of the relativedelta, which has folded every 86400 clock seconds into a day -/
def split (byPhraseUnits : Bool) (u : Units) : Nat × Nat :=
  if byPhraseUnits then (u.days, u.clockSeconds) else (u.days + u.clockSeconds / 86400, u.clockSeconds % 86400)

/-- the pytz branch: move the wall clock by the calendar part, look the offset up again (with the reference's DST flag as the hint, or with
    pytz's default `is_dst=False`), then move the instant by the clock part -/
def shift (z : Zone) (useHint : Bool) (now : Aware) (sign : Int) (calDays clock : Nat) : Aware :=
  let wall := now.wall + sign * (calDays * 86400)
  let o := z.localize wall (if useHint then z.dstAt now.instant else false)
  z.normalize { wall := wall + sign * clock, off := o }

/-- a zone as the standard library presents it (zoneinfo): the offset `utcoffset()` reports for a wall clock -/
structure WallZone where
  offOfWall : Int → Int

/-- the branch for zones that are not pytz zones (TIMEZONE='local' → zoneinfo): aware arithmetic moves the wall clock; when the offset reported
    after the clock part differs from the one before it, the wall clock is moved by the difference as well (`corrects`; the first form of
    the code did no such thing) -/
def shiftWall (z : WallZone) (corrects : Bool) (nowWall : Int) (sign : Int) (calDays clock : Nat) : Aware :=
  let wall1 := nowWall + sign * (calDays * 86400)
  let off1 := z.offOfWall wall1
  let wall2 := wall1 + sign * clock
  let off2 := z.offOfWall wall2
  if corrects && off2 != off1 then
    let wall3 := wall2 + (off2 - off1)
    { wall := wall3, off := z.offOfWall wall3 }
  else { wall := wall2, off := off2 }

/-- `_parse_date` on a pytz zone, as /repo has it (`Gen.freshSplitByPhraseUnits`, `Gen.freshLocalizeUsesDstHint`) -/
def parseRel (z : Zone) (now : Aware) (sign : Int) (u : Units) : Aware :=
  let p := split Gen.freshSplitByPhraseUnits u
  shift z Gen.freshLocalizeUsesDstHint now sign p.1 p.2

end DP.Zone
