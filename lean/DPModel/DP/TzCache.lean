import DPModel.DP.Pipeline
/-!
# `timezone_parser._load_offsets`: the on-disk cache protocol as a state machine

`unpickle`/`pickle` and the rebuilt table are parameters (Python object protocol is not modelled); the set of caught
exception classes is read from the source (`Gen.exceptLoadOffsets`).
-/
namespace DP

inductive FileState (Bytes : Type) where
  | missing
  | bytes (b : Bytes)
deriving Repr

/-- what reading + unpickling the cache can raise (Python class names as the source spells them) -/
inductive LoadErr where
  | fileNotFound | eof | unpickling | value | type | attribute | importErr | index | key | memory | other
deriving Repr, DecidableEq, Inhabited

def LoadErr.all : List LoadErr := [.fileNotFound, .eof, .unpickling, .value, .type, .attribute, .importErr, .index, .key, .memory, .other]

/-- `issubclass(err, cls)` for the classes that can appear in the `except` tuple -/
def loadErrIsA (e : LoadErr) (cls : String) : Bool :=
  match cls with
  | "BaseException" | "Exception" => true
  | "OSError" | "IOError" | "EnvironmentError" | "FileNotFoundError" => e == .fileNotFound
  | "EOFError" => e == .eof
  | "UnpicklingError" | "PickleError" => e == .unpickling
  | "ValueError" => e == .value
  | "TypeError" => e == .type
  | "AttributeError" => e == .attribute
  | "ImportError" | "ModuleNotFoundError" => e == .importErr
  | "IndexError" => e == .index
  | "KeyError" => e == .key
  | "LookupError" => e == .index || e == .key
  | "MemoryError" => e == .memory
  | _ => false

def loadCaught (e : LoadErr) : Bool :=
  match Gen.exceptLoadOffsets with
  | [] => false
  | names :: _ => names.any (loadErrIsA e)

structure LoadResult (Bytes Table : Type) where
  outcome : Except LoadErr Table       -- what `import dateparser` sees
  file : FileState Bytes               -- the cache file afterwards

/-- `_load_offsets(cache_path, current_hash)` -/
def loadOffsets {Bytes Hash Table : Type} [DecidableEq Hash]
    (unpickle : Bytes → Except LoadErr (Option Hash × Table)) (pickle : Option Hash × Table → Bytes)
    (rebuilt : Table) (curHash : Option Hash) (fs : FileState Bytes) : LoadResult Bytes Table :=
  let rebuild : LoadResult Bytes Table := { outcome := .ok rebuilt, file := .bytes (pickle (curHash, rebuilt)) }
  let onErr := fun (e : LoadErr) => if loadCaught e then rebuild else { outcome := .error e, file := fs }
  match fs with
  | .missing => onErr .fileNotFound
  | .bytes b =>
    match unpickle b with
    | .error e => onErr e
    | .ok (h, tbl) =>
      if curHash = none ∨ curHash = h then { outcome := .ok tbl, file := fs } else rebuild

end DP
