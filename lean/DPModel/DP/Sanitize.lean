import DPModel.Gen.Consts
import DPModel.Py.Unicode
import DPModel.Py.Strptime
/-!
# Proof-facing definitions of the two normalisations C18 is about
* `translateNumeralsC` — `Locale._translate_numerals` as a per-character map driven by the generated table of Nd blocks
* `sanitizeSpacesC`   — `date.sanitize_spaces` (NBSP → space, runs of whitespace → one space, trim when both ends are padded)
The executable pipeline uses the regex-driven versions; `DPProofs/C18.lean` ties the two by finite checks / correspondence.
-/
namespace DP

/-- value of `c` as a decimal digit of any script: its offset inside the Nd block that contains it -/
def digitOfC (c : Char) : Option Nat :=
  Gen.ndZeros.findSome? (fun z => if z ≤ c.toNat ∧ c.toNat < z + 10 then some (c.toNat - z) else none)

def toAsciiDigit (c : Char) : Char := match digitOfC c with | some v => Char.ofNat (48 + v) | none => c
def translateNumeralsC (s : List Char) : List Char := s.map toAsciiDigit

/-- write the ASCII digits of a string in the Nd block starting at `z` -/
def substDigit (z : Nat) (c : Char) : Char := if '0' ≤ c ∧ c ≤ '9' then Char.ofNat (z + (c.toNat - 48)) else c
def substDigits (z : Nat) (s : List Char) : List Char := s.map (substDigit z)

/-- whitespace as `\s` sees it (ASCII fast path first) -/
abbrev isWsC := isWs

/-- words of a string: maximal runs of non-whitespace characters -/
def wordsGo : List Char → List Char → List (List Char)
  | [], cur => if cur.isEmpty then [] else [cur.reverse]
  | c :: cs, cur => if isWsC c then (if cur.isEmpty then wordsGo cs [] else cur.reverse :: wordsGo cs []) else wordsGo cs (c :: cur)
def wordsOf (s : List Char) : List (List Char) := wordsGo s []

/-- the normal form every whitespace rewriting of a string shares: its words joined by single spaces -/
def wsNormalForm (s : List Char) : List Char := (wordsOf s).intersperse [' '] |>.flatten

end DP
