import DPModel.Py.RegexParse
import DPModel.Gen.TzInfo
/-!
# Models of the two data generators
* `dateparser_scripts.write_complete_data` on a JSON-tree type (combine CLDR ⊕ supplementary ⊕ base, `{0}` placeholder rewriting)
* `timezone_parser.build_tz_offsets` (the table that is pickled into `dateparser_tz_cache.pkl`)
-/
namespace DP

inductive J where
  | null | num (n : Int) | str (s : String) | arr (xs : List J) | obj (kvs : List (String × J))
deriving Repr, Inhabited

mutual
def J.beq : J → J → Bool
  | .null, .null => true
  | .num a, .num b => a == b
  | .str a, .str b => a == b
  | .arr a, .arr b => J.beqList a b
  | .obj a, .obj b => J.beqKvs a b
  | _, _ => false
def J.beqList : List J → List J → Bool
  | [], [] => true
  | x :: xs, y :: ys => J.beq x y && J.beqList xs ys
  | _, _ => false
def J.beqKvs : List (String × J) → List (String × J) → Bool
  | [], [] => true
  | (k1, v1) :: xs, (k2, v2) :: ys => k1 == k2 && J.beq v1 v2 && J.beqKvs xs ys
  | _, _ => false
end
instance : BEq J := ⟨J.beq⟩

def J.getKey (o : List (String × J)) (k : String) : Option J := (o.find? (·.1 == k)).map (·.2)

/-- dateparser_scripts.utils.combine_dicts (fuel = nesting depth) -/
def combineJ : Nat → J → J → J
  | 0, _, s => s
  | fuel+1, .obj pk, .obj sk =>
    let first := pk.map (fun (k, v) =>
      match J.getKey sk k with
      | some sv => (match v, sv with
          | .arr a, .arr b => (k, J.arr (a ++ b))
          | .obj _, _ => (k, combineJ fuel v sv)
          | _, _ => (k, sv))
      | none => (k, v))
    let rest := sk.filter (fun (k, _) => (J.getKey pk k).isNone)
    .obj (first ++ rest)
  | _, _, s => s

def rewritePlaceholder (s : String) : String := s.replace "{0}" "(\\d+[.,]?\\d*)"
def modifyRel (j : J) : J :=
  match j with
  | .obj kvs => .obj (kvs.map (fun (k, v) => match v with
      | .arr xs => (k, J.arr (xs.map (fun x => match x with | .str s => J.str (rewritePlaceholder s) | y => y)))
      | y => (k, y)))
  | y => y
def modifyData (j : J) : J :=
  match j with
  | .obj kvs => .obj (kvs.map (fun (k, v) =>
      if k == "relative-type-regex" then (k, modifyRel v)
      else if k == "locale_specific" then
        (k, match v with
          | .obj locs => J.obj (locs.map (fun (ln, info) => (ln, match info with
              | .obj ikvs => J.obj (ikvs.map (fun (ik, iv) => if ik == "relative-type-regex" then (ik, modifyRel iv) else (ik, iv)))
              | y => y)))
          | y => y)
      else (k, v)))
  | y => y

/-- `_get_complete_date_translation_data` + `combine_dicts(…, base_data)` + `_modify_data` -/
def generateJ (lang : String) (cldr supp base : J) : J :=
  let c := combineJ 8 cldr supp
  let c := match c with
    | .obj kvs => if (J.getKey kvs "name").isNone then J.obj (kvs ++ [("name", .str lang)]) else c
    | y => y
  modifyData (combineJ 8 c base)

-- ---------------------------------------------------------------- build_tz_offsets
/-- `regex % name` for the `%s` placeholder -/
def fmtS (pat name : String) : String := pat.replace "%s" name

def reSub (pat repl s : String) : String :=
  match parse pat with
  | .ok (r, ng) => sub {} r ng repl s
  | .error _ => s

structure TzRow where
  name : String
  pattern : String
  offset : Int
deriving Repr, BEq, Inhabited

/-- `build_tz_offsets(search_regex_parts)`: the rows in generation order and the search-regex parts -/
def buildTzOffsets (blocks : List Gen.TzInfoBlock) : List TzRow × List String :=
  blocks.foldl (fun (acc : List TzRow × List String) b =>
    b.patterns.foldl (fun acc pat =>
      b.timezones.foldl (fun (acc : List TzRow × List String) (tz : String × Int) =>
        let acc := (acc.1 ++ [{ name := tz.1, pattern := fmtS pat tz.1, offset := tz.2 }], acc.2 ++ [tz.1])
        b.replace.foldl (fun (acc : List TzRow × List String) (rp : String × String) =>
          (acc.1 ++ [{ name := tz.1, pattern := reSub rp.1 rp.2 (fmtS pat tz.1), offset := tz.2 }],
           acc.2 ++ [reSub rp.1 rp.2 tz.1])) acc) acc) acc) ([], [])

end DP
