import DPModel.Gen.Consts
import DPModel.Py.Date
/-!
# `dateparser.parser.tokenizer`

Maximal runs of equal character class: 0 = digit or ':', 1 = ASCII letter, 2 = anything else.
The digit and letter alphabets are read from the source (`Gen.tokenizerDigits/Letters`).
-/
namespace DP

def tkCls (c : Char) : Nat :=
  if c ∈ Gen.tokenizerDigits then 0 else if c ∈ Gen.tokenizerLetters then 1 else 2

def tokGo : List Char → List Char → Nat → List (List Char × Nat)
  | [], cur, t => [(cur.reverse, t)]
  | c :: cs, cur, t =>
      if tkCls c = t then tokGo cs (c :: cur) t else (cur.reverse, t) :: tokGo cs [c] (tkCls c)

/-- `tokenizer(s).tokenize()`; the empty string raises `IndexError` (`token[-1]` on "") -/
def tokenize : List Char → Except PyErr (List (List Char × Nat))
  | [] => .error .index
  | c :: cs => .ok (tokGo cs [c] (tkCls c))

end DP
