import DPModel.DP.Pipeline
import DPModel.DP.Generator
/-!
# Executable checks used by the finite table-walk theorems (C11; C05/C06/C14 use `Lang` directly)
-/
namespace DP

def tzTableOfRows (rows : List TzRow) (search : String) : TzTable :=
  { entries := (rows.map (fun r => ({ name := r.name, re := rxs r.pattern, offset := r.offset } : TzEntry))).toArray,
    searchI := rxs search, search := rxs search }

def pad2s (n : Nat) : String := if n < 10 then "0" ++ toString n else toString n

/-- the accepted spellings of a UTC offset (seconds): +HHMM, +HH:MM, UTC+H[:MM], UTC+HH:MM, UTC+HHMM, UTC+HH, GMT+HH:MM, GMT+H[:MM] -/
def offsetSpellings (off : Int) (negZero : Bool := false) : List String :=
  let neg := off < 0 || negZero
  let a := off.natAbs
  let h := a / 3600; let m := a % 3600 / 60
  let sg := if neg then "-" else "+"
  let hm := if m = 0 then toString h else toString h ++ ":" ++ pad2s m
  [sg ++ pad2s h ++ pad2s m, sg ++ pad2s h ++ ":" ++ pad2s m, "UTC" ++ sg ++ hm, "UTC" ++ sg ++ pad2s h ++ ":" ++ pad2s m,
   "UTC" ++ sg ++ pad2s h ++ pad2s m, "GMT" ++ sg ++ pad2s h ++ ":" ++ pad2s m, "GMT" ++ sg ++ hm] ++
  (if m = 0 then ["UTC" ++ sg ++ pad2s h, "GMT" ++ sg ++ pad2s h] else [])

def c11Body : String := "2014-05-01 10:30"

/-- `pop_tz_offset_from_string(body ++ " " ++ text)` yields `off`, and the zone text is gone from the string -/
def c11Check (T : TzTable) (text : String) (off : Int) : Bool :=
  match popTz T (c11Body ++ " " ++ text) with
  | (rest, some (_, o)) => o == off && pyStrip rest == c11Body
  | _ => false

/-- rows that are plain abbreviations (no regex escape in the name), first offset listed for each distinct name -/
def abbrevFirst (rows : List TzRow) : List (String × Int) :=
  rows.foldl (fun acc r =>
    if r.name.toList.contains '\\' || acc.any (·.1 == r.name) then acc else acc ++ [(r.name, r.offset)]) []

/-- the distinct offsets of the `UTC±HH:MM` rows -/
def utcOffsets (rows : List TzRow) : List (Int × Bool) :=
  rows.foldl (fun acc r =>
    if r.name.startsWith "UTC\\" then
      let k := (r.offset, decide (r.name.startsWith "UTC\\-"))
      if acc.contains k then acc else acc ++ [k]
    else acc) []

end DP
