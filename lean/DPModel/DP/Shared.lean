import DPModel.Gen.Consts
/-!
# Process-wide shared state as explicit state machines

* the five class-level caches of `Dictionary` (`_add_to_cache` / `_get_*_cache`): insertion-ordered keys + table
* the write/restore protocol of `settings.DATE_ORDER` in `_DateLocaleParser._try_parser`
Python dicts are modelled as *order list + total function* (insertion order is what eviction depends on).
-/
namespace DP.Shared

abbrev Key := Nat          -- settings registry key (md5 of the settings rendering; assumed injective)
abbrev Loc := Nat          -- locale name
abbrev Val := Key × Loc    -- what a cached regex/word list was built from

structure Cache where
  order : List Key
  tbl : Key → Loc → Option Val

def Cache.empty : Cache := { order := [], tbl := fun _ _ => none }
def Cache.lookup (c : Cache) (k : Key) (l : Loc) : Option Val := if k ∈ c.order then c.tbl k l else none
/-- `cache.setdefault(k, {})[l] = v` -/
def Cache.put (c : Cache) (k : Key) (l : Loc) (v : Val) : Cache :=
  { order := if k ∈ c.order then c.order else c.order ++ [k],
    tbl := fun k' l' => if k' = k then (if l' = l then some v else (if k ∈ c.order then c.tbl k l' else none)) else c.tbl k' l' }
/-- `cache.pop(list(cache.keys())[0])` -/
def Cache.popFirst (c : Cache) : Cache := { c with order := c.order.tail }
/-- `for key in cache: if key != k: del cache[key]; break` -/
def dropOther (k : Key) : List Key → List Key
  | [] => []
  | e :: rest => if e = k then e :: dropOther k rest else rest
def Cache.popFirstOther (c : Cache) (k : Key) : Cache := { c with order := dropOther k c.order }

inductive Out | val (v : Val) | keyError
deriving DecidableEq, Repr

/-- `_add_to_cache` as the source has it now (`Gen.evictSkipsCurrent`), `limit k` = CACHE_SIZE_LIMIT of the settings with key `k` -/
def addToCache (limit : Key → Nat) (c : Cache) (k : Key) (l : Loc) : Cache :=
  let c1 := c.put k l (k, l)
  if limit k ≠ 0 ∧ c1.order.length > limit k then
    (if Gen.evictSkipsCurrent then c1.popFirstOther k else c1.popFirst)
  else c1

/-- `_get_*_cache`: look the entry up once; on a miss build, insert and hand back the value just built (`Gen.dictGettersReadOnce`), or —
    as the pinned tree had it — index the shared cache a second time (KeyError if the entry is not there any more) -/
def getCached (limit : Key → Nat) (c : Cache) (k : Key) (l : Loc) : Cache × Out :=
  match c.lookup k l with
  | some v => (c, .val v)
  | none =>
    let c' := addToCache limit c k l
    if Gen.dictGettersReadOnce then (c', .val (k, l))
    else match c'.lookup k l with
      | some v => (c', .val v)
      | none => (c', .keyError)

def run (limit : Key → Nat) : Cache → List (Key × Loc) → List Out
  | _, [] => []
  | c, (k, l) :: ops => let r := getCached limit c k l; r.2 :: run limit r.1 ops

/-- the cache after a sequence of complete accesses (other threads running while one access is parked) -/
def finalCache (limit : Key → Nat) : Cache → List (Key × Loc) → Cache
  | c, [] => c
  | c, (k, l) :: ops => finalCache limit (getCached limit c k l).1 ops

/-- one access that other threads interrupt: `e1` are the accesses that complete between its look-up and its insertion, `e2` those between
    the insertion and the statement that produces the result.  `readOnce = false` is the getter of the pinned tree: membership test,
    (insert), then a second indexing of the shared cache. -/
def getPreempted (readOnce : Bool) (limit : Key → Nat) (c : Cache) (k : Key) (l : Loc) (e1 e2 : List (Key × Loc)) : Cache × Out :=
  if readOnce then
    match c.lookup k l with
    | some v => (c, .val v)
    | none =>
      let c3 := finalCache limit (addToCache limit (finalCache limit c e1) k l) e2
      (c3, .val (k, l))
  else
    let c1 := finalCache limit c e1
    let c2 := if (c.lookup k l).isSome then c1 else addToCache limit c1 k l
    let c3 := finalCache limit c2 e2
    match c3.lookup k l with
    | some v => (c3, .val v)
    | none => (c3, .keyError)

-- ---------------------------------------------------------------- DATE_ORDER write / restore
/-- outcome of the parse method called between the write and the restore -/
inductive ParseOutcome | ok | raised (cls : String)
deriving DecidableEq, Repr

def classCaughtBy (names : List String) (cls : String) : Bool :=
  names.any (fun n => n == cls || n == "Exception" || n == "BaseException" ||
    (n == "ArithmeticError" && cls == "OverflowError") || (n == "LookupError" && (cls == "IndexError" || cls == "KeyError")))

/-- `_try_parser`: `_order = DATE_ORDER; DATE_ORDER := locale order (maybe); parse; DATE_ORDER := _order` on the normal path and in the
    handler of the `except` tuple read from the source (`Gen.tryParserRestoresOnReturn`, `Gen.tryParserRestoresOnCatch` record whether the
    source does put it back there); an exception outside the tuple leaves the temporary value behind -/
def tryParserOrderAfter (before localeOrder : Nat) (writes : Bool) (o : ParseOutcome) : Nat :=
  let during := if writes then localeOrder else before
  match o with
  | .ok => if Gen.tryParserRestoresOnReturn then before else during
  | .raised cls =>
    if (Gen.exceptTryParser.headD []).any (fun n => classCaughtBy [n] cls) && Gen.tryParserRestoresOnCatch then before else during

end DP.Shared
