import DPModel.Py.RegexParse
import DPModel.Gen.Consts
/-!
# `dateparser.languages`: Dictionary, Locale.translate, Locale.is_applicable (execution model)

Insertion-ordered association lists mirror Python `dict` update order.  No ∀-theorems go through this layer;
it is tied to the code by correspondence (every name/phrase of every locale) and used by the table walks.
-/
namespace DP

structure LInfo where
  name : String
  skip : List String
  pertain : List String
  words : List (String × List String)
  relType : List (String × List String)
  relRegex : List (String × List String)
  simps : List (String × String)
  nws : Bool
deriving Inhabited

abbrev knownWordTokens := Gen.knownWordTokens
abbrev alwaysKeep := Gen.alwaysKeepTokens
abbrev parserKnown := Gen.parserKnownTokens

def translateNumerals (s : String) : String :=
  String.ofList (s.toList.map (fun c => match uinfo c with
    | some u => if u.dec then Char.ofNat (48 + u.digval) else c
    | none => c))

-- ---------- ordered dict
abbrev ODict := List (String × Option String)
def ODict.put (d : ODict) (k : String) (v : Option String) : ODict :=
  if d.any (·.1 == k) then d.map (fun kv => if kv.1 == k then (k, v) else kv) else d ++ [(k, v)]
def ODict.find (d : ODict) (k : String) : Option (Option String) := (d.find? (·.1 == k)).map (·.2)

def buildDict (li : LInfo) : ODict :=
  let d : ODict := []
  let d := li.skip.foldl (fun d w => d.put (pyLower w) none) d
  let d := li.pertain.foldl (fun d w => d.put (pyLower w) none) d
  let d := knownWordTokens.foldl (fun d word =>
    match li.words.find? (·.1 == word) with
    | some (_, ts) => ts.foldl (fun d t => d.put (pyLower t) (some word)) d
    | none => d) d
  let d := alwaysKeep.foldl (fun d w => d.put w (some w)) d
  let d := parserKnown.foldl (fun d w => d.put (pyLower w) (some w)) d
  li.relType.foldl (fun d (key, vals) => vals.foldl (fun d t => d.put (pyLower t) (some key)) d) d

def normalizeDict (li : LInfo) (d : ODict) : ODict :=
  let step := fun (acc : ODict × List String) (kv : String × Option String) =>
    let n := normalizeUnicode kv.1
    if kv.1 != n && d.any (·.1 == n) then (acc.1, acc.2 ++ [kv.1]) else (acc.1.put n kv.2, acc.2)
  let (nd, conflicts) := d.foldl step ([], [])
  conflicts.foldl (fun nd key =>
    if (li.skip ++ li.pertain).contains key then nd.put (normalizeUnicode key) ((d.find key).getD none) else nd) nd

structure Dict where
  li : LInfo
  d : ODict
  relStrings : List String
  skipTokens : List String
  splitRe : Re
  splitRelRe : Re × Nat
  matchRelRe : Re × Nat
deriving Inhabited

def stableSortByLenDesc (xs : List String) : List String :=
  -- insertion sort, stable, descending length
  xs.foldl (fun acc x =>
    let rec ins : List String → List String
      | [] => [x]
      | y :: ys => if y.length ≥ x.length then y :: ins ys else x :: y :: ys
    ins acc) []

def litRe (w : String) : Re := w.toList.foldr (fun c acc => match acc with | .eps => .chr c | _ => .seq (.chr c) acc) .eps
def altOf : List Re → Re
  | [] => .eps
  | [r] => r
  | r :: rs => .alt r (altOf rs)

def boundaryBefore : Re := .alt .bos (.alt (.cls false [.nword]) (.alt (.chr '_') (.cls false [.digit])))
def boundaryAfter : Re := .alt .eosZ (.alt (.cls false [.nword]) (.alt (.chr '_') (.cls false [.digit])))

def parseOr (p : String) : Re × Nat := match parse p with | .ok r => r | .error _ => (.cls false [], 0)

def mkDict (li : LInfo) (normalize : Bool) (skipTokens : List String) : Dict :=
  let d0 := buildDict li
  let d := if normalize then normalizeDict li d0 else d0
  let rel0 := (li.relRegex.map (·.2)).flatten
  let rel := if normalize then rel0.map normalizeUnicode else rel0
  let words := stableSortByLenDesc (skipTokens ++ d.map (·.1))
  let g2 := Re.group 2 (altOf (words.map litRe))
  let splitRe :=
    if li.nws then Re.seq .bos (.seq (.group 1 (.rep .any 0 none false)) (.seq g2 (.seq (.group 3 (.rep .any 0 none true)) .eos)))
    else Re.seq .bos (.seq (.group 1 (.seq (.rep .any 0 none false) boundaryBefore)) (.seq g2 (.seq (.group 3 (.seq boundaryAfter (.rep .any 0 none true))) .eos)))
  let strip := fun (s : String) => String.ofList (s.toList.filter (fun c => c != '(' && c != ')'))
  let grp := "|".intercalate (stableSortByLenDesc (rel.map strip))
  let splitRel := if li.nws then s!"({grp})" else "(?<=(?:\\A|\\W|_))(" ++ grp ++ ")(?=(?:\\Z|\\W|_))"
  { li, d, relStrings := rel, skipTokens, splitRe, splitRelRe := parseOr splitRel, matchRelRe := parseOr ("^(" ++ grp ++ ")$") }

def Dict.contains (D : Dict) (k : String) : Bool := D.skipTokens.contains k || D.d.any (·.1 == k)
def Dict.get (D : Dict) (k : String) : Option String := if D.skipTokens.contains k then none else (D.d.find k).getD none

def icase : Flags := { icase := true }
def fullSearch (r : Re × Nat) (s : String) : Option (Nat × Nat × Caps) :=
  let a := s.toList.toArray
  searchFrom icase r.1 r.2 a 1 0   -- match at position 0 only (pattern is anchored)

def hasAlnumNotUnderscore (s : String) : Bool := s.toList.any (fun c => isWord c && c != '_')
def shouldCapture (tok : String) (keep : Bool) : Bool := keep || alwaysKeep.contains tok || (hasAlnumNotUnderscore tok && (let a := tok.toList; !((a.dropLast).contains '\n')) )

def numeralRe : Re × Nat := parseOr "(\\d+)"
def splitByNumerals (s : String) (keep : Bool) : List String :=
  (split {} numeralRe.1 numeralRe.2 s).filter (fun t => shouldCapture t keep)

def splitByKnownWords (D : Dict) (s0 : String) (keep : Bool) : List String :=
  let rec go (fuel : Nat) (string : String) (acc : List String) : List String :=
    match fuel with
    | 0 => acc
    | fuel+1 =>
      let arr := string.toList.toArray
      match searchFrom icase D.splitRe 3 arr 1 0 with
      | none =>
        acc ++ (if shouldCapture string keep then splitByNumerals string keep else [])
      | some (_, _, c) =>
        let g := fun n => match c[n]? with | some (some (a, b)) => slice arr a b | _ => ""
        let unparsed := g 1; let known := g 2; let unknown := g 3
        let cur := if shouldCapture known keep then [known] else []
        let cur := if unparsed != "" && shouldCapture unparsed keep then splitByNumerals unparsed keep ++ cur else cur
        if unknown == "" then acc ++ cur
        else go fuel (if string != unknown then unknown else "") (acc ++ cur)
  if s0 == "" then [] else go (s0.length + 3) s0 []

def Dict.split (D : Dict) (s : String) (keep : Bool) : List String :=
  if s == "" then [] else
  let toks := DP.split icase D.splitRelRe.1 D.splitRelRe.2 s
  let parts := toks.map (fun t => if (fullSearch D.matchRelRe t).isSome then [t] else splitByKnownWords D t keep)
  parts.flatten.filter (· != "")

def Dict.tokensValid (D : Dict) (toks : List String) : Bool :=
  if toks.all (fun t => alwaysKeep.contains t) then false
  else toks.all (fun t => pyIsDigit t || (fullSearch D.matchRelRe t).isSome || D.contains t)

structure Loc where
  li : LInfo
  normalize : Bool
  D : Dict
  simps : List ((Re × Nat) × String)
  relTrans : List ((Re × Nat) × String)
deriving Inhabited

def mkLoc (li : LInfo) (normalize : Bool) (skipTokens : List String) : Loc :=
  let simps := li.simps.map (fun (k, v) =>
    let k := if normalize then normalizeUnicode k else k
    let v := if normalize then normalizeUnicode v else v
    let pat := if li.nws then k else "(?<=\\A|\\W|_)" ++ k ++ "(?=\\Z|\\W|_)"
    (parseOr pat, v))
  let relTrans := li.relRegex.map (fun (key, vals) =>
    let vals := if normalize then vals.map normalizeUnicode else vals
    let pat := "|".intercalate (stableSortByLenDesc vals)
    let pat := pat.replace "(\\d+" "(?P<n>\\d+"
    (parseOr ("^(?:" ++ pat ++ ")$"), key))
  { li, normalize, D := mkDict li normalize skipTokens, simps, relTrans }

def Loc.simplify (L : Loc) (s : String) : String :=
  L.simps.foldl (fun s (re, repl) => pyLower (sub icase re.1 re.2 repl s)) (pyLower s)

def Loc.pre (L : Loc) (s : String) : String :=
  let s := translateNumerals s
  let s := if L.normalize then normalizeUnicode s else s
  L.simplify s

def Loc.isApplicable (L : Loc) (s : String) : Bool :=
  L.D.tokensValid (L.D.split (L.pre s) false)

def joinTokens (toks : List String) (sep : String) : String :=
  match toks with
  | [] => ""
  | t :: ts =>
    (ts.foldl (fun (acc : String × String) r =>
      let l := acc.2
      let s := if !alwaysKeep.contains l && !alwaysKeep.contains r then acc.1 ++ sep else acc.1
      (s ++ r, r)) (t, t)).1

def freshnessWords : List String := ["day","week","month","year","hour","minute","second"]
def clearFuture (ws : List String) : List String :=
  if ws.any (fun w => freshnessWords.contains w) then ws else ws.eraseP (· == "in")

def Loc.translate (L : Loc) (s : String) (keep : Bool) : String :=
  let toks := L.D.split (L.pre s) keep
  let toks := toks.map (fun tok =>
    let w := pyLower tok
    match L.relTrans.find? (fun (re, _) => (fullSearch re w).isSome) with
    | some (re, repl) => sub icase re.1 re.2 repl w
    | none =>
      if L.D.contains w then
        let fb := if keep && !pyIsAlpha w then w else ""
        match L.D.get w with | some v => (if v == "" then fb else v) | none => fb
      else tok)
  let toks := if toks.contains "in" then clearFuture toks else toks
  joinTokens (toks.filter (· != "")) (if keep then "" else " ")

end DP
