/-!
# Model of `LocaleDataLoader._load_data` (languages / region → locale names, their order, and the process-wide locale cache)

What a locale object *is* (its vocabulary) is abstracted to "the language whose data it was built from"; the loader decides which
shortnames are requested, which language each is paired with, in which order they are yielded, and it caches locale objects by shortname.
-/
namespace DP.Loader

structure Env where
  /-- `language_order` -/
  order : List String
  /-- `language_locale_dict[language]` -/
  localesOf : String → List String

/-- `_construct_locales(languages, region)`: the regional form where the language has that region, the plain language otherwise -/
def constructLocales (E : Env) (langs : List String) (region : String) : List String :=
  if region == "" then langs
  else langs.map (fun l => if (E.localesOf l).contains (l ++ "-" ++ region) then l ++ "-" ++ region else l)

/-- `OrderedDict.update(pairs)`: first position of a key is kept, the last value wins -/
def dictUpdate (d : List (String × String)) : List (String × String) → List (String × String)
  | [] => d
  | (k, v) :: rest =>
    if d.any (·.1 == k) then dictUpdate (d.map (fun kv => if kv.1 == k then (k, v) else kv)) rest
    else dictUpdate (d ++ [(k, v)]) rest

def langRank (E : Env) (l : String) : Nat := (E.order.findIdx? (· == l)).getD E.order.length

/-- stable insertion sort by the rank of the paired language (`sorted(..., key=language_order.index(lang))`) -/
def insertByRank (E : Env) (x : String × String) : List (String × String) → List (String × String)
  | [] => [x]
  | y :: ys => if langRank E y.2 ≤ langRank E x.2 then y :: insertByRank E x ys else x :: y :: ys
def sortByRank (E : Env) (xs : List (String × String)) : List (String × String) := xs.foldl (fun acc x => insertByRank E x acc) []

/-- the (shortname, language) pairs `_load_data(languages=…, region=…)` walks, in order -/
def loadPairs (E : Env) (langs : List String) (region : String) (givenOrder : Bool) : List (String × String) :=
  let d := dictUpdate [] ((constructLocales E langs region).zip langs)
  if givenOrder then d else sortByRank E d

/-- the loader's class-level cache: shortname ↦ the language whose data the cached locale object holds -/
abbrev Cache := List (String × String)
def Cache.get (c : Cache) (name : String) : Option String := (c.find? (·.1 == name)).map (·.2)

/-- the `for shortname, lang_reg in locale_dict.items()` loop: a cached object is reused whatever language the request pairs the name with -/
def yieldAll : Cache → List (String × String) → Cache × List (String × String)
  | c, [] => (c, [])
  | c, (name, lang) :: rest =>
    match c.get name with
    | some l => let (c', out) := yieldAll c rest; (c', (name, l) :: out)
    | none => let (c', out) := yieldAll ((name, lang) :: c) rest; (c', (name, lang) :: out)

structure Req where
  langs : List String
  region : String
  givenOrder : Bool

def serve (E : Env) (c : Cache) (r : Req) : Cache × List (String × String) := yieldAll c (loadPairs E r.langs r.region r.givenOrder)

/-- the cache after a history of requests -/
def after (E : Env) : Cache → List Req → Cache
  | c, [] => c
  | c, r :: rs => after E (serve E c r).1 rs

end DP.Loader
