import DPModel.Py.Unicode
/-!
# Backtracking regular-expression engine (execution model of the `regex`/`re` subset the library uses)

Fuel-structural; `oom` (out of fuel) is a distinct outcome.  VERSION0 semantics of search/sub/split
incl. CPython's must-advance rule after an empty match.  No general theorems are proved about it.
-/
namespace DP

inductive CC where
  | ch (c : Char) | range (a b : Char) | digit | space | word | ndigit | nspace | nword
deriving Repr, Inhabited

inductive Re where
  | eps | chr (c : Char) | any | cls (neg : Bool) (items : List CC)
  | seq (a b : Re) | alt (a b : Re)
  | rep (r : Re) (lo : Nat) (hi : Option Nat) (greedy : Bool)
  | group (i : Nat) (r : Re)
  | bos | eos | eosZ | wordb | nwordb
  | look (ahead neg : Bool) (r : Re)
deriving Repr, Inhabited

structure Flags where
  icase : Bool := false
deriving Repr

abbrev isDigit := isDigitU
abbrev isSpace := isSpaceU
abbrev isWord := isWordU
abbrev fold := foldU

def ccMatch (fl : Flags) (c : Char) : CC → Bool
  | .ch x => if fl.icase then fold x == fold c else x == c
  | .range a b => (a.toNat ≤ c.toNat && c.toNat ≤ b.toNat) ||
      (fl.icase && (a.toNat ≤ (fold c).toNat && (fold c).toNat ≤ b.toNat))
  | .digit => isDigit c | .space => isSpace c | .word => isWord c
  | .ndigit => !isDigit c | .nspace => !isSpace c | .nword => !isWord c

abbrev Caps := Array (Option (Nat × Nat))

inductive Res where
  | no | oom | ok (e : Nat) (c : Caps)
deriving Inhabited

@[inline] def Res.orElse (a : Res) (b : Unit → Res) : Res :=
  match a with | .no => b () | r => r

def wordAt (s : Array Char) (i : Nat) : Bool := if h : i < s.size then isWord s[i] else false
def isBoundary (s : Array Char) (i : Nat) : Bool :=
  let a := if i = 0 then false else wordAt s (i-1)
  let b := wordAt s i
  a != b

/-- `m fuel r i caps k`: match `r` at `i`, then continue with `k`. Every call spends one unit of fuel. -/
def m (fl : Flags) (s : Array Char) : Nat → Re → Nat → Caps → (Nat → Caps → Res) → Res
  | 0, _, _, _, _ => .oom
  | f+1, r, i, caps, k =>
    match r with
    | .eps => k i caps
    | .chr c => if h : i < s.size then
        (if (if fl.icase then fold s[i] == fold c else s[i] == c) then k (i+1) caps else .no) else .no
    | .any => if h : i < s.size then (if s[i] == '\n' then .no else k (i+1) caps) else .no
    | .cls neg items => if h : i < s.size then
        (if (items.any (ccMatch fl s[i])) != neg then k (i+1) caps else .no) else .no
    | .seq a b => m fl s f a i caps (fun j c => m fl s f b j c k)
    | .alt a b => (m fl s f a i caps k).orElse (fun _ => m fl s f b i caps k)
    | .group n r => m fl s f r i caps (fun j c => k j (c.setIfInBounds n (some (i, j))))
    | .bos => if i = 0 then k i caps else .no
    | .eos => if i = s.size || (i + 1 = s.size && s[i]! == '\n') then k i caps else .no
    | .eosZ => if i = s.size then k i caps else .no
    | .wordb => if isBoundary s i then k i caps else .no
    | .nwordb => if !isBoundary s i then k i caps else .no
    | .look true neg r =>
        match m fl s f r i caps (fun j c => .ok j c) with
        | .oom => .oom
        | .ok _ c => if neg then .no else k i c
        | .no => if neg then k i caps else .no
    | .look false neg r =>
        -- lookbehind: some start j ≤ i such that r matches s[j..i) exactly
        let rec tryFrom (g : Nat) (j : Nat) : Res :=
          match g with
          | 0 => .oom
          | g+1 =>
            match m fl s f r j caps (fun e c => if e = i then .ok e c else .no) with
            | .oom => .oom
            | .ok _ c => .ok 0 c
            | .no => if j = 0 then .no else tryFrom g (j-1)
        match tryFrom (i+2) i with
        | .oom => .oom
        | .ok _ c => if neg then .no else k i c
        | .no => if neg then k i caps else .no
    | .rep r lo hi greedy =>
        -- count handled by unrolling: lo mandatory copies, then up to (hi-lo) optional ones with progress check
        if lo > 0 then
          m fl s f r i caps (fun j c => m fl s f (.rep r (lo-1) (hi.map (· - 1)) greedy) j c k)
        else
          match hi with
          | some 0 => k i caps
          | _ =>
            let more := fun (_ : Unit) => m fl s f r i caps (fun j c =>
              if j = i then .no else m fl s f (.rep r 0 (hi.map (· - 1)) greedy) j c k)
            if greedy then (more ()).orElse (fun _ => k i caps)
            else (k i caps).orElse more

def FUEL : Nat := 100000

def matchAt (fl : Flags) (r : Re) (ngroups : Nat) (s : Array Char) (i : Nat) (noEmpty : Bool := false) : Res :=
  m fl s FUEL r i ((Array.replicate (ngroups+1) none)) (fun e c => if noEmpty && e = i then .no else .ok e c)

/-- leftmost match starting at or after `from`; returns (start, end, caps) -/
def searchFrom (fl : Flags) (r : Re) (ng : Nat) (s : Array Char) (g : Nat) (i : Nat) (mustAdvance : Bool := false) : Option (Nat × Nat × Caps) :=
  match g with
  | 0 => none
  | g+1 =>
    if i > s.size then none else
    match matchAt fl r ng s i mustAdvance with
    | .ok e c => some (i, e, c)
    | .oom => none
    | .no => searchFrom fl r ng s g (i+1) false

def slice (s : Array Char) (a b : Nat) : String := String.ofList ((s.extract a b).toList)

/-- expand a replacement template with \1..\9 -/
def expand (tmpl : List Char) (s : Array Char) (c : Caps) : String :=
  let rec go : List Char → String → String
    | [], acc => acc
    | '\\' :: d :: rest, acc =>
      if d.isDigit then
        let n := d.toNat - '0'.toNat
        match c[n]? with
        | some (some (a, b)) => go rest (acc ++ slice s a b)
        | _ => go rest acc
      else go rest (acc.push d)
    | ch :: rest, acc => go rest (acc.push ch)
  go tmpl ""

/-- CPython `pattern_subx`: after an empty match the next search must advance. -/
def sub (fl : Flags) (r : Re) (ng : Nat) (tmpl : String) (subj : String) : String :=
  let s := subj.toList.toArray
  let rec go (g : Nat) (pos : Nat) (last : Nat) (adv : Bool) (acc : String) : String :=
    match g with
    | 0 => acc
    | g+1 =>
      match (if pos > s.size then none else searchFrom fl r ng s (s.size + 2) pos adv) with
      | none => acc ++ slice s last s.size
      | some (a, e, c) =>
        let acc := acc ++ slice s last a ++ expand tmpl.toList s (c.setIfInBounds 0 (some (a, e)))
        go g e e (e = a) acc
  go (2 * s.size + 3) 0 0 false ""

/-- CPython `pattern_split` with capturing groups included. -/
def split (fl : Flags) (r : Re) (ng : Nat) (subj : String) : List String :=
  let s := subj.toList.toArray
  let rec go (g : Nat) (pos : Nat) (last : Nat) (adv : Bool) (acc : List String) : List String :=
    match g with
    | 0 => acc.reverse
    | g+1 =>
      match (if pos > s.size then none else searchFrom fl r ng s (s.size + 2) pos adv) with
      | none => (slice s last s.size :: acc).reverse
      | some (a, e, c) =>
        let groups := (List.range ng).map (fun n => match c[n+1]? with | some (some (x, y)) => slice s x y | _ => "")
        go g e e (e = a) (groups.reverse ++ (slice s last a :: acc))
  go (2 * s.size + 3) 0 0 false []

end DP
