/-!
# Model of the CPython `datetime` primitives dateparser relies on

Proleptic Gregorian calendar on `Nat`; a naive datetime is the record `DT`.  Everything is a
small total function; operations that raise in Python return `Except PyErr`.
Mirrors `Lib/_pydatetime.py` (`_is_leap`, `_days_in_month`, `_days_before_year`,
`_days_before_month`, `_ymd2ord`, `_ord2ymd`, `datetime.__new__` field checks,
`datetime.__add__(timedelta)`).
-/
namespace DP

/-- class of the message of a `ValueError` raised by `datetime(...)`; `_parser._get_datetime_obj`
    inspects the text (`"day is out of range"`, `"day must be in"`), so the class is part of the model -/
inductive VMsg where
  | dayRange | monthRange | yearRange | hourRange | minuteRange | secondRange | usRange
  | fmt | strict | unable | empty | other
deriving Repr, DecidableEq, Inhabited

inductive PyErr where
  | value (m : VMsg)
  | overflow
  | index
  | key
  | type
  | attr
  | assertion
  | unknownTz
  | other (s : String)
deriving Repr, DecidableEq, Inhabited

deriving instance DecidableEq for Except

def PyErr.kind : PyErr → String
  | .value _ => "ValueError" | .overflow => "OverflowError" | .index => "IndexError"
  | .key => "KeyError" | .type => "TypeError" | .attr => "AttributeError"
  | .assertion => "AssertionError" | .unknownTz => "UnknownTimeZoneError" | .other s => "Other:" ++ s

def PyErr.isValue : PyErr → Bool | .value _ => true | _ => false

def isLeap (y : Nat) : Bool := decide (y % 4 = 0 ∧ (y % 100 ≠ 0 ∨ y % 400 = 0))

/-- `calendar.monthrange(y, m)[1]` / `_days_in_month` -/
def dimL (leap : Bool) (m : Nat) : Nat :=
  if m = 2 then (if leap then 29 else 28)
  else if m = 4 ∨ m = 6 ∨ m = 9 ∨ m = 11 then 30 else 31
def dim (y m : Nat) : Nat := dimL (isLeap y) m

/-- `_days_before_year` -/
def dby (y : Nat) : Nat := (y - 1) * 365 + (y - 1) / 4 - (y - 1) / 100 + (y - 1) / 400

/-- `_days_before_month` -/
def dbmL (leap : Bool) (m : Nat) : Nat :=
  (match m with
    | 1 => 0 | 2 => 31 | 3 => 59 | 4 => 90 | 5 => 120 | 6 => 151 | 7 => 181
    | 8 => 212 | 9 => 243 | 10 => 273 | 11 => 304 | _ => 334)
  + (if m > 2 ∧ leap = true then 1 else 0)
def dbm (y m : Nat) : Nat := dbmL (isLeap y) m

/-- `_ymd2ord` -/
def toOrd (y m d : Nat) : Nat := dby y + dbm y m + d
def maxOrd : Nat := 3652059     -- date.max.toordinal()

/-- month and day from the 0-based day-of-year index (tail of `_ord2ymd`) -/
def mdOfIdx (leap : Bool) (n : Nat) : Nat × Nat :=
  let month := (n + 50) / 32
  let preceding := dbmL leap month
  if preceding > n then (month - 1, n - dbmL leap (month - 1) + 1)
  else (month, n - preceding + 1)

/-- `_ord2ymd` -/
def ofOrd (n0 : Nat) : Nat × Nat × Nat :=
  let n := n0 - 1
  let n400 := n / 146097; let n := n % 146097
  let n100 := n / 36524; let n := n % 36524
  let n4 := n / 1461; let n := n % 1461
  let n1 := n / 365; let n := n % 365
  let year := n400 * 400 + 1 + n100 * 100 + n4 * 4 + n1
  if n1 = 4 ∨ n100 = 4 then (year - 1, 12, 31) else
  let md := mdOfIdx (isLeap year) n
  (year, md.1, md.2)

structure DT where
  y : Nat
  mo : Nat
  d : Nat
  h : Nat := 0
  mi : Nat := 0
  s : Nat := 0
  us : Nat := 0
deriving Repr, DecidableEq, Inhabited

def DT.valid (t : DT) : Prop :=
  1 ≤ t.y ∧ t.y ≤ 9999 ∧ 1 ≤ t.mo ∧ t.mo ≤ 12 ∧ 1 ≤ t.d ∧ t.d ≤ dim t.y t.mo ∧
  t.h ≤ 23 ∧ t.mi ≤ 59 ∧ t.s ≤ 59 ∧ t.us ≤ 999999

instance (t : DT) : Decidable t.valid := by unfold DT.valid; exact inferInstance

/-- `datetime(y, mo, d, h, mi, s, us)` with CPython's check order and message classes -/
def mkDT (y mo d h mi s us : Nat) : Except PyErr DT :=
  if y < 1 ∨ y > 9999 then .error (.value .yearRange)
  else if mo < 1 ∨ mo > 12 then .error (.value .monthRange)
  else if d < 1 ∨ d > dim y mo then .error (.value .dayRange)
  else if h > 23 then .error (.value .hourRange)
  else if mi > 59 then .error (.value .minuteRange)
  else if s > 59 then .error (.value .secondRange)
  else if us > 999999 then .error (.value .usRange)
  else .ok { y, mo, d, h, mi, s, us }

/-- `calendar.weekday` : Monday = 0 -/
def weekdayOf (y m d : Nat) : Nat := (toOrd y m d + 6) % 7
def DT.weekday (t : DT) : Nat := weekdayOf t.y t.mo t.d
def DT.ord (t : DT) : Nat := toOrd t.y t.mo t.d

/-- `dt + timedelta(days=k)` -/
def DT.addDays (t : DT) (k : Int) : Except PyErr DT :=
  let o : Int := (t.ord : Int) + k
  if o < 1 ∨ o > (maxOrd : Int) then .error .overflow
  else
    let r := ofOrd o.toNat
    .ok { t with y := r.1, mo := r.2.1, d := r.2.2 }

def dayUs : Nat := 86400000000
/-- time of day in microseconds -/
def DT.tod (t : DT) : Nat := ((t.h * 60 + t.mi) * 60 + t.s) * 1000000 + t.us
/-- microseconds since the (fictitious) ordinal 0 midnight -/
def DT.microsN (t : DT) : Nat := t.ord * dayUs + t.tod
def DT.micros (t : DT) : Int := (t.microsN : Int)

def DT.lt (a b : DT) : Bool := decide (a.micros < b.micros)
def DT.le (a b : DT) : Bool := decide (a.micros ≤ b.micros)

/-- inverse of `microsN` on the representable range; `OverflowError` outside -/
def ofMicrosN (n : Nat) : Except PyErr DT :=
  let o := n / dayUs
  let r := n % dayUs
  if o < 1 ∨ o > maxOrd then .error .overflow else
  let ymd := ofOrd o
  .ok { y := ymd.1, mo := ymd.2.1, d := ymd.2.2,
        h := r / 3600000000, mi := r / 60000000 % 60, s := r / 1000000 % 60, us := r % 1000000 }
def ofMicros (total : Int) : Except PyErr DT :=
  if total < 0 then .error .overflow else ofMicrosN total.toNat

/-- `dt + timedelta(microseconds=k)` -/
def DT.addMicros (t : DT) (k : Int) : Except PyErr DT := ofMicros (t.micros + k)
def DT.addSeconds (t : DT) (k : Int) : Except PyErr DT := t.addMicros (k * 1000000)

def DT.replaceYear (t : DT) (y : Nat) : Except PyErr DT := mkDT y t.mo t.d t.h t.mi t.s t.us
def DT.replaceMonth (t : DT) (m : Nat) : Except PyErr DT := mkDT t.y m t.d t.h t.mi t.s t.us
def DT.replaceDay (t : DT) (d : Nat) : Except PyErr DT := mkDT t.y t.mo d t.h t.mi t.s t.us

/-- `relativedelta(months=k)` applied to a datetime: month index arithmetic with the day clamped -/
def shiftMonths (t : DT) (k : Int) : Except PyErr DT :=
  let idx : Int := (t.y : Int) * 12 + (t.mo : Int) - 1 + k
  let y := idx / 12
  let m := idx % 12 + 1
  if y < 1 ∨ y > 9999 then .error (.value .yearRange) else
  mkDT y.toNat m.toNat (min t.d (dim y.toNat m.toNat)) t.h t.mi t.s t.us

/-- `relativedelta._fix` restricted to (years, months): |months| > 11 carries into years, sign preserved -/
def rdNormalize (years months : Int) : Int × Int :=
  if months.natAbs > 11 then
    let s : Int := if months < 0 then -1 else 1
    (years + (months * s) / 12 * s, (months * s) % 12 * s)
  else (years, months)

/-- the year/month/day part of `relativedelta.__add__` (dateutil), literally:
    `year = dt.year + years; month = dt.month + months` with a single wrap, `day = min(monthrange(year, month)[1], dt.day)`,
    then `dt.replace(year, month, day)` (ValueError outside 1..9999) -/
def rdAddYM (t : DT) (years months : Int) : Except PyErr DT :=
  let nm := rdNormalize years months
  let year0 : Int := (t.y : Int) + nm.1
  let month0 : Int := (t.mo : Int) + nm.2
  let year : Int := if month0 > 12 then year0 + 1 else if month0 < 1 then year0 - 1 else year0
  let month : Int := if month0 > 12 then month0 - 12 else if month0 < 1 then month0 + 12 else month0
  if year < 1 ∨ year > 9999 then .error (.value .yearRange) else
  mkDT year.toNat month.toNat (min t.d (dim year.toNat month.toNat)) t.h t.mi t.s t.us

def padNat (n width : Nat) : String :=
  let s := toString n
  String.ofList (List.replicate (width - s.length) '0') ++ s

def DT.show (t : DT) : String :=
  s!"{padNat t.y 4}-{padNat t.mo 2}-{padNat t.d 2} {padNat t.h 2}:{padNat t.mi 2}:{padNat t.s 2}.{padNat t.us 6}"

end DP
