import DPModel.Gen.UTable
import Std.Data.HashMap
/-!
# Unicode facts for the finite alphabet A

`Gen.UTable` is generated from the interpreter that runs the library (lower(), the fold class the
`regex` module uses under IGNORECASE, `\w \s \d` as answered by `regex`, isalpha/isdigit/isdecimal,
digit value, dateparser's `normalize_unicode`).  Characters outside A are rejected by the driver.
-/
namespace DP

def umap : Std.HashMap Nat UInfo := Std.HashMap.ofList Gen.utableRaw
def uinfo (c : Char) : Option UInfo := umap.get? c.toNat
def inAlphabet (c : Char) : Bool := (uinfo c).isSome
def isDigitU (c : Char) : Bool := match uinfo c with | some u => u.d | none => false
def isSpaceU (c : Char) : Bool := match uinfo c with | some u => u.s | none => false
def isWordU (c : Char) : Bool := match uinfo c with | some u => u.w | none => false
def foldU (c : Char) : Char := match uinfo c with | some u => Char.ofNat u.fold | none => c
def isAlphaU (c : Char) : Bool := match uinfo c with | some u => u.alpha | none => false

/-- `str.lower()` incl. the final-sigma rule -/
def pyLower (s : String) : String :=
  let cs := s.toList.toArray
  Id.run do
    let mut out := ""
    for i in [0:cs.size] do
      let c := cs[i]!
      if c.toNat == 0x3A3 then
        let prev := i > 0 && isAlphaU cs[i-1]!
        let nxt := i + 1 < cs.size && isAlphaU cs[i+1]!
        out := out ++ (if prev && !nxt then "ς" else "σ")
      else
        out := out ++ (match uinfo c with | some u => u.lower | none => String.singleton c)
    return out

/-- dateparser.utils.normalize_unicode -/
def normalizeUnicode (s : String) : String :=
  s.toList.foldl (fun acc c => acc ++ (match uinfo c with | some u => u.nfkd | none => String.singleton c)) ""

/-- `str.isdigit` / `str.isalpha` on whole strings -/
def pyIsDigit (s : String) : Bool := !s.isEmpty && s.toList.all (fun c => match uinfo c with | some u => u.dig | none => false)
def pyIsAlpha (s : String) : Bool := !s.isEmpty && s.toList.all (fun c => match uinfo c with | some u => u.alpha | none => false)
def pyIsDecimalChar (c : Char) : Bool := match uinfo c with | some u => u.dec | none => false
def digitValU (c : Char) : Nat := match uinfo c with | some u => u.digval | none => 0

/-- `int(s)` for a string of decimal digits of any script -/
def natOfDigits (s : String) : Nat := s.toList.foldl (fun acc c => acc * 10 + digitValU c) 0

def pyStrip (s : String) : String :=
  String.ofList ((s.toList.dropWhile isSpaceU).reverse.dropWhile isSpaceU).reverse

def lowerAscii (s : String) : String :=
  String.ofList (s.toList.map (fun c => if c.toNat ≥ 65 && c.toNat ≤ 90 then Char.ofNat (c.toNat + 32) else c))

/-- `needle` is a prefix of the list -/
def prefixL : List Char → List Char → Bool
  | [], _ => true
  | _ :: _, [] => false
  | n :: ns, c :: cs => n == c && prefixL ns cs
def hasSubL (needle : List Char) : List Char → Bool
  | [] => needle.isEmpty
  | c :: cs => prefixL needle (c :: cs) || hasSubL needle cs
/-- `sub in s` (structural on the characters, so that the kernel can evaluate it on literals) -/
def hasSub (s sub : String) : Bool := hasSubL sub.toList s.toList

end DP
