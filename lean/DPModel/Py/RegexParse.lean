import DPModel.Py.Regex
namespace DP

structure PState where
  rest : List Char
  ngroups : Nat := 0
  named : Option Nat := none
deriving Inhabited

abbrev P := StateT PState (Except String)

def peek : P (Option Char) := do return (← get).rest.head?
def next : P Char := do
  let st ← get
  match st.rest with
  | [] => throw "unexpected end"
  | c :: cs => set { st with rest := cs }; return c
def eat (c : Char) : P Unit := do
  let d ← next
  if d != c then throw s!"expected {c} got {d}"
def tryEat (c : Char) : P Bool := do
  match (← peek) with
  | some d => if d == c then discard next; return true else return false
  | none => return false
def startsWith (p : List Char) : P Bool := do return p.isPrefixOf (← get).rest
def dropN (n : Nat) : P Unit := modify fun st => { st with rest := st.rest.drop n }

def escClass (c : Char) : Option CC :=
  match c with
  | 'd' => some .digit | 'D' => some .ndigit | 's' => some .space | 'S' => some .nspace
  | 'w' => some .word | 'W' => some .nword | _ => none
def escChar (c : Char) : Char :=
  match c with | 'n' => '\n' | 't' => '\t' | 'r' => '\r' | 'f' => Char.ofNat 12 | 'v' => Char.ofNat 11 | c => c

partial def parseNat : P Nat := do
  let rec go (acc : Nat) : P Nat := do
    match (← peek) with
    | some c => if c.isDigit then discard next; go (acc * 10 + (c.toNat - '0'.toNat)) else return acc
    | none => return acc
  go 0

partial def parseClass : P Re := do
  let neg ← tryEat '^'
  let rec item (first : Bool) (acc : List CC) : P (List CC) := do
    let c ← next
    if c == ']' && !first then return acc.reverse
    let lo : Sum CC Char ←
      if c == '\\' then do
        let e ← next
        match escClass e with
        | some k => pure (Sum.inl k)
        | none => pure (Sum.inr (escChar e))
      else pure (Sum.inr c)
    match lo with
    | .inl k => item false (k :: acc)
    | .inr a =>
      -- range?
      let st ← get
      match st.rest with
      | '-' :: b :: _ =>
        if b != ']' then do
          dropN 1
          let b ← next
          let b ← if b == '\\' then (do let e ← next; pure (escChar e)) else pure b
          item false (.range a b :: acc)
        else item false (.ch a :: acc)
      | _ => item false (.ch a :: acc)
  let items ← item true []
  return .cls neg items

mutual
partial def parseAlt : P Re := do
  let a ← parseSeq
  if (← tryEat '|') then
    let b ← parseAlt
    return .alt a b
  else return a

partial def parseSeq : P Re := parseSeqGo .eps

partial def parseSeqGo (acc : Re) : P Re := do
  match (← peek) with
  | none => return acc
  | some '|' => return acc
  | some ')' => return acc
  | _ =>
    let a ← parseQuant
    parseSeqGo (match acc with | .eps => a | _ => .seq acc a)

partial def parseQuant : P Re := do
  let a ← parseAtom
  parseQ a

partial def parseQ (a : Re) : P Re := do
  match (← peek) with
  | some '*' => discard next; let lazy ← tryEat '?'; parseQ (.rep a 0 none (!lazy))
  | some '+' => discard next; let lazy ← tryEat '?'; parseQ (.rep a 1 none (!lazy))
  | some '?' => discard next; let lazy ← tryEat '?'; parseQ (.rep a 0 (some 1) (!lazy))
  | some '{' =>
    let st ← get
    let body := st.rest.drop 1 |>.takeWhile (· != '}')
    if body.all (fun c => c.isDigit || c == ',') && !body.isEmpty && (st.rest.drop (1 + body.length)).head? == some '}' then
      discard next
      let lo ← parseNat
      let hi ← if (← tryEat ',') then (do match (← peek) with
                  | some '}' => pure none
                  | _ => do let n ← parseNat; pure (some n)) else pure (some lo)
      eat '}'
      let lazy ← tryEat '?'
      parseQ (.rep a lo hi (!lazy))
    else return a
  | _ => return a

partial def parseAtom : P Re := do
  let c ← next
  match c with
  | '.' => return .any
  | '^' => return .bos
  | '$' => return .eos
  | '[' => parseClass
  | '(' =>
    if (← startsWith "?:".toList) then dropN 2; let r ← parseAlt; eat ')'; return r
    else if (← startsWith "?=".toList) then dropN 2; let r ← parseAlt; eat ')'; return .look true false r
    else if (← startsWith "?!".toList) then dropN 2; let r ← parseAlt; eat ')'; return .look true true r
    else if (← startsWith "?<=".toList) then dropN 3; let r ← parseAlt; eat ')'; return .look false false r
    else if (← startsWith "?<!".toList) then dropN 3; let r ← parseAlt; eat ')'; return .look false true r
    else if (← startsWith "?P<".toList) then
      dropN 3
      modify fun st => { st with rest := (st.rest.dropWhile (· != '>')).drop 1 }
      let n ← (do match (← get).named with
        | some n => pure n
        | none => do
          let n := (← get).ngroups + 1
          modify fun st => { st with ngroups := n, named := some n }
          pure n)
      let r ← parseAlt; eat ')'; return .group n r
    else
      let n := (← get).ngroups + 1
      modify fun st => { st with ngroups := n }
      let r ← parseAlt; eat ')'; return .group n r
  | '\\' =>
    let e ← next
    match e with
    | 'A' => return .bos
    | 'Z' => return .eosZ
    | 'b' => return .wordb
    | 'B' => return .nwordb
    | 'u' => do
      let h ← (List.range 4).mapM (fun _ => next)
      let v := h.foldl (fun acc c => acc * 16 + (if c.isDigit then c.toNat - 48 else (c.toLower.toNat - 87))) 0
      return .chr (Char.ofNat v)
    | _ => match escClass e with
      | some k => return .cls false [k]
      | none => return .chr (escChar e)
  | c => return .chr c
end

def parse (pat : String) : Except String (Re × Nat) := do
  let (r, st) ← (parseAlt.run { rest := pat.toList })
  if !st.rest.isEmpty then throw s!"trailing: {String.ofList st.rest}"
  return (r, st.ngroups)

end DP
