import DPModel.Py.Date
import DPModel.Py.Unicode
/-!
# CPython 3.12 `_strptime` as a direct matcher over `List Char`

CPython turns a format into one regular expression (every directive an ordered alternation, literal
whitespace runs `\s+`, everything else escaped, IGNORECASE) and requires it to consume the whole
string.  This file implements exactly that search — ordered alternatives with backtracking into the
continuation — by structural recursion on the list of format items, so that proofs can unfold it on
concrete formats and symbolic digits.  Supported directives: `d m y Y H I M S f p B b A a` and `%%`
(the ones dateparser itself uses plus what C14's format family needs); anything else is `bad`
(reported by the driver, never defaulted).

Character predicates take an ASCII fast path (kernel-reducible on rendered strings) and fall back to
the generated Unicode table (`\d`/`\s` of a `str` pattern are Unicode-aware in CPython).
-/
namespace DP

/-- one character test of an alternative -/
inductive CT where
  | rng (lo hi : Char)      -- ASCII class like [0-5]
  | uni                     -- \d (Unicode decimal digit)
  | sp                      -- a literal space (the ` [1-9]` alternative of %d)
deriving Repr, Inhabited

def asciiDigit (c : Char) : Bool := decide ('0' ≤ c ∧ c ≤ '9')
def isDecDigit (c : Char) : Bool := asciiDigit c || (decide (c.toNat ≥ 128) && isDigitU c)
def decVal (c : Char) : Nat := if asciiDigit c then c.toNat - 48 else digitValU c
def isWs (c : Char) : Bool :=
  c == ' ' || c == '\t' || c == '\n' || c == '\r' || c == Char.ofNat 11 || c == Char.ofNat 12 ||
  (decide (c.toNat ≥ 28) && !asciiDigit c && decide (c.toNat < 32 ∨ c.toNat ≥ 128) && isSpaceU c)

def CT.test (t : CT) (c : Char) : Bool :=
  match t with
  | .rng lo hi => decide (lo ≤ c ∧ c ≤ hi)
  | .uni => isDecDigit c
  | .sp => c == ' '

/-- try to consume one alternative; returns the numeric value (`int()` of the matched text) and the rest -/
def consumeAlt : List CT → List Char → Nat → Option (Nat × List Char)
  | [], rest, acc => some (acc, rest)
  | _ :: _, [], _ => none
  | t :: ts, c :: cs, acc => if t.test c then consumeAlt ts cs (if c == ' ' then acc else acc * 10 + decVal c) else none

def d09 : CT := .rng '0' '9'
def d19 : CT := .rng '1' '9'
/-- the alternations CPython's `_TimeRE` uses, in its order -/
def numAlts : Char → Option (List (List CT))
  | 'd' => some [[.rng '3' '3', .rng '0' '1'], [.rng '1' '2', .uni], [.rng '0' '0', d19], [d19], [.sp, d19]]
  | 'H' => some [[.rng '2' '2', .rng '0' '3'], [.rng '0' '1', .uni], [.uni]]
  | 'I' => some [[.rng '1' '1', .rng '0' '2'], [.rng '0' '0', d19], [d19]]
  | 'm' => some [[.rng '1' '1', .rng '0' '2'], [.rng '0' '0', d19], [d19]]
  | 'M' => some [[.rng '0' '5', .uni], [.uni]]
  | 'S' => some [[.rng '6' '6', .rng '0' '1'], [.rng '0' '5', .uni], [.uni]]
  | 'y' => some [[.uni, .uni]]
  | 'Y' => some [[.uni, .uni, .uni, .uni]]
  | 'f' => some [[d09, d09, d09, d09, d09, d09], [d09, d09, d09, d09, d09], [d09, d09, d09, d09], [d09, d09, d09], [d09, d09], [d09]]
  | _ => none

def monthNamesC : List (List Char) := ["january","february","march","april","may","june","july","august","september","october","november","december"].map String.toList
def monthAbbrC : List (List Char) := ["jan","feb","mar","apr","may","jun","jul","aug","sep","oct","nov","dec"].map String.toList
def dayNamesC : List (List Char) := ["monday","tuesday","wednesday","thursday","friday","saturday","sunday"].map String.toList
def dayAbbrC : List (List Char) := ["mon","tue","wed","thu","fri","sat","sun"].map String.toList
def ampmC : List (List Char) := ["am","pm"].map String.toList

/-- `sorted(names, key=len, reverse=True)` (stable), keeping each name's index -/
def sortLenDescIdx (xs : List (List Char)) : List (Nat × List Char) :=
  let rec ins (x : Nat × List Char) : List (Nat × List Char) → List (Nat × List Char)
    | [] => [x]
    | y :: ys => if y.2.length ≥ x.2.length then y :: ins x ys else x :: y :: ys
  (xs.zipIdx.map (fun (n, i) => (i, n))).foldl (fun acc x => ins x acc) []

def nameAlts : Char → Option (List (Nat × List Char))
  | 'B' => some (sortLenDescIdx monthNamesC)
  | 'b' => some (sortLenDescIdx monthAbbrC)
  | 'A' => some (sortLenDescIdx dayNamesC)
  | 'a' => some (sortLenDescIdx dayAbbrC)
  | 'p' => some (sortLenDescIdx ampmC)
  | _ => none

def lowerA (c : Char) : Char := if 'A' ≤ c ∧ c ≤ 'Z' then Char.ofNat (c.toNat + 32) else c
/-- equality under IGNORECASE: ASCII fast path, generated fold table otherwise -/
def eqIcase (a b : Char) : Bool :=
  if a.toNat < 128 ∧ b.toNat < 128 then lowerA a == lowerA b else foldU a == foldU b

def consumeName : List Char → List Char → Option (List Char)
  | [], rest => some rest
  | _ :: _, [] => none
  | n :: ns, c :: cs => if eqIcase n c then consumeName ns cs else none

inductive FItem where
  | dir (c : Char)
  | lit (c : Char)
  | ws
deriving Repr, Inhabited

/-- format text → items; `none` for an unsupported directive, a repeated directive or a stray `%` -/
def parseFmt : List Char → List Char → Option (List FItem)
  | [], _ => some []
  | ['%'], _ => none
  | '%' :: '%' :: rest, seen => (parseFmt rest seen).map (fun is => .lit '%' :: is)
  | '%' :: d :: rest, seen =>
      if seen.contains d then none
      else if (numAlts d).isSome || (nameAlts d).isSome then (parseFmt rest (d :: seen)).map (fun is => .dir d :: is)
      else none
  | c :: rest, seen =>
      if isWs c then
        match parseFmt rest seen with
        | some (.ws :: is) => some (.ws :: is)
        | some is => some (.ws :: is)
        | none => none
      else (parseFmt rest seen).map (fun is => .lit c :: is)

/-- what the groups captured -/
structure Found where
  d : Option Nat := none
  m : Option Nat := none
  y : Option Nat := none
  Y : Option Nat := none
  H : Option Nat := none
  I : Option Nat := none
  M : Option Nat := none
  S : Option Nat := none
  f : Option (Nat × Nat) := none     -- value, number of digits
  p : Option Nat := none             -- 0 am, 1 pm
  B : Option Nat := none
  b : Option Nat := none
  A : Option Nat := none
  a : Option Nat := none
deriving Repr, Inhabited, DecidableEq

def Found.setNum (fd : Found) (c : Char) (v : Nat) (len : Nat) : Found :=
  match c with
  | 'd' => { fd with d := some v } | 'm' => { fd with m := some v } | 'y' => { fd with y := some v }
  | 'Y' => { fd with Y := some v } | 'H' => { fd with H := some v } | 'I' => { fd with I := some v }
  | 'M' => { fd with M := some v } | 'S' => { fd with S := some v } | 'f' => { fd with f := some (v, len) }
  | _ => fd
def Found.setName (fd : Found) (c : Char) (i : Nat) : Found :=
  match c with
  | 'p' => { fd with p := some i } | 'B' => { fd with B := some i } | 'b' => { fd with b := some i }
  | 'A' => { fd with A := some i } | 'a' => { fd with a := some i } | _ => fd

def wsPrefixLen : List Char → Nat
  | [] => 0
  | c :: cs => if isWs c then wsPrefixLen cs + 1 else 0

/-- the regex search: first successful path through ordered alternatives; the whole string must be consumed -/
def matchItems (full : Bool) : List FItem → List Char → Found → Option Found
  | [], [], fd => some fd
  | [], _ :: _, fd => if full then none else some fd
  | .lit c :: is, xs, fd =>
      match xs with
      | x :: rest => if eqIcase c x then matchItems full is rest fd else none
      | [] => none
  | .ws :: is, xs, fd =>
      let k := wsPrefixLen xs
      (List.range k).reverse.findSome? (fun j => matchItems full is (xs.drop (j + 1)) fd)
  | .dir d :: is, xs, fd =>
      match numAlts d with
      | some alts =>
          alts.findSome? (fun alt =>
            match consumeAlt alt xs 0 with
            | some (v, rest) => matchItems full is rest (fd.setNum d v alt.length)
            | none => none)
      | none =>
        match nameAlts d with
        | some names =>
            names.findSome? (fun (i, nm) =>
              match consumeName nm xs with
              | some rest => matchItems full is rest (fd.setName d i)
              | none => none)
        | none => none

inductive StrpOutcome where
  | bad                       -- format outside the modelled subset
  | err (e : PyErr)
  | ok (t : DT)
deriving Repr, Inhabited, DecidableEq

def pivotYear (v : Nat) : Nat := if v ≤ 68 then 2000 + v else 1900 + v

/-- field post-processing of `_strptime._strptime` followed by `datetime(...)`; `withFraction` = stdlib
    `datetime.strptime` (keeps %f); dateparser's own wrapper drops it and recovers it separately -/
def foundToDT (fd : Found) (withFraction : Bool) : Except PyErr DT :=
  let year : Option Nat := match fd.Y, fd.y with
    | some v, _ => some v        -- processed in found_dict order; both present cannot happen for %y/%Y mixes we accept
    | none, some v => some (pivotYear v)
    | none, none => none
  let month := match fd.m, fd.B, fd.b with
    | some v, _, _ => v | none, some i, _ => i + 1 | none, none, some i => i + 1 | _, _, _ => 1
  let day := fd.d.getD 1
  let hour := match fd.H, fd.I with
    | some h, _ => h
    | none, some h =>
        (match fd.p with
         | some 1 => if h ≠ 12 then h + 12 else h
         | _ => if h = 12 then 0 else h)
    | none, none => 0
  let minute := fd.M.getD 0
  let second := fd.S.getD 0
  let us := match fd.f with | some (v, len) => v * 10 ^ (6 - len) | none => 0
  -- year default, Feb-29 trick, julian computation validates (year, month, day)
  let (vyear, fix) : Nat × Bool := match year with
    | some y => (y, false)
    | none => if month = 2 ∧ day = 29 then (1904, true) else (1900, false)
  match mkDT vyear month day 0 0 0 0 with
  | .error e => .error e
  | .ok _ =>
    let y := if fix then 1900 else vyear
    mkDT y month day hour minute second (if withFraction then us else 0)

def strptimeC (data fmt : List Char) (withFraction : Bool) : StrpOutcome :=
  match parseFmt fmt [] with
  | none => .bad
  | some items =>
    match matchItems true items data {} with
    | none => .err (.value .fmt)
    | some fd =>
      match foundToDT fd withFraction with
      | .ok t => .ok t
      | .error e => .err e


/-- `TIME_MATCHER.match(s)`: `.*?` (no newline) then `H:M:S.f` as a prefix match; returns the %f capture -/
def timeMatcherItems : List FItem := [.dir 'H', .lit ':', .dir 'M', .lit ':', .dir 'S', .lit '.', .dir 'f']
def timeMatcherMicros : List Char → Option (Nat × Nat)
  | [] => none
  | c :: cs =>
    match matchItems false timeMatcherItems (c :: cs) {} with
    | some fd => fd.f
    | none => if c == '\n' then none else timeMatcherMicros cs

/-- `MS_SEARCHER.search(s)`: first '.' followed by 1–6 ASCII digits (greedy) -/
def msSearcherMicros : List Char → Option (Nat × Nat)
  | [] => none
  | c :: cs =>
    if c == '.' then
      match matchItems false [.dir 'f'] cs {} with
      | some fd => (match fd.f with | some r => some r | none => msSearcherMicros cs)
      | none => msSearcherMicros cs
    else msSearcherMicros cs

/-- `dateparser.utils.strptime.strptime`: patched `_strptime_time` (fraction dropped), then the `%f` recovery;
    `AttributeError` when neither regex finds a fraction -/
def dpStrptimeC (data fmt : List Char) : StrpOutcome :=
  match strptimeC data fmt false with
  | .ok t =>
    if (parseFmt fmt []).any (fun is => is.any (fun i => match i with | .dir 'f' => true | _ => false)) then
      match (timeMatcherMicros data).orElse (fun _ => msSearcherMicros data) with
      | some (v, len) => .ok { t with us := v * 10 ^ (6 - len) }
      | none => .err .attr
    else .ok t
  | r => r

end DP
