import DPModel
import Lean.Data.Json
/-!
# dpdriver — line protocol driver for the executable model

One JSON object per input line, one JSON object per output line (same order).
`{"op":"gdd", ...}` → `{"r": "Y-M-D h:m:s.us|off|period|locale"}` | `{"r": null}` | `{"e": "ValueError"}` | `{"bad": why}`
-/
open Lean DP

def jstr (j : Json) (k : String) (d : String := "") : String := (j.getObjValAs? String k).toOption.getD d
def jnat (j : Json) (k : String) (d : Nat := 0) : Nat := (j.getObjValAs? Nat k).toOption.getD d
def jint (j : Json) (k : String) (d : Int := 0) : Int := (j.getObjValAs? Int k).toOption.getD d
def jbool (j : Json) (k : String) (d : Bool) : Bool := (j.getObjValAs? Bool k).toOption.getD d
def jget (j : Json) (k : String) : Json := (j.getObjVal? k).toOption.getD Json.null
def jdt (j : Json) : DT := { y := jnat j "y", mo := jnat j "mo", d := jnat j "d", h := jnat j "h", mi := jnat j "mi", s := jnat j "s", us := jnat j "us" }
def strList (j : Json) : List String :=
  match j with
  | .arr a => a.toList.filterMap (fun x => match x with | .str s => some s | _ => none)
  | _ => []
def pairArr (j : Json) : List (String × List String) :=
  match j with
  | .arr a => a.toList.filterMap (fun x => match x with
      | .arr kv => match kv.toList with | [.str k, v] => some (k, strList v) | _ => none
      | _ => none)
  | _ => []

def linfoOfJson (j : Json) : LInfo :=
  { name := jstr j "name", skip := strList (jget j "skip"), pertain := strList (jget j "pertain"),
    words := pairArr (jget j "words"), relType := pairArr (jget j "relType"), relRegex := pairArr (jget j "relRegex"),
    simps := (pairArr (jget j "simps")).map (fun (k, v) => (k, v.headD "")), nws := jbool j "nws" false }

structure LangRec where
  name : String
  lang : String
  li : LInfo
  dateOrder : Option String
  ssg : Nat
deriving Inhabited

structure Env where
  T : TzTable
  order : List String
  langs : Std.HashMap String LangRec
  locales : Std.HashMap String LangRec
  localesOf : Std.HashMap String (List String)   -- language → its regional locales (language_locale_dict order)

structure Cache where
  locs : Std.HashMap String Loc := {}

def recOfJson (x : Json) : LangRec :=
  { name := jstr x "name", lang := jstr x "lang" (jstr x "name"), li := linfoOfJson x,
    dateOrder := (x.getObjValAs? String "date_order").toOption, ssg := jnat x "ssg" 1 }

def loadEnv (dir : String) : IO Env := do
  let lj ← IO.ofExcept (Json.parse (← IO.FS.readFile (dir ++ "/langdata.json")))
  let tj ← IO.ofExcept (Json.parse (← IO.FS.readFile (dir ++ "/tz.json")))
  let arr := fun (k : String) => match jget lj k with | .arr a => a.toList | _ => []
  let langs := (arr "langs").map recOfJson
  let locales := (arr "locales").map recOfJson
  let entries := match jget tj "entries" with
    | .arr a => a.map (fun e => ({ name := jstr e "name", re := rxs (jstr e "pat"), offset := jint e "off" } : TzEntry))
    | _ => #[]
  let lld : List (String × List String) := match jget lj "language_locale_dict" with
    | .obj kvs => kvs.toList.map (fun (k, v) => (k, strList v))
    | _ => []
  return { T := { entries, searchI := rxs (jstr tj "searchI"), search := rxs (jstr tj "search") },
           order := strList (jget lj "order"),
           langs := Std.HashMap.ofList (langs.map (fun r => (r.name, r))),
           locales := Std.HashMap.ofList (locales.map (fun r => (r.name, r))),
           localesOf := Std.HashMap.ofList lld }

/-- `get_timezone_from_tz_string`: pytz first (only `UTC` is concrete there), then the library's table -/
def tzLocalizeOf (T : TzTable) (name : String) (pytzKnows : Bool) : TzRes :=
  if pytzKnows then (if name == "UTC" then .fixed 0 else .iana)
  else match tableTz T name with | some o => .fixed o | none => .unknown
/-- `apply_timezone`: the library's table first, then pytz -/
def tzApplyOf (T : TzTable) (name : String) (pytzKnows : Bool) : TzRes :=
  match tableTz T name with
  | some o => .fixed o
  | none => if pytzKnows then (if name == "UTC" then .fixed 0 else .iana) else .unknown

def pref3 (s : String) : Pref3 := if s == "first" then .first else if s == "last" then .last else .current
def prefDates (s : String) : PrefDates := if s == "past" then .past else if s == "future" then .future else .currentPeriod

def settingsOf (T : TzTable) (j : Json) : Settings :=
  { dateOrder := jstr j "order" "MDY"
    dateOrderGiven := jbool j "orderGiven" false
    preferLocaleOrder := jbool j "plo" true
    timezone := jstr j "tz" "UTC"
    tzLocalize := tzLocalizeOf T (jstr j "tz" "UTC") (jbool j "tzPytz" true)
    tzApply := tzApplyOf T (jstr j "tz" "UTC") (jbool j "tzPytz" true)
    toTimezone := (j.getObjValAs? String "totz").toOption
    toTzApply := tzApplyOf T (jstr j "totz" "UTC") (jbool j "totzPytz" false)
    aware := (j.getObjValAs? Bool "aware").toOption
    preferDay := pref3 (jstr j "pd" "current")
    preferMonth := pref3 (jstr j "pm" "current")
    preferDates := prefDates (jstr j "pf" "current_period")
    now := jdt (jget j "now")
    nowOff := (j.getObjValAs? Int "nowOff").toOption
    strict := jbool j "strict" false
    requireParts := (strList (jget j "req")).filterMap compOfName
    skipTokens := match jget j "skip" with | .arr _ => strList (jget j "skip") | _ => ["t"]
    normalize := jbool j "norm" true
    timeAsPeriod := jbool j "tap" false
    parsers := match jget j "parsers" with | .arr _ => strList (jget j "parsers") | _ => Gen.defaultParsers
    defaultLanguages := strList (jget j "dl")
    today := jdt (jget j "today")
    localOff := jint j "localOff" 0 }

def getLoc (env : Env) (cache : IO.Ref Cache) (name : String) (st : Settings) : IO (Option LocEntry) := do
  let rec? := (env.locales.get? name).orElse (fun _ => env.langs.get? name)
  match rec? with
  | none => return none
  | some r =>
    let key := name ++ "|" ++ toString st.normalize ++ "|" ++ "\x00".intercalate st.skipTokens
    let c ← cache.get
    match c.locs.get? key with
    | some L => return some { name := r.name, L, dateOrder := r.dateOrder }
    | none =>
      let L := mkLoc r.li st.normalize st.skipTokens
      cache.set { c with locs := c.locs.insert key L }
      return some { name := r.name, L, dateOrder := r.dateOrder }

def errName (e : PyErr) : String := e.kind

/-- locale list as `LocaleDataLoader.get_locales(languages, locales, region, use_given_order)` yields it -/
def localeNames (env : Env) (langs locales : List String) (region : Option String) (givenOrder : Bool) (auto : Bool) : List String :=
  let langs := if auto then env.order else langs
  if !locales.isEmpty then
    -- locales given: sorted by their language's priority unless given order
    let key := fun (l : String) => (env.order.findIdx? (· == ((env.locales.get? l).map (·.lang)).getD l)).getD 100000
    if givenOrder then locales else
      (locales.zipIdx.toArray.qsort (fun a b => key a.1 < key b.1 || (key a.1 == key b.1 && a.2 < b.2))).toList.map (·.1)
  else
    -- `languages` (+ `region`): the loader model of DPModel/DP/Loader.lean (proved in DPProofs/C13Loader.lean)
    let E : Loader.Env := { order := env.order, localesOf := fun l => (env.localesOf.get? l).getD [] }
    (Loader.loadPairs E langs (region.getD "") givenOrder).map (·.1)

def handleGdd (env : Env) (cache : IO.Ref Cache) (j : Json) : IO Json := do
  let st := settingsOf env.T j
  let s := jstr j "s"
  if s.toList.any (fun c => !inAlphabet c) then return Json.mkObj [("bad", "alphabet")]
  let fmts := strList (jget j "fmts")
  let names := localeNames env (strList (jget j "langs")) (strList (jget j "locales")) ((j.getObjValAs? String "region").toOption)
                 (jbool j "givenOrder" false) (jbool j "auto" false)
  let locs ← names.filterMapM (fun n => getLoc env cache n st)
  let dflt ← (localeNames env st.defaultLanguages [] ((j.getObjValAs? String "region").toOption) (jbool j "givenOrder" false) false).filterMapM (fun n => getLoc env cache n st)
  match getDateData env.T st locs dflt s fmts with
  | .bad why => return Json.mkObj [("bad", why)]
  | .res (.ok none) => return Json.mkObj [("r", Json.null)]
  | .res (.ok (some r)) => return Json.mkObj [("r", showADT r.x ++ "|" ++ r.period.name ++ "|" ++ r.locale)]
  | .res (.error e) => return Json.mkObj [("e", errName e)]

def handleStrptime (j : Json) : Json :=
  let data := jstr j "s"; let fmt := jstr j "f"
  let r := if jbool j "dp" true then dpStrptimeC data.toList fmt.toList else strptimeC data.toList fmt.toList true
  match r with
  | .bad => Json.mkObj [("bad", "format")]
  | .err e => Json.mkObj [("e", errName e)]
  | .ok t => Json.mkObj [("r", t.show)]

def handleAbs (env : Env) (j : Json) : Json :=
  let st := settingsOf env.T j
  let ps := psettingsOf st st.dateOrder (jint j "tzOff" 0)
  match absParse ps (jstr j "s").toList with
  | .ok (t, p) => Json.mkObj [("r", t.show ++ "|" ++ p.name)]
  | .error e => Json.mkObj [("e", errName e)]

/-! ## search layer ops (`DPModel/DP/Search.lean`) -/

def jarr (j : Json) : List Json := match j with | .arr a => a.toList | _ => []
def jtable (j : Json) : Std.HashMap String String :=
  (jarr j).foldl (fun m x => match jarr x with | [.str k, .str v] => m.insert k v | _ => m) {}
def jflags (j : Json) : Std.HashMap String Bool :=
  (jarr j).foldl (fun m x => match jarr x with | [.str k, .bool v] => m.insert k v | _ => m) {}
def errJson (e : PyErr) : Json := Json.mkObj [("e", e.kind)]

/-- `_simplify_split_align` on (raw, normalised) original tokens and simplified tokens -/
def handleAlign (j : Json) : Json :=
  let orig : List Search.OTok := (jarr (jget j "orig")).filterMap (fun x => match jarr x with | [.str r, .str n] => some ⟨r, n⟩ | _ => none)
  match Search.alignTokens orig (strList (jget j "simp")) with
  | .ok (o, s) => Json.mkObj [("o", Json.arr (o.map (fun t => Json.str t.raw)).toArray), ("s", Json.arr (s.map Json.str).toArray)]
  | .error e => errJson e

/-- the `translate_search` loop on one sentence; dictionary / join / strip / digit / tz behaviour are tables recorded from the library -/
def handleTsent (j : Json) : Json :=
  let dict := jtable (jget j "dict")
  let joins := jtable (jget j "join")            -- key: the two strings separated by U+0001
  let strips := jtable (jget j "strip")
  let digits := jflags (jget j "digits")
  let tz := jflags (jget j "tz")
  let E : Search.Env :=
    { dict := fun w => dict.get? w, join := fun ws => (joins.get? ("\x01".intercalate ws)).getD "\x02missing-join",
      strip := fun w => (strips.get? w).getD w, digitsOk := fun w => (digits.get? w).getD false, isTz := fun w => (tz.get? w).getD false,
      jointUnsupported := jbool j "jointUnsupported" false }
  match Search.sentenceChunks E (strList (jget j "orig")) (strList (jget j "simp")) with
  | .ok cs => Json.mkObj [("chunks", Json.arr (cs.map (fun c => Json.arr (c.map (fun it =>
      Json.arr #[Json.str it.t, Json.str it.o, Json.num it.i, Json.num it.n])).toArray)).toArray)]
  | .error e => errJson e

/-- `parse_found_objects` + the blank filter; `gdd` is the table of calls the library made: [rb id | null, item, result id | null] -/
def handleFound (j : Json) : Json :=
  let chars := fun (x : Json) => (strList x).map String.toList
  let key := fun (rb : Search.DateId) (item : List Char) => (match rb with | some n => toString n | none => "-") ++ "|" ++ String.ofList item
  let tbl : Std.HashMap String Search.DateId := (jarr (jget j "gdd")).foldl (fun m x =>
    match jarr x with
    | [rb, .str item, r] => m.insert (key (rb.getNat?.toOption) item.toList) (r.getNat?.toOption)
    | _ => m) {}
  let F : Search.FEnv := { gdd := fun rb item => (tbl.get? (key rb item)).getD none, needRb := jbool j "needRb" true,
                           hasDigit := fun s => s.any isDecDigit }
  match Search.parseFound F (chars (jget j "toParse")) (chars (jget j "original")) (chars (jget j "translated")) ((jget j "rb0").getNat?.toOption) with
  | .ok hits => Json.mkObj [("hits", Json.arr (hits.map (fun h =>
      Json.arr #[Json.str (String.ofList h.sub), (match h.date with | some n => Json.num n | none => Json.null), Json.num h.ci, Json.num h.pj])).toArray)]
  | .error e => errJson e

/-- the `Dictionary` class cache (`DPModel/DP/Shared.lean`): a history of accesses `[settings key, locale]` with per-key CACHE_SIZE_LIMIT;
    answers what each access returned and the key order of the cache after it -/
def handleDcache (j : Json) : Json :=
  let pairs := fun (x : Json) => (jarr x).filterMap (fun p => match jarr p with | [a, b] => (do pure ((← a.getNat?.toOption), (← b.getNat?.toOption))) | _ => none)
  let lims := pairs (jget j "limits")
  let limit : Nat → Nat := fun k => ((lims.find? (fun p => p.1 == k)).map (·.2)).getD 0
  let step := fun (acc : Shared.Cache × List Json) (kl : Nat × Nat) =>
    let r := Shared.getCached limit acc.1 kl.1 kl.2
    let o := match r.2 with | .val v => Json.arr #[Json.num (v.1 : Nat), Json.num (v.2 : Nat)] | .keyError => Json.str "KeyError"
    (r.1, acc.2 ++ [Json.mkObj [("out", o), ("order", Json.arr (r.1.order.map (fun (k : Nat) => Json.num (k : Nat))).toArray)]])
  Json.mkObj [("steps", Json.arr ((pairs (jget j "ops")).foldl step (Shared.Cache.empty, [])).2.toArray)]

def handle (env : Env) (cache : IO.Ref Cache) (line : String) : IO String := do
  match Json.parse line with
  | .error e => return Json.compress (Json.mkObj [("bad", "json:" ++ e)])
  | .ok j =>
    let op := jstr j "op" "gdd"
    let out ← match op with
      | "gdd" => handleGdd env cache j
      | "strptime" => pure (handleStrptime j)
      | "abs" => pure (handleAbs env j)
      | "translate" => do
          let st := settingsOf env.T j
          match ← getLoc env cache (jstr j "loc") st with
          | none => pure (Json.mkObj [("bad", "locale")])
          | some le =>
            let s := jstr j "s"
            if s.toList.any (fun c => !inAlphabet c) then pure (Json.mkObj [("bad", "alphabet")]) else
            pure (Json.mkObj [("r", le.L.translate s (jbool j "keep" false)), ("app", Json.bool (le.L.isApplicable s))])
      | "align" => pure (handleAlign j)
      | "tsent" => pure (handleTsent j)
      | "found" => pure (handleFound j)
      | "dcache" => pure (handleDcache j)
      | "sanitize" => pure (Json.mkObj [("r", sanitizeDate (jstr j "s"))])
      | "poptz" => pure (let r := popTz env.T (jstr j "s"); Json.mkObj [("r", r.1), ("tz", match r.2 with | some (n, o) => Json.mkObj [("name", n), ("off", Json.num o)] | none => Json.null)])
      | _ => pure (Json.mkObj [("bad", "op")])
    return Json.compress out

partial def loop (env : Env) (cache : IO.Ref Cache) (h out : IO.FS.Stream) : IO Unit := do
  let line ← h.getLine
  if line.isEmpty then return ()
  out.putStrLn (← handle env cache line)
  loop env cache h out

def main (args : List String) : IO Unit := do
  let env ← loadEnv (args.getD 0 "gen")
  let cache ← IO.mkRef ({} : Cache)
  loop env cache (← IO.getStdin) (← IO.getStdout)
