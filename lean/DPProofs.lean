import DPProofs.Lemmas.Date
