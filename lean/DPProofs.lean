import DPModel
