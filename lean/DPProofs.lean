import DPProofs.Lemmas.Date
import DPProofs.Lemmas.Parser
import DPProofs.Lemmas.Render
import DPProofs.C08
import DPProofs.C10
import DPProofs.C07
import DPProofs.C01
import DPProofs.C19
