import DPProofs.Lemmas.Render
import DPProofs.C08
import DPModel.DP.Pipeline
/-!
# C01 — standard absolute formats round-trip exactly (token level)

Each theorem takes the stage-1 records of one rendering of the fixed family F and shows that stage 2 returns exactly the
rendered date, for **every** valid date, every PREFER_* value, strictness and reference time.  The clock time is whatever
`time_parser` returns on the assembled time text (hypothesis `htm`); `Lemmas/Time.lean` discharges it for the renderings of F.
-/
namespace DP

/-- the records of the numeric fields as `classify` produces them on rendered text (`Lemmas/Classify.lean`) -/
def rY (ty : List Char) (y : Nat) : TI := tiYear4 ty y (some ty) false
def rS (t : List Char) (v : Nat) (two : Bool) : TI := tiSmall t v two (some t) false
/-- the letter `t` between date and time: a skip token -/
def rT : TI := { text := ['t'], ty := 1, skip := true }
/-- a clock token; `dot` = the next raw token contains '.' -/
def rClock (t : List Char) (dot : Bool) : TI := { text := t, ty := 0, colon := true, micro := microSearch t, dotAfterSame := dot }
/-- the fraction digits after the clock token -/
def rFrac (t : List Char) (mic : List Char) (iv : Option Nat := none) : TI := { text := t, ty := 0, micro := some mic, intVal := iv }
def rMerid (t : List Char) (me : List Char) : TI := { text := t, ty := 1, merid := some me }

structure DateOk (y m d : Nat) : Prop where
  y1 : 1 ≤ y
  y2 : y ≤ 9999
  m1 : 1 ≤ m
  m2 : m ≤ 12
  d1 : 1 ≤ d
  d2 : d ≤ dim y m

theorem mkDT_time (y m d : Nat) (tm : DT) (h : DateOk y m d) (htv : tm.h ≤ 23 ∧ tm.mi ≤ 59 ∧ tm.s ≤ 59 ∧ tm.us ≤ 999999) :
    mkDT y m d tm.h tm.mi tm.s tm.us = .ok { y := y, mo := m, d := d, h := tm.h, mi := tm.mi, s := tm.s, us := tm.us } :=
  mkDT_ok _ _ _ _ _ _ _ ⟨h.y1, h.y2, h.m1, h.m2, h.d1, h.d2, htv.1, htv.2.1, htv.2.2.1, htv.2.2.2⟩

attribute [local simp] absParseToks parseState initLoop initStep timeDetect parseNumber parseAlpha alphaMonthStep tryDirs tryDir numDirs
  rY rS rT rClock rFrac rMerid tiSmall tiYear4 tiMonthFull tiMonthAbbr tiWeekday
  PS.getC PS.getT PS.setC PS.setT truthy fillUnknown results resultsCore checkStrict missingOf pick getDatetimeObj
  finish correctTimeFrame correctMonth correctDay tokTruthy getPeriod replaceFirst bind Except.bind pure Except.pure Except.map

def isoOrder (o : List Comp) : Prop := o = [.month, .day, .year] ∨ o = [.year, .month, .day]

/-- **C01_iso_date**: `YYYY-MM-DD` -/
theorem C01_iso_date (st : PSettings) (ho : isoOrder st.order) (y m d : Nat) (hd : DateOk y m d)
    (ty tm td : List Char) (hty : ty.length = 4) :
    absParseToks st [rY ty y, rS tm m true, rS td d true] = .ok ({ y := y, mo := m, d := d }, .day) := by
  obtain ⟨hy1, hy2, hm1, hm2, hd1, hd2⟩ := hd
  have hd31 : d ≤ 31 := Nat.le_trans hd2 (dim_le_31 _ _)
  have hm31 : m ≤ 31 := by omega
  have hy0 : y ≠ 0 := by omega
  have hm0 : m ≠ 0 := by omega
  have hd0 : d ≠ 0 := by omega
  have hmk : mkDT y m d 0 0 0 0 = .ok { y := y, mo := m, d := d } :=
    mkDT_ok _ _ _ _ _ _ _ ⟨hy1, hy2, hm1, hm2, hd1, hd2, by simp, by simp, by simp, by simp⟩
  rcases ho with ho | ho <;>
  · by_cases hd12 : d ≤ 12 <;>
    simp [ho, hy1, hm1, hm2, hm31, hd1, hd31, hd12, hy0, hm0, hd0, hmk, hty]

/-- **C01_iso_datetime**: `YYYY-MM-DD hh:mm[:ss]`, with a space or `T` between date and time -/
theorem C01_iso_datetime (st : PSettings) (ho : isoOrder st.order) (y m d : Nat) (hd : DateOk y m d)
    (ty tm td tt : List Char) (hty : ty.length = 4) (withT : Bool) (dot : Bool) (tmv : DT) (htm : timeParser tt = .ok tmv)
    (htv : tmv.h ≤ 23 ∧ tmv.mi ≤ 59 ∧ tmv.s ≤ 59 ∧ tmv.us ≤ 999999) :
    absParseToks st ([rY ty y, rS tm m true, rS td d true] ++ (if withT then [rT] else []) ++ [rClock tt dot]) =
      .ok ({ y := y, mo := m, d := d, h := tmv.h, mi := tmv.mi, s := tmv.s, us := tmv.us }, if st.timeAsPeriod then .time else .day) := by
  have hmk := mkDT_time y m d tmv hd htv
  obtain ⟨hy1, hy2, hm1, hm2, hd1, hd2⟩ := hd
  have hd31 : d ≤ 31 := Nat.le_trans hd2 (dim_le_31 _ _)
  have hm31 : m ≤ 31 := by omega
  have hy0 : y ≠ 0 := by omega
  have hm0 : m ≠ 0 := by omega
  have hd0 : d ≠ 0 := by omega
  rcases ho with ho | ho <;> cases withT <;>
  · by_cases hd12 : d ≤ 12 <;> cases hta : st.timeAsPeriod <;>
    simp [ho, hy1, hm1, hm2, hm31, hd1, hd31, hd12, hy0, hm0, hd0, hmk, hty, htm, hta]

/-- **C01_iso_fraction**: `YYYY-MM-DD[ T]hh:mm:ss.f…` — the fraction digits are a separate token; the assembled time
    text handed to `time_parser` is `clock ++ "." ++ first-six-digits` -/
theorem C01_iso_fraction (st : PSettings) (ho : isoOrder st.order) (y m d : Nat) (hd : DateOk y m d)
    (ty tm td tt tf mic : List Char) (hty : ty.length = 4) (withT : Bool) (tmv : DT) (iv : Option Nat)
    (htm : timeParser (tt ++ '.' :: mic) = .ok tmv)
    (htv : tmv.h ≤ 23 ∧ tmv.mi ≤ 59 ∧ tmv.s ≤ 59 ∧ tmv.us ≤ 999999) :
    absParseToks st ([rY ty y, rS tm m true, rS td d true] ++ (if withT then [rT] else []) ++ [rClock tt true, rFrac tf mic iv]) =
      .ok ({ y := y, mo := m, d := d, h := tmv.h, mi := tmv.mi, s := tmv.s, us := tmv.us }, if st.timeAsPeriod then .time else .day) := by
  have hmk := mkDT_time y m d tmv hd htv
  obtain ⟨hy1, hy2, hm1, hm2, hd1, hd2⟩ := hd
  have hd31 : d ≤ 31 := Nat.le_trans hd2 (dim_le_31 _ _)
  have hm31 : m ≤ 31 := by omega
  have hy0 : y ≠ 0 := by omega
  have hm0 : m ≠ 0 := by omega
  have hd0 : d ≠ 0 := by omega
  rcases ho with ho | ho <;> cases withT <;>
  · by_cases hd12 : d ≤ 12 <;> cases hta : st.timeAsPeriod <;>
    simp [ho, hy1, hm1, hm2, hm31, hd1, hd31, hd12, hy0, hm0, hd0, hmk, hty, htm, hta]

/-- **C01_rfc2822**: `Www, DD Mon YYYY hh:mm:ss` (a trailing `+0000` is popped as the zone before tokenisation) —
    any order in which the day precedes the year works because the month is named -/
theorem C01_rfc2822 (st : PSettings) (y m d : Nat) (hd : DateOk y m d)
    (tw td tmn ty tt : List Char) (wk : Nat) (hty : ty.length = 4) (two : Bool) (full : Bool) (tmv : DT)
    (hord : st.order = [.month, .day, .year] ∨ st.order = [.day, .month, .year])
    (htm : timeParser tt = .ok tmv) (htv : tmv.h ≤ 23 ∧ tmv.mi ≤ 59 ∧ tmv.s ≤ 59 ∧ tmv.us ≤ 999999) :
    absParseToks st [tiWeekday tw wk none, rS td d two, tiMonthAbbr tmn m full none, rY ty y, rClock tt false] =
      .ok ({ y := y, mo := m, d := d, h := tmv.h, mi := tmv.mi, s := tmv.s, us := tmv.us }, if st.timeAsPeriod then .time else .day) := by
  have hmk := mkDT_time y m d tmv hd htv
  obtain ⟨hy1, hy2, hm1, hm2, hd1, hd2⟩ := hd
  have hd31 : d ≤ 31 := Nat.le_trans hd2 (dim_le_31 _ _)
  have hy0 : y ≠ 0 := by omega
  have hm0 : m ≠ 0 := by omega
  have hd0 : d ≠ 0 := by omega
  rcases hord with ho | ho <;> cases full <;>
  · by_cases hd12 : d ≤ 12 <;> cases hta : st.timeAsPeriod <;> cases two <;>
    simp [ho, hy1, hm1, hm2, hd1, hd31, hd12, hy0, hm0, hd0, hmk, hty, htm, hta]

/-- the token of a named month: full name (`%B`), or abbreviation (`%b`, possibly also a full name such as "may") -/
def rMonth (t : List Char) (m : Nat) (abbr alsoFull : Bool) : TI :=
  if abbr then tiMonthAbbr t m alsoFull none else tiMonthFull t m none

/-- **C01_named_month**: `Month D, YYYY` / `Mon D, YYYY` (month first) and `D Month YYYY` (day first), optionally followed by
    a clock time and an AM/PM marker; default (MDY) order as selected by the English locale -/
theorem C01_named_month (st : PSettings) (ho : st.order = [.month, .day, .year]) (y m d : Nat) (hd : DateOk y m d)
    (tmn td ty : List Char) (hty : ty.length = 4) (two abbr alsoFull monthFirst : Bool) :
    absParseToks st (if monthFirst then [rMonth tmn m abbr alsoFull, rS td d two, rY ty y]
                     else [rS td d two, rMonth tmn m abbr alsoFull, rY ty y]) = .ok ({ y := y, mo := m, d := d }, .day) := by
  obtain ⟨hy1, hy2, hm1, hm2, hd1, hd2⟩ := hd
  have hd31 : d ≤ 31 := Nat.le_trans hd2 (dim_le_31 _ _)
  have hy0 : y ≠ 0 := by omega
  have hm0 : m ≠ 0 := by omega
  have hd0 : d ≠ 0 := by omega
  have hmk : mkDT y m d 0 0 0 0 = .ok { y := y, mo := m, d := d } :=
    mkDT_ok _ _ _ _ _ _ _ ⟨hy1, hy2, hm1, hm2, hd1, hd2, by simp, by simp, by simp, by simp⟩
  cases monthFirst <;> cases abbr <;> cases alsoFull <;> cases two <;>
  · by_cases hd12 : d ≤ 12 <;>
    simp [rMonth, ho, hy1, hm1, hm2, hd1, hd31, hd12, hy0, hm0, hd0, hmk, hty]

/-- **C01_named_month_time**: the same two spellings followed by `hh:mm[:ss]` and optionally `AM`/`PM` -/
theorem C01_named_month_time (st : PSettings) (ho : st.order = [.month, .day, .year]) (y m d : Nat) (hd : DateOk y m d)
    (tmn td ty tt : List Char) (hty : ty.length = 4) (two abbr alsoFull monthFirst : Bool)
    (me : Option (List Char × List Char)) (tmv : DT)
    (htm : timeParser (match me with | some (_, mm) => tt ++ ' ' :: mm | none => tt) = .ok tmv)
    (htv : tmv.h ≤ 23 ∧ tmv.mi ≤ 59 ∧ tmv.s ≤ 59 ∧ tmv.us ≤ 999999) :
    absParseToks st ((if monthFirst then [rMonth tmn m abbr alsoFull, rS td d two, rY ty y]
                      else [rS td d two, rMonth tmn m abbr alsoFull, rY ty y]) ++ [rClock tt false] ++
                     (match me with | some (t, mm) => [rMerid t mm] | none => [])) =
      .ok ({ y := y, mo := m, d := d, h := tmv.h, mi := tmv.mi, s := tmv.s, us := tmv.us }, if st.timeAsPeriod then .time else .day) := by
  have hmk := mkDT_time y m d tmv hd htv
  obtain ⟨hy1, hy2, hm1, hm2, hd1, hd2⟩ := hd
  have hd31 : d ≤ 31 := Nat.le_trans hd2 (dim_le_31 _ _)
  have hy0 : y ≠ 0 := by omega
  have hm0 : m ≠ 0 := by omega
  have hd0 : d ≠ 0 := by omega
  cases me with
  | none =>
    simp only at htm
    cases monthFirst <;> cases abbr <;> cases alsoFull <;> cases two <;>
    · by_cases hd12 : d ≤ 12 <;> cases hta : st.timeAsPeriod <;>
      simp [rMonth, ho, hy1, hm1, hm2, hd1, hd31, hd12, hy0, hm0, hd0, hmk, hty, htm, hta]
  | some p =>
    obtain ⟨t, mm⟩ := p
    simp only at htm
    cases monthFirst <;> cases abbr <;> cases alsoFull <;> cases two <;>
    · by_cases hd12 : d ≤ 12 <;> cases hta : st.timeAsPeriod <;>
      simp [rMonth, ho, hy1, hm1, hm2, hd1, hd31, hd12, hy0, hm0, hd0, hmk, hty, htm, hta]

/-- **C01_timestamp** (arithmetic core): for every total second count `k` (seconds since ordinal 0 = epoch + seconds + offset)
    inside the representable range and every sub-second part, the epoch parser returns exactly that instant. -/
theorem C01_timestamp (secs off : Int) (k frac : Nat) (hf : frac ≤ 999999)
    (hk : (epochSecs : Int) + secs + off = (k : Int)) (hlo : 86400 ≤ k) (hhi : k < 3652060 * 86400) :
    ∃ t, timestampCore secs off frac = .ok t ∧ t.valid ∧ t.microsN = k * 1000000 + frac := by
  unfold timestampCore
  simp only [hk]
  have hnn : ¬ ((k : Int) < 0) := by omega
  rw [if_neg hnn, Int.toNat_natCast]
  obtain ⟨t0, ht0⟩ := ofMicrosN_ok (k * 1000000) (by omega) (by omega)
  rw [ht0]
  obtain ⟨hm, hv⟩ := ofMicrosN_spec _ _ ht0
  refine ⟨_, rfl, ?_, ?_⟩
  · obtain ⟨a1, a2, a3, a4, a5, a6, a7, a8, a9, _⟩ := hv
    exact ⟨a1, a2, a3, a4, a5, a6, a7, a8, a9, hf⟩
  · have hus : t0.us = 0 := by
      unfold ofMicrosN at ht0
      simp only at ht0
      split at ht0
      · cases ht0
      · injection ht0 with ht0
        rw [← ht0]
        simp only
        have e : dayUs = 86400000000 := rfl
        rw [e]
        omega
    unfold DT.microsN DT.tod DT.ord at hm
    rw [hus] at hm
    show toOrd t0.y t0.mo t0.d * dayUs + (((t0.h * 60 + t0.mi) * 60 + t0.s) * 1000000 + frac) = k * 1000000 + frac
    exact ts_fin _ _ _ _ hm

end DP
