import DPProofs.C14Round
/-!
# C14 — further `strptime ∘ strftime` round trips: `%d.%m.%Y %H:%M` and `%Y/%m/%d`
-/
namespace DP

/-! ### `%d.%m.%Y %H:%M` -/
def fmtDotHM : List Char := ['%','d','.','%','m','.','%','Y',' ','%','H',':','%','M']
def itemsDotHM : List FItem := [.dir 'd', .lit '.', .dir 'm', .lit '.', .dir 'Y', .ws, .dir 'H', .lit ':', .dir 'M']
theorem parseFmt_dotHM : parseFmt fmtDotHM [] = some itemsDotHM := by
  simp [fmtDotHM, itemsDotHM, parseFmt, numAlts, nameAlts, isWs, asciiDigit]
def renderDotHM (t : DT) : List Char := pad2c t.d ++ ['.'] ++ pad2c t.mo ++ ['.'] ++ pad4c t.y ++ [' '] ++ pad2c t.h ++ [':'] ++ pad2c t.mi

set_option maxHeartbeats 400000 in
theorem match_dotHM (y mo d h mi : Nat) (hy2 : y ≤ 9999) (hm : 1 ≤ mo ∧ mo ≤ 12) (hd : 1 ≤ d ∧ d ≤ 31) (hh : h ≤ 23) (hmi : mi ≤ 59) :
    matchItems true itemsDotHM (pad2c d ++ ['.'] ++ pad2c mo ++ ['.'] ++ pad4c y ++ [' '] ++ pad2c h ++ [':'] ++ pad2c mi) {} =
      some { Y := some y, m := some mo, d := some d, H := some h, M := some mi } := by
  have y1 : y / 1000 < 10 := by omega
  have y2 : y / 100 % 10 < 10 := by omega
  have y3 : y / 10 % 10 < 10 := by omega
  have y4 : y % 10 < 10 := by omega
  have ey : 1000 * (y / 1000) + 100 * (y / 100 % 10) + 10 * (y / 10 % 10) + y % 10 = y := by omega
  have m1 : mo / 10 < 10 := by omega
  have m2 : mo % 10 < 10 := by omega
  have em : 10 * (mo / 10) + mo % 10 = mo := by omega
  have d1 : d / 10 < 10 := by omega
  have d2 : d % 10 < 10 := by omega
  have ed : 10 * (d / 10) + d % 10 = d := by omega
  have a1 : h / 10 < 10 := by omega
  have a2 : h % 10 < 10 := by omega
  have eh : 10 * (h / 10) + h % 10 = h := by omega
  have b1 : mi / 10 < 10 := by omega
  have b2 : mi % 10 < 10 := by omega
  have emi : 10 * (mi / 10) + mi % 10 = mi := by omega
  simp only [itemsDotHM, pad4c, pad2c, List.cons_append, List.nil_append, List.append_assoc]
  rw [dir_two_d true _ _ _ d1 d2 _ _ (fun fd' => lit_rejects_digit true '.' _ _ d2 _ fd' (by simp)), ed]
  simp only [twoOk, hd, decide_true, and_self, if_true]
  rw [lit_eq true '.' _ _ _ (by simp)]
  rw [dir_two_m true _ _ _ m1 m2 _ _ (fun fd' => lit_rejects_digit true '.' _ _ m2 _ fd' (by simp)), em]
  simp only [twoOk, hm, decide_true, and_self, if_true]
  rw [lit_eq true '.' _ _ _ (by simp), dir_four_Y true _ _ _ _ _ y1 y2 y3 y4, ey]
  rw [ws_space_digit true _ _ a1]
  rw [dir_two_H true _ _ _ a1 a2 _ _ (fun fd' => lit_rejects_digit true ':' _ _ a2 _ fd' (by simp)), eh]
  simp only [twoOk, hh, decide_true, if_true]
  rw [lit_eq true ':' _ _ _ (by simp)]
  rw [dir_two_M true _ _ _ b1 b2 _ _ (fun fd' => end_rejects _ _ fd'), emi]
  simp only [twoOk, hmi, decide_true, if_true, nil_nil, Found.setNum]

/-- **C14_roundtrip_dotHM**: every valid datetime with zero seconds, rendered `dd.mm.YYYY HH:MM`, parses back with that format -/
theorem C14_roundtrip_dotHM (t : DT) (hv : t.valid) (h0 : t.s = 0 ∧ t.us = 0) : strptimeC (renderDotHM t) fmtDotHM true = .ok t := by
  obtain ⟨y, mo, d, h, mi, s, us⟩ := t
  obtain ⟨hy1, hy2, hm1, hm2, hd1, hd2, hh, hmi, _, _⟩ := hv
  obtain ⟨e3, e4⟩ := h0
  simp only at hy1 hy2 hm1 hm2 hd1 hd2 hh hmi e3 e4
  subst e3 e4
  have hd31 : d ≤ 31 := by have := dim_le_31 y mo; omega
  unfold strptimeC
  rw [parseFmt_dotHM]
  simp only [renderDotHM]
  rw [match_dotHM y mo d h mi hy2 ⟨hm1, hm2⟩ ⟨hd1, hd31⟩ hh hmi]
  have z1 : ¬ (y = 0 ∨ 9999 < y) := by omega
  have z2 : ¬ (mo = 0 ∨ 12 < mo) := by omega
  have z3 : ¬ (d = 0 ∨ dim y mo < d) := by omega
  have q4 : ¬ 23 < h := by omega
  have q5 : ¬ 59 < mi := by omega
  simp [foundToDT, mkDT, z1, z2, z3, q4, q5]

/-! ### `%Y/%m/%d` -/
def fmtYMDs : List Char := ['%','Y','/','%','m','/','%','d']
def itemsYMDs : List FItem := [.dir 'Y', .lit '/', .dir 'm', .lit '/', .dir 'd']
theorem parseFmt_ymds : parseFmt fmtYMDs [] = some itemsYMDs := by
  simp [fmtYMDs, itemsYMDs, parseFmt, numAlts, nameAlts, isWs, asciiDigit]
def renderYMDs (t : DT) : List Char := pad4c t.y ++ ['/'] ++ pad2c t.mo ++ ['/'] ++ pad2c t.d

theorem match_ymds (y mo d : Nat) (hy2 : y ≤ 9999) (hm : 1 ≤ mo ∧ mo ≤ 12) (hd : 1 ≤ d ∧ d ≤ 31) :
    matchItems true itemsYMDs (pad4c y ++ ['/'] ++ pad2c mo ++ ['/'] ++ pad2c d) {} = some { Y := some y, m := some mo, d := some d } := by
  have y1 : y / 1000 < 10 := by omega
  have y2 : y / 100 % 10 < 10 := by omega
  have y3 : y / 10 % 10 < 10 := by omega
  have y4 : y % 10 < 10 := by omega
  have ey : 1000 * (y / 1000) + 100 * (y / 100 % 10) + 10 * (y / 10 % 10) + y % 10 = y := by omega
  have m1 : mo / 10 < 10 := by omega
  have m2 : mo % 10 < 10 := by omega
  have em : 10 * (mo / 10) + mo % 10 = mo := by omega
  have d1 : d / 10 < 10 := by omega
  have d2 : d % 10 < 10 := by omega
  have ed : 10 * (d / 10) + d % 10 = d := by omega
  simp only [itemsYMDs, pad4c, pad2c, List.cons_append, List.nil_append, List.append_assoc]
  rw [dir_four_Y true _ _ _ _ _ y1 y2 y3 y4, ey, lit_eq true '/' _ _ _ (by simp)]
  rw [dir_two_m true _ _ _ m1 m2 _ _ (fun fd' => lit_rejects_digit true '/' _ _ m2 _ fd' (by simp)), em]
  simp only [twoOk, hm, decide_true, and_self, if_true]
  rw [lit_eq true '/' _ _ _ (by simp)]
  rw [dir_two_d true _ _ _ d1 d2 _ _ (fun fd' => end_rejects _ _ fd'), ed]
  simp only [twoOk, hd, decide_true, and_self, if_true, nil_nil, Found.setNum]

/-- **C14_roundtrip_ymd_slash**: every valid date, rendered `YYYY/mm/dd`, parses back with `%Y/%m/%d` -/
theorem C14_roundtrip_ymd_slash (t : DT) (hv : t.valid) (h0 : t.h = 0 ∧ t.mi = 0 ∧ t.s = 0 ∧ t.us = 0) :
    strptimeC (renderYMDs t) fmtYMDs true = .ok t := by
  obtain ⟨y, mo, d, h, mi, s, us⟩ := t
  obtain ⟨hy1, hy2, hm1, hm2, hd1, hd2, _, _, _, _⟩ := hv
  obtain ⟨e1, e2, e3, e4⟩ := h0
  simp only at hy1 hy2 hm1 hm2 hd1 hd2 e1 e2 e3 e4
  subst e1 e2 e3 e4
  have hd31 : d ≤ 31 := by have := dim_le_31 y mo; omega
  unfold strptimeC
  rw [parseFmt_ymds]
  simp only [renderYMDs]
  rw [match_ymds y mo d hy2 ⟨hm1, hm2⟩ ⟨hd1, hd31⟩]
  have z1 : ¬ (y = 0 ∨ 9999 < y) := by omega
  have z2 : ¬ (mo = 0 ∨ 12 < mo) := by omega
  have z3 : ¬ (d = 0 ∨ dim y mo < d) := by omega
  simp [foundToDT, mkDT, z1, z2, z3]

end DP
