import DPProofs.C08
import DPModel.DP.Pipeline
/-!
# C14 / C08 — a format that states a month but neither day nor year: the day is completed in the *current* year

`parse_with_formats` fills the current year in and completes the missing day; `Gen.pwfYearFirst` records the order of the two steps in the
source.  Completing the day first (as the pinned tree did) computes the last day of February in 1900, the year `strptime` supplies.
-/
namespace DP

/-- generated fact: the current year is filled in before month and day are completed -/
theorem pwf_year_first_source : Gen.pwfYearFirst = true := by decide

/-- **C14_yearless_month**: for every format with a month directive and neither `%d` nor a year directive, every month `strptime` can return
    (year 1900, day 1), every current date and every day preference: the result is in the current year, in the stated month, on the first
    day, the last day *of that month in the current year*, or the current day clamped to that length; period `month` -/
theorem C14_yearless_month (st : Settings) (f : String) (t : DT) (hv : t.valid) (hd : t.d = 1)
    (hm : (hasSub f "%m" || hasSub f "%b" || hasSub f "%B") = true) (hnd : hasSub f "%d" = false)
    (hny : (hasSub f "%y" || hasSub f "%Y") = false)
    (hy1 : 1 ≤ st.today.y) (hy2 : st.today.y ≤ 9999) (hc : 1 ≤ st.today.d) :
    pwfComplete st f t = .ok ({ t with y := st.today.y,
                                       d := match st.preferDay with
                                            | .first => 1 | .last => dim st.today.y t.mo | .current => min st.today.d (dim st.today.y t.mo) }, .month) := by
  obtain ⟨h1, h2, h3, h4, h5, h6, h7, h8, h9, h10⟩ := hv
  have hp := dim_pos st.today.y t.mo
  have hry : t.replaceYear st.today.y = .ok { t with y := st.today.y } := by
    unfold DT.replaceYear
    have h6' : t.d ≤ dim st.today.y t.mo := by rw [hd]; exact hp
    exact mkDT_ok _ _ _ _ _ _ _ ⟨hy1, hy2, h3, h4, h5, h6', h7, h8, h9, h10⟩
  have hv2 : ({ t with y := st.today.y } : DT).valid := ⟨hy1, hy2, h3, h4, h5, (by show t.d ≤ dim st.today.y t.mo; rw [hd]; exact hp), h7, h8, h9, h10⟩
  have hday := C08_day st.preferDay { t with y := st.today.y } st.today.d hv2 hc
  unfold pwfComplete
  simp only [hm, hnd, hny, pwf_year_first_source, Bool.not_true, Bool.not_false, Bool.false_and, Bool.and_true, Bool.true_and, Bool.and_false,
    if_true, if_false, bind, Except.bind, hry, hday, pure, Except.pure, Bool.false_eq_true]
  rfl

/-- non-vacuity and the point of the order: February named alone, 'last', in the leap year 2028 -/
example : pwfComplete { preferDay := .last, today := { y := 2028, mo := 7, d := 4 } } "%B" { y := 1900, mo := 2, d := 1 } =
    .ok ({ y := 2028, mo := 2, d := 29 }, .month) := by decide +kernel

end DP
