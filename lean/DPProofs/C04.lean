import DPProofs.Lemmas.Date
import DPProofs.C08
import DPModel.DP.Pipeline
/-!
# C04 — relative expressions are exact calendar arithmetic on the base

`shiftMonths` is the independent specification (month-index arithmetic, day clamped to the target month);
`rdAddYM` is dateutil's `relativedelta.__add__` modelled literally.
-/
namespace DP

/-- **C04_months_spec**: for every valid base and every (unbounded) count of years and months, dateutil's year/month
    arithmetic is month-index arithmetic with the day clamped to the last valid day. -/
theorem C04_months_spec (t : DT) (years months : Int) (hmo1 : 1 ≤ t.mo) (hmo2 : t.mo ≤ 12) :
    rdAddYM t years months = shiftMonths t (12 * years + months) := by
  unfold rdAddYM shiftMonths rdNormalize
  -- name the normalised pair
  by_cases hbig : months.natAbs > 11
  · simp only [hbig, if_true]
    by_cases hneg : months < 0
    · simp only [hneg, if_true]
      have e1 : ((t.y : Int) * 12 + (t.mo : Int) - 1 + (12 * years + months)) / 12 =
          (if (t.mo : Int) + months * -1 % 12 * -1 > 12 then (t.y : Int) + (years + months * -1 / 12 * -1) + 1
           else if (t.mo : Int) + months * -1 % 12 * -1 < 1 then (t.y : Int) + (years + months * -1 / 12 * -1) - 1
           else (t.y : Int) + (years + months * -1 / 12 * -1)) := by
        split <;> (try split) <;> omega
      have e2 : ((t.y : Int) * 12 + (t.mo : Int) - 1 + (12 * years + months)) % 12 + 1 =
          (if (t.mo : Int) + months * -1 % 12 * -1 > 12 then (t.mo : Int) + months * -1 % 12 * -1 - 12
           else if (t.mo : Int) + months * -1 % 12 * -1 < 1 then (t.mo : Int) + months * -1 % 12 * -1 + 12
           else (t.mo : Int) + months * -1 % 12 * -1) := by
        split <;> (try split) <;> omega
      rw [e1, e2]
    · simp only [hneg, if_false]
      have e1 : ((t.y : Int) * 12 + (t.mo : Int) - 1 + (12 * years + months)) / 12 =
          (if (t.mo : Int) + months * 1 % 12 * 1 > 12 then (t.y : Int) + (years + months * 1 / 12 * 1) + 1
           else if (t.mo : Int) + months * 1 % 12 * 1 < 1 then (t.y : Int) + (years + months * 1 / 12 * 1) - 1
           else (t.y : Int) + (years + months * 1 / 12 * 1)) := by
        split <;> (try split) <;> omega
      have e2 : ((t.y : Int) * 12 + (t.mo : Int) - 1 + (12 * years + months)) % 12 + 1 =
          (if (t.mo : Int) + months * 1 % 12 * 1 > 12 then (t.mo : Int) + months * 1 % 12 * 1 - 12
           else if (t.mo : Int) + months * 1 % 12 * 1 < 1 then (t.mo : Int) + months * 1 % 12 * 1 + 12
           else (t.mo : Int) + months * 1 % 12 * 1) := by
        split <;> (try split) <;> omega
      rw [e1, e2]
  · simp only [hbig, if_false]
    have e1 : ((t.y : Int) * 12 + (t.mo : Int) - 1 + (12 * years + months)) / 12 =
        (if (t.mo : Int) + months > 12 then (t.y : Int) + years + 1
         else if (t.mo : Int) + months < 1 then (t.y : Int) + years - 1 else (t.y : Int) + years) := by
      split <;> (try split) <;> omega
    have e2 : ((t.y : Int) * 12 + (t.mo : Int) - 1 + (12 * years + months)) % 12 + 1 =
        (if (t.mo : Int) + months > 12 then (t.mo : Int) + months - 12
         else if (t.mo : Int) + months < 1 then (t.mo : Int) + months + 12 else (t.mo : Int) + months) := by
      split <;> (try split) <;> omega
    rw [e1, e2]

/-- the specification itself, characterised: the result (when representable) has month index `idx + k`, the same clock
    time, and the day is the base day clamped to the length of the target month -/
theorem shiftMonths_spec (t r : DT) (k : Int) (hv : t.valid) (h : shiftMonths t k = .ok r) :
    (r.y : Int) * 12 + r.mo - 1 = (t.y : Int) * 12 + t.mo - 1 + k ∧ 1 ≤ r.mo ∧ r.mo ≤ 12 ∧
    r.d = min t.d (dim r.y r.mo) ∧ r.h = t.h ∧ r.mi = t.mi ∧ r.s = t.s ∧ r.us = t.us ∧ r.valid := by
  obtain ⟨h1, h2, h3, h4, h5, h6, h7, h8, h9, h10⟩ := hv
  unfold shiftMonths at h
  simp only at h
  generalize hidx : (t.y : Int) * 12 + (t.mo : Int) - 1 + k = idx at *
  split at h
  · cases h
  · rename_i hr
    have hy1 : 1 ≤ (idx / 12).toNat := by omega
    have hy2 : (idx / 12).toNat ≤ 9999 := by omega
    have hm1 : 1 ≤ (idx % 12 + 1).toNat := by omega
    have hm2 : (idx % 12 + 1).toNat ≤ 12 := by omega
    generalize hY : (idx / 12).toNat = Y at *
    generalize hM : (idx % 12 + 1).toNat = M at *
    have hp := dim_pos Y M
    have hdv : DT.valid { y := Y, mo := M, d := min t.d (dim Y M), h := t.h, mi := t.mi, s := t.s, us := t.us } :=
      ⟨hy1, hy2, hm1, hm2, by simp only; omega, by simp only; omega, h7, h8, h9, h10⟩
    rw [mkDT_ok _ _ _ _ _ _ _ hdv] at h
    injection h with h
    subst h
    refine ⟨?_, hm1, hm2, rfl, rfl, rfl, rfl, rfl, hdv⟩
    simp only
    omega

/-- **C04_additive**: several units add up — first the year/month part (with the clamp), then the linear part
    (weeks, days, hours, minutes, seconds) as an exact number of microseconds -/
theorem C04_additive (now r : DT) (sign : Int) (rd : RelDelta) (hv : now.valid) (h : applyRelDelta now sign rd = .ok r) :
    ∃ t1, shiftMonths now (12 * (sign * rd.years) + sign * rd.months) = .ok t1 ∧ r.micros = t1.micros + sign * rd.micros ∧ r.valid := by
  unfold applyRelDelta at h
  simp only [bind, Except.bind] at h
  rw [C04_months_spec now _ _ hv.2.2.1 hv.2.2.2.1] at h
  split at h
  · cases h
  · rename_i t1 ht1
    exact ⟨t1, ht1, addMicros_spec t1 r _ h⟩

/-- **C04_overflow**: when the result would leave the representable range the relative parser raises only errors that
    `_try_freshness_parser` turns into `None` (its `except` tuple is read from the source) -/
theorem C04_overflow (now : DT) (sign : Int) (rd : RelDelta) (e : PyErr) (hv : now.valid)
    (h : applyRelDelta now sign rd = .error e) : caughtBy Gen.exceptTryFreshness e = true := by
  unfold applyRelDelta at h
  simp only [bind, Except.bind] at h
  rw [C04_months_spec now _ _ hv.2.2.1 hv.2.2.2.1] at h
  have hcv : ∀ m, caughtBy Gen.exceptTryFreshness (.value m) = true := by intro m; cases m <;> decide
  have hco : caughtBy Gen.exceptTryFreshness .overflow = true := by decide
  split at h
  · rename_i e1 he1
    injection h with h; subst h
    -- shiftMonths raises only ValueError
    unfold shiftMonths at he1
    simp only at he1
    split at he1
    · injection he1 with he1; subst he1; exact hcv _
    · unfold mkDT at he1
      repeat (split at he1; · injection he1 with he1; subst he1; exact hcv _)
      cases he1
  · rename_i t1 ht1
    unfold DT.addMicros ofMicros at h
    split at h
    · injection h with h; subst h; exact hco
    · unfold ofMicrosN at h
      simp only at h
      split at h
      · injection h with h; subst h; exact hco
      · cases h

/-- **C04_time_override**: an explicit clock time replaces hour, minute, second and microsecond; the date is untouched -/
theorem C04_time_override (t tm : DT) :
    let r : DT := { t with h := tm.h, mi := tm.mi, s := tm.s, us := tm.us }
    r.y = t.y ∧ r.mo = t.mo ∧ r.d = t.d ∧ r.h = tm.h ∧ r.mi = tm.mi ∧ r.s = tm.s ∧ r.us = tm.us :=
  ⟨rfl, rfl, rfl, rfl, rfl, rfl, rfl⟩

/-- **C04_period**: the reported period is 'day' when the phrase counts days, otherwise the finest of week, month and
    year that it counts (decades were folded into years before), and 'day' when it counts none of them -/
theorem C04_period (has : String → Bool) :
    (has "days" = true → relPeriodOf has = .day) ∧
    (has "days" = false → has "weeks" = true → relPeriodOf has = .week) ∧
    (has "days" = false → has "weeks" = false → has "months" = true → relPeriodOf has = .month) ∧
    (has "days" = false → has "weeks" = false → has "months" = false → has "years" = true → relPeriodOf has = .year) ∧
    (has "days" = false → has "weeks" = false → has "months" = false → has "years" = false → relPeriodOf has = .day) := by
  have hk : Gen.freshPeriodKeys = ["weeks", "months", "years"] := by rfl
  unfold relPeriodOf
  rw [hk]
  refine ⟨?_, ?_, ?_, ?_, ?_⟩
  · intro a; simp [a]
  · intro a b; simp [a, b, List.find?]
  · intro a b c; simp [a, b, c, List.find?]
  · intro a b c d; simp [a, b, c, d, List.find?]
  · intro a b c d; simp [a, b, c, d, List.find?]

/-- **C04_direction**: `in` ⇒ forward; `ago` (without `in`) ⇒ backward; neither ⇒ forward exactly when future dates are preferred -/
theorem C04_direction (pd : PrefDates) :
    (∀ hasAgo, relPlus true hasAgo pd = true) ∧ relPlus false true pd = false ∧
    (relPlus false false pd = true ↔ pd = .future) := by
  refine ⟨?_, ?_, ?_⟩
  · intro a; simp [relPlus]
  · simp [relPlus]
  · cases pd <;> simp [relPlus]

/-- non-vacuity: month ends clamp, leap day included -/
example : shiftMonths { y := 2024, mo := 1, d := 31, h := 10 } 1 = .ok { y := 2024, mo := 2, d := 29, h := 10 } := by rfl
example : shiftMonths { y := 2024, mo := 2, d := 29 } (-12) = .ok { y := 2023, mo := 2, d := 28 } := by rfl
example : rdAddYM { y := 2020, mo := 3, d := 31 } (-1) (-25) = .ok { y := 2017, mo := 2, d := 28 } := by rfl


/-- generated fact: the source decides the period 'time' by a clock time having been parsed, not by the datetime having changed -/
theorem C04_time_period_source : Gen.freshTimePeriodByChange = false := by decide

/-- **C04_time_period**: when time-as-period is requested and the phrase carries a clock time, the period is 'time' — also when that
    clock time equals the reference's own time of day (the defect of the pinned tree: 'yesterday at 00:00' at a midnight reference) -/
theorem C04_time_period (changed : Bool) (p : Period) : freshPeriod true changed p = .time := by
  simp [freshPeriod, C04_time_period_source]

/-- without the request the period is untouched -/
theorem C04_time_period_off (changed : Bool) (p : Period) : freshPeriod false changed p = p := by
  simp [freshPeriod]

end DP
