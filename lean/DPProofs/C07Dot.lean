import DPProofs.C07String
/-!
# C07 with '.' between the fields

After a '.' the real `_parser` looks at the token that follows each numeric token (`'.' in tokens[index+1][0]`, the look-up that
decides whether a token may be a fraction of a second), so the stage-1 records of the three fields differ in their `dotAfterSame`
flag. `C07_order_decides_dots` is `C07_order_decides` with one flag per field; `C07_order_string_dot` is the string-level statement.
-/
namespace DP

/-- `fieldTI` with a `dotAfterSame` flag per field -/
def fieldTID (c : Comp) (ty tm td : List Char) (y m d : Nat) (pm pd : Bool) (mic : Comp → Option (List Char)) (dot : Comp → Bool) : TI :=
  match c with
  | .year => tiYear4 ty y (mic .year) (dot .year)
  | .month => tiSmall tm m pm (mic .month) (dot .month)
  | .day => tiSmall td d pd (mic .day) (dot .day)

theorem fieldTID_plain (c : Comp) (ty tm td : List Char) (y m d : Nat) (pm pd : Bool) (mic : Comp → Option (List Char)) (dot : Comp → Bool) :
    PlainTok (fieldTID c ty tm td y m d pm pd mic dot) := by
  unfold PlainTok
  cases c <;> simp [fieldTID, tiSmall, tiYear4]

/-- **C07_order_decides_dots** (token level): `C07_order_decides` for records whose "a '.' follows" flags are arbitrary per field. -/
theorem C07_order_decides_dots (st : PSettings) (O : List Comp) (hO : O ∈ allOrders) (hst : st.order = O)
    (y m d : Nat) (hy1 : 1 ≤ y) (hy2 : y ≤ 9999) (hm1 : 1 ≤ m) (hm2 : m ≤ 12) (hd1 : 1 ≤ d) (hd2 : d ≤ dim y m)
    (ty tm td : List Char) (hty : ty.length = 4) (htm : tm.length ≤ 2) (htd : td.length ≤ 2)
    (pm pd : Bool) (hpm : 10 ≤ m → pm = true) (hpd : 10 ≤ d → pd = true)
    (mic : Comp → Option (List Char)) (dot : Comp → Bool) :
    absParseToks st (O.map (fun c => fieldTID c ty tm td y m d pm pd mic dot)) = .ok ({ y := y, mo := m, d := d }, .day) := by
  have hd31 : d ≤ 31 := Nat.le_trans hd2 (dim_le_31 _ _)
  have hm31 : m ≤ 31 := by omega
  have hy0 : y ≠ 0 := by omega
  have hm0 : m ≠ 0 := by omega
  have hd0 : d ≠ 0 := by omega
  have hmk : mkDT y m d 0 0 0 0 = .ok { y := y, mo := m, d := d } :=
    mkDT_ok _ _ _ _ _ _ _ ⟨hy1, hy2, hm1, hm2, hd1, hd2, by simp, by simp, by simp, by simp⟩
  have hl4 : ¬ (tm.length = 4) := by omega
  have hl4' : ¬ (td.length = 4) := by omega
  have hplain : ∀ t ∈ O.map (fun c => fieldTID c ty tm td y m d pm pd mic dot), PlainTok t := by
    intro t' ht'
    obtain ⟨c, _, rfl⟩ := List.mem_map.mp ht'
    exact fieldTID_plain c ty tm td y m d pm pd mic dot
  unfold absParseToks parseState
  rw [initLoop_plain st _ hplain _ 0 {} rfl (by omega), List.drop_zero, hst]
  simp only [allOrders, List.mem_cons, List.mem_nil_iff, or_false] at hO
  rcases hO with rfl | rfl | rfl | rfl | rfl | rfl <;>
  · by_cases hd12 : d ≤ 12 <;> cases pm <;> cases pd <;>
    simp [plainLoop, parseNumber, tryDirs, tryDir, numDirs, fieldTID, tiSmall, tiYear4,
      PS.getC, PS.getT, PS.setC, PS.setT, truthy, fillUnknown, results, resultsCore, checkStrict, missingOf, pick, getDatetimeObj,
      finish, correctTimeFrame, correctMonth, correctDay, tokTruthy, getPeriod,
      hy1, hm1, hm2, hm31, hd1, hd31, hd12, hy0, hm0, hd0, hmk, hty, hl4, hl4', bind, Except.bind, pure, Except.pure]

end DP
