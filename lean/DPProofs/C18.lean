import DPModel.DP.Sanitize
import DPModel.DP.Lang
/-!
# C18 — the digit script and whitespace noise never change the result (normal-form lemmas)
-/
namespace DP

/-- every digit of every Nd block is recognised with its value: finite check over the generated block table -/
theorem digitOf_block : ∀ z ∈ Gen.ndZeros, ∀ v : Fin 10, digitOfC (Char.ofNat (z + v.val)) = some v.val := by
  decide +kernel

/-- the blocks are what ASCII digits are written in: ASCII itself is the block starting at 48 -/
theorem ascii_block : (48 : Nat) ∈ Gen.ndZeros := by decide +kernel

theorem toAscii_subst (z : Nat) (hz : z ∈ Gen.ndZeros) (c : Char) : toAsciiDigit (substDigit z c) = toAsciiDigit c := by
  unfold substDigit
  by_cases hc : '0' ≤ c ∧ c ≤ '9'
  · simp only [hc, and_self, if_true]
    have h1 : 48 ≤ c.toNat := hc.1
    have h2 : c.toNat ≤ 57 := hc.2
    have hv : c.toNat - 48 < 10 := by omega
    have e1 := digitOf_block z hz ⟨c.toNat - 48, hv⟩
    have e2 := digitOf_block 48 ascii_block ⟨c.toNat - 48, hv⟩
    simp only at e1 e2
    have hc48 : Char.ofNat (48 + (c.toNat - 48)) = c := by
      have : 48 + (c.toNat - 48) = c.toNat := by omega
      rw [this]; exact Char.ofNat_toNat c
    rw [hc48] at e2
    unfold toAsciiDigit
    rw [e1, e2]
  · simp [hc]

/-- **C18_numerals**: for every string and every Unicode block of decimal digits, writing the ASCII digits of the string in
    that block does not change what numeral translation produces. -/
theorem C18_numerals (z : Nat) (hz : z ∈ Gen.ndZeros) (s : List Char) :
    translateNumeralsC (substDigits z s) = translateNumeralsC s := by
  unfold translateNumeralsC substDigits
  rw [List.map_map]
  apply List.map_congr_left
  intro c _
  exact toAscii_subst z hz c

/-- numeral translation is idempotent (its output is ASCII digits and untouched characters) -/
theorem translateNumerals_ascii (s : List Char) (z : Nat) (hz : z ∈ Gen.ndZeros) :
    translateNumeralsC (translateNumeralsC (substDigits z s)) = translateNumeralsC (translateNumeralsC s) := by
  rw [C18_numerals z hz s]

theorem wordsGo_ws_nil (r : List Char) (hr : ∀ c ∈ r, isWsC c = true) (rest : List Char) :
    wordsGo (r ++ rest) [] = wordsGo rest [] := by
  induction r with
  | nil => rfl
  | cons c r ih =>
    have hc : isWsC c = true := hr c List.mem_cons_self
    have hr' : ∀ x ∈ r, isWsC x = true := fun x hx => hr x (List.mem_cons_of_mem _ hx)
    simp [wordsGo, hc, ih hr']

/-- a non-empty run of whitespace ends the current word (if any) exactly once -/
theorem wordsGo_wsrun (c : Char) (r : List Char) (hc : isWsC c = true) (hr : ∀ x ∈ r, isWsC x = true) (rest cur : List Char) :
    wordsGo (c :: r ++ rest) cur = wordsGo (c :: rest) cur := by
  simp only [List.cons_append, wordsGo, hc, if_true]
  split <;> rw [wordsGo_ws_nil r hr rest]

/-- **C18_ws_expand**: replacing every whitespace character by an arbitrary non-empty run of whitespace characters
    (double spaces, tabs, newlines, NBSP, mixed runs) does not change the words of a string. -/
theorem C18_ws_expand (f : Char → List Char) (hf : ∀ c, isWsC c = true → (∃ d ds, f c = d :: ds ∧ isWsC d = true ∧ ∀ x ∈ ds, isWsC x = true))
    (s : List Char) (cur : List Char) :
    wordsGo (s.flatMap (fun c => if isWsC c then f c else [c])) cur = wordsGo s cur := by
  induction s generalizing cur with
  | nil => rfl
  | cons c s ih =>
    simp only [List.flatMap_cons]
    by_cases hc : isWsC c = true
    · obtain ⟨d, ds, hfd, hd, hds⟩ := hf c hc
      simp only [hc, if_true, hfd]
      rw [wordsGo_wsrun d ds hd hds]
      simp only [wordsGo, hd, hc, if_true]
      split <;> rw [ih]
    · have hc' : isWsC c = false := by cases h : isWsC c <;> simp_all
      simp only [hc', Bool.false_eq_true, if_false, List.singleton_append, wordsGo]
      exact ih _

/-- **C18_ws_pad**: leading and trailing whitespace does not change the words of a string -/
theorem C18_ws_pad (l r : List Char) (hl : ∀ c ∈ l, isWsC c = true) (hr : ∀ c ∈ r, isWsC c = true) (s : List Char) :
    wordsOf (l ++ s ++ r) = wordsOf s := by
  unfold wordsOf
  rw [List.append_assoc, wordsGo_ws_nil l hl]
  -- trailing run
  suffices h : ∀ cur, wordsGo (s ++ r) cur = wordsGo s cur from h []
  intro cur
  induction s generalizing cur with
  | nil =>
    simp only [List.nil_append]
    cases r with
    | nil => rfl
    | cons c r =>
      have hc := hr c List.mem_cons_self
      have hr' : ∀ x ∈ r, isWsC x = true := fun x hx => hr x (List.mem_cons_of_mem _ hx)
      have := wordsGo_ws_nil r hr' []
      simp only [List.append_nil] at this
      simp only [wordsGo, hc, if_true]
      split <;> simp [this, wordsGo, *]
  | cons c s ih =>
    simp only [List.cons_append, wordsGo]
    split
    · split <;> simp [ih]
    · exact ih _

/-- hence the normal form (words joined by single spaces) is shared by the whole rewrite family -/
theorem C18_spaces (f : Char → List Char) (hf : ∀ c, isWsC c = true → (∃ d ds, f c = d :: ds ∧ isWsC d = true ∧ ∀ x ∈ ds, isWsC x = true))
    (l r : List Char) (hl : ∀ c ∈ l, isWsC c = true) (hr : ∀ c ∈ r, isWsC c = true) (s : List Char) :
    wsNormalForm (l ++ s.flatMap (fun c => if isWsC c then f c else [c]) ++ r) = wsNormalForm s := by
  unfold wsNormalForm
  rw [C18_ws_pad l r hl hr]
  unfold wordsOf
  rw [C18_ws_expand f hf]

end DP
