import DPProofs.Lemmas.Date
import DPModel.DP.Pipeline
/-!
# C11 / C12 — the timezone pipeline on fixed offsets: a zone written in the string is attached exactly; the TIMEZONE / TO_TIMEZONE
settings preserve the instant; awareness follows the setting.  (IANA zones are parameters of the model: `needFixed` refuses them,
and the corresponding clauses are checked on the library against pytz.)
-/
namespace DP

theorem astimezone_spec (x y : ADT) (b : Int) (h : astimezone x b = .ok y) :
    y.off = some b ∧ y.t.micros = x.t.micros + (b - x.off.getD 0) * 1000000 ∧ y.t.valid := by
  unfold astimezone at h
  simp only [bind, Except.bind, pure, Except.pure] at h
  split at h
  · cases h
  · rename_i u hu
    split at h
    · cases h
    · rename_i t ht
      injection h with h; subst h
      have h1 := addSeconds_spec _ _ _ hu
      have h2 := addSeconds_spec _ _ _ ht
      refine ⟨rfl, ?_, h2.2⟩
      simp only
      rw [h2.1, h1.1]
      generalize x.off.getD 0 = a
      generalize x.t.micros = m
      have e : (b - a) * 1000000 = b * 1000000 - a * 1000000 := Int.sub_mul b a 1000000
      have e2 : (-a) * 1000000 = -(a * 1000000) := Int.neg_mul a 1000000
      rw [e, e2]
      generalize b * 1000000 = B
      generalize a * 1000000 = A
      omega

theorem astimezone_instant (x y : ADT) (b : Int) (h : astimezone x b = .ok y) : y.instant = x.instant := by
  obtain ⟨h1, h2, _⟩ := astimezone_spec x y b h
  unfold ADT.instant
  rw [h1, h2]
  simp only [Option.getD_some]
  generalize x.off.getD 0 = a
  generalize x.t.micros = m
  have e : (b - a) * 1000000 = b * 1000000 - a * 1000000 := Int.sub_mul b a 1000000
  rw [e]
  generalize b * 1000000 = B
  generalize a * 1000000 = A
  omega

/-- **C11_attach**: under the default settings (TIMEZONE='local', no TO_TIMEZONE, default awareness) a zone popped from the
    string is attached as it is: all wall-clock fields are those parsed and the UTC offset is exactly the popped one. -/
theorem C11_attach (st : Settings) (o : Int) (t : DT) (hl : isLocalTz st = true) (ht : st.toTimezone = none) (ha : st.aware = none) :
    zonePipeline st (some o) t = .ok { t := t, off := some o } := by
  simp [zonePipeline, hl, ht, ha, applyAwareness, bind, Except.bind, pure, Except.pure]

/-- **C11_naive**: a string that carries no zone yields a naive result with the parsed wall clock under the default awareness
    (whatever TIMEZONE resolves to, as long as it resolves), when no TO_TIMEZONE is set. -/
theorem C11_naive (st : Settings) (t : DT) (ht : st.toTimezone = none) (ha : st.aware = none)
    (hres : isLocalTz st = true ∨ ∃ b, st.tzLocalize = .fixed b) :
    zonePipeline st none t = .ok { t := t, off := none } := by
  rcases hres with hl | ⟨b, hb⟩
  · simp [zonePipeline, hl, ht, ha, applyAwareness, bind, Except.bind, pure, Except.pure]
  · by_cases hl : isLocalTz st = true
    · simp [zonePipeline, hl, ht, ha, applyAwareness, bind, Except.bind, pure, Except.pure]
    · simp [zonePipeline, hl, ht, ha, hb, needFixed, applyAwareness, bind, Except.bind, pure, Except.pure]

/-- **C12_instant_fixed**: with RETURN_AS_TIMEZONE_AWARE=True and fixed offsets `a` = TIMEZONE, `b` = TO_TIMEZONE, the result
    denotes the instant "wall clock `t` at offset `a`" (or at the string's own offset `z`), re-expressed at offset `b`. -/
theorem C12_instant_fixed (st : Settings) (ptz : Option Int) (t : DT) (a b : Int) (r : ADT)
    (hl : isLocalTz st = false) (hta : st.tzLocalize = .fixed a) (hta' : st.tzApply = .fixed a)
    (htt : st.toTimezone.isSome = true) (htb : st.toTzApply = .fixed b) (haw : st.aware = some true)
    (h : zonePipeline st ptz t = .ok r) :
    r.off = some b ∧ r.instant = t.micros - (ptz.getD a) * 1000000 := by
  unfold zonePipeline at h
  simp only [hl, hta, hta', htt, htb, needFixed, bind, Except.bind, pure, Except.pure, if_true, Bool.false_eq_true, if_false] at h
  cases ptz with
  | some z =>
    simp only at h
    split at h
    · cases h
    · rename_i x1 hx1
      split at h
      · cases h
      · rename_i x2 hx2
        injection h with h; subst h
        have i1 := astimezone_instant _ _ _ hx1
        have i2 := astimezone_instant _ _ _ hx2
        have o2 := (astimezone_spec _ _ _ hx2).1
        simp only [applyAwareness, haw]
        refine ⟨o2, ?_⟩
        rw [i2, i1]
        simp [ADT.instant]
  | none =>
    simp only at h
    split at h
    · cases h
    · rename_i x2 hx2
      injection h with h; subst h
      have i2 := astimezone_instant _ _ _ hx2
      have o2 := (astimezone_spec _ _ _ hx2).1
      simp only [applyAwareness, haw]
      refine ⟨o2, ?_⟩
      rw [i2]
      simp [ADT.instant]

/-- **C12_aware**: RETURN_AS_TIMEZONE_AWARE=True ⇒ aware; False ⇒ naive; default ⇒ aware exactly when the string named a zone.
    The wall clock is the same in all three (`applyAwareness` only drops the offset). -/
theorem C12_aware (st : Settings) (x : ADT) (hx : x.off.isSome = true) (ptz : Bool) :
    (applyAwareness st x ptz).t = x.t ∧
    (st.aware = some true → (applyAwareness st x ptz).off.isSome = true) ∧
    (st.aware = some false → (applyAwareness st x ptz).off = none) ∧
    (st.aware = none → ((applyAwareness st x ptz).off.isSome = ptz)) := by
  unfold applyAwareness
  refine ⟨?_, ?_, ?_, ?_⟩
  · cases st.aware with
    | none => cases ptz <;> rfl
    | some b => cases b <;> rfl
  · intro h; rw [h]; exact hx
  · intro h; rw [h]
  · intro h; rw [h]; cases ptz <;> simp [hx]

/-- non-vacuity: 10:00 at +05:30 re-expressed at −08:00 is 20:30 of the previous day -/
example : astimezone { t := { y := 2021, mo := 3, d := 1, h := 10 }, off := some 19800 } (-28800) =
    .ok { t := { y := 2021, mo := 2, d := 28, h := 20, mi := 30 }, off := some (-28800) } := by decide +kernel

end DP
