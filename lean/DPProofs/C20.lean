import DPModel.DP.Interleave
/-!
# C20 — concurrent calls return what the same calls return sequentially (single-preemption model)
-/
namespace DP.Shared

/-- sequentially every call parses with its own locale's order -/
theorem sequential_seen (w : World) (a b : Thread) :
    (sequential w a b).1.seen = some a.localeOrder ∧ (sequential w a b).2.seen = some b.localeOrder := by
  simp [sequential, runActs, callActs, stepAct]

/-- the full-strength statement of C20 in this model -/
def C20_statement : Prop :=
  ∀ (w : World) (a b : Thread) (k : Nat), k ≤ callActs.length →
    (preempt w a b k).1.seen = (sequential w a b).1.seen ∧ (preempt w a b k).2.seen = (sequential w a b).2.seen

/-- **C20_same_config**: two calls over a settings value whose own DATE_ORDER is already the order of both locales (e.g. English
    with default settings, or an explicitly supplied DATE_ORDER) are unaffected by any single preemption -/
theorem C20_same_config (w : World) (a b : Thread) (k : Nat) (hk : k ≤ callActs.length)
    (ha : a.localeOrder = w.base) (hb : b.localeOrder = w.base) :
    (preempt w a b k).1.seen = (sequential w a b).1.seen ∧ (preempt w a b k).2.seen = (sequential w a b).2.seen := by
  have hk' : k = 0 ∨ k = 1 ∨ k = 2 ∨ k = 3 ∨ k = 4 ∨ k = 5 := by simp [callActs] at hk; omega
  rcases hk' with rfl | rfl | rfl | rfl | rfl | rfl <;>
    simp [preempt, sequential, runActs, callActs, stepAct, ha, hb]

/-- **C20_same_locale_counterexample**: even two calls with the *same* language diverge when that language's order differs from
    the settings value's own DATE_ORDER (two French calls with default settings): B's re-init and restore leave the base order
    in place while A is between its write and its parse. -/
theorem C20_same_locale_counterexample :
    (preempt { cur := 0, base := 0 } { localeOrder := 1 } { localeOrder := 1 } 3).1.seen ≠
    (sequential { cur := 0, base := 0 } { localeOrder := 1 } { localeOrder := 1 }).1.seen := by decide

/-- **C20_counterexample**: with different date orders and one shared settings value the statement is false — B's `reinit`
    (the `Settings.__init__` re-run on the registry hit) between A's write and A's parse makes A parse with the wrong order.
    There is no lock and no per-call copy in the code: recorded as a known finding, keyed by shared site. -/
theorem C20_counterexample : ¬ C20_statement := by
  intro h
  have := (h { cur := 0, base := 0 } { localeOrder := 1 } { localeOrder := 2 } 3 (by decide)).1
  revert this
  decide

/-- the window is exactly between the write and the parse: before the write and after the parse a preemption is harmless for A -/
theorem C20_window (w : World) (a b : Thread) (k : Nat) (hk : k ≤ 2 ∨ (4 ≤ k ∧ k ≤ 5)) :
    (preempt w a b k).1.seen = (sequential w a b).1.seen := by
  have hk' : k = 0 ∨ k = 1 ∨ k = 2 ∨ k = 4 ∨ k = 5 := by omega
  rcases hk' with rfl | rfl | rfl | rfl | rfl <;>
    simp [preempt, sequential, runActs, callActs, stepAct]

end DP.Shared
