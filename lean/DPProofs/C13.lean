import DPModel.DP.Pipeline
/-!
# C13 — language selection is honoured; autodetection is reproducible

Statements about the orchestrator (`get_date_data` / `_get_applicable_locales`) with the per-locale parse as it is in the
model (`localeParse`, a function of its arguments: that it *is* one in the implementation is C03).
-/
namespace DP

/-- outcome "this locale produced a result" -/
def GddOutcome.isHit : GddOutcome → Bool
  | .res (.ok none) => false
  | _ => true

/-- **C13_first**: the selected locales are tried in list order; the outcome is that of the first locale which is applicable
    (to the string or its zone-stripped form) and whose parse produces something; `none` if there is no such locale. -/
theorem C13_first (T : TzTable) (st : Settings) (cands : List String) (s : String) (fmts : List String) (locs : List LocEntry) :
    tryLocales T st cands s fmts locs =
      match locs.find? (fun le => cands.any (fun c => le.L.isApplicable c) && (localeParse T st le s fmts).isHit) with
      | some le => localeParse T st le s fmts
      | none => .res (.ok none) := by
  induction locs with
  | nil => rfl
  | cons le rest ih =>
    unfold tryLocales
    by_cases ha : cands.any (fun c => le.L.isApplicable c) = true
    · simp only [ha, if_true, List.find?, Bool.true_and]
      cases hp : localeParse T st le s fmts with
      | bad w => simp [GddOutcome.isHit, hp]
      | res r =>
        cases r with
        | error e => simp [GddOutcome.isHit, hp]
        | ok o =>
          cases o with
          | none => simp [GddOutcome.isHit, ih]
          | some v => simp [GddOutcome.isHit, hp]
    · simp only [ha, List.find?, Bool.false_and]
      exact ih

theorem localeParseGo_locale (T : TzTable) (st : Settings) (le : LocEntry) (s : String) (fmts : List String) (ps : List String) (r : Result)
    (h : localeParseGo T st le s fmts ps = .res (.ok (some r))) : r.locale = le.name := by
  induction ps with
  | nil => simp [localeParseGo] at h
  | cons pn rest ih =>
    unfold localeParseGo at h
    split at h
    · cases h
    · cases h
    · cases h
    · split at h
      · injection h with h; injection h with h; injection h with h; subst h; rfl
      · exact ih h
    · exact ih h

/-- **C13_member**: the locale reported with a result is one of the selected locales or one of the DEFAULT_LANGUAGES locales
    (custom formats matched on the raw string report no locale). -/
theorem C13_member (T : TzTable) (st : Settings) (locs dflt : List LocEntry) (s : String) (fmts : List String) (r : Result)
    (h : getDateData T st locs dflt s fmts = .res (.ok (some r))) :
    r.locale = "" ∨ r.locale ∈ (locs ++ dflt).map (·.name) := by
  unfold getDateData at h
  split at h
  · cases h
  · cases h
  · cases h
  · injection h with h; injection h with h; injection h with h; subst h; left; rfl
  · right
    simp only at h
    have key : ∀ (ls : List LocEntry) cands, tryLocales T st cands (sanitizeDate s) fmts ls = .res (.ok (some r)) → r.locale ∈ ls.map (·.name) := by
      intro ls cands
      induction ls with
      | nil => intro hh; simp [tryLocales] at hh
      | cons le rest ih =>
        intro hh
        unfold tryLocales at hh
        split at hh
        · split at hh
          · exact List.mem_cons_of_mem _ (ih hh)
          · rename_i hne
            have := localeParseGo_locale T st le (sanitizeDate s) fmts st.parsers r hh
            rw [this]; exact List.mem_cons_self
        · exact List.mem_cons_of_mem _ (ih hh)
    have keyd : ∀ (ls : List LocEntry), tryDefaults T st (sanitizeDate s) fmts ls = .res (.ok (some r)) → r.locale ∈ ls.map (·.name) := by
      intro ls
      induction ls with
      | nil => intro hh; simp [tryDefaults] at hh
      | cons le rest ih =>
        intro hh
        unfold tryDefaults at hh
        split at hh
        · exact List.mem_cons_of_mem _ (ih hh)
        · have := localeParseGo_locale T st le (sanitizeDate s) fmts st.parsers r hh
          rw [this]; exact List.mem_cons_self
    rw [List.map_append, List.mem_append]
    split at h
    · right; exact keyd _ h
    · left; exact key _ _ h

/-- **C13_default**: when one of the selected locales produces an outcome, DEFAULT_LANGUAGES is irrelevant. -/
theorem C13_default (T : TzTable) (st : Settings) (locs dflt dflt' : List LocEntry) (s : String) (fmts : List String)
    (h : (getDateData T st locs [] s fmts).isHit = true) :
    getDateData T st locs dflt s fmts = getDateData T st locs dflt' s fmts := by
  unfold getDateData at h ⊢
  split <;> try rfl
  rename_i hp
  simp only [hp] at h
  simp only
  cases ht : tryLocales T st (candidates T (sanitizeDate s)) (sanitizeDate s) fmts locs with
  | bad w => rfl
  | res r =>
    cases r with
    | error e => rfl
    | ok o =>
      cases o with
      | some v => rfl
      | none => rw [ht] at h; simp [tryDefaults, GddOutcome.isHit] at h

/-- **C13_reparse**: autodetection is reproducible — if a run over the locale list `locs` ends with locale `le`'s result, a run
    with `le` alone (same string, same settings) gives the identical outcome. -/
theorem C13_reparse (T : TzTable) (st : Settings) (cands : List String) (s : String) (fmts : List String) (locs : List LocEntry) (le : LocEntry)
    (hfind : locs.find? (fun l => cands.any (fun c => l.L.isApplicable c) && (localeParse T st l s fmts).isHit) = some le) :
    tryLocales T st cands s fmts [le] = tryLocales T st cands s fmts locs := by
  have hp := List.find?_some hfind
  simp only [Bool.and_eq_true] at hp
  rw [C13_first T st cands s fmts locs, hfind, C13_first T st cands s fmts [le]]
  simp [List.find?, hp.1, hp.2]

end DP
