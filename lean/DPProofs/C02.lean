import DPModel.DP.Pipeline
/-!
# C02 — parse is total: escape analysis of the orchestrator

The per-locale parsers are called under `try/except` blocks whose exception tuples are read from the source
(`Gen.exceptTryParser`, `Gen.exceptTryFreshness`, `Gen.exceptTryTimestamp`, `Gen.exceptParseWithFormats`).
-/
namespace DP

/-- the except tuple guarding a parser of `_DateLocaleParser._parsers` -/
def exceptOf (pname : String) : List (List String) :=
  if pname == "timestamp" || pname == "negative-timestamp" then Gen.exceptTryTimestamp
  else if pname == "relative-time" then Gen.exceptTryFreshness
  else if pname == "absolute-time" || pname == "no-spaces-time" then Gen.exceptTryParser
  else []

/-- **C02_catch_facts** (generated facts): as the source stands now, every parser that can raise `ValueError` or
    `OverflowError` is called under an `except` that lists both; the zone application of `parse_with_formats` is guarded too. -/
theorem C02_catch_facts :
    (∀ m, caughtBy Gen.exceptTryParser (.value m) = true) ∧ caughtBy Gen.exceptTryParser .overflow = true ∧
    (∀ m, caughtBy Gen.exceptTryFreshness (.value m) = true) ∧ caughtBy Gen.exceptTryFreshness .overflow = true ∧
    caughtBy Gen.exceptTryTimestamp .overflow = true ∧
    (∀ m, caughtBy Gen.exceptPwfStrptime (.value m) = true) ∧ caughtBy Gen.exceptPwfZone .overflow = true := by
  refine ⟨?_, by decide, ?_, by decide, by decide, ?_, by decide⟩ <;> (intro m; cases m <;> decide)

/-- an error a single parser lets through is one its `except` tuple does not list -/
theorem C02_runParser_escape (T : TzTable) (st : Settings) (le : LocEntry) (s : String) (fmts : List String) (pname : String) (e : PyErr)
    (h : runParser T st le s fmts pname = .inr (.error e)) :
    (pname = "custom-formats") ∨ e = .key ∨ caughtBy (exceptOf pname) e = false := by
  unfold runParser at h
  unfold exceptOf
  by_cases h1 : (pname == "timestamp" || pname == "negative-timestamp") = true
  · simp only [h1, if_true] at h ⊢
    split at h
    · rename_i e' he'
      split at h
      · cases h
      · rename_i hc; injection h with h; injection h with h; subst h; right; right; simpa using hc
    · rename_i r hr
      injection h with h
      exact absurd h (hr e)
  · simp only [h1, Bool.false_eq_true, if_false] at h ⊢
    by_cases h2 : (pname == "relative-time") = true
    · simp only [h2, if_true] at h ⊢
      split at h
      · split at h
        · cases h
        · rename_i hc; injection h with h; injection h with h; subst h; right; right; simpa using hc
      · rename_i r hr
        injection h with h
        exact absurd h (hr e)
    · simp only [h2, Bool.false_eq_true, if_false] at h ⊢
      by_cases h3 : (pname == "custom-formats") = true
      · left; simpa using h3
      · simp only [h3, Bool.false_eq_true, if_false] at h ⊢
        by_cases h4 : (pname == "absolute-time" || pname == "no-spaces-time") = true
        · simp only [h4, if_true] at h ⊢
          split at h
          · cases h
          · split at h
            · cases h
            · rename_i hc; injection h with h; injection h with h; subst h; right; right; simpa using hc
        · simp only [h4, Bool.false_eq_true, if_false] at h
          injection h with h; injection h with h; subst h; right; left; rfl

/-- errors of `_DateLocaleParser._parse` come from one of the parsers of PARSERS -/
theorem C02_localeParse_escape (T : TzTable) (st : Settings) (le : LocEntry) (s : String) (fmts : List String) (ps : List String) (e : PyErr)
    (h : localeParseGo T st le s fmts ps = .res (.error e)) :
    ∃ pname ∈ ps, runParser T st le s fmts pname = .inr (.error e) := by
  induction ps with
  | nil => simp [localeParseGo] at h
  | cons pn rest ih =>
    unfold localeParseGo at h
    split at h
    · cases h
    · cases h
    · rename_i e' hne he'
      injection h with h; injection h with h; subst h
      exact ⟨pn, List.mem_cons_self, he'⟩
    · split at h
      · cases h
      · obtain ⟨p, hp, hr⟩ := ih h
        exact ⟨p, List.mem_cons_of_mem _ hp, hr⟩
    · obtain ⟨p, hp, hr⟩ := ih h
      exact ⟨p, List.mem_cons_of_mem _ hp, hr⟩

/-- **C02_welldef**: a result carries a period of the documented set and the name of the locale that produced it;
    "nothing recognised" carries neither a date nor a locale (the model's `none`). -/
theorem C02_welldef (T : TzTable) (st : Settings) (le : LocEntry) (s : String) (fmts : List String) (ps : List String) (r : Result)
    (h : localeParseGo T st le s fmts ps = .res (.ok (some r))) :
    Gen.validPeriods.contains r.period.name = true ∧ r.locale = le.name := by
  induction ps with
  | nil => simp [localeParseGo] at h
  | cons pn rest ih =>
    unfold localeParseGo at h
    split at h
    · cases h
    · cases h
    · cases h
    · split at h
      · rename_i hv
        injection h with h; injection h with h; injection h with h; subst h
        exact ⟨hv, rfl⟩
      · exact ih h
    · exact ih h

/-- every period the model can report is one of time/day/week/month/year, and all five are valid for the source -/
theorem C02_periods : ∀ p : Period, Gen.validPeriods.contains p.name = true := by
  intro p; cases p <;> decide

end DP
