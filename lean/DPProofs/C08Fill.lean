import DPProofs.C01String
import DPProofs.C07String
/-!
# C08 — completion of a missing day / month, end to end (token level and from the characters)
-/
namespace DP
attribute [local simp] absParseToks parseState initLoop initStep timeDetect parseNumber parseAlpha alphaMonthStep tryDirs tryDir numDirs
  rY rS rT rClock rFrac rMerid tiSmall tiYear4 tiMonthFull tiMonthAbbr tiWeekday
  PS.getC PS.getT PS.setC PS.setT truthy fillUnknown results resultsCore checkStrict missingOf pick getDatetimeObj
  finish correctTimeFrame correctMonth correctDay tokTruthy getPeriod replaceFirst bind Except.bind pure Except.pure Except.map

/-- the day a month-year string is completed with -/
def dayFill (st : PSettings) (y m : Nat) : Nat :=
  match st.preferDay with | .first => 1 | .last => dim y m | .current => min st.now.d (dim y m)

theorem C08_month_year (st : PSettings) (ho : st.order = [.month, .day, .year]) (hstrict : st.strict = false) (hreq : st.requireParts = [])
    (y m : Nat) (hy1 : 1 ≤ y) (hy2 : y ≤ 9999) (hm1 : 1 ≤ m) (hm2 : m ≤ 12) (hnow : st.now.valid)
    (tm ty : List Char) (hty : ty.length = 4) :
    absParseToks st [rS tm m true, rY ty y] = .ok ({ y := y, mo := m, d := dayFill st y m }, .month) := by
  have hy0 : y ≠ 0 := by omega
  have hm0 : m ≠ 0 := by omega
  have hm31 : m ≤ 31 := by omega
  simp [ho, hy1, hm1, hm2, hm31, hy0, hm0, hty, hstrict, hreq]
  obtain ⟨n1, n2, n3, n4, n5, n6, n7, n8, n9, n10⟩ := hnow
  have hp := dim_pos y m
  have htrig : dayMsgTriggers = true := by decide +kernel
  by_cases hfit : st.now.d ≤ dim y m
  · have hmk : mkDT y m st.now.d 0 0 0 0 = .ok { y := y, mo := m, d := st.now.d } :=
      mkDT_ok _ _ _ _ _ _ _ ⟨hy1, hy2, hm1, hm2, n5, hfit, by simp, by simp, by simp, by simp⟩
    have hday := C08_day st.preferDay { y := y, mo := m, d := st.now.d } st.now.d ⟨hy1, hy2, hm1, hm2, n5, hfit, by simp, by simp, by simp, by simp⟩ n5
    rw [hmk]
    simp only
    rw [hday]
    simp only [dayFill]
    cases st.preferDay <;> simp
  · have hmk : mkDT y m st.now.d 0 0 0 0 = .error (.value .dayRange) := (C08_lastday y m hy1 hy2 hm1 hm2).2 _ (by omega)
    have hmk2 := (C08_lastday y m hy1 hy2 hm1 hm2).1
    have hday := C08_day st.preferDay { y := y, mo := m, d := dim y m } st.now.d ⟨hy1, hy2, hm1, hm2, hp, Nat.le_refl _, by simp, by simp, by simp, by simp⟩ n5
    rw [hmk]
    simp only [htrig, if_true]
    rw [hmk2]
    simp only
    rw [hday]
    simp only [dayFill]
    cases st.preferDay <;> simp <;> omega

/-- the month a year-only string is completed with -/
def monthFill (st : PSettings) : Nat :=
  match st.preferMonth with | .first => 1 | .last => 12 | .current => st.now.mo

/-- the tail of the year-only computation: build the date with the reference month and day (day clamped), apply the month preference, then the day preference -/
theorem year_only_tail (st : PSettings) (y : Nat) (hy1 : 1 ≤ y) (hy2 : y ≤ 9999) (hnow : st.now.valid) :
    (match
      (match mkDT y st.now.mo st.now.d 0 0 0 0 with
      | Except.ok t => Except.ok t
      | Except.error (PyErr.value VMsg.dayRange) =>
        if dayMsgTriggers = true then mkDT y st.now.mo (dim y st.now.mo) 0 0 0 0
        else Except.error (PyErr.value VMsg.dayRange)
      | Except.error e => Except.error e) with
    | Except.error e => Except.error e
    | Except.ok t =>
      match setMonth st.preferMonth t st.now.mo with
      | Except.error e => Except.error e
      | Except.ok t2 =>
        match setDay st.preferDay t2 st.now.d with
        | Except.error e => Except.error e
        | Except.ok t3 => Except.ok (t3, Period.year)) =
    Except.ok (({ y := y, mo := monthFill st, d := dayFill st y (monthFill st) } : DT), Period.year) := by
  obtain ⟨n1, n2, n3, n4, n5, n6, n7, n8, n9, n10⟩ := hnow
  have htrig : dayMsgTriggers = true := by decide +kernel
  have hp := dim_pos y st.now.mo
  -- the date built first: reference month, reference day clamped
  have h0 : ∃ d0, 1 ≤ d0 ∧ d0 ≤ dim y st.now.mo ∧ d0 ≤ st.now.d ∧
      (match mkDT y st.now.mo st.now.d 0 0 0 0 with
      | Except.ok t => Except.ok t
      | Except.error (PyErr.value VMsg.dayRange) =>
        if dayMsgTriggers = true then mkDT y st.now.mo (dim y st.now.mo) 0 0 0 0
        else Except.error (PyErr.value VMsg.dayRange)
      | Except.error e => Except.error e) = Except.ok ({ y := y, mo := st.now.mo, d := d0 } : DT) := by
    by_cases hfit : st.now.d ≤ dim y st.now.mo
    · refine ⟨st.now.d, n5, hfit, Nat.le_refl _, ?_⟩
      rw [mkDT_ok _ _ _ _ _ _ _ ⟨hy1, hy2, n3, n4, n5, hfit, by simp, by simp, by simp, by simp⟩]
    · refine ⟨dim y st.now.mo, hp, Nat.le_refl _, by omega, ?_⟩
      rw [(C08_lastday y st.now.mo hy1 hy2 n3 n4).2 _ (by omega)]
      simp only [htrig, if_true]
      exact (C08_lastday y st.now.mo hy1 hy2 n3 n4).1
  obtain ⟨d0, hd1, hd2, hd3, he⟩ := h0
  rw [he]
  simp only
  have hv0 : ({ y := y, mo := st.now.mo, d := d0 } : DT).valid := ⟨hy1, hy2, n3, n4, hd1, hd2, by simp, by simp, by simp, by simp⟩
  have hmon : setMonth st.preferMonth { y := y, mo := st.now.mo, d := d0 } st.now.mo = .ok { y := y, mo := monthFill st, d := d0 } := by
    have h := C08_month st.preferMonth { y := y, mo := st.now.mo, d := d0 } st.now.mo hv0 n3 n4 (fun _ => hd2)
    unfold monthFill
    cases hpm : st.preferMonth <;> rw [hpm] at h <;> simpa using h
  rw [hmon]
  simp only
  have hmf1 : 1 ≤ monthFill st := by unfold monthFill; cases st.preferMonth <;> simp <;> omega
  have hmf2 : monthFill st ≤ 12 := by unfold monthFill; cases st.preferMonth <;> simp <;> omega
  have hfit2 : d0 ≤ dim y (monthFill st) := by
    have e1 : dim y 1 = 31 := by simp [dim, dimL]
    have e12 : dim y 12 = 31 := by simp [dim, dimL]
    have := dim_le_31 y st.now.mo
    unfold monthFill
    cases st.preferMonth <;> simp only <;> omega
  have hv2 : ({ y := y, mo := monthFill st, d := d0 } : DT).valid := ⟨hy1, hy2, hmf1, hmf2, hd1, hfit2, by simp, by simp, by simp, by simp⟩
  have hday : setDay st.preferDay { y := y, mo := monthFill st, d := d0 } st.now.d = .ok { y := y, mo := monthFill st, d := dayFill st y (monthFill st) } := by
    have h := C08_day st.preferDay { y := y, mo := monthFill st, d := d0 } st.now.d hv2 n5
    unfold dayFill
    cases hpd : st.preferDay <;> rw [hpd] at h <;> simpa using h
  rw [hday]

/-- **C08_year_only**: a year-only string is completed with month 1 / 12 / the reference month and then day 1 / the last day of *that* month /
    the reference day clamped to that month's length; period 'year' — for every order, reference time and preference pair. -/
theorem C08_year_only (st : PSettings) (hstrict : st.strict = false) (hreq : st.requireParts = [])
    (y : Nat) (hy1 : 1 ≤ y) (hy2 : y ≤ 9999) (hnow : st.now.valid) (ty : List Char) (hty : ty.length = 4) (o : List Comp) (ho : st.order = o) (hO : o ∈ allOrders) :
    absParseToks st [rY ty y] = .ok ({ y := y, mo := monthFill st, d := dayFill st y (monthFill st) }, .year) := by
  have hy0 : y ≠ 0 := by omega
  have ht := year_only_tail st y hy1 hy2 hnow
  simp only [allOrders, List.mem_cons, List.mem_nil_iff, or_false] at hO
  rcases hO with rfl | rfl | rfl | rfl | rfl | rfl <;> simp [ho, hy1, hy0, hty, hstrict, hreq] <;> exact ht

/-! ## from the characters: `YYYY` and `MM/YYYY` -/

theorem tokenize_year (y : Nat) (hy : y ≤ 9999) : tokenize (pad4c y) = .ok [(pad4c y, 0)] := by
  have y1 : y / 1000 < 10 := by omega
  have y2 : y / 100 % 10 < 10 := by omega
  have y3 : y / 10 % 10 < 10 := by omega
  have y4 : y % 10 < 10 := by omega
  simp [tokenize, tokGo, pad4c, tkCls_dch, y1, y2, y3, y4]

theorem classify_year (y : Nat) (hy : y ≤ 9999) : classify #[(pad4c y, 0)] = [rY (pad4c y) y] := by
  have hno : ∀ t ∈ ([] : List (List Char × Nat)), ¬ '.' ∈ t.1 := by simp
  simp [classify, rY, tiYear4, fmt_m, fmt_d, fmt_y, fmt_Y, dirNum_Y4, dirNum_four_none, hy, List.zipIdx,
    allAscii_pad4 y hy, natOfAscii_pad4 y hy, micro_pad4 y hy, merid_pad4 y hy, skip_pad4 y hy, colon_pad4 y hy]

/-- **C08_year_string**: the string `YYYY` -/
theorem C08_year_string (st : PSettings) (hstrict : st.strict = false) (hreq : st.requireParts = [])
    (y : Nat) (hy1 : 1 ≤ y) (hy2 : y ≤ 9999) (hnow : st.now.valid) (o : List Comp) (ho : st.order = o) (hO : o ∈ allOrders) :
    absParse st (pad4c y) = .ok ({ y := y, mo := monthFill st, d := dayFill st y (monthFill st) }, .year) := by
  unfold absParse
  rw [tokenize_year y hy2]
  simp only [bind, Except.bind, List.map_cons, List.map_nil, stripWs_pad4 y hy2]
  rw [classify_year y hy2]
  exact C08_year_only st hstrict hreq y hy1 hy2 hnow (pad4c y) rfl o ho hO

theorem tokenize_month_year (y m : Nat) (hy : y ≤ 9999) (hm : m < 100) :
    tokenize (pad2c m ++ ['/'] ++ pad4c y) = .ok [(pad2c m, 0), (['/'], 2), (pad4c y, 0)] := by
  have y1 : y / 1000 < 10 := by omega
  have y2 : y / 100 % 10 < 10 := by omega
  have y3 : y / 10 % 10 < 10 := by omega
  have y4 : y % 10 < 10 := by omega
  have m1 : m / 10 < 10 := by omega
  have m2 : m % 10 < 10 := by omega
  simp [tokenize, tokGo, pad4c, pad2c, tkCls_dch, tkCls_slash, y1, y2, y3, y4, m1, m2]

theorem classify_month_year (y m : Nat) (hy : y ≤ 9999) (hm : m < 100) :
    classify #[(pad2c m, 0), (['/'], 2), (pad4c y, 0)] = [rS (pad2c m) m true, rY (pad4c y) y] := by
  have hno : ∀ t ∈ [(['/'], 2), (pad4c y, 0)], ¬ '.' ∈ (t : List Char × Nat).1 := by
    intro t ht
    simp only [List.mem_cons, List.not_mem_nil, or_false] at ht
    rcases ht with rfl | rfl
    · simp
    · exact dot_pad4 y hy
  simp [classify, rY, rS, tiYear4, tiSmall, fmt_m, fmt_d, fmt_y, fmt_Y, dirNum_m2, dirNum_d2, dirNum_y2, dirNum_Y2, dirNum_Y4, dirNum_four_none,
    hy, hm, List.zipIdx,
    allAscii_pad4 y hy, natOfAscii_pad4 y hy, micro_pad4 y hy, merid_pad4 y hy, skip_pad4 y hy, colon_pad4 y hy,
    allAscii_pad2 m hm, natOfAscii_pad2 m hm, micro_pad2 m hm, merid_pad2 m hm, skip_pad2 m hm, colon_pad2 m hm ':' (by simp)]
  exact ⟨dotAfter_false _ hno _, dotAfter_false _ hno _⟩

/-- **C08_month_year_string**: the string `MM/YYYY` under the default (month-first) order -/
theorem C08_month_year_string (st : PSettings) (ho : st.order = [.month, .day, .year]) (hstrict : st.strict = false) (hreq : st.requireParts = [])
    (y m : Nat) (hy1 : 1 ≤ y) (hy2 : y ≤ 9999) (hm1 : 1 ≤ m) (hm2 : m ≤ 12) (hnow : st.now.valid) :
    absParse st (pad2c m ++ ['/'] ++ pad4c y) = .ok ({ y := y, mo := m, d := dayFill st y m }, .month) := by
  have hm : m < 100 := by omega
  unfold absParse
  rw [tokenize_month_year y m hy2 hm]
  simp only [bind, Except.bind, List.map_cons, List.map_nil, stripWs_pad4 y hy2, stripWs_pad2 m hm, stripWs_slash]
  rw [classify_month_year y m hy2 hm]
  exact C08_month_year st ho hstrict hreq y m hy1 hy2 hm1 hm2 hnow (pad2c m) (pad4c y) rfl

end DP
