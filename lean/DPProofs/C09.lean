import DPProofs.Lemmas.Render
import DPProofs.Lemmas.Date
import DPProofs.C08
/-!
# C09 — PREFER_DATES_FROM selects the past/future occurrence, keeping named parts
-/
namespace DP

/-- **C09_steps**: the shift applied to a weekday-only string lands on the named weekday and is the *nearest* such day
    in the preferred direction: future 1..7 days ahead, past 1..7 days back, current_period 0..6 days back. -/
theorem C09_steps (pd : PrefDates) (cur tg : Nat) (hc : cur < 7) (ht : tg < 7) :
    ((cur : Int) + weekdaySteps pd cur tg) % 7 = tg ∧
    (pd = .future → 1 ≤ weekdaySteps pd cur tg ∧ weekdaySteps pd cur tg ≤ 7) ∧
    (pd = .past → -7 ≤ weekdaySteps pd cur tg ∧ weekdaySteps pd cur tg ≤ -1) ∧
    (pd = .currentPeriod → -6 ≤ weekdaySteps pd cur tg ∧ weekdaySteps pd cur tg ≤ 0) := by
  unfold weekdaySteps isFuture isPast
  cases pd <;> simp <;> (split <;> omega)

attribute [local simp] absParseToks parseState initLoop initStep timeDetect parseNumber parseAlpha alphaMonthStep tryDirs tryDir numDirs
  tiSmall tiYear4 tiMonthFull tiMonthAbbr tiWeekday
  PS.getC PS.getT PS.setC PS.setT truthy fillUnknown results resultsCore checkStrict missingOf pick getDatetimeObj
  finish correctMonth correctDay tokTruthy getPeriod replaceFirst bind Except.bind pure Except.pure Except.map

def midnight (t : DT) : DT := { y := t.y, mo := t.mo, d := t.d }

/-- **C09_weekday_partial**: a weekday name on its own parses to the reference date moved by `weekdaySteps` days, at 00:00 —
    *provided* the move stays inside the reference month and PREFER_MONTH_OF_YEAR is `current` (see the counterexamples below
    for what happens otherwise on the current tree: the month preference is applied after the shift). -/
theorem C09_weekday_partial (st : PSettings) (hnow : st.now.valid) (tw : List Char) (idx : Nat) (t1 : DT)
    (hpm : st.preferMonth = .current) (hs : st.strict = false) (hr : st.requireParts = [])
    (hshift : (midnight st.now).addDays (weekdaySteps st.preferDates (midnight st.now).weekday idx) = .ok t1)
    (hsame : t1.mo = st.now.mo) :
    absParseToks st [tiWeekday tw idx none] = .ok (t1, .day) := by
  obtain ⟨h1, h2, h3, h4, h5, h6, h7, h8, h9, h10⟩ := hnow
  have hmk : mkDT st.now.y st.now.mo st.now.d 0 0 0 0 = .ok (midnight st.now) :=
    mkDT_ok _ _ _ _ _ _ _ ⟨h1, h2, h3, h4, h5, h6, by simp, by simp, by simp, by simp⟩
  have hv1 := addDays_spec _ _ _ hshift
  obtain ⟨_, e1, e2, e3, e4, a1, a2, a3, a4, a5, a6⟩ := hv1
  have hvalid1 : t1.valid := ⟨a1, a2, a3, a4, a5, a6, by rw [e1]; simp [midnight], by rw [e2]; simp [midnight], by rw [e3]; simp [midnight], by rw [e4]; simp [midnight]⟩
  have hsm : setMonth .current t1 st.now.mo = .ok t1 := by
    have := C08_month .current t1 st.now.mo hvalid1 h3 h4 (fun _ => by rw [← hsame]; exact a6)
    rw [this]; simp only; rw [← hsame]
  simp [hs, hr, hmk, correctTimeFrame, hshift, hpm, hsm]

/-- the full-strength statement C09 makes for weekday-only strings -/
def C09_weekday_statement : Prop :=
  ∀ (st : PSettings) (tw : List Char) (idx : Nat) (t1 : DT), st.now.valid → idx < 7 → st.strict = false → st.requireParts = [] →
    (midnight st.now).addDays (weekdaySteps st.preferDates (midnight st.now).weekday idx) = .ok t1 →
    absParseToks st [tiWeekday tw idx none] = .ok (t1, .day)

/-- **C09_weekday_counterexample**: on the current tree the full-strength statement is false — `Monday` with reference
    2021-08-31 and PREFER_DATES_FROM=future is 2021-09-06, but the month preference pulls it back to 2021-08-06. -/
theorem C09_weekday_counterexample : ¬ C09_weekday_statement := by
  intro h
  have := h { now := { y := 2021, mo := 8, d := 31, h := 13, mi := 7 }, preferDates := .future } [] 0 { y := 2021, mo := 9, d := 6 }
    (by decide) (by decide) rfl rfl (by decide +kernel)
  revert this
  decide +kernel

end DP
