import DPProofs.Lemmas.Parser
import DPProofs.C08
/-!
# C09 — two-digit years: the century is chosen so that 'past' is not after and 'future' not before the reference time
-/
namespace DP

/-- the century decision for a date whose year was written with two digits -/
def twoDigitFix (pd : PrefDates) (now : Int) (t : DT) : Except PyErr DT :=
  if now < t.micros then (if isPast pd then t.replaceYear (t.y - 100) else .ok t)
  else (if isFuture pd then t.replaceYear (t.y + 100) else .ok t)

theorem correctTimeFrame_twoDigit (st : PSettings) (p : PS) (t : DT) (ti : TI)
    (hw : p.weekdaySet = false) (hy : truthy p.year = true) (hty : p.tokYear = some (.pair ti)) (hlen : ti.text.length = 2)
    (htime : p.tokTime = none) :
    correctTimeFrame st p t = twoDigitFix st.preferDates (nowCmp st) t := by
  unfold correctTimeFrame twoDigitFix
  simp [hw, hy, hty, hlen, htime, tokTruthy, bind, Except.bind, pure, Except.pure]
  split <;> split <;> (try rfl) <;> (cases t.replaceYear _ <;> rfl)

/-- dates of an earlier year come earlier -/
theorem ord_lt_of_year_lt (y1 m1 d1 y2 m2 d2 : Nat) (hy : 1 ≤ y1) (hm1 : 1 ≤ m1 ∧ m1 ≤ 12) (hd1 : d1 ≤ dim y1 m1) (hd2 : 1 ≤ d2) (hlt : y1 < y2) :
    toOrd y1 m1 d1 < toOrd y2 m2 d2 := by
  -- day-of-year of the first date is at most the length of its year
  have hdoy : dbm y1 m1 + d1 ≤ (if isLeap y1 = true then 366 else 365) := by
    unfold dbm dbmL dim dimL at *
    obtain ⟨a, b⟩ := hm1
    have : m1 = 1 ∨ m1 = 2 ∨ m1 = 3 ∨ m1 = 4 ∨ m1 = 5 ∨ m1 = 6 ∨ m1 = 7 ∨ m1 = 8 ∨ m1 = 9 ∨ m1 = 10 ∨ m1 = 11 ∨ m1 = 12 := by omega
    rcases this with rfl | rfl | rfl | rfl | rfl | rfl | rfl | rfl | rfl | rfl | rfl | rfl <;> cases hl : isLeap y1 <;> simp [hl] at hd1 ⊢ <;> omega
  -- years are monotone
  have hmono : ∀ k, dby (y1 + 1) ≤ dby (y1 + 1 + k) := by
    intro k
    induction k with
    | zero => exact Nat.le_refl _
    | succ k ih =>
      have := dby_succ (y1 + 1 + k) (by omega)
      have e : y1 + 1 + (k + 1) = y1 + 1 + k + 1 := by omega
      rw [e, this]; split <;> omega
  have h2 := hmono (y2 - (y1 + 1))
  have e2 : y1 + 1 + (y2 - (y1 + 1)) = y2 := by omega
  rw [e2] at h2
  have h1 := dby_succ y1 hy
  unfold toOrd
  split at h1 <;> split at hdoy <;> simp_all <;> omega

theorem micros_lt_of_year_lt (a b : DT) (ha : a.valid) (hb : b.valid) (hlt : a.y < b.y) : a.micros < b.micros := by
  obtain ⟨a1, a2, a3, a4, a5, a6, a7, a8, a9, a10⟩ := ha
  obtain ⟨b1, b2, b3, b4, b5, b6, b7, b8, b9, b10⟩ := hb
  have ho := ord_lt_of_year_lt a.y a.mo a.d b.y b.mo b.d a1 ⟨a3, a4⟩ a6 b5 hlt
  have ht := tod_lt a a7 a8 a9 a10
  unfold DT.micros DT.microsN DT.ord
  have e : dayUs = 86400000000 := rfl
  rw [e] at ht ⊢
  have : toOrd a.y a.mo a.d + 1 ≤ toOrd b.y b.mo b.d := ho
  have h2 : (toOrd a.y a.mo a.d + 1) * 86400000000 ≤ toOrd b.y b.mo b.d * 86400000000 := Nat.mul_le_mul_right _ this
  have : toOrd a.y a.mo a.d * 86400000000 + a.tod < toOrd b.y b.mo b.d * 86400000000 + b.tod := by omega
  exact_mod_cast this

theorem replaceYear_fields (t r : DT) (y : Nat) (h : t.replaceYear y = .ok r) :
    r.y = y ∧ r.mo = t.mo ∧ r.d = t.d ∧ r.h = t.h ∧ r.mi = t.mi ∧ r.s = t.s ∧ r.us = t.us ∧ r.valid := by
  unfold DT.replaceYear mkDT at h
  repeat (split at h; · cases h)
  injection h with h; subst h
  rename_i h1 h2 h3 h4 h5 h6 h7
  exact ⟨rfl, rfl, rfl, rfl, rfl, rfl, rfl, by unfold DT.valid; simp only; omega⟩

/-- **C09_two_digit_year**: a date whose year was written with two digits (so read inside 1969…2068), with the reference time inside
    1970…2067: PREFER_DATES_FROM='past' yields a moment not after the reference, 'future' one not before it, 'current_period' leaves the
    date as read; in every case the month, day and time of day are those written and the year keeps its last two digits. -/
theorem C09_two_digit_year (pd : PrefDates) (nowT t r : DT) (hv : t.valid) (hnv : nowT.valid)
    (hty : 1969 ≤ t.y ∧ t.y ≤ 2068) (hny : 1970 ≤ nowT.y ∧ nowT.y ≤ 2067)
    (h : twoDigitFix pd nowT.micros t = .ok r) :
    r.mo = t.mo ∧ r.d = t.d ∧ r.h = t.h ∧ r.mi = t.mi ∧ r.s = t.s ∧ r.us = t.us ∧ r.y % 100 = t.y % 100 ∧
    (pd = .past → r.micros ≤ nowT.micros) ∧ (pd = .future → nowT.micros ≤ r.micros) ∧ (pd = .currentPeriod → r = t) := by
  unfold twoDigitFix at h
  by_cases hlt : nowT.micros < t.micros
  · simp only [hlt, if_true] at h
    cases pd with
    | past =>
      simp [isPast] at h
      obtain ⟨f1, f2, f3, f4, f5, f6, f7, fv⟩ := replaceYear_fields t r _ h
      refine ⟨f2, f3, f4, f5, f6, f7, by omega, fun _ => ?_, (by intro hh; cases hh), (by intro hh; cases hh)⟩
      exact Int.le_of_lt (micros_lt_of_year_lt r nowT fv hnv (by omega))
    | future =>
      simp [isPast] at h
      subst h
      exact ⟨rfl, rfl, rfl, rfl, rfl, rfl, rfl, (by intro hh; cases hh), fun _ => Int.le_of_lt hlt, (by intro hh; cases hh)⟩
    | currentPeriod =>
      simp [isPast] at h
      subst h
      exact ⟨rfl, rfl, rfl, rfl, rfl, rfl, rfl, (by intro hh; cases hh), (by intro hh; cases hh), fun _ => rfl⟩
  · simp only [hlt, if_false] at h
    have hle : t.micros ≤ nowT.micros := by omega
    cases pd with
    | past =>
      simp [isFuture] at h
      subst h
      exact ⟨rfl, rfl, rfl, rfl, rfl, rfl, rfl, fun _ => hle, (by intro hh; cases hh), (by intro hh; cases hh)⟩
    | future =>
      simp [isFuture] at h
      obtain ⟨f1, f2, f3, f4, f5, f6, f7, fv⟩ := replaceYear_fields t r _ h
      refine ⟨f2, f3, f4, f5, f6, f7, by omega, (by intro hh; cases hh), fun _ => ?_, (by intro hh; cases hh)⟩
      exact Int.le_of_lt (micros_lt_of_year_lt nowT r hnv fv (by omega))
    | currentPeriod =>
      simp [isFuture] at h
      subst h
      exact ⟨rfl, rfl, rfl, rfl, rfl, rfl, rfl, (by intro hh; cases hh), (by intro hh; cases hh), fun _ => rfl⟩


/-! ## dates without a year -/

/-- the year decision for a date whose year was not written (month name alone, day and month): the reference year, moved by one year when
    the preference asks for the other side of the reference time -/
def noYearFix (pd : PrefDates) (now : Int) (t : DT) : Except PyErr DT :=
  if now < t.micros then (if isPast pd then t.replaceYear (t.y - 1) else .ok t)
  else (if isFuture pd then t.replaceYear (t.y + 1) else .ok t)

theorem correctTimeFrame_noYear (st : PSettings) (p : PS) (t r : DT)
    (hw : p.weekdaySet = false) (hm : truthy p.month = true) (hy : truthy p.year = false) (hty : p.tokYear = none) (htime : p.tokTime = none)
    (hfix : noYearFix st.preferDates (nowCmp st) t = .ok r) :
    correctTimeFrame st p t = .ok r := by
  unfold noYearFix at hfix
  unfold correctTimeFrame
  simp [hw, hm, hy, hty, htime, tokTruthy, bind, Except.bind, pure, Except.pure]
  split at hfix <;> rename_i hlt <;> simp only [hlt, if_true, if_false] <;> split at hfix <;> rename_i hp <;> simp only [hp, if_true, if_false] <;> (try rw [hfix]) <;> (try simp_all)

/-- **C09_no_year**: a date without a year is first given the reference year; 'past' then yields a moment not after the reference time,
    'future' one not before it, 'current_period' keeps the reference year; month, day and time of day are those of the string. -/
theorem C09_no_year (pd : PrefDates) (nowT t r : DT) (hv : t.valid) (hnv : nowT.valid) (hy : t.y = nowT.y)
    (h : noYearFix pd nowT.micros t = .ok r) :
    r.mo = t.mo ∧ r.d = t.d ∧ r.h = t.h ∧ r.mi = t.mi ∧ r.s = t.s ∧ r.us = t.us ∧
    (pd = .past → r.micros ≤ nowT.micros) ∧ (pd = .future → nowT.micros ≤ r.micros) ∧ (pd = .currentPeriod → r.y = nowT.y) := by
  unfold noYearFix at h
  by_cases hlt : nowT.micros < t.micros
  · simp only [hlt, if_true] at h
    cases pd with
    | past =>
      simp [isPast] at h
      obtain ⟨f1, f2, f3, f4, f5, f6, f7, fv⟩ := replaceYear_fields t r _ h
      refine ⟨f2, f3, f4, f5, f6, f7, fun _ => ?_, (by intro hh; cases hh), (by intro hh; cases hh)⟩
      have h1 : 1 ≤ r.y := fv.1
      exact Int.le_of_lt (micros_lt_of_year_lt r nowT fv hnv (by omega))
    | future =>
      simp [isPast] at h; subst h
      exact ⟨rfl, rfl, rfl, rfl, rfl, rfl, (by intro hh; cases hh), fun _ => Int.le_of_lt hlt, (by intro hh; cases hh)⟩
    | currentPeriod =>
      simp [isPast] at h; subst h
      exact ⟨rfl, rfl, rfl, rfl, rfl, rfl, (by intro hh; cases hh), (by intro hh; cases hh), fun _ => hy⟩
  · simp only [hlt, if_false] at h
    have hle : t.micros ≤ nowT.micros := by omega
    cases pd with
    | past =>
      simp [isFuture] at h; subst h
      exact ⟨rfl, rfl, rfl, rfl, rfl, rfl, fun _ => hle, (by intro hh; cases hh), (by intro hh; cases hh)⟩
    | future =>
      simp [isFuture] at h
      obtain ⟨f1, f2, f3, f4, f5, f6, f7, fv⟩ := replaceYear_fields t r _ h
      refine ⟨f2, f3, f4, f5, f6, f7, (by intro hh; cases hh), fun _ => ?_, (by intro hh; cases hh)⟩
      exact Int.le_of_lt (micros_lt_of_year_lt nowT r hnv fv (by omega))
    | currentPeriod =>
      simp [isFuture] at h; subst h
      exact ⟨rfl, rfl, rfl, rfl, rfl, rfl, (by intro hh; cases hh), (by intro hh; cases hh), fun _ => hy⟩


/-! ## a clock time on its own -/

/-- the day decision for a clock time written on its own, in UTC (`tz_offset = 0`): the reference day, moved by one day when the
    preference asks for the other side of the reference time -/
def timeOnlyFix (pd : PrefDates) (now : Int) (t : DT) : Except PyErr DT :=
  if isPast pd then (if now < t.micros then t.addDays (-1) else .ok t)
  else if isFuture pd then (if now > t.micros then t.addDays 1 else .ok t)
  else .ok t

theorem micros_of_addDays (t t' : DT) (k : Int) (h : t.addDays k = .ok t') : t'.micros = t.micros + k * (dayUs : Int) := by
  obtain ⟨ho, h1, h2, h3, h4, _⟩ := addDays_spec t t' k h
  unfold DT.micros DT.microsN DT.tod
  rw [h1, h2, h3, h4]
  have : ((t'.ord * dayUs + (((t.h * 60 + t.mi) * 60 + t.s) * 1000000 + t.us) : Nat) : Int) =
      (t'.ord : Int) * (dayUs : Int) + ((((t.h * 60 + t.mi) * 60 + t.s) * 1000000 + t.us : Nat) : Int) := by rw [Int.natCast_add, Int.natCast_mul]
  rw [this, ho]
  have : ((t.ord * dayUs + (((t.h * 60 + t.mi) * 60 + t.s) * 1000000 + t.us) : Nat) : Int) =
      (t.ord : Int) * (dayUs : Int) + ((((t.h * 60 + t.mi) * 60 + t.s) * 1000000 + t.us : Nat) : Int) := by rw [Int.natCast_add, Int.natCast_mul]
  rw [this, Int.add_mul]
  omega

/-- **C09_time_only**: a clock time on its own is first placed on the reference day; 'past' yields the *nearest* such moment not after the
    reference time (less than a day back), 'future' the nearest not before it (less than a day ahead), 'current_period' stays on the
    reference day; the time of day is the one written. -/
theorem C09_time_only (pd : PrefDates) (nowT t r : DT) (hday : t.ord = nowT.ord) (hv : t.valid) (hnv : nowT.valid)
    (h : timeOnlyFix pd nowT.micros t = .ok r) :
    r.h = t.h ∧ r.mi = t.mi ∧ r.s = t.s ∧ r.us = t.us ∧
    (pd = .past → r.micros ≤ nowT.micros ∧ nowT.micros - r.micros < (dayUs : Int)) ∧
    (pd = .future → nowT.micros ≤ r.micros ∧ r.micros - nowT.micros < (dayUs : Int)) ∧
    (pd = .currentPeriod → r = t) := by
  obtain ⟨a1, a2, a3, a4, a5, a6, a7, a8, a9, a10⟩ := hv
  obtain ⟨b1, b2, b3, b4, b5, b6, b7, b8, b9, b10⟩ := hnv
  have ht := tod_lt t a7 a8 a9 a10
  have hn := tod_lt nowT b7 b8 b9 b10
  have emt : t.micros = (t.ord : Int) * (dayUs : Int) + (t.tod : Int) := by unfold DT.micros DT.microsN; rw [Int.natCast_add, Int.natCast_mul]
  have emn : nowT.micros = (nowT.ord : Int) * (dayUs : Int) + (nowT.tod : Int) := by unfold DT.micros DT.microsN; rw [Int.natCast_add, Int.natCast_mul]
  rw [hday] at emt
  unfold timeOnlyFix at h
  cases pd with
  | past =>
    simp [isPast] at h
    split at h
    · rename_i hlt
      have hm := micros_of_addDays t r (-1) h
      obtain ⟨_, h1, h2, h3, h4, _⟩ := addDays_spec t r (-1) h
      refine ⟨h1, h2, h3, h4, fun _ => ?_, (by intro hh; cases hh), (by intro hh; cases hh)⟩
      constructor <;> omega
    · rename_i hlt
      injection h with h; subst h
      refine ⟨rfl, rfl, rfl, rfl, fun _ => ?_, (by intro hh; cases hh), (by intro hh; cases hh)⟩
      constructor <;> omega
  | future =>
    simp [isPast, isFuture] at h
    split at h
    · rename_i hlt
      have hm := micros_of_addDays t r 1 h
      obtain ⟨_, h1, h2, h3, h4, _⟩ := addDays_spec t r 1 h
      refine ⟨h1, h2, h3, h4, (by intro hh; cases hh), fun _ => ?_, (by intro hh; cases hh)⟩
      constructor <;> omega
    · rename_i hlt
      injection h with h; subst h
      refine ⟨rfl, rfl, rfl, rfl, (by intro hh; cases hh), fun _ => ?_, (by intro hh; cases hh)⟩
      constructor <;> omega
  | currentPeriod =>
    simp [isPast, isFuture] at h
    subst h
    exact ⟨rfl, rfl, rfl, rfl, (by intro hh; cases hh), (by intro hh; cases hh), fun _ => rfl⟩
theorem addSeconds_zero (t : DT) (hv : t.valid) : t.addSeconds 0 = .ok t := by
  unfold DT.addSeconds DT.addMicros
  simp only [Int.zero_mul, Int.add_zero]
  exact ofMicros_micros t hv

theorem correctTimeFrame_timeOnly (st : PSettings) (p : PS) (t : DT) (tm : List Char) (hv : t.valid)
    (hw : p.weekdaySet = false) (hm : truthy p.month = false) (hy : p.tokYear = none) (hmo : p.tokMonth = none) (hd : p.tokDay = none)
    (htime : p.tokTime = some tm) (hne : tm.isEmpty = false) (htz : st.tzOffset = 0) :
    correctTimeFrame st p t = timeOnlyFix st.preferDates (nowCmp st) t := by
  unfold correctTimeFrame timeOnlyFix
  simp [hw, hm, hy, hmo, hd, htime, hne, htz, tokTruthy, bind, Except.bind, pure, Except.pure, addSeconds_zero t hv]
  cases hp : st.preferDates <;> simp [isPast, isFuture] <;> (split <;> (try rfl) <;> (cases t.addDays _ <;> rfl))

end DP
