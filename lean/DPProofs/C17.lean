import DPProofs.Lemmas.Search
/-!
# C17 — `search_dates` is total; its hits are well-formed, in the text, in text order (token level)

Model: `DPModel/DP/Search.lean`.  Sentence splitting, word splitting, the dictionary, `_join_chunk`, `word_is_tz`,
`_token_with_digits_is_ok` and `get_date_data` are parameters (any functions); every theorem below holds for all of them.
Spec predicates (`OrderedBetween`, `contig`, `ItemOk`, `hitLt`) are defined in `DPProofs/Lemmas/Search.lean`.
-/
namespace DP.Search

/-- generated fact: the source guards the two-token look-ahead of `translate_search` with `i < last_token_index` -/
theorem C17_guard_source : Gen.tsLookaheadGuarded = true := by decide

/-- **C17_align**: `_simplify_split_align` never raises (its `list.remove("")` always finds a blank to remove, its `while` loop ends)
    and returns two token lists of equal length — for all token lists. -/
theorem C17_align (orig : List OTok) (simp : List String) :
    ∃ o' s', alignTokens orig simp = .ok (o', s') ∧ o'.length = s'.length := by
  unfold alignTokens
  by_cases he : orig.length = simp.length
  · exact ⟨orig, simp, by simp [he], he⟩
  · simp only [he, if_false]
    by_cases hl : orig.length < simp.length
    · simp only [hl, if_true]
      have hlen := alignGo_length (fun s : String => s) OTok.norm OTok.blank simp 0 orig false (Nat.zero_le _)
      have hnb := alignGo_nb (fun s : String => s) OTok.norm OTok.blank (fun t : OTok => t.raw == "") (by rfl) simp 0 orig false
      have hle := nb_le (fun t : OTok => t.raw == "") orig
      apply equalize_ok
      · omega
      · intro _; rw [hnb]; omega
      · intro hh; omega
    · simp only [hl, if_false]
      have hlen := alignGo_length OTok.norm (fun s : String => s) "" orig 0 simp false (Nat.zero_le _)
      have hnb := alignGo_nb OTok.norm (fun s : String => s) "" (fun t : String => t == "") (by rfl) orig 0 simp false
      have hle := nb_le (fun t : String => t == "") simp
      apply equalize_ok
      · omega
      · intro hh; omega
      · intro _; rw [hnb]; omega

/-- **C17_index_safe**: with the look-ahead guarded (as the source is: `C17_guard_source`), the `translate_search` loop never indexes
    outside the aligned token lists — for every sentence, dictionary and helper behaviour. -/
theorem C17_index_safe (E : Env) (hg : E.guarded = true) (orig simp : List String) (hlen : orig.length = simp.length) :
    ∃ cs, sentenceChunks E orig simp = .ok cs := by
  obtain ⟨st, h⟩ := loop_ok E hg orig simp hlen simp 0 (by omega) {}
  exact ⟨(st.flush.done.map List.reverse).reverse, by simp [sentenceChunks, h, Except.map]⟩

/-- the environment of a language written without spaces (join = concatenation) in which "a" is a dictionary word -/
def envNoSpaces (guarded : Bool) : Env :=
  { dict := fun w => if w == "a" then some "x" else none, join := fun ws => String.join ws, strip := id,
    digitsOk := fun _ => false, isTz := fun _ => false, jointUnsupported := false, guarded := guarded }

/-- **C17_lookahead_needed**: without that guard the loop does raise IndexError (sentence whose last token is a dictionary word, in a
    language written without spaces other than zh/ja) — the defect of the pinned tree; so the guard is what `C17_index_safe` rests on. -/
theorem C17_lookahead_needed : sentenceChunks (envNoSpaces false) ["a"] ["a"] = .error .index := by decide +kernel

example : sentenceChunks (envNoSpaces true) ["a"] ["a"] = .ok [[⟨"x", "a", 0, 1⟩]] := by decide +kernel

/-- **C17_chunks** (provenance and order inside a sentence): whatever the loop returns, its chunks — read oldest first — are non-empty
    runs of *consecutive* original tokens (`contig`), one after the other without overlap (`OrderedBetween`), and the original text of
    every item is the original token it points at, or the join of the two consecutive tokens it points at (`ItemOk`). -/
theorem C17_chunks (E : Env) (orig simp : List String) (cs : List (List Item)) (h : sentenceChunks E orig simp = .ok cs) :
    (∃ hi, OrderedBetween cs 0 hi) ∧ ∀ c ∈ cs, ∀ it ∈ c, ItemOk E orig it := by
  unfold sentenceChunks at h
  cases h1 : loop E orig simp simp 0 {} with
  | error e => rw [h1] at h; cases h
  | ok st =>
    rw [h1] at h
    simp only [Except.map] at h
    injection h with h; subst h
    have hinv0 : Inv E orig ({} : St) 0 := ⟨0, .nil _, Or.inl ⟨rfl, rfl, Nat.le_refl _⟩, by simp, by simp⟩
    have hinv := loop_inv E orig simp simp 0 {} st hinv0 h1
    obtain ⟨hi, hch, hit⟩ := inv_flush E orig st _ hinv
    refine ⟨⟨hi, hch.ordered⟩, ?_⟩
    intro c hc it hit'
    simp only [List.mem_reverse, List.mem_map] at hc
    obtain ⟨c0, hc0, rfl⟩ := hc
    exact hit c0 hc0 it (List.mem_reverse.mp hit')

/-- **C17_split_count**: `len(s.split(sep)) == s.count(sep) + 1`: the fact that makes `split_original[j]` safe when the counts agree -/
theorem C17_split_count (s sep : List Char) : (pySplit s sep).length = pyCount s sep + 1 := pySplit_length s sep

/-- **C17_found_total**: `parse_found_objects` never raises IndexError: for every parser behaviour, every chunk list (translated and
    original lists of equal length, as `translate_search` returns them) and every RELATIVE_BASE threading. -/
theorem C17_found_total (F : FEnv) (toParse original translated : List (List Char)) (rb0 : DateId)
    (h1 : toParse.length ≤ original.length) (h2 : toParse.length ≤ translated.length) :
    ∃ hits, parseFound F toParse original translated rb0 = .ok hits := by
  obtain ⟨r, h⟩ := foundGo_ok F original translated toParse 0 (by omega) (by omega) [] [] rb0
  exact ⟨r.filter (fun h => !(h.sub.all DP.isWs)), by simp [parseFound, h, Except.map]⟩

/-- **C17_found_order**: the hits come out in text order (by chunk, then by piece inside a chunk, strictly), every hit points at an
    existing chunk, carries a date, and is not blank. -/
theorem C17_found_order (F : FEnv) (toParse original translated : List (List Char)) (rb0 : DateId) (hits : List Hit)
    (h : parseFound F toParse original translated rb0 = .ok hits) :
    List.Pairwise hitLt hits ∧ (∀ x ∈ hits, x.ci < toParse.length) ∧ (∀ x ∈ hits, x.date.isSome = true) ∧
      (∀ x ∈ hits, x.sub.all DP.isWs = false) := by
  unfold parseFound at h
  cases h1 : foundGo F original translated toParse 0 [] [] rb0 with
  | error e => rw [h1] at h; cases h
  | ok r =>
    rw [h1] at h
    simp only [Except.map] at h
    injection h with h; subst h
    have hs := foundGo_sorted F original translated toParse 0 [] [] rb0 r ⟨.nil, by simp, by simp⟩ h1
    refine ⟨hs.1.filter _, ?_, ?_, ?_⟩
    · intro x hx; simpa using hs.2.1 x (List.mem_filter.mp hx).1
    · intro x hx; exact hs.2.2 x (List.mem_filter.mp hx).1
    · intro x hx; simpa using (List.mem_filter.mp hx).2


/-- **C17_split_join**: the pieces `s.split(sep)` returns, joined by `sep`, are `s`: every piece is a contiguous part of `s`, in order -/
theorem C17_split_join (s sep : List Char) (hsep : sep ≠ []) : pyJoin sep (pySplit s sep) = s := pyJoin_pySplit s sep hsep

/-- **C17_found_from** (provenance of the hits): the text of every hit is the original chunk it points at, stripped of surrounding
    punctuation, or one piece of one of the candidate splits of that chunk, stripped — never text from anywhere else. -/
theorem C17_found_from (F : FEnv) (toParse original translated : List (List Char)) (rb0 : DateId) (hits : List Hit)
    (h : parseFound F toParse original translated rb0 = .ok hits) : ∀ x ∈ hits, HitFrom toParse original x := by
  unfold parseFound at h
  cases h1 : foundGo F original translated toParse 0 [] [] rb0 with
  | error e => rw [h1] at h; cases h
  | ok r =>
    rw [h1] at h
    simp only [Except.map] at h
    injection h with h; subst h
    intro x hx
    exact foundGo_from F original translated toParse toParse 0 rfl [] [] rb0 r (by simp) h1 x (List.mem_filter.mp hx).1

end DP.Search
