import DPProofs.C07Dot
import DPProofs.C01
namespace DP

attribute [local simp] absParseToks parseState initLoop initStep timeDetect parseNumber parseAlpha alphaMonthStep tryDirs tryDir numDirs
  rClock tiSmall tiYear4 fieldTID
  PS.getC PS.getT PS.setC PS.setT truthy fillUnknown results resultsCore checkStrict missingOf pick getDatetimeObj
  finish correctTimeFrame correctMonth correctDay tokTruthy getPeriod replaceFirst bind Except.bind pure Except.pure Except.map

/-!
# C07 — the optional time suffix of the property's quantifier

`C07_order_decides(_dots)` speaks about the three date fields alone; here a clock token follows them.
-/

/-- **C07_order_time** (token level): the three fields in any of the six orders followed by a clock time (`hh:mm[:ss]`): the order still
    decides day, month and year, the clock time is what `time_parser` reads, for every preference, strictness and reference time. -/
theorem C07_order_time (st : PSettings) (O : List Comp) (hO : O ∈ allOrders) (hst : st.order = O)
    (y m d : Nat) (hd : DateOk y m d)
    (ty tm td tt : List Char) (hty : ty.length = 4) (htm2 : tm.length ≤ 2) (htd2 : td.length ≤ 2)
    (pm pd : Bool)
    (mic : Comp → Option (List Char)) (dot : Comp → Bool) (cdot : Bool) (tmv : DT) (htm : timeParser tt = .ok tmv)
    (htv : tmv.h ≤ 23 ∧ tmv.mi ≤ 59 ∧ tmv.s ≤ 59 ∧ tmv.us ≤ 999999) :
    absParseToks st (O.map (fun c => fieldTID c ty tm td y m d pm pd mic dot) ++ [rClock tt cdot]) =
      .ok ({ y := y, mo := m, d := d, h := tmv.h, mi := tmv.mi, s := tmv.s, us := tmv.us }, if st.timeAsPeriod then .time else .day) := by
  have hmk := mkDT_time y m d tmv hd htv
  obtain ⟨hy1, hy2, hm1, hm2, hd1, hd2⟩ := hd
  have hd31 : d ≤ 31 := Nat.le_trans hd2 (dim_le_31 _ _)
  have hm31 : m ≤ 31 := by omega
  have hy0 : y ≠ 0 := by omega
  have hm0 : m ≠ 0 := by omega
  have hd0 : d ≠ 0 := by omega
  have hl4 : ¬ (tm.length = 4) := by omega
  have hl4' : ¬ (td.length = 4) := by omega
  simp only [allOrders, List.mem_cons, List.mem_nil_iff, or_false] at hO
  rcases hO with rfl | rfl | rfl | rfl | rfl | rfl <;>
  · by_cases hd12 : d ≤ 12 <;> cases pm <;> cases pd <;> cases hta : st.timeAsPeriod <;>
    simp [hst, hy1, hm1, hm2, hm31, hd1, hd31, hd12, hy0, hm0, hd0, hmk, hty, htm, hta, hl4, hl4']

/-- non-vacuity: the hypotheses are met by '31/12/2020 10:30' read with DATE_ORDER = DMY. -/
example : timeParser "10:30".toList = .ok { y := 1900, mo := 1, d := 1, h := 10, mi := 30 } := by decide +kernel
example : absParseToks { order := [.day, .month, .year] }
    ([Comp.day, .month, .year].map (fun c => fieldTID c "2020".toList "12".toList "31".toList 2020 12 31 true true (fun _ => none) (fun _ => false))
      ++ [rClock "10:30".toList false])
    = .ok ({ y := 2020, mo := 12, d := 31, h := 10, mi := 30 }, .day) :=
  C07_order_time _ _ (by simp [allOrders]) rfl 2020 12 31 ⟨by decide, by decide, by decide, by decide, by decide, by decide⟩ _ _ _ _ rfl (by decide) (by decide)
    true true _ _ false { y := 1900, mo := 1, d := 1, h := 10, mi := 30 } (by decide +kernel) (by decide)

end DP
