import DPModel.DP.Loader
import DPModel.Gen.Consts
/-!
# C13 / C03 — the locale loader: every requested shortname is paired with its own language, and the process-wide locale cache makes no request depend on earlier ones
-/
namespace DP.Loader

theorem constructLocales_length (E : Env) (langs : List String) (region : String) :
    (constructLocales E langs region).length = langs.length := by
  unfold constructLocales; split <;> simp

/-- **pairing**: every requested shortname is paired with its own language — the plain language or that language with the region -/
theorem pairs_own_language (E : Env) (langs : List String) (region : String) :
    ∀ p ∈ (constructLocales E langs region).zip langs, p.1 = p.2 ∨ p.1 = p.2 ++ "-" ++ region := by
  unfold constructLocales
  split
  · intro p hp
    left
    induction langs with
    | nil => simp at hp
    | cons l ls ih =>
      simp only [List.zip_cons_cons, List.mem_cons] at hp
      rcases hp with rfl | hp
      · rfl
      · exact ih hp
  · intro p hp
    induction langs with
    | nil => simp at hp
    | cons l ls ih =>
      simp only [List.map_cons, List.zip_cons_cons, List.mem_cons] at hp
      rcases hp with rfl | hp
      · simp only; split <;> simp
      · exact ih hp

theorem dictUpdate_mem (d ps : List (String × String)) : ∀ p ∈ dictUpdate d ps, p ∈ d ∨ p ∈ ps := by
  induction ps generalizing d with
  | nil => intro p hp; exact Or.inl hp
  | cons kv rest ih =>
    obtain ⟨k, v⟩ := kv
    intro p hp
    unfold dictUpdate at hp
    split at hp
    · rcases ih _ p hp with h | h
      · simp only [List.mem_map] at h
        obtain ⟨q, hq, rfl⟩ := h
        split
        · exact Or.inr List.mem_cons_self
        · exact Or.inl hq
      · exact Or.inr (List.mem_cons_of_mem _ h)
    · rcases ih _ p hp with h | h
      · simp only [List.mem_append, List.mem_singleton] at h
        rcases h with h | rfl
        · exact Or.inl h
        · exact Or.inr List.mem_cons_self
      · exact Or.inr (List.mem_cons_of_mem _ h)

theorem insertByRank_mem (E : Env) (x : String × String) (ys : List (String × String)) : ∀ p ∈ insertByRank E x ys, p = x ∨ p ∈ ys := by
  induction ys with
  | nil => intro p hp; simp [insertByRank] at hp; exact Or.inl hp
  | cons y ys ih =>
    intro p hp
    unfold insertByRank at hp
    split at hp
    · simp only [List.mem_cons] at hp
      rcases hp with rfl | hp
      · exact Or.inr List.mem_cons_self
      · rcases ih p hp with h | h
        · exact Or.inl h
        · exact Or.inr (List.mem_cons_of_mem _ h)
    · simp only [List.mem_cons] at hp
      rcases hp with rfl | rfl | hp
      · exact Or.inl rfl
      · exact Or.inr List.mem_cons_self
      · exact Or.inr (List.mem_cons_of_mem _ hp)

theorem sortByRank_mem (E : Env) (xs : List (String × String)) : ∀ p ∈ sortByRank E xs, p ∈ xs := by
  unfold sortByRank
  suffices h : ∀ (acc : List (String × String)) p, p ∈ xs.foldl (fun acc x => insertByRank E x acc) acc → p ∈ acc ∨ p ∈ xs by
    intro p hp; rcases h [] p hp with h | h
    · simp at h
    · exact h
  induction xs with
  | nil => intro acc p hp; exact Or.inl hp
  | cons x xs ih =>
    intro acc p hp
    simp only [List.foldl_cons] at hp
    rcases ih _ p hp with h | h
    · rcases insertByRank_mem E x acc p h with rfl | h
      · exact Or.inr List.mem_cons_self
      · exact Or.inl h
    · exact Or.inr (List.mem_cons_of_mem _ h)

/-- every pair the loader walks is one of the (shortname, own language) pairs -/
theorem loadPairs_mem (E : Env) (langs : List String) (region : String) (g : Bool) :
    ∀ p ∈ loadPairs E langs region g, p ∈ (constructLocales E langs region).zip langs := by
  intro p hp
  unfold loadPairs at hp
  simp only at hp
  split at hp
  · rcases dictUpdate_mem [] _ p hp with h | h
    · simp at h
    · exact h
  · rcases dictUpdate_mem [] _ p (sortByRank_mem E _ p hp) with h | h
    · simp at h
    · exact h

/-- the cache only holds locale objects built from the language `f` assigns to their name -/
def Coherent (f : String → String) (c : Cache) : Prop := ∀ p ∈ c, f p.1 = p.2

theorem get_coherent (f : String → String) (c : Cache) (hc : Coherent f c) (name l : String) (h : c.get name = some l) : l = f name := by
  unfold Cache.get at h
  cases hf : c.find? (·.1 == name) with
  | none => rw [hf] at h; cases h
  | some p =>
    rw [hf] at h; simp only [Option.map_some] at h
    injection h with h; subst h
    have hm := List.mem_of_find?_eq_some hf
    have hk := List.find?_some hf
    simp only [beq_iff_eq] at hk
    rw [← hk]; exact (hc p hm).symm

theorem yieldAll_spec (f : String → String) (c : Cache) (pairs : List (String × String)) (hc : Coherent f c) (hp : ∀ p ∈ pairs, f p.1 = p.2) :
    (yieldAll c pairs).2 = pairs ∧ Coherent f (yieldAll c pairs).1 := by
  induction pairs generalizing c with
  | nil => exact ⟨rfl, hc⟩
  | cons p rest ih =>
    obtain ⟨name, lang⟩ := p
    have hnl : f name = lang := hp (name, lang) List.mem_cons_self
    have hrest : ∀ q ∈ rest, f q.1 = q.2 := fun q hq => hp q (List.mem_cons_of_mem _ hq)
    unfold yieldAll
    cases hg : c.get name with
    | some l =>
      have hl := get_coherent f c hc name l hg
      obtain ⟨h1, h2⟩ := ih c hc hrest
      simp only
      refine ⟨?_, h2⟩
      rw [h1, hl, hnl]
    | none =>
      have hc' : Coherent f ((name, lang) :: c) := by
        intro q hq
        simp only [List.mem_cons] at hq
        rcases hq with rfl | hq
        · exact hnl
        · exact hc q hq
      obtain ⟨h1, h2⟩ := ih _ hc' hrest
      simp only
      exact ⟨by rw [h1], h2⟩

/-- a history of requests is consistent when one function names the language of every shortname they request -/
def ConsistentReq (E : Env) (f : String → String) (r : Req) : Prop := ∀ p ∈ (constructLocales E r.langs r.region).zip r.langs, f p.1 = p.2

theorem after_coherent (E : Env) (f : String → String) (c : Cache) (hist : List Req) (hc : Coherent f c) (hh : ∀ r ∈ hist, ConsistentReq E f r) :
    Coherent f (after E c hist) := by
  induction hist generalizing c with
  | nil => exact hc
  | cons r rs ih =>
    unfold after
    apply ih
    · unfold serve
      exact (yieldAll_spec f c _ hc (fun p hp => hh r List.mem_cons_self p (loadPairs_mem E _ _ _ p hp))).2
    · exact fun r' hr' => hh r' (List.mem_cons_of_mem _ hr')

/-- **loader_history_independent**: whatever requests were served before, a request yields every shortname with data of *its own* language —
    exactly what it yields on an empty cache — as long as the requests of the process agree on which language a shortname belongs to. -/
theorem loader_history_independent (E : Env) (f : String → String) (hist : List Req) (r : Req)
    (hh : ∀ r' ∈ hist, ConsistentReq E f r') (hr : ConsistentReq E f r) :
    (serve E (after E [] hist) r).2 = (serve E [] r).2 := by
  have hc := after_coherent E f [] hist (by intro p hp; simp at hp) hh
  have hp : ∀ p ∈ loadPairs E r.langs r.region r.givenOrder, f p.1 = p.2 := fun p hp => hr p (loadPairs_mem E _ _ _ p hp)
  unfold serve
  rw [(yieldAll_spec f _ _ hc hp).1, (yieldAll_spec f [] _ (by intro p hp; simp at hp) hp).1]

/-- the pinned tree's pairing: regional forms that do not exist were *dropped*, and the shortened list was then paired with the full
    language list by position (`zip_longest`; a missing name is `None`) -/
def loadPairsPinned (E : Env) (langs : List String) (region : String) : List (String × String) :=
  let locs := if region == "" then langs else (langs.map (fun l => l ++ "-" ++ region)).filter (fun c => langs.any (fun l => (E.localesOf l).contains c))
  let rec zipLongest : List String → List String → List (String × String)
    | n :: ns, l :: ls => (n, l) :: zipLongest ns ls
    | [], l :: ls => ("None", l) :: zipLongest [] ls
    | _, [] => []
  zipLongest locs langs

def envAU : Env := { order := ["en", "fr", "de"], localesOf := fun l => if l == "en" then ["en-AU", "en-CA"] else if l == "fr" then ["fr-CA"] else [] }

/-- **loader_pinned_counterexample**: on the pinned tree `languages=['fr','en'], region='AU'` pairs the name `en-AU` with French data
    (and English data with the name `None`); once cached, `locales=['en-AU']` gets French — the defect repaired in c4d93b6 -/
theorem loader_pinned_counterexample :
    loadPairsPinned envAU ["fr", "en"] "AU" = [("en-AU", "fr"), ("None", "en")] ∧
    (yieldAll (yieldAll [] (loadPairsPinned envAU ["fr", "en"] "AU")).1 [("en-AU", "en")]).2 = [("en-AU", "fr")] ∧
    loadPairs envAU ["fr", "en"] "AU" true = [("fr", "fr"), ("en-AU", "en")] := by
  decide +kernel

/-- generated fact: `_construct_locales` falls back to the plain language where the regional form does not exist (it does not drop it) -/
theorem loader_fallback_source : DP.Gen.loaderFallsBack = true := by decide

/-- generated facts: every locale object is built from a private deep copy of its language's data, merged with the regional overlay into a
    fresh mapping — so that building one locale (popping `locale_specific`, extending a list) cannot change what a later one is built from;
    this is what lets `constructLocales` take the language data as a constant -/
theorem loader_private_data_source : Gen.loaderCopiesLanguageData = true ∧ Gen.combineDictsFresh = true := by decide

end DP.Loader
