import DPProofs.Lemmas.Classify
import DPProofs.C01
import DPProofs.C01Time
/-!
# C01 at string level: the whole absolute parser (`tokenize` → `classify` → stage 2) on the rendered text

`DPProofs/C01.lean` proves the stage-2 theorems over token records; this file proves that tokenising and classifying the rendered
string produces exactly those records, and composes the two: `absParse st (render d) = d` for every valid date.
-/
namespace DP
theorem tokenize_iso_date (y m d : Nat) (hy : y ≤ 9999) (hm : m < 100) (hd : d < 100) :
    tokenize (pad4c y ++ ['-'] ++ pad2c m ++ ['-'] ++ pad2c d) =
      .ok [(pad4c y, 0), (['-'], 2), (pad2c m, 0), (['-'], 2), (pad2c d, 0)] := by
  have y1 : y / 1000 < 10 := by omega
  have y2 : y / 100 % 10 < 10 := by omega
  have y3 : y / 10 % 10 < 10 := by omega
  have y4 : y % 10 < 10 := by omega
  have m1 : m / 10 < 10 := by omega
  have m2 : m % 10 < 10 := by omega
  have d1 : d / 10 < 10 := by omega
  have d2 : d % 10 < 10 := by omega
  simp [tokenize, tokGo, pad4c, pad2c, tkCls_dch, tkCls_dash, y1, y2, y3, y4, m1, m2, d1, d2]
theorem classify_iso_date (y m d : Nat) (hy : y ≤ 9999) (hm : m < 100) (hd : d < 100) :
    classify #[(pad4c y, 0), (['-'], 2), (pad2c m, 0), (['-'], 2), (pad2c d, 0)] =
      [rY (pad4c y) y, rS (pad2c m) m true, rS (pad2c d) d true] := by
  have y1 : y / 1000 < 10 := by omega
  have y2 : y / 100 % 10 < 10 := by omega
  have y3 : y / 10 % 10 < 10 := by omega
  have y4 : y % 10 < 10 := by omega
  have m1 : m / 10 < 10 := by omega
  have m2 : m % 10 < 10 := by omega
  have d1 : d / 10 < 10 := by omega
  have d2 : d % 10 < 10 := by omega
  simp [classify, rY, rS, tiYear4, tiSmall, fmt_m, fmt_d, fmt_y, fmt_Y, dirNum_m2, dirNum_d2, dirNum_y2, dirNum_Y2, dirNum_Y4, dirNum_four_none,
    hy, hm, hd, List.zipIdx]
  have hno : ∀ t ∈ [(['-'], 2), (pad2c m, 0), (['-'], 2), (pad2c d, 0)], ¬ '.' ∈ (t : List Char × Nat).1 := by
    intro t ht
    simp only [List.mem_cons, List.not_mem_nil, or_false] at ht
    rcases ht with rfl | rfl | rfl | rfl
    · simp
    · exact colon_pad2 m hm '.' (by simp)
    · simp
    · exact colon_pad2 d hd '.' (by simp)
  refine ⟨⟨⟨allAscii_pad4 y hy, natOfAscii_pad4 y hy⟩, micro_pad4 y hy, merid_pad4 y hy, skip_pad4 y hy, colon_pad4 y hy, dotAfter_false _ hno _⟩,
    ⟨⟨allAscii_pad2 m hm, natOfAscii_pad2 m hm⟩, micro_pad2 m hm, merid_pad2 m hm, skip_pad2 m hm, colon_pad2 m hm ':' (by simp), dotAfter_false _ hno _⟩,
    ⟨allAscii_pad2 d hd, natOfAscii_pad2 d hd⟩, micro_pad2 d hd, merid_pad2 d hd, skip_pad2 d hd, colon_pad2 d hd ':' (by simp), dotAfter_false _ hno _⟩

theorem stripWs_pad4 (y : Nat) (hy : y ≤ 9999) : stripWs (pad4c y) = pad4c y := by
  have y1 : y / 1000 < 10 := by omega
  have y4 : y % 10 < 10 := by omega
  have := stripWs_digits (y / 1000) y1 (y % 10) y4 [dch (y / 100 % 10), dch (y / 10 % 10)]
  simpa [pad4c] using this
theorem stripWs_pad2 (v : Nat) (hv : v < 100) : stripWs (pad2c v) = pad2c v := by
  have a1 : v / 10 < 10 := by omega
  have a2 : v % 10 < 10 := by omega
  have := stripWs_digits (v / 10) a1 (v % 10) a2 []
  simpa [pad2c] using this
theorem stripWs_dash : stripWs ['-'] = ['-'] := by decide

/-- the text `YYYY-MM-DD` -/
def renderIsoDate (y m d : Nat) : List Char := pad4c y ++ ['-'] ++ pad2c m ++ ['-'] ++ pad2c d

/-- **C01_iso_date_string**: for every valid date, every PREFER_* value, strictness and reference time, the absolute parser — from the
    characters of `YYYY-MM-DD` through tokenisation, classification (every `strptime` probe of every token) and stage 2 — returns
    exactly that date with period `day`. -/
theorem C01_iso_date_string (st : PSettings) (ho : isoOrder st.order) (y m d : Nat) (hd : DateOk y m d) :
    absParse st (renderIsoDate y m d) = .ok ({ y := y, mo := m, d := d }, .day) := by
  have hy : y ≤ 9999 := hd.y2
  have hm : m < 100 := by have := hd.m2; omega
  have hdd : d < 100 := by have := hd.d2; have := dim_le_31 y m; omega
  unfold absParse renderIsoDate
  rw [tokenize_iso_date y m d hy hm hdd]
  simp only [bind, Except.bind, List.map_cons, List.map_nil, stripWs_pad4 y hy, stripWs_pad2 m hm, stripWs_pad2 d hdd, stripWs_dash]
  rw [classify_iso_date y m d hy hm hdd]
  exact C01_iso_date st ho y m d hd (pad4c y) (pad2c m) (pad2c d) rfl


/-! ## `YYYY-MM-DD hh:mm:ss` -/

def clockHMS (h mi s : Nat) : List Char := pad2c h ++ [':'] ++ pad2c mi ++ [':'] ++ pad2c s

theorem tokenize_iso_hms (y m d h mi s : Nat) (hy : y ≤ 9999) (hm : m < 100) (hd : d < 100) (hh : h < 100) (hmi : mi < 100) (hs : s < 100) :
    tokenize (renderIsoDate y m d ++ [' '] ++ clockHMS h mi s) =
      .ok [(pad4c y, 0), (['-'], 2), (pad2c m, 0), (['-'], 2), (pad2c d, 0), ([' '], 2), (clockHMS h mi s, 0)] := by
  have y1 : y / 1000 < 10 := by omega
  have y2 : y / 100 % 10 < 10 := by omega
  have y3 : y / 10 % 10 < 10 := by omega
  have y4 : y % 10 < 10 := by omega
  have m1 : m / 10 < 10 := by omega
  have m2 : m % 10 < 10 := by omega
  have d1 : d / 10 < 10 := by omega
  have d2 : d % 10 < 10 := by omega
  have h1 : h / 10 < 10 := by omega
  have h2 : h % 10 < 10 := by omega
  have i1 : mi / 10 < 10 := by omega
  have i2 : mi % 10 < 10 := by omega
  have s1 : s / 10 < 10 := by omega
  have s2 : s % 10 < 10 := by omega
  simp [tokenize, tokGo, renderIsoDate, clockHMS, pad4c, pad2c, tkCls_dch, tkCls_dash, tkCls_colon, tkCls_space,
    y1, y2, y3, y4, m1, m2, d1, d2, h1, h2, i1, i2, s1, s2]

theorem isDecDigit_colon : isDecDigit ':' = false := by decide

theorem dirNum_clock_none (a b : Nat) (ha : a < 10) (hb : b < 10) (rest : List Char) (c : Char) (hc : c = 'm' ∨ c = 'd' ∨ c = 'y' ∨ c = 'Y')
    (sel : DT → Nat) : dirNum (dch a :: dch b :: ':' :: rest) ['%', c] sel = none := by
  unfold dirNum
  rw [dpStrptime_dir1 _ c hc]
  rcases hc with rfl | rfl | rfl | rfl
  · rw [dir_two_m true [] _ _ ha hb _ {} (fun fd' => end_rejects _ _ fd'), end_rejects]; simp
  · rw [dir_two_d true [] _ _ ha hb _ {} (fun fd' => end_rejects _ _ fd'), end_rejects]; simp
  · rw [dir_two_y true [] _ _ ha hb _ {} (fun fd' => end_rejects _ _ fd'), end_rejects]; simp
  · simp [matchItems, numAlts, consumeAlt, List.findSome?, CT.test, isDecDigit_dch, ha, hb, isDecDigit_colon]

theorem clock_no_dot (h mi s : Nat) (hh : h < 100) (hmi : mi < 100) (hs : s < 100) : ¬ '.' ∈ clockHMS h mi s := by
  have := colon_pad2 h hh '.' (by simp)
  have := colon_pad2 mi hmi '.' (by simp)
  have := colon_pad2 s hs '.' (by simp)
  simp [clockHMS, *]

theorem classify_iso_hms (y m d h mi s : Nat) (hy : y ≤ 9999) (hm : m < 100) (hd : d < 100) (hh : h < 100) (hmi : mi < 100) (hs : s < 100) :
    classify #[(pad4c y, 0), (['-'], 2), (pad2c m, 0), (['-'], 2), (pad2c d, 0), ([], 2), (clockHMS h mi s, 0)] =
      [rY (pad4c y) y, rS (pad2c m) m true, rS (pad2c d) d true, rClock (clockHMS h mi s) false] := by
  have h1 : h / 10 < 10 := by omega
  have h2 : h % 10 < 10 := by omega
  have ec : clockHMS h mi s = dch (h / 10) :: dch (h % 10) :: ':' :: (pad2c mi ++ [':'] ++ pad2c s) := by simp [clockHMS, pad2c]
  have c1 := dirNum_clock_none _ _ h1 h2 (pad2c mi ++ [':'] ++ pad2c s) 'm' (by simp) DT.mo
  have c2 := dirNum_clock_none _ _ h1 h2 (pad2c mi ++ [':'] ++ pad2c s) 'd' (by simp) DT.d
  have c3 := dirNum_clock_none _ _ h1 h2 (pad2c mi ++ [':'] ++ pad2c s) 'y' (by simp) DT.y
  have c4 := dirNum_clock_none _ _ h1 h2 (pad2c mi ++ [':'] ++ pad2c s) 'Y' (by simp) DT.y
  rw [← ec] at c1 c2 c3 c4
  simp [classify, rY, rS, rClock, tiYear4, tiSmall, fmt_m, fmt_d, fmt_y, fmt_Y, dirNum_m2, dirNum_d2, dirNum_y2, dirNum_Y2, dirNum_Y4, dirNum_four_none,
    hy, hm, hd, List.zipIdx, c1, c2, c3, c4]
  have hno : ∀ t ∈ [(['-'], 2), (pad2c m, 0), (['-'], 2), (pad2c d, 0), ([], 2), (clockHMS h mi s, 0)], ¬ '.' ∈ (t : List Char × Nat).1 := by
    intro t ht
    simp only [List.mem_cons, List.not_mem_nil, or_false] at ht
    rcases ht with rfl | rfl | rfl | rfl | rfl | rfl
    · simp
    · exact colon_pad2 m hm '.' (by simp)
    · simp
    · exact colon_pad2 d hd '.' (by simp)
    · simp
    · exact clock_no_dot h mi s hh hmi hs
  have i1 : mi / 10 < 10 := by omega
  have i2 : mi % 10 < 10 := by omega
  have s1 : s / 10 < 10 := by omega
  have s2 : s % 10 < 10 := by omega
  have k1 : allAsciiDigits (clockHMS h mi s) = false := by
    have hc : asciiDigit ':' = false := by decide
    simp [allAsciiDigits, clockHMS, pad2c, hc]
  have k2 : meridSearch (clockHMS h mi s) = none := by
    simp [meridSearch, clockHMS, pad2c, dch_ne, h1, h2, i1, i2, s1, s2]
  have k3 : ¬ clockHMS h mi s ∈ Gen.parserSkipTokensC := by
    simp [Gen.parserSkipTokensC, clockHMS, pad2c]
  have k4 : ':' ∈ clockHMS h mi s := by simp [clockHMS]
  refine ⟨⟨⟨allAscii_pad4 y hy, natOfAscii_pad4 y hy⟩, micro_pad4 y hy, merid_pad4 y hy, skip_pad4 y hy, colon_pad4 y hy, dotAfter_false _ hno _⟩,
    ⟨⟨allAscii_pad2 m hm, natOfAscii_pad2 m hm⟩, micro_pad2 m hm, merid_pad2 m hm, skip_pad2 m hm, colon_pad2 m hm ':' (by simp), dotAfter_false _ hno _⟩,
    ⟨⟨allAscii_pad2 d hd, natOfAscii_pad2 d hd⟩, micro_pad2 d hd, merid_pad2 d hd, skip_pad2 d hd, colon_pad2 d hd ':' (by simp), dotAfter_false _ hno _⟩,
    k1, k2, k3, k4, dotAfter_false _ hno _⟩

theorem stripWs_space : stripWs [' '] = [] := by decide
theorem stripWs_clock (h mi s : Nat) (hh : h < 100) (hs : s < 100) : stripWs (clockHMS h mi s) = clockHMS h mi s := by
  have a1 : h / 10 < 10 := by omega
  have a2 : s % 10 < 10 := by omega
  have := stripWs_digits (h / 10) a1 (s % 10) a2 ([dch (h % 10), ':'] ++ pad2c mi ++ [':', dch (s / 10)])
  simpa [clockHMS, pad2c] using this

/-- **C01_iso_hms_string**: for every valid date and clock time, the absolute parser on the characters of `YYYY-MM-DD hh:mm:ss` returns
    exactly that datetime (every PREFER_* value, strictness, reference time). -/
theorem C01_iso_hms_string (st : PSettings) (ho : isoOrder st.order) (y m d h mi s : Nat) (hd : DateOk y m d) (ht : TimeOk h mi s) :
    absParse st (renderIsoDate y m d ++ [' '] ++ clockHMS h mi s) =
      .ok ({ y := y, mo := m, d := d, h := h, mi := mi, s := s }, if st.timeAsPeriod then .time else .day) := by
  have hy : y ≤ 9999 := hd.y2
  have hm : m < 100 := by have := hd.m2; omega
  have hdd : d < 100 := by have := hd.d2; have := dim_le_31 y m; omega
  have hh : h < 100 := by have := ht.h23; omega
  have hmi : mi < 100 := by have := ht.m59; omega
  have hs : s < 100 := by have := ht.s59; omega
  unfold absParse
  rw [tokenize_iso_hms y m d h mi s hy hm hdd hh hmi hs]
  simp only [bind, Except.bind, List.map_cons, List.map_nil, stripWs_pad4 y hy, stripWs_pad2 m hm, stripWs_pad2 d hdd, stripWs_dash,
    stripWs_clock h mi s hh hs, stripWs_space]
  rw [classify_iso_hms y m d h mi s hy hm hdd hh hmi hs]
  exact C01_iso_hms st ho y m d h mi s hd ht (pad4c y) (pad2c m) (pad2c d) rfl false false


/-! ## `YYYY-MM-DDThh:mm:ss` -/

theorem tkCls_t : tkCls 't' = 1 := by decide

theorem tokenize_iso_T (y m d h mi s : Nat) (hy : y ≤ 9999) (hm : m < 100) (hd : d < 100) (hh : h < 100) (hmi : mi < 100) (hs : s < 100) :
    tokenize (renderIsoDate y m d ++ ['t'] ++ clockHMS h mi s) =
      .ok [(pad4c y, 0), (['-'], 2), (pad2c m, 0), (['-'], 2), (pad2c d, 0), (['t'], 1), (clockHMS h mi s, 0)] := by
  have y1 : y / 1000 < 10 := by omega
  have y2 : y / 100 % 10 < 10 := by omega
  have y3 : y / 10 % 10 < 10 := by omega
  have y4 : y % 10 < 10 := by omega
  have m1 : m / 10 < 10 := by omega
  have m2 : m % 10 < 10 := by omega
  have d1 : d / 10 < 10 := by omega
  have d2 : d % 10 < 10 := by omega
  have h1 : h / 10 < 10 := by omega
  have h2 : h % 10 < 10 := by omega
  have i1 : mi / 10 < 10 := by omega
  have i2 : mi % 10 < 10 := by omega
  have s1 : s / 10 < 10 := by omega
  have s2 : s % 10 < 10 := by omega
  simp [tokenize, tokGo, renderIsoDate, clockHMS, pad4c, pad2c, tkCls_dch, tkCls_dash, tkCls_colon, tkCls_t,
    y1, y2, y3, y4, m1, m2, d1, d2, h1, h2, i1, i2, s1, s2]

theorem classify_iso_T (y m d h mi s : Nat) (hy : y ≤ 9999) (hm : m < 100) (hd : d < 100) (hh : h < 100) (hmi : mi < 100) (hs : s < 100) :
    classify #[(pad4c y, 0), (['-'], 2), (pad2c m, 0), (['-'], 2), (pad2c d, 0), (['t'], 1), (clockHMS h mi s, 0)] =
      [rY (pad4c y) y, rS (pad2c m) m true, rS (pad2c d) d true, rT, rClock (clockHMS h mi s) false] := by
  have h1 : h / 10 < 10 := by omega
  have h2 : h % 10 < 10 := by omega
  have ec : clockHMS h mi s = dch (h / 10) :: dch (h % 10) :: ':' :: (pad2c mi ++ [':'] ++ pad2c s) := by simp [clockHMS, pad2c]
  have c1 := dirNum_clock_none _ _ h1 h2 (pad2c mi ++ [':'] ++ pad2c s) 'm' (by simp) DT.mo
  have c2 := dirNum_clock_none _ _ h1 h2 (pad2c mi ++ [':'] ++ pad2c s) 'd' (by simp) DT.d
  have c3 := dirNum_clock_none _ _ h1 h2 (pad2c mi ++ [':'] ++ pad2c s) 'y' (by simp) DT.y
  have c4 := dirNum_clock_none _ _ h1 h2 (pad2c mi ++ [':'] ++ pad2c s) 'Y' (by simp) DT.y
  rw [← ec] at c1 c2 c3 c4
  have hno : ∀ t ∈ [(['-'], 2), (pad2c m, 0), (['-'], 2), (pad2c d, 0), (['t'], 1), (clockHMS h mi s, 0)], ¬ '.' ∈ (t : List Char × Nat).1 := by
    intro t ht
    simp only [List.mem_cons, List.not_mem_nil, or_false] at ht
    rcases ht with rfl | rfl | rfl | rfl | rfl | rfl
    · simp
    · exact colon_pad2 m hm '.' (by simp)
    · simp
    · exact colon_pad2 d hd '.' (by simp)
    · simp
    · exact clock_no_dot h mi s hh hmi hs
  have i1 : mi / 10 < 10 := by omega
  have i2 : mi % 10 < 10 := by omega
  have s1 : s / 10 < 10 := by omega
  have s2 : s % 10 < 10 := by omega
  have k1 : allAsciiDigits (clockHMS h mi s) = false := by
    have hc : asciiDigit ':' = false := by decide
    simp [allAsciiDigits, clockHMS, pad2c, hc]
  have k2 : meridSearch (clockHMS h mi s) = none := by
    simp [meridSearch, clockHMS, pad2c, dch_ne, h1, h2, i1, i2, s1, s2]
  have k3 : ¬ clockHMS h mi s ∈ Gen.parserSkipTokensC := by
    simp [Gen.parserSkipTokensC, clockHMS, pad2c]
  have k4 : ':' ∈ clockHMS h mi s := by simp [clockHMS]
  have k5 : clockHMS h mi s ≠ ['.'] := by simp [clockHMS, pad2c]
  have k5' : ¬ (clockHMS h mi s = ['.']) := k5
  have t1 : allAsciiDigits ['t'] = false := by decide
  have t2 : ∀ (a : Nat), nameIdx dayNamesC ['t'] = some a ∨ nameIdx dayNamesC ['t'] = none ∧ nameIdx dayAbbrC ['t'] = some a →
      ∀ (x : String), x ∈ Gen.weekdayAbbr → ¬x.toList = [lowerA 't'] := by
    intro a ha
    have e1 : nameIdx dayNamesC ['t'] = none := by decide +kernel
    have e2 : nameIdx dayAbbrC ['t'] = none := by decide +kernel
    rw [e1, e2] at ha
    rcases ha with ha | ⟨_, ha⟩ <;> cases ha
  have t3 : nameIdx monthNamesC ['t'] = none := by decide +kernel
  have t4 : nameIdx monthAbbrC ['t'] = none := by decide +kernel
  have t5 : microSearch ['t'] = none := by decide
  have t6 : meridSearch ['t'] = none := by decide
  have t7 : ['t'] ∈ Gen.parserSkipTokensC := by decide
  simp [classify, rY, rS, rT, rClock, tiYear4, tiSmall, fmt_m, fmt_d, fmt_y, fmt_Y, dirNum_m2, dirNum_d2, dirNum_y2, dirNum_Y2, dirNum_Y4, dirNum_four_none,
    hy, hm, hd, List.zipIdx, c1, c2, c3, c4, k5', t1, t3, t4, t5, t6, t7, k1, k2, k3, k4,
    allAscii_pad4 y hy, natOfAscii_pad4 y hy, micro_pad4 y hy, merid_pad4 y hy, skip_pad4 y hy, colon_pad4 y hy,
    allAscii_pad2 m hm, natOfAscii_pad2 m hm, micro_pad2 m hm, merid_pad2 m hm, skip_pad2 m hm, colon_pad2 m hm ':' (by simp),
    allAscii_pad2 d hd, natOfAscii_pad2 d hd, micro_pad2 d hd, merid_pad2 d hd, skip_pad2 d hd, colon_pad2 d hd ':' (by simp)]
  exact ⟨dotAfter_false _ hno _, dotAfter_false _ hno _, dotAfter_false _ hno _, ⟨t2, dotAfter_false _ hno _⟩, dotAfter_false _ hno _⟩

theorem stripWs_t : stripWs ['t'] = ['t'] := by decide

/-- **C01_iso_T_string**: `YYYY-MM-DDThh:mm:ss` (as the pipeline hands it to the absolute parser: lower-cased) -/
theorem C01_iso_T_string (st : PSettings) (ho : isoOrder st.order) (y m d h mi s : Nat) (hd : DateOk y m d) (ht : TimeOk h mi s) :
    absParse st (renderIsoDate y m d ++ ['t'] ++ clockHMS h mi s) =
      .ok ({ y := y, mo := m, d := d, h := h, mi := mi, s := s }, if st.timeAsPeriod then .time else .day) := by
  have hy : y ≤ 9999 := hd.y2
  have hm : m < 100 := by have := hd.m2; omega
  have hdd : d < 100 := by have := hd.d2; have := dim_le_31 y m; omega
  have hh : h < 100 := by have := ht.h23; omega
  have hmi : mi < 100 := by have := ht.m59; omega
  have hs : s < 100 := by have := ht.s59; omega
  unfold absParse
  rw [tokenize_iso_T y m d h mi s hy hm hdd hh hmi hs]
  simp only [bind, Except.bind, List.map_cons, List.map_nil, stripWs_pad4 y hy, stripWs_pad2 m hm, stripWs_pad2 d hdd, stripWs_dash,
    stripWs_clock h mi s hh hs, stripWs_t]
  rw [classify_iso_T y m d h mi s hy hm hdd hh hmi hs]
  exact C01_iso_hms st ho y m d h mi s hd ht (pad4c y) (pad2c m) (pad2c d) rfl true false

/-! ## `YYYY-MM-DD hh:mm:ss.ffffff` -/

theorem tkCls_dot : tkCls '.' = 2 := by decide

theorem tokenize_iso_us (y m d h mi s us : Nat) (hy : y ≤ 9999) (hm : m < 100) (hd : d < 100) (hh : h < 100) (hmi : mi < 100) (hs : s < 100) (hus : us ≤ 999999) :
    tokenize (renderIsoDate y m d ++ [' '] ++ clockHMS h mi s ++ ['.'] ++ frac6 us) =
      .ok [(pad4c y, 0), (['-'], 2), (pad2c m, 0), (['-'], 2), (pad2c d, 0), ([' '], 2), (clockHMS h mi s, 0), (['.'], 2), (frac6 us, 0)] := by
  have y1 : y / 1000 < 10 := by omega
  have y2 : y / 100 % 10 < 10 := by omega
  have y3 : y / 10 % 10 < 10 := by omega
  have y4 : y % 10 < 10 := by omega
  have m1 : m / 10 < 10 := by omega
  have m2 : m % 10 < 10 := by omega
  have d1 : d / 10 < 10 := by omega
  have d2 : d % 10 < 10 := by omega
  have h1 : h / 10 < 10 := by omega
  have h2 : h % 10 < 10 := by omega
  have i1 : mi / 10 < 10 := by omega
  have i2 : mi % 10 < 10 := by omega
  have s1 : s / 10 < 10 := by omega
  have s2 : s % 10 < 10 := by omega
  have f1 : us / 100000 < 10 := by omega
  have f2 : us / 10000 % 10 < 10 := by omega
  have f3 : us / 1000 % 10 < 10 := by omega
  have f4 : us / 100 % 10 < 10 := by omega
  have f5 : us / 10 % 10 < 10 := by omega
  have f6 : us % 10 < 10 := by omega
  simp [tokenize, tokGo, renderIsoDate, clockHMS, frac6, pad4c, pad2c, tkCls_dch, tkCls_dash, tkCls_colon, tkCls_space, tkCls_dot,
    y1, y2, y3, y4, m1, m2, d1, d2, h1, h2, i1, i2, s1, s2, f1, f2, f3, f4, f5, f6]

theorem dirNum_six_none (us : Nat) (hus : us ≤ 999999) (c : Char) (hc : c = 'm' ∨ c = 'd' ∨ c = 'y' ∨ c = 'Y') (sel : DT → Nat) :
    dirNum (frac6 us) ['%', c] sel = none := by
  have f1 : us / 100000 < 10 := by omega
  have f2 : us / 10000 % 10 < 10 := by omega
  have f3 : us / 1000 % 10 < 10 := by omega
  have f4 : us / 100 % 10 < 10 := by omega
  unfold dirNum
  rw [dpStrptime_dir1 _ c hc]
  simp only [frac6]
  rcases hc with rfl | rfl | rfl | rfl
  · rw [dir_two_m true [] _ _ f1 f2 _ {} (fun fd' => end_rejects _ _ fd'), end_rejects]; simp
  · rw [dir_two_d true [] _ _ f1 f2 _ {} (fun fd' => end_rejects _ _ fd'), end_rejects]; simp
  · rw [dir_two_y true [] _ _ f1 f2 _ {} (fun fd' => end_rejects _ _ fd'), end_rejects]; simp
  · rw [dir_four_Y true [] _ _ _ _ f1 f2 f3 f4 _ {}, end_rejects]

/-- the merged "hour:minute" candidate built from a clock token and the fraction digits is never an `H:MM` text -/
theorem hourMinuteOk_clock_frac (h mi s : Nat) (hh : h ≤ 23) (hmi : mi ≤ 59) (rest : List Char) :
    hourMinuteOk (clockHMS h mi s ++ ':' :: rest) = false := by
  have h1 : h / 10 < 10 := by omega
  have h2 : h % 10 < 10 := by omega
  have i1 : mi / 10 < 10 := by omega
  have i2 : mi % 10 < 10 := by omega
  have eh : 10 * (h / 10) + h % 10 = h := by omega
  have em : 10 * (mi / 10) + mi % 10 = mi := by omega
  unfold hourMinuteOk
  simp only [clockHMS, pad2c, List.cons_append, List.nil_append, List.append_assoc]
  rw [dir_two_H true _ _ _ h1 h2 _ _ (fun fd' => lit_rejects_digit true ':' _ _ h2 _ fd' (by simp)), eh]
  simp only [twoOk, hh, decide_true, if_true]
  rw [lit_eq true ':' _ _ _ (by simp)]
  rw [dir_two_M true _ _ _ i1 i2 _ _ (fun fd' => end_rejects _ _ fd'), em]
  simp [twoOk, hmi, end_rejects]

theorem frac6_facts (us : Nat) (hus : us ≤ 999999) :
    allAsciiDigits (frac6 us) = true ∧ natOfAscii (frac6 us) = us ∧ microSearch (frac6 us) = some (frac6 us) ∧ meridSearch (frac6 us) = none ∧
      ¬ frac6 us ∈ Gen.parserSkipTokensC ∧ ¬ ':' ∈ frac6 us ∧ ¬ '.' ∈ frac6 us := by
  have f1 : us / 100000 < 10 := by omega
  have f2 : us / 10000 % 10 < 10 := by omega
  have f3 : us / 1000 % 10 < 10 := by omega
  have f4 : us / 100 % 10 < 10 := by omega
  have f5 : us / 10 % 10 < 10 := by omega
  have f6 : us % 10 < 10 := by omega
  refine ⟨?_, ?_, ?_, ?_, ?_, ?_, ?_⟩
  · simp [allAsciiDigits, frac6, asciiDigit_dch, f1, f2, f3, f4, f5, f6]
  · simp [natOfAscii, frac6, dch_toNat, f1, f2, f3, f4, f5, f6]; omega
  · simp [microSearch, frac6, isDecDigit_dch, f1, f2, f3, f4, f5, f6, List.takeWhile]
  · simp [meridSearch, frac6, dch_ne, f1, f2, f3, f4, f5, f6]
  · simp [Gen.parserSkipTokensC, frac6]
    intro e; exact absurd e.symm (dch_ne' _ f1 'm' (by simp))
  · simp only [frac6, List.mem_cons, List.not_mem_nil, or_false, not_or]
    exact ⟨dch_ne' _ f1 ':' (by simp), dch_ne' _ f2 ':' (by simp), dch_ne' _ f3 ':' (by simp), dch_ne' _ f4 ':' (by simp), dch_ne' _ f5 ':' (by simp), dch_ne' _ f6 ':' (by simp)⟩
  · simp only [frac6, List.mem_cons, List.not_mem_nil, or_false, not_or]
    exact ⟨dch_ne' _ f1 '.' (by simp), dch_ne' _ f2 '.' (by simp), dch_ne' _ f3 '.' (by simp), dch_ne' _ f4 '.' (by simp), dch_ne' _ f5 '.' (by simp), dch_ne' _ f6 '.' (by simp)⟩

theorem classify_iso_us (y m d h mi s us : Nat) (hy : y ≤ 9999) (hm : m < 100) (hd : d < 100) (hh : h ≤ 23) (hmi : mi ≤ 59) (hs : s < 100) (hus : us ≤ 999999) :
    classify #[(pad4c y, 0), (['-'], 2), (pad2c m, 0), (['-'], 2), (pad2c d, 0), ([], 2), (clockHMS h mi s, 0), (['.'], 2), (frac6 us, 0)] =
      [rY (pad4c y) y, rS (pad2c m) m true, rS (pad2c d) d true, rClock (clockHMS h mi s) true, rFrac (frac6 us) (frac6 us) (some us)] := by
  have h1 : h / 10 < 10 := by omega
  have h2 : h % 10 < 10 := by omega
  have hh' : h < 100 := by omega
  have hmi' : mi < 100 := by omega
  have ec : clockHMS h mi s = dch (h / 10) :: dch (h % 10) :: ':' :: (pad2c mi ++ [':'] ++ pad2c s) := by simp [clockHMS, pad2c]
  have c1 := dirNum_clock_none _ _ h1 h2 (pad2c mi ++ [':'] ++ pad2c s) 'm' (by simp) DT.mo
  have c2 := dirNum_clock_none _ _ h1 h2 (pad2c mi ++ [':'] ++ pad2c s) 'd' (by simp) DT.d
  have c3 := dirNum_clock_none _ _ h1 h2 (pad2c mi ++ [':'] ++ pad2c s) 'y' (by simp) DT.y
  have c4 := dirNum_clock_none _ _ h1 h2 (pad2c mi ++ [':'] ++ pad2c s) 'Y' (by simp) DT.y
  rw [← ec] at c1 c2 c3 c4
  have g1 := dirNum_six_none us hus 'm' (by simp) DT.mo
  have g2 := dirNum_six_none us hus 'd' (by simp) DT.d
  have g3 := dirNum_six_none us hus 'y' (by simp) DT.y
  have g4 := dirNum_six_none us hus 'Y' (by simp) DT.y
  obtain ⟨q1, q2, q3, q4, q5, q6, q7⟩ := frac6_facts us hus
  have i1 : mi / 10 < 10 := by omega
  have i2 : mi % 10 < 10 := by omega
  have s1 : s / 10 < 10 := by omega
  have s2 : s % 10 < 10 := by omega
  have k1 : allAsciiDigits (clockHMS h mi s) = false := by
    have hc : asciiDigit ':' = false := by decide
    simp [allAsciiDigits, clockHMS, pad2c, hc]
  have k2 : meridSearch (clockHMS h mi s) = none := by
    simp [meridSearch, clockHMS, pad2c, dch_ne, h1, h2, i1, i2, s1, s2]
  have k3 : ¬ clockHMS h mi s ∈ Gen.parserSkipTokensC := by
    simp [Gen.parserSkipTokensC, clockHMS, pad2c]
  have k4 : ':' ∈ clockHMS h mi s := by simp [clockHMS]
  have k6 := hourMinuteOk_clock_frac h mi s hh hmi (frac6 us)
  simp [classify, rY, rS, rClock, rFrac, tiYear4, tiSmall, fmt_m, fmt_d, fmt_y, fmt_Y, dirNum_m2, dirNum_d2, dirNum_y2, dirNum_Y2, dirNum_Y4, dirNum_four_none,
    hy, hm, hd, List.zipIdx, c1, c2, c3, c4, g1, g2, g3, g4, q1, q2, q3, q4, q5, q6, k1, k2, k3, k4, k6,
    allAscii_pad4 y hy, natOfAscii_pad4 y hy, micro_pad4 y hy, merid_pad4 y hy, skip_pad4 y hy, colon_pad4 y hy,
    allAscii_pad2 m hm, natOfAscii_pad2 m hm, micro_pad2 m hm, merid_pad2 m hm, skip_pad2 m hm, colon_pad2 m hm ':' (by simp),
    allAscii_pad2 d hd, natOfAscii_pad2 d hd, micro_pad2 d hd, merid_pad2 d hd, skip_pad2 d hd, colon_pad2 d hd ':' (by simp)]
  have e0 : (pad4c y == pad4c y) = true := by simp
  have e1 : (pad4c y == pad2c m) = false := by simp [pad4c, pad2c]
  have e2 : (pad4c y == pad2c d) = false := by simp [pad4c, pad2c]
  have e3 : (pad4c y == clockHMS h mi s) = false := by simp [pad4c, clockHMS, pad2c]
  have e4 : (pad4c y == frac6 us) = false := by simp [pad4c, frac6]
  have e5 : (pad2c m == clockHMS h mi s) = false := by simp [pad2c, clockHMS]
  have e6 : (pad2c d == clockHMS h mi s) = false := by simp [pad2c, clockHMS]
  have e7 : (pad2c m == frac6 us) = false := by simp [pad2c, frac6]
  have e8 : (pad2c d == frac6 us) = false := by simp [pad2c, frac6]
  have e9 : (clockHMS h mi s == frac6 us) = false := by simp [clockHMS, pad2c, frac6, dch_ne, i1]
  have dd : ¬ '.' ∈ pad2c d := colon_pad2 d hd '.' (by simp)
  have dm : ¬ '.' ∈ pad2c m := colon_pad2 m hm '.' (by simp)
  by_cases hmd : pad2c m = pad2c d
  · simp [List.findIdx?_cons, e0, e1, e2, e3, e4, e5, e6, e7, e8, e9, hmd, dd, q7]
  · have e10 : (pad2c m == pad2c d) = false := by simpa using hmd
    simp [List.findIdx?_cons, e0, e1, e2, e3, e4, e5, e6, e7, e8, e9, e10, dd, dm, q7]
theorem stripWs_dot : stripWs ['.'] = ['.'] := by decide
theorem stripWs_frac6 (us : Nat) (hus : us ≤ 999999) : stripWs (frac6 us) = frac6 us := by
  have f1 : us / 100000 < 10 := by omega
  have f6 : us % 10 < 10 := by omega
  have := stripWs_digits (us / 100000) f1 (us % 10) f6 [dch (us / 10000 % 10), dch (us / 1000 % 10), dch (us / 100 % 10), dch (us / 10 % 10)]
  simpa [frac6] using this

/-- **C01_iso_us_string**: `YYYY-MM-DD hh:mm:ss.ffffff` — exact to the microsecond, from the characters of the string -/
theorem C01_iso_us_string (st : PSettings) (ho : isoOrder st.order) (y m d h mi s us : Nat) (hd : DateOk y m d) (ht : TimeOk h mi s) (hus : us ≤ 999999) :
    absParse st (renderIsoDate y m d ++ [' '] ++ clockHMS h mi s ++ ['.'] ++ frac6 us) =
      .ok ({ y := y, mo := m, d := d, h := h, mi := mi, s := s, us := us }, if st.timeAsPeriod then .time else .day) := by
  have hy : y ≤ 9999 := hd.y2
  have hm : m < 100 := by have := hd.m2; omega
  have hdd : d < 100 := by have := hd.d2; have := dim_le_31 y m; omega
  have hh : h < 100 := by have := ht.h23; omega
  have hmi : mi < 100 := by have := ht.m59; omega
  have hs : s < 100 := by have := ht.s59; omega
  unfold absParse
  rw [tokenize_iso_us y m d h mi s us hy hm hdd hh hmi hs hus]
  simp only [bind, Except.bind, List.map_cons, List.map_nil, stripWs_pad4 y hy, stripWs_pad2 m hm, stripWs_pad2 d hdd, stripWs_dash,
    stripWs_clock h mi s hh hs, stripWs_space, stripWs_dot, stripWs_frac6 us hus]
  rw [classify_iso_us y m d h mi s us hy hm hdd ht.h23 ht.m59 hs hus]
  exact C01_iso_us st ho y m d h mi s us hd ht hus (pad4c y) (pad2c m) (pad2c d) (frac6 us) rfl false (some us)

end DP
