import DPProofs.Lemmas.Classify
import DPProofs.C01
import DPProofs.C01Time
/-!
# C01 at string level: the whole absolute parser (`tokenize` → `classify` → stage 2) on the rendered text

`DPProofs/C01.lean` proves the stage-2 theorems over token records; this file proves that tokenising and classifying the rendered
string produces exactly those records, and composes the two: `absParse st (render d) = d` for every valid date.
-/
namespace DP
theorem tokenize_iso_date (y m d : Nat) (hy : y ≤ 9999) (hm : m < 100) (hd : d < 100) :
    tokenize (pad4c y ++ ['-'] ++ pad2c m ++ ['-'] ++ pad2c d) =
      .ok [(pad4c y, 0), (['-'], 2), (pad2c m, 0), (['-'], 2), (pad2c d, 0)] := by
  have y1 : y / 1000 < 10 := by omega
  have y2 : y / 100 % 10 < 10 := by omega
  have y3 : y / 10 % 10 < 10 := by omega
  have y4 : y % 10 < 10 := by omega
  have m1 : m / 10 < 10 := by omega
  have m2 : m % 10 < 10 := by omega
  have d1 : d / 10 < 10 := by omega
  have d2 : d % 10 < 10 := by omega
  simp [tokenize, tokGo, pad4c, pad2c, tkCls_dch, tkCls_dash, y1, y2, y3, y4, m1, m2, d1, d2]
theorem classify_iso_date (y m d : Nat) (hy : y ≤ 9999) (hm : m < 100) (hd : d < 100) :
    classify #[(pad4c y, 0), (['-'], 2), (pad2c m, 0), (['-'], 2), (pad2c d, 0)] =
      [rY (pad4c y) y, rS (pad2c m) m true, rS (pad2c d) d true] := by
  have y1 : y / 1000 < 10 := by omega
  have y2 : y / 100 % 10 < 10 := by omega
  have y3 : y / 10 % 10 < 10 := by omega
  have y4 : y % 10 < 10 := by omega
  have m1 : m / 10 < 10 := by omega
  have m2 : m % 10 < 10 := by omega
  have d1 : d / 10 < 10 := by omega
  have d2 : d % 10 < 10 := by omega
  simp [classify, rY, rS, tiYear4, tiSmall, fmt_m, fmt_d, fmt_y, fmt_Y, dirNum_m2, dirNum_d2, dirNum_y2, dirNum_Y2, dirNum_Y4, dirNum_four_none,
    hy, hm, hd, List.zipIdx]
  have hno : ∀ t ∈ [(['-'], 2), (pad2c m, 0), (['-'], 2), (pad2c d, 0)], ¬ '.' ∈ (t : List Char × Nat).1 := by
    intro t ht
    simp only [List.mem_cons, List.not_mem_nil, or_false] at ht
    rcases ht with rfl | rfl | rfl | rfl
    · simp
    · exact colon_pad2 m hm '.' (by simp)
    · simp
    · exact colon_pad2 d hd '.' (by simp)
  refine ⟨⟨⟨allAscii_pad4 y hy, natOfAscii_pad4 y hy⟩, micro_pad4 y hy, merid_pad4 y hy, skip_pad4 y hy, colon_pad4 y hy, dotAfter_false _ hno _⟩,
    ⟨⟨allAscii_pad2 m hm, natOfAscii_pad2 m hm⟩, micro_pad2 m hm, merid_pad2 m hm, skip_pad2 m hm, colon_pad2 m hm ':' (by simp), dotAfter_false _ hno _⟩,
    ⟨allAscii_pad2 d hd, natOfAscii_pad2 d hd⟩, micro_pad2 d hd, merid_pad2 d hd, skip_pad2 d hd, colon_pad2 d hd ':' (by simp), dotAfter_false _ hno _⟩

theorem stripWs_pad4 (y : Nat) (hy : y ≤ 9999) : stripWs (pad4c y) = pad4c y := by
  have y1 : y / 1000 < 10 := by omega
  have y4 : y % 10 < 10 := by omega
  have := stripWs_digits (y / 1000) y1 (y % 10) y4 [dch (y / 100 % 10), dch (y / 10 % 10)]
  simpa [pad4c] using this
theorem stripWs_pad2 (v : Nat) (hv : v < 100) : stripWs (pad2c v) = pad2c v := by
  have a1 : v / 10 < 10 := by omega
  have a2 : v % 10 < 10 := by omega
  have := stripWs_digits (v / 10) a1 (v % 10) a2 []
  simpa [pad2c] using this
theorem stripWs_dash : stripWs ['-'] = ['-'] := by decide

/-- the text `YYYY-MM-DD` -/
def renderIsoDate (y m d : Nat) : List Char := pad4c y ++ ['-'] ++ pad2c m ++ ['-'] ++ pad2c d

/-- **C01_iso_date_string**: for every valid date, every PREFER_* value, strictness and reference time, the absolute parser — from the
    characters of `YYYY-MM-DD` through tokenisation, classification (every `strptime` probe of every token) and stage 2 — returns
    exactly that date with period `day`. -/
theorem C01_iso_date_string (st : PSettings) (ho : isoOrder st.order) (y m d : Nat) (hd : DateOk y m d) :
    absParse st (renderIsoDate y m d) = .ok ({ y := y, mo := m, d := d }, .day) := by
  have hy : y ≤ 9999 := hd.y2
  have hm : m < 100 := by have := hd.m2; omega
  have hdd : d < 100 := by have := hd.d2; have := dim_le_31 y m; omega
  unfold absParse renderIsoDate
  rw [tokenize_iso_date y m d hy hm hdd]
  simp only [bind, Except.bind, List.map_cons, List.map_nil, stripWs_pad4 y hy, stripWs_pad2 m hm, stripWs_pad2 d hdd, stripWs_dash]
  rw [classify_iso_date y m d hy hm hdd]
  exact C01_iso_date st ho y m d hd (pad4c y) (pad2c m) (pad2c d) rfl


/-! ## `YYYY-MM-DD hh:mm:ss` -/

def clockHMS (h mi s : Nat) : List Char := pad2c h ++ [':'] ++ pad2c mi ++ [':'] ++ pad2c s

theorem tokenize_iso_hms (y m d h mi s : Nat) (hy : y ≤ 9999) (hm : m < 100) (hd : d < 100) (hh : h < 100) (hmi : mi < 100) (hs : s < 100) :
    tokenize (renderIsoDate y m d ++ [' '] ++ clockHMS h mi s) =
      .ok [(pad4c y, 0), (['-'], 2), (pad2c m, 0), (['-'], 2), (pad2c d, 0), ([' '], 2), (clockHMS h mi s, 0)] := by
  have y1 : y / 1000 < 10 := by omega
  have y2 : y / 100 % 10 < 10 := by omega
  have y3 : y / 10 % 10 < 10 := by omega
  have y4 : y % 10 < 10 := by omega
  have m1 : m / 10 < 10 := by omega
  have m2 : m % 10 < 10 := by omega
  have d1 : d / 10 < 10 := by omega
  have d2 : d % 10 < 10 := by omega
  have h1 : h / 10 < 10 := by omega
  have h2 : h % 10 < 10 := by omega
  have i1 : mi / 10 < 10 := by omega
  have i2 : mi % 10 < 10 := by omega
  have s1 : s / 10 < 10 := by omega
  have s2 : s % 10 < 10 := by omega
  simp [tokenize, tokGo, renderIsoDate, clockHMS, pad4c, pad2c, tkCls_dch, tkCls_dash, tkCls_colon, tkCls_space,
    y1, y2, y3, y4, m1, m2, d1, d2, h1, h2, i1, i2, s1, s2]

theorem isDecDigit_colon : isDecDigit ':' = false := by decide

theorem dirNum_clock_none (a b : Nat) (ha : a < 10) (hb : b < 10) (rest : List Char) (c : Char) (hc : c = 'm' ∨ c = 'd' ∨ c = 'y' ∨ c = 'Y')
    (sel : DT → Nat) : dirNum (dch a :: dch b :: ':' :: rest) ['%', c] sel = none := by
  unfold dirNum
  rw [dpStrptime_dir1 _ c hc]
  rcases hc with rfl | rfl | rfl | rfl
  · rw [dir_two_m true [] _ _ ha hb _ {} (fun fd' => end_rejects _ _ fd'), end_rejects]; simp
  · rw [dir_two_d true [] _ _ ha hb _ {} (fun fd' => end_rejects _ _ fd'), end_rejects]; simp
  · rw [dir_two_y true [] _ _ ha hb _ {} (fun fd' => end_rejects _ _ fd'), end_rejects]; simp
  · simp [matchItems, numAlts, consumeAlt, List.findSome?, CT.test, isDecDigit_dch, ha, hb, isDecDigit_colon]

theorem clock_no_dot (h mi s : Nat) (hh : h < 100) (hmi : mi < 100) (hs : s < 100) : ¬ '.' ∈ clockHMS h mi s := by
  have := colon_pad2 h hh '.' (by simp)
  have := colon_pad2 mi hmi '.' (by simp)
  have := colon_pad2 s hs '.' (by simp)
  simp [clockHMS, *]

theorem classify_iso_hms (y m d h mi s : Nat) (hy : y ≤ 9999) (hm : m < 100) (hd : d < 100) (hh : h < 100) (hmi : mi < 100) (hs : s < 100) :
    classify #[(pad4c y, 0), (['-'], 2), (pad2c m, 0), (['-'], 2), (pad2c d, 0), ([], 2), (clockHMS h mi s, 0)] =
      [rY (pad4c y) y, rS (pad2c m) m true, rS (pad2c d) d true, rClock (clockHMS h mi s) false] := by
  have h1 : h / 10 < 10 := by omega
  have h2 : h % 10 < 10 := by omega
  have ec : clockHMS h mi s = dch (h / 10) :: dch (h % 10) :: ':' :: (pad2c mi ++ [':'] ++ pad2c s) := by simp [clockHMS, pad2c]
  have c1 := dirNum_clock_none _ _ h1 h2 (pad2c mi ++ [':'] ++ pad2c s) 'm' (by simp) DT.mo
  have c2 := dirNum_clock_none _ _ h1 h2 (pad2c mi ++ [':'] ++ pad2c s) 'd' (by simp) DT.d
  have c3 := dirNum_clock_none _ _ h1 h2 (pad2c mi ++ [':'] ++ pad2c s) 'y' (by simp) DT.y
  have c4 := dirNum_clock_none _ _ h1 h2 (pad2c mi ++ [':'] ++ pad2c s) 'Y' (by simp) DT.y
  rw [← ec] at c1 c2 c3 c4
  simp [classify, rY, rS, rClock, tiYear4, tiSmall, fmt_m, fmt_d, fmt_y, fmt_Y, dirNum_m2, dirNum_d2, dirNum_y2, dirNum_Y2, dirNum_Y4, dirNum_four_none,
    hy, hm, hd, List.zipIdx, c1, c2, c3, c4]
  have hno : ∀ t ∈ [(['-'], 2), (pad2c m, 0), (['-'], 2), (pad2c d, 0), ([], 2), (clockHMS h mi s, 0)], ¬ '.' ∈ (t : List Char × Nat).1 := by
    intro t ht
    simp only [List.mem_cons, List.not_mem_nil, or_false] at ht
    rcases ht with rfl | rfl | rfl | rfl | rfl | rfl
    · simp
    · exact colon_pad2 m hm '.' (by simp)
    · simp
    · exact colon_pad2 d hd '.' (by simp)
    · simp
    · exact clock_no_dot h mi s hh hmi hs
  have i1 : mi / 10 < 10 := by omega
  have i2 : mi % 10 < 10 := by omega
  have s1 : s / 10 < 10 := by omega
  have s2 : s % 10 < 10 := by omega
  have k1 : allAsciiDigits (clockHMS h mi s) = false := by
    have hc : asciiDigit ':' = false := by decide
    simp [allAsciiDigits, clockHMS, pad2c, hc]
  have k2 : meridSearch (clockHMS h mi s) = none := by
    simp [meridSearch, clockHMS, pad2c, dch_ne, h1, h2, i1, i2, s1, s2]
  have k3 : ¬ clockHMS h mi s ∈ Gen.parserSkipTokensC := by
    simp [Gen.parserSkipTokensC, clockHMS, pad2c]
  have k4 : ':' ∈ clockHMS h mi s := by simp [clockHMS]
  refine ⟨⟨⟨allAscii_pad4 y hy, natOfAscii_pad4 y hy⟩, micro_pad4 y hy, merid_pad4 y hy, skip_pad4 y hy, colon_pad4 y hy, dotAfter_false _ hno _⟩,
    ⟨⟨allAscii_pad2 m hm, natOfAscii_pad2 m hm⟩, micro_pad2 m hm, merid_pad2 m hm, skip_pad2 m hm, colon_pad2 m hm ':' (by simp), dotAfter_false _ hno _⟩,
    ⟨⟨allAscii_pad2 d hd, natOfAscii_pad2 d hd⟩, micro_pad2 d hd, merid_pad2 d hd, skip_pad2 d hd, colon_pad2 d hd ':' (by simp), dotAfter_false _ hno _⟩,
    k1, k2, k3, k4, dotAfter_false _ hno _⟩

theorem stripWs_space : stripWs [' '] = [] := by decide
theorem stripWs_clock (h mi s : Nat) (hh : h < 100) (hs : s < 100) : stripWs (clockHMS h mi s) = clockHMS h mi s := by
  have a1 : h / 10 < 10 := by omega
  have a2 : s % 10 < 10 := by omega
  have := stripWs_digits (h / 10) a1 (s % 10) a2 ([dch (h % 10), ':'] ++ pad2c mi ++ [':', dch (s / 10)])
  simpa [clockHMS, pad2c] using this

/-- **C01_iso_hms_string**: for every valid date and clock time, the absolute parser on the characters of `YYYY-MM-DD hh:mm:ss` returns
    exactly that datetime (every PREFER_* value, strictness, reference time). -/
theorem C01_iso_hms_string (st : PSettings) (ho : isoOrder st.order) (y m d h mi s : Nat) (hd : DateOk y m d) (ht : TimeOk h mi s) :
    absParse st (renderIsoDate y m d ++ [' '] ++ clockHMS h mi s) =
      .ok ({ y := y, mo := m, d := d, h := h, mi := mi, s := s }, if st.timeAsPeriod then .time else .day) := by
  have hy : y ≤ 9999 := hd.y2
  have hm : m < 100 := by have := hd.m2; omega
  have hdd : d < 100 := by have := hd.d2; have := dim_le_31 y m; omega
  have hh : h < 100 := by have := ht.h23; omega
  have hmi : mi < 100 := by have := ht.m59; omega
  have hs : s < 100 := by have := ht.s59; omega
  unfold absParse
  rw [tokenize_iso_hms y m d h mi s hy hm hdd hh hmi hs]
  simp only [bind, Except.bind, List.map_cons, List.map_nil, stripWs_pad4 y hy, stripWs_pad2 m hm, stripWs_pad2 d hdd, stripWs_dash,
    stripWs_clock h mi s hh hs, stripWs_space]
  rw [classify_iso_hms y m d h mi s hy hm hdd hh hmi hs]
  exact C01_iso_hms st ho y m d h mi s hd ht (pad4c y) (pad2c m) (pad2c d) rfl false false

end DP
