import DPProofs.C01String
import DPProofs.C07
/-!
# C07 at string level (GENERATED text, one block per order × separator, same script): three numeric fields written in the order `O`
with `/`, `-` or a space between them are read as exactly that day, month and year — from the characters, for every valid date.
-/
namespace DP

theorem tkCls_slash : tkCls '/' = 2 := by decide
theorem stripWs_slash : stripWs ['/'] = ['/'] := by decide

def fieldText (y m d : Nat) : Comp → List Char
  | .year => pad4c y | .month => pad2c m | .day => pad2c d

/-- three fields written in the order `O`, separated by `sep` -/
def renderOrder (O : List Comp) (sep : Char) (y m d : Nat) : List Char :=
  match O with
  | [a, b, c] => fieldText y m d a ++ [sep] ++ fieldText y m d b ++ [sep] ++ fieldText y m d c
  | _ => []

def micOf (y m d : Nat) : Comp → Option (List Char) := fun c => some (fieldText y m d c)

theorem c07_d_m_y_slash (st : PSettings) (hst : st.order = [.day, .month, .year]) (y m d : Nat) (hd : DateOk y m d) :
    absParse st (renderOrder [.day, .month, .year] '/' y m d) = .ok ({ y := y, mo := m, d := d }, .day) := by
  have hy : y ≤ 9999 := hd.y2
  have hm : m < 100 := by have := hd.m2; omega
  have hdd : d < 100 := by have := hd.d2; have := dim_le_31 y m; omega
  have y1 : y / 1000 < 10 := by omega
  have y2 : y / 100 % 10 < 10 := by omega
  have y3 : y / 10 % 10 < 10 := by omega
  have y4 : y % 10 < 10 := by omega
  have m1 : m / 10 < 10 := by omega
  have m2 : m % 10 < 10 := by omega
  have d1 : d / 10 < 10 := by omega
  have d2 : d % 10 < 10 := by omega
  have htok : tokenize (renderOrder [.day, .month, .year] '/' y m d) = .ok [(pad2c d, 0), (['/'], 2), (pad2c m, 0), (['/'], 2), (pad4c y, 0)] := by
    simp [tokenize, tokGo, renderOrder, fieldText, pad4c, pad2c, tkCls_dch, tkCls_dash, tkCls_slash, tkCls_space, y1, y2, y3, y4, m1, m2, d1, d2]
  have hno : ∀ t ∈ [(pad2c d, 0), (['/'], 2), (pad2c m, 0), (['/'], 2), (pad4c y, 0)], ¬ '.' ∈ (t : List Char × Nat).1 := by
    intro t ht
    simp only [List.mem_cons, List.not_mem_nil, or_false] at ht
    rcases ht with rfl | rfl | rfl | rfl | rfl <;>
      first | exact dot_pad4 y hy | exact colon_pad2 m hm '.' (by simp) | exact colon_pad2 d hdd '.' (by simp) | simp
  have hcls : classify #[(pad2c d, 0), (['/'], 2), (pad2c m, 0), (['/'], 2), (pad4c y, 0)] =
      [.day, .month, .year].map (fun c => fieldTI c (pad4c y) (pad2c m) (pad2c d) y m d true true (micOf y m d) false) := by
    simp [classify, fieldTI, micOf, fieldText, tiYear4, tiSmall, fmt_m, fmt_d, fmt_y, fmt_Y, dirNum_m2, dirNum_d2, dirNum_y2, dirNum_Y2, dirNum_Y4,
      dirNum_four_none, hy, hm, hdd, List.zipIdx,
      allAscii_pad4 y hy, natOfAscii_pad4 y hy, micro_pad4 y hy, merid_pad4 y hy, skip_pad4 y hy, colon_pad4 y hy,
      allAscii_pad2 m hm, natOfAscii_pad2 m hm, micro_pad2 m hm, merid_pad2 m hm, skip_pad2 m hm, colon_pad2 m hm ':' (by simp),
      allAscii_pad2 d hdd, natOfAscii_pad2 d hdd, micro_pad2 d hdd, merid_pad2 d hdd, skip_pad2 d hdd, colon_pad2 d hdd ':' (by simp)]
    exact ⟨dotAfter_false _ (fun t ht => hno t (List.mem_cons_of_mem _ ht)) _, dotAfter_false _ (fun t ht => hno t (List.mem_cons_of_mem _ ht)) _,
      dotAfter_false _ (fun t ht => hno t (List.mem_cons_of_mem _ ht)) _⟩
  unfold absParse
  rw [htok]
  simp only [bind, Except.bind, List.map_cons, List.map_nil, stripWs_pad4 y hy, stripWs_pad2 m hm, stripWs_pad2 d hdd, stripWs_dash, stripWs_slash, stripWs_space]
  rw [hcls]
  exact C07_order_decides st _ (by simp [allOrders]) hst y m d hd.y1 hd.y2 hd.m1 hd.m2 hd.d1 hd.d2 (pad4c y) (pad2c m) (pad2c d) rfl
    (by simp [pad2c]) (by simp [pad2c]) true true (fun _ => rfl) (fun _ => rfl) (micOf y m d) false

theorem c07_d_m_y_dash (st : PSettings) (hst : st.order = [.day, .month, .year]) (y m d : Nat) (hd : DateOk y m d) :
    absParse st (renderOrder [.day, .month, .year] '-' y m d) = .ok ({ y := y, mo := m, d := d }, .day) := by
  have hy : y ≤ 9999 := hd.y2
  have hm : m < 100 := by have := hd.m2; omega
  have hdd : d < 100 := by have := hd.d2; have := dim_le_31 y m; omega
  have y1 : y / 1000 < 10 := by omega
  have y2 : y / 100 % 10 < 10 := by omega
  have y3 : y / 10 % 10 < 10 := by omega
  have y4 : y % 10 < 10 := by omega
  have m1 : m / 10 < 10 := by omega
  have m2 : m % 10 < 10 := by omega
  have d1 : d / 10 < 10 := by omega
  have d2 : d % 10 < 10 := by omega
  have htok : tokenize (renderOrder [.day, .month, .year] '-' y m d) = .ok [(pad2c d, 0), (['-'], 2), (pad2c m, 0), (['-'], 2), (pad4c y, 0)] := by
    simp [tokenize, tokGo, renderOrder, fieldText, pad4c, pad2c, tkCls_dch, tkCls_dash, tkCls_slash, tkCls_space, y1, y2, y3, y4, m1, m2, d1, d2]
  have hno : ∀ t ∈ [(pad2c d, 0), (['-'], 2), (pad2c m, 0), (['-'], 2), (pad4c y, 0)], ¬ '.' ∈ (t : List Char × Nat).1 := by
    intro t ht
    simp only [List.mem_cons, List.not_mem_nil, or_false] at ht
    rcases ht with rfl | rfl | rfl | rfl | rfl <;>
      first | exact dot_pad4 y hy | exact colon_pad2 m hm '.' (by simp) | exact colon_pad2 d hdd '.' (by simp) | simp
  have hcls : classify #[(pad2c d, 0), (['-'], 2), (pad2c m, 0), (['-'], 2), (pad4c y, 0)] =
      [.day, .month, .year].map (fun c => fieldTI c (pad4c y) (pad2c m) (pad2c d) y m d true true (micOf y m d) false) := by
    simp [classify, fieldTI, micOf, fieldText, tiYear4, tiSmall, fmt_m, fmt_d, fmt_y, fmt_Y, dirNum_m2, dirNum_d2, dirNum_y2, dirNum_Y2, dirNum_Y4,
      dirNum_four_none, hy, hm, hdd, List.zipIdx,
      allAscii_pad4 y hy, natOfAscii_pad4 y hy, micro_pad4 y hy, merid_pad4 y hy, skip_pad4 y hy, colon_pad4 y hy,
      allAscii_pad2 m hm, natOfAscii_pad2 m hm, micro_pad2 m hm, merid_pad2 m hm, skip_pad2 m hm, colon_pad2 m hm ':' (by simp),
      allAscii_pad2 d hdd, natOfAscii_pad2 d hdd, micro_pad2 d hdd, merid_pad2 d hdd, skip_pad2 d hdd, colon_pad2 d hdd ':' (by simp)]
    exact ⟨dotAfter_false _ (fun t ht => hno t (List.mem_cons_of_mem _ ht)) _, dotAfter_false _ (fun t ht => hno t (List.mem_cons_of_mem _ ht)) _,
      dotAfter_false _ (fun t ht => hno t (List.mem_cons_of_mem _ ht)) _⟩
  unfold absParse
  rw [htok]
  simp only [bind, Except.bind, List.map_cons, List.map_nil, stripWs_pad4 y hy, stripWs_pad2 m hm, stripWs_pad2 d hdd, stripWs_dash, stripWs_slash, stripWs_space]
  rw [hcls]
  exact C07_order_decides st _ (by simp [allOrders]) hst y m d hd.y1 hd.y2 hd.m1 hd.m2 hd.d1 hd.d2 (pad4c y) (pad2c m) (pad2c d) rfl
    (by simp [pad2c]) (by simp [pad2c]) true true (fun _ => rfl) (fun _ => rfl) (micOf y m d) false

theorem c07_d_m_y_space (st : PSettings) (hst : st.order = [.day, .month, .year]) (y m d : Nat) (hd : DateOk y m d) :
    absParse st (renderOrder [.day, .month, .year] ' ' y m d) = .ok ({ y := y, mo := m, d := d }, .day) := by
  have hy : y ≤ 9999 := hd.y2
  have hm : m < 100 := by have := hd.m2; omega
  have hdd : d < 100 := by have := hd.d2; have := dim_le_31 y m; omega
  have y1 : y / 1000 < 10 := by omega
  have y2 : y / 100 % 10 < 10 := by omega
  have y3 : y / 10 % 10 < 10 := by omega
  have y4 : y % 10 < 10 := by omega
  have m1 : m / 10 < 10 := by omega
  have m2 : m % 10 < 10 := by omega
  have d1 : d / 10 < 10 := by omega
  have d2 : d % 10 < 10 := by omega
  have htok : tokenize (renderOrder [.day, .month, .year] ' ' y m d) = .ok [(pad2c d, 0), ([' '], 2), (pad2c m, 0), ([' '], 2), (pad4c y, 0)] := by
    simp [tokenize, tokGo, renderOrder, fieldText, pad4c, pad2c, tkCls_dch, tkCls_dash, tkCls_slash, tkCls_space, y1, y2, y3, y4, m1, m2, d1, d2]
  have hno : ∀ t ∈ [(pad2c d, 0), ([], 2), (pad2c m, 0), ([], 2), (pad4c y, 0)], ¬ '.' ∈ (t : List Char × Nat).1 := by
    intro t ht
    simp only [List.mem_cons, List.not_mem_nil, or_false] at ht
    rcases ht with rfl | rfl | rfl | rfl | rfl <;>
      first | exact dot_pad4 y hy | exact colon_pad2 m hm '.' (by simp) | exact colon_pad2 d hdd '.' (by simp) | simp
  have hcls : classify #[(pad2c d, 0), ([], 2), (pad2c m, 0), ([], 2), (pad4c y, 0)] =
      [.day, .month, .year].map (fun c => fieldTI c (pad4c y) (pad2c m) (pad2c d) y m d true true (micOf y m d) false) := by
    simp [classify, fieldTI, micOf, fieldText, tiYear4, tiSmall, fmt_m, fmt_d, fmt_y, fmt_Y, dirNum_m2, dirNum_d2, dirNum_y2, dirNum_Y2, dirNum_Y4,
      dirNum_four_none, hy, hm, hdd, List.zipIdx,
      allAscii_pad4 y hy, natOfAscii_pad4 y hy, micro_pad4 y hy, merid_pad4 y hy, skip_pad4 y hy, colon_pad4 y hy,
      allAscii_pad2 m hm, natOfAscii_pad2 m hm, micro_pad2 m hm, merid_pad2 m hm, skip_pad2 m hm, colon_pad2 m hm ':' (by simp),
      allAscii_pad2 d hdd, natOfAscii_pad2 d hdd, micro_pad2 d hdd, merid_pad2 d hdd, skip_pad2 d hdd, colon_pad2 d hdd ':' (by simp)]
    exact ⟨dotAfter_false _ (fun t ht => hno t (List.mem_cons_of_mem _ ht)) _, dotAfter_false _ (fun t ht => hno t (List.mem_cons_of_mem _ ht)) _,
      dotAfter_false _ (fun t ht => hno t (List.mem_cons_of_mem _ ht)) _⟩
  unfold absParse
  rw [htok]
  simp only [bind, Except.bind, List.map_cons, List.map_nil, stripWs_pad4 y hy, stripWs_pad2 m hm, stripWs_pad2 d hdd, stripWs_dash, stripWs_slash, stripWs_space]
  rw [hcls]
  exact C07_order_decides st _ (by simp [allOrders]) hst y m d hd.y1 hd.y2 hd.m1 hd.m2 hd.d1 hd.d2 (pad4c y) (pad2c m) (pad2c d) rfl
    (by simp [pad2c]) (by simp [pad2c]) true true (fun _ => rfl) (fun _ => rfl) (micOf y m d) false

theorem c07_d_y_m_slash (st : PSettings) (hst : st.order = [.day, .year, .month]) (y m d : Nat) (hd : DateOk y m d) :
    absParse st (renderOrder [.day, .year, .month] '/' y m d) = .ok ({ y := y, mo := m, d := d }, .day) := by
  have hy : y ≤ 9999 := hd.y2
  have hm : m < 100 := by have := hd.m2; omega
  have hdd : d < 100 := by have := hd.d2; have := dim_le_31 y m; omega
  have y1 : y / 1000 < 10 := by omega
  have y2 : y / 100 % 10 < 10 := by omega
  have y3 : y / 10 % 10 < 10 := by omega
  have y4 : y % 10 < 10 := by omega
  have m1 : m / 10 < 10 := by omega
  have m2 : m % 10 < 10 := by omega
  have d1 : d / 10 < 10 := by omega
  have d2 : d % 10 < 10 := by omega
  have htok : tokenize (renderOrder [.day, .year, .month] '/' y m d) = .ok [(pad2c d, 0), (['/'], 2), (pad4c y, 0), (['/'], 2), (pad2c m, 0)] := by
    simp [tokenize, tokGo, renderOrder, fieldText, pad4c, pad2c, tkCls_dch, tkCls_dash, tkCls_slash, tkCls_space, y1, y2, y3, y4, m1, m2, d1, d2]
  have hno : ∀ t ∈ [(pad2c d, 0), (['/'], 2), (pad4c y, 0), (['/'], 2), (pad2c m, 0)], ¬ '.' ∈ (t : List Char × Nat).1 := by
    intro t ht
    simp only [List.mem_cons, List.not_mem_nil, or_false] at ht
    rcases ht with rfl | rfl | rfl | rfl | rfl <;>
      first | exact dot_pad4 y hy | exact colon_pad2 m hm '.' (by simp) | exact colon_pad2 d hdd '.' (by simp) | simp
  have hcls : classify #[(pad2c d, 0), (['/'], 2), (pad4c y, 0), (['/'], 2), (pad2c m, 0)] =
      [.day, .year, .month].map (fun c => fieldTI c (pad4c y) (pad2c m) (pad2c d) y m d true true (micOf y m d) false) := by
    simp [classify, fieldTI, micOf, fieldText, tiYear4, tiSmall, fmt_m, fmt_d, fmt_y, fmt_Y, dirNum_m2, dirNum_d2, dirNum_y2, dirNum_Y2, dirNum_Y4,
      dirNum_four_none, hy, hm, hdd, List.zipIdx,
      allAscii_pad4 y hy, natOfAscii_pad4 y hy, micro_pad4 y hy, merid_pad4 y hy, skip_pad4 y hy, colon_pad4 y hy,
      allAscii_pad2 m hm, natOfAscii_pad2 m hm, micro_pad2 m hm, merid_pad2 m hm, skip_pad2 m hm, colon_pad2 m hm ':' (by simp),
      allAscii_pad2 d hdd, natOfAscii_pad2 d hdd, micro_pad2 d hdd, merid_pad2 d hdd, skip_pad2 d hdd, colon_pad2 d hdd ':' (by simp)]
    exact ⟨dotAfter_false _ (fun t ht => hno t (List.mem_cons_of_mem _ ht)) _, dotAfter_false _ (fun t ht => hno t (List.mem_cons_of_mem _ ht)) _,
      dotAfter_false _ (fun t ht => hno t (List.mem_cons_of_mem _ ht)) _⟩
  unfold absParse
  rw [htok]
  simp only [bind, Except.bind, List.map_cons, List.map_nil, stripWs_pad4 y hy, stripWs_pad2 m hm, stripWs_pad2 d hdd, stripWs_dash, stripWs_slash, stripWs_space]
  rw [hcls]
  exact C07_order_decides st _ (by simp [allOrders]) hst y m d hd.y1 hd.y2 hd.m1 hd.m2 hd.d1 hd.d2 (pad4c y) (pad2c m) (pad2c d) rfl
    (by simp [pad2c]) (by simp [pad2c]) true true (fun _ => rfl) (fun _ => rfl) (micOf y m d) false

theorem c07_d_y_m_dash (st : PSettings) (hst : st.order = [.day, .year, .month]) (y m d : Nat) (hd : DateOk y m d) :
    absParse st (renderOrder [.day, .year, .month] '-' y m d) = .ok ({ y := y, mo := m, d := d }, .day) := by
  have hy : y ≤ 9999 := hd.y2
  have hm : m < 100 := by have := hd.m2; omega
  have hdd : d < 100 := by have := hd.d2; have := dim_le_31 y m; omega
  have y1 : y / 1000 < 10 := by omega
  have y2 : y / 100 % 10 < 10 := by omega
  have y3 : y / 10 % 10 < 10 := by omega
  have y4 : y % 10 < 10 := by omega
  have m1 : m / 10 < 10 := by omega
  have m2 : m % 10 < 10 := by omega
  have d1 : d / 10 < 10 := by omega
  have d2 : d % 10 < 10 := by omega
  have htok : tokenize (renderOrder [.day, .year, .month] '-' y m d) = .ok [(pad2c d, 0), (['-'], 2), (pad4c y, 0), (['-'], 2), (pad2c m, 0)] := by
    simp [tokenize, tokGo, renderOrder, fieldText, pad4c, pad2c, tkCls_dch, tkCls_dash, tkCls_slash, tkCls_space, y1, y2, y3, y4, m1, m2, d1, d2]
  have hno : ∀ t ∈ [(pad2c d, 0), (['-'], 2), (pad4c y, 0), (['-'], 2), (pad2c m, 0)], ¬ '.' ∈ (t : List Char × Nat).1 := by
    intro t ht
    simp only [List.mem_cons, List.not_mem_nil, or_false] at ht
    rcases ht with rfl | rfl | rfl | rfl | rfl <;>
      first | exact dot_pad4 y hy | exact colon_pad2 m hm '.' (by simp) | exact colon_pad2 d hdd '.' (by simp) | simp
  have hcls : classify #[(pad2c d, 0), (['-'], 2), (pad4c y, 0), (['-'], 2), (pad2c m, 0)] =
      [.day, .year, .month].map (fun c => fieldTI c (pad4c y) (pad2c m) (pad2c d) y m d true true (micOf y m d) false) := by
    simp [classify, fieldTI, micOf, fieldText, tiYear4, tiSmall, fmt_m, fmt_d, fmt_y, fmt_Y, dirNum_m2, dirNum_d2, dirNum_y2, dirNum_Y2, dirNum_Y4,
      dirNum_four_none, hy, hm, hdd, List.zipIdx,
      allAscii_pad4 y hy, natOfAscii_pad4 y hy, micro_pad4 y hy, merid_pad4 y hy, skip_pad4 y hy, colon_pad4 y hy,
      allAscii_pad2 m hm, natOfAscii_pad2 m hm, micro_pad2 m hm, merid_pad2 m hm, skip_pad2 m hm, colon_pad2 m hm ':' (by simp),
      allAscii_pad2 d hdd, natOfAscii_pad2 d hdd, micro_pad2 d hdd, merid_pad2 d hdd, skip_pad2 d hdd, colon_pad2 d hdd ':' (by simp)]
    exact ⟨dotAfter_false _ (fun t ht => hno t (List.mem_cons_of_mem _ ht)) _, dotAfter_false _ (fun t ht => hno t (List.mem_cons_of_mem _ ht)) _,
      dotAfter_false _ (fun t ht => hno t (List.mem_cons_of_mem _ ht)) _⟩
  unfold absParse
  rw [htok]
  simp only [bind, Except.bind, List.map_cons, List.map_nil, stripWs_pad4 y hy, stripWs_pad2 m hm, stripWs_pad2 d hdd, stripWs_dash, stripWs_slash, stripWs_space]
  rw [hcls]
  exact C07_order_decides st _ (by simp [allOrders]) hst y m d hd.y1 hd.y2 hd.m1 hd.m2 hd.d1 hd.d2 (pad4c y) (pad2c m) (pad2c d) rfl
    (by simp [pad2c]) (by simp [pad2c]) true true (fun _ => rfl) (fun _ => rfl) (micOf y m d) false

theorem c07_d_y_m_space (st : PSettings) (hst : st.order = [.day, .year, .month]) (y m d : Nat) (hd : DateOk y m d) :
    absParse st (renderOrder [.day, .year, .month] ' ' y m d) = .ok ({ y := y, mo := m, d := d }, .day) := by
  have hy : y ≤ 9999 := hd.y2
  have hm : m < 100 := by have := hd.m2; omega
  have hdd : d < 100 := by have := hd.d2; have := dim_le_31 y m; omega
  have y1 : y / 1000 < 10 := by omega
  have y2 : y / 100 % 10 < 10 := by omega
  have y3 : y / 10 % 10 < 10 := by omega
  have y4 : y % 10 < 10 := by omega
  have m1 : m / 10 < 10 := by omega
  have m2 : m % 10 < 10 := by omega
  have d1 : d / 10 < 10 := by omega
  have d2 : d % 10 < 10 := by omega
  have htok : tokenize (renderOrder [.day, .year, .month] ' ' y m d) = .ok [(pad2c d, 0), ([' '], 2), (pad4c y, 0), ([' '], 2), (pad2c m, 0)] := by
    simp [tokenize, tokGo, renderOrder, fieldText, pad4c, pad2c, tkCls_dch, tkCls_dash, tkCls_slash, tkCls_space, y1, y2, y3, y4, m1, m2, d1, d2]
  have hno : ∀ t ∈ [(pad2c d, 0), ([], 2), (pad4c y, 0), ([], 2), (pad2c m, 0)], ¬ '.' ∈ (t : List Char × Nat).1 := by
    intro t ht
    simp only [List.mem_cons, List.not_mem_nil, or_false] at ht
    rcases ht with rfl | rfl | rfl | rfl | rfl <;>
      first | exact dot_pad4 y hy | exact colon_pad2 m hm '.' (by simp) | exact colon_pad2 d hdd '.' (by simp) | simp
  have hcls : classify #[(pad2c d, 0), ([], 2), (pad4c y, 0), ([], 2), (pad2c m, 0)] =
      [.day, .year, .month].map (fun c => fieldTI c (pad4c y) (pad2c m) (pad2c d) y m d true true (micOf y m d) false) := by
    simp [classify, fieldTI, micOf, fieldText, tiYear4, tiSmall, fmt_m, fmt_d, fmt_y, fmt_Y, dirNum_m2, dirNum_d2, dirNum_y2, dirNum_Y2, dirNum_Y4,
      dirNum_four_none, hy, hm, hdd, List.zipIdx,
      allAscii_pad4 y hy, natOfAscii_pad4 y hy, micro_pad4 y hy, merid_pad4 y hy, skip_pad4 y hy, colon_pad4 y hy,
      allAscii_pad2 m hm, natOfAscii_pad2 m hm, micro_pad2 m hm, merid_pad2 m hm, skip_pad2 m hm, colon_pad2 m hm ':' (by simp),
      allAscii_pad2 d hdd, natOfAscii_pad2 d hdd, micro_pad2 d hdd, merid_pad2 d hdd, skip_pad2 d hdd, colon_pad2 d hdd ':' (by simp)]
    exact ⟨dotAfter_false _ (fun t ht => hno t (List.mem_cons_of_mem _ ht)) _, dotAfter_false _ (fun t ht => hno t (List.mem_cons_of_mem _ ht)) _,
      dotAfter_false _ (fun t ht => hno t (List.mem_cons_of_mem _ ht)) _⟩
  unfold absParse
  rw [htok]
  simp only [bind, Except.bind, List.map_cons, List.map_nil, stripWs_pad4 y hy, stripWs_pad2 m hm, stripWs_pad2 d hdd, stripWs_dash, stripWs_slash, stripWs_space]
  rw [hcls]
  exact C07_order_decides st _ (by simp [allOrders]) hst y m d hd.y1 hd.y2 hd.m1 hd.m2 hd.d1 hd.d2 (pad4c y) (pad2c m) (pad2c d) rfl
    (by simp [pad2c]) (by simp [pad2c]) true true (fun _ => rfl) (fun _ => rfl) (micOf y m d) false

theorem c07_m_d_y_slash (st : PSettings) (hst : st.order = [.month, .day, .year]) (y m d : Nat) (hd : DateOk y m d) :
    absParse st (renderOrder [.month, .day, .year] '/' y m d) = .ok ({ y := y, mo := m, d := d }, .day) := by
  have hy : y ≤ 9999 := hd.y2
  have hm : m < 100 := by have := hd.m2; omega
  have hdd : d < 100 := by have := hd.d2; have := dim_le_31 y m; omega
  have y1 : y / 1000 < 10 := by omega
  have y2 : y / 100 % 10 < 10 := by omega
  have y3 : y / 10 % 10 < 10 := by omega
  have y4 : y % 10 < 10 := by omega
  have m1 : m / 10 < 10 := by omega
  have m2 : m % 10 < 10 := by omega
  have d1 : d / 10 < 10 := by omega
  have d2 : d % 10 < 10 := by omega
  have htok : tokenize (renderOrder [.month, .day, .year] '/' y m d) = .ok [(pad2c m, 0), (['/'], 2), (pad2c d, 0), (['/'], 2), (pad4c y, 0)] := by
    simp [tokenize, tokGo, renderOrder, fieldText, pad4c, pad2c, tkCls_dch, tkCls_dash, tkCls_slash, tkCls_space, y1, y2, y3, y4, m1, m2, d1, d2]
  have hno : ∀ t ∈ [(pad2c m, 0), (['/'], 2), (pad2c d, 0), (['/'], 2), (pad4c y, 0)], ¬ '.' ∈ (t : List Char × Nat).1 := by
    intro t ht
    simp only [List.mem_cons, List.not_mem_nil, or_false] at ht
    rcases ht with rfl | rfl | rfl | rfl | rfl <;>
      first | exact dot_pad4 y hy | exact colon_pad2 m hm '.' (by simp) | exact colon_pad2 d hdd '.' (by simp) | simp
  have hcls : classify #[(pad2c m, 0), (['/'], 2), (pad2c d, 0), (['/'], 2), (pad4c y, 0)] =
      [.month, .day, .year].map (fun c => fieldTI c (pad4c y) (pad2c m) (pad2c d) y m d true true (micOf y m d) false) := by
    simp [classify, fieldTI, micOf, fieldText, tiYear4, tiSmall, fmt_m, fmt_d, fmt_y, fmt_Y, dirNum_m2, dirNum_d2, dirNum_y2, dirNum_Y2, dirNum_Y4,
      dirNum_four_none, hy, hm, hdd, List.zipIdx,
      allAscii_pad4 y hy, natOfAscii_pad4 y hy, micro_pad4 y hy, merid_pad4 y hy, skip_pad4 y hy, colon_pad4 y hy,
      allAscii_pad2 m hm, natOfAscii_pad2 m hm, micro_pad2 m hm, merid_pad2 m hm, skip_pad2 m hm, colon_pad2 m hm ':' (by simp),
      allAscii_pad2 d hdd, natOfAscii_pad2 d hdd, micro_pad2 d hdd, merid_pad2 d hdd, skip_pad2 d hdd, colon_pad2 d hdd ':' (by simp)]
    exact ⟨dotAfter_false _ (fun t ht => hno t (List.mem_cons_of_mem _ ht)) _, dotAfter_false _ (fun t ht => hno t (List.mem_cons_of_mem _ ht)) _,
      dotAfter_false _ (fun t ht => hno t (List.mem_cons_of_mem _ ht)) _⟩
  unfold absParse
  rw [htok]
  simp only [bind, Except.bind, List.map_cons, List.map_nil, stripWs_pad4 y hy, stripWs_pad2 m hm, stripWs_pad2 d hdd, stripWs_dash, stripWs_slash, stripWs_space]
  rw [hcls]
  exact C07_order_decides st _ (by simp [allOrders]) hst y m d hd.y1 hd.y2 hd.m1 hd.m2 hd.d1 hd.d2 (pad4c y) (pad2c m) (pad2c d) rfl
    (by simp [pad2c]) (by simp [pad2c]) true true (fun _ => rfl) (fun _ => rfl) (micOf y m d) false

theorem c07_m_d_y_dash (st : PSettings) (hst : st.order = [.month, .day, .year]) (y m d : Nat) (hd : DateOk y m d) :
    absParse st (renderOrder [.month, .day, .year] '-' y m d) = .ok ({ y := y, mo := m, d := d }, .day) := by
  have hy : y ≤ 9999 := hd.y2
  have hm : m < 100 := by have := hd.m2; omega
  have hdd : d < 100 := by have := hd.d2; have := dim_le_31 y m; omega
  have y1 : y / 1000 < 10 := by omega
  have y2 : y / 100 % 10 < 10 := by omega
  have y3 : y / 10 % 10 < 10 := by omega
  have y4 : y % 10 < 10 := by omega
  have m1 : m / 10 < 10 := by omega
  have m2 : m % 10 < 10 := by omega
  have d1 : d / 10 < 10 := by omega
  have d2 : d % 10 < 10 := by omega
  have htok : tokenize (renderOrder [.month, .day, .year] '-' y m d) = .ok [(pad2c m, 0), (['-'], 2), (pad2c d, 0), (['-'], 2), (pad4c y, 0)] := by
    simp [tokenize, tokGo, renderOrder, fieldText, pad4c, pad2c, tkCls_dch, tkCls_dash, tkCls_slash, tkCls_space, y1, y2, y3, y4, m1, m2, d1, d2]
  have hno : ∀ t ∈ [(pad2c m, 0), (['-'], 2), (pad2c d, 0), (['-'], 2), (pad4c y, 0)], ¬ '.' ∈ (t : List Char × Nat).1 := by
    intro t ht
    simp only [List.mem_cons, List.not_mem_nil, or_false] at ht
    rcases ht with rfl | rfl | rfl | rfl | rfl <;>
      first | exact dot_pad4 y hy | exact colon_pad2 m hm '.' (by simp) | exact colon_pad2 d hdd '.' (by simp) | simp
  have hcls : classify #[(pad2c m, 0), (['-'], 2), (pad2c d, 0), (['-'], 2), (pad4c y, 0)] =
      [.month, .day, .year].map (fun c => fieldTI c (pad4c y) (pad2c m) (pad2c d) y m d true true (micOf y m d) false) := by
    simp [classify, fieldTI, micOf, fieldText, tiYear4, tiSmall, fmt_m, fmt_d, fmt_y, fmt_Y, dirNum_m2, dirNum_d2, dirNum_y2, dirNum_Y2, dirNum_Y4,
      dirNum_four_none, hy, hm, hdd, List.zipIdx,
      allAscii_pad4 y hy, natOfAscii_pad4 y hy, micro_pad4 y hy, merid_pad4 y hy, skip_pad4 y hy, colon_pad4 y hy,
      allAscii_pad2 m hm, natOfAscii_pad2 m hm, micro_pad2 m hm, merid_pad2 m hm, skip_pad2 m hm, colon_pad2 m hm ':' (by simp),
      allAscii_pad2 d hdd, natOfAscii_pad2 d hdd, micro_pad2 d hdd, merid_pad2 d hdd, skip_pad2 d hdd, colon_pad2 d hdd ':' (by simp)]
    exact ⟨dotAfter_false _ (fun t ht => hno t (List.mem_cons_of_mem _ ht)) _, dotAfter_false _ (fun t ht => hno t (List.mem_cons_of_mem _ ht)) _,
      dotAfter_false _ (fun t ht => hno t (List.mem_cons_of_mem _ ht)) _⟩
  unfold absParse
  rw [htok]
  simp only [bind, Except.bind, List.map_cons, List.map_nil, stripWs_pad4 y hy, stripWs_pad2 m hm, stripWs_pad2 d hdd, stripWs_dash, stripWs_slash, stripWs_space]
  rw [hcls]
  exact C07_order_decides st _ (by simp [allOrders]) hst y m d hd.y1 hd.y2 hd.m1 hd.m2 hd.d1 hd.d2 (pad4c y) (pad2c m) (pad2c d) rfl
    (by simp [pad2c]) (by simp [pad2c]) true true (fun _ => rfl) (fun _ => rfl) (micOf y m d) false

theorem c07_m_d_y_space (st : PSettings) (hst : st.order = [.month, .day, .year]) (y m d : Nat) (hd : DateOk y m d) :
    absParse st (renderOrder [.month, .day, .year] ' ' y m d) = .ok ({ y := y, mo := m, d := d }, .day) := by
  have hy : y ≤ 9999 := hd.y2
  have hm : m < 100 := by have := hd.m2; omega
  have hdd : d < 100 := by have := hd.d2; have := dim_le_31 y m; omega
  have y1 : y / 1000 < 10 := by omega
  have y2 : y / 100 % 10 < 10 := by omega
  have y3 : y / 10 % 10 < 10 := by omega
  have y4 : y % 10 < 10 := by omega
  have m1 : m / 10 < 10 := by omega
  have m2 : m % 10 < 10 := by omega
  have d1 : d / 10 < 10 := by omega
  have d2 : d % 10 < 10 := by omega
  have htok : tokenize (renderOrder [.month, .day, .year] ' ' y m d) = .ok [(pad2c m, 0), ([' '], 2), (pad2c d, 0), ([' '], 2), (pad4c y, 0)] := by
    simp [tokenize, tokGo, renderOrder, fieldText, pad4c, pad2c, tkCls_dch, tkCls_dash, tkCls_slash, tkCls_space, y1, y2, y3, y4, m1, m2, d1, d2]
  have hno : ∀ t ∈ [(pad2c m, 0), ([], 2), (pad2c d, 0), ([], 2), (pad4c y, 0)], ¬ '.' ∈ (t : List Char × Nat).1 := by
    intro t ht
    simp only [List.mem_cons, List.not_mem_nil, or_false] at ht
    rcases ht with rfl | rfl | rfl | rfl | rfl <;>
      first | exact dot_pad4 y hy | exact colon_pad2 m hm '.' (by simp) | exact colon_pad2 d hdd '.' (by simp) | simp
  have hcls : classify #[(pad2c m, 0), ([], 2), (pad2c d, 0), ([], 2), (pad4c y, 0)] =
      [.month, .day, .year].map (fun c => fieldTI c (pad4c y) (pad2c m) (pad2c d) y m d true true (micOf y m d) false) := by
    simp [classify, fieldTI, micOf, fieldText, tiYear4, tiSmall, fmt_m, fmt_d, fmt_y, fmt_Y, dirNum_m2, dirNum_d2, dirNum_y2, dirNum_Y2, dirNum_Y4,
      dirNum_four_none, hy, hm, hdd, List.zipIdx,
      allAscii_pad4 y hy, natOfAscii_pad4 y hy, micro_pad4 y hy, merid_pad4 y hy, skip_pad4 y hy, colon_pad4 y hy,
      allAscii_pad2 m hm, natOfAscii_pad2 m hm, micro_pad2 m hm, merid_pad2 m hm, skip_pad2 m hm, colon_pad2 m hm ':' (by simp),
      allAscii_pad2 d hdd, natOfAscii_pad2 d hdd, micro_pad2 d hdd, merid_pad2 d hdd, skip_pad2 d hdd, colon_pad2 d hdd ':' (by simp)]
    exact ⟨dotAfter_false _ (fun t ht => hno t (List.mem_cons_of_mem _ ht)) _, dotAfter_false _ (fun t ht => hno t (List.mem_cons_of_mem _ ht)) _,
      dotAfter_false _ (fun t ht => hno t (List.mem_cons_of_mem _ ht)) _⟩
  unfold absParse
  rw [htok]
  simp only [bind, Except.bind, List.map_cons, List.map_nil, stripWs_pad4 y hy, stripWs_pad2 m hm, stripWs_pad2 d hdd, stripWs_dash, stripWs_slash, stripWs_space]
  rw [hcls]
  exact C07_order_decides st _ (by simp [allOrders]) hst y m d hd.y1 hd.y2 hd.m1 hd.m2 hd.d1 hd.d2 (pad4c y) (pad2c m) (pad2c d) rfl
    (by simp [pad2c]) (by simp [pad2c]) true true (fun _ => rfl) (fun _ => rfl) (micOf y m d) false

theorem c07_m_y_d_slash (st : PSettings) (hst : st.order = [.month, .year, .day]) (y m d : Nat) (hd : DateOk y m d) :
    absParse st (renderOrder [.month, .year, .day] '/' y m d) = .ok ({ y := y, mo := m, d := d }, .day) := by
  have hy : y ≤ 9999 := hd.y2
  have hm : m < 100 := by have := hd.m2; omega
  have hdd : d < 100 := by have := hd.d2; have := dim_le_31 y m; omega
  have y1 : y / 1000 < 10 := by omega
  have y2 : y / 100 % 10 < 10 := by omega
  have y3 : y / 10 % 10 < 10 := by omega
  have y4 : y % 10 < 10 := by omega
  have m1 : m / 10 < 10 := by omega
  have m2 : m % 10 < 10 := by omega
  have d1 : d / 10 < 10 := by omega
  have d2 : d % 10 < 10 := by omega
  have htok : tokenize (renderOrder [.month, .year, .day] '/' y m d) = .ok [(pad2c m, 0), (['/'], 2), (pad4c y, 0), (['/'], 2), (pad2c d, 0)] := by
    simp [tokenize, tokGo, renderOrder, fieldText, pad4c, pad2c, tkCls_dch, tkCls_dash, tkCls_slash, tkCls_space, y1, y2, y3, y4, m1, m2, d1, d2]
  have hno : ∀ t ∈ [(pad2c m, 0), (['/'], 2), (pad4c y, 0), (['/'], 2), (pad2c d, 0)], ¬ '.' ∈ (t : List Char × Nat).1 := by
    intro t ht
    simp only [List.mem_cons, List.not_mem_nil, or_false] at ht
    rcases ht with rfl | rfl | rfl | rfl | rfl <;>
      first | exact dot_pad4 y hy | exact colon_pad2 m hm '.' (by simp) | exact colon_pad2 d hdd '.' (by simp) | simp
  have hcls : classify #[(pad2c m, 0), (['/'], 2), (pad4c y, 0), (['/'], 2), (pad2c d, 0)] =
      [.month, .year, .day].map (fun c => fieldTI c (pad4c y) (pad2c m) (pad2c d) y m d true true (micOf y m d) false) := by
    simp [classify, fieldTI, micOf, fieldText, tiYear4, tiSmall, fmt_m, fmt_d, fmt_y, fmt_Y, dirNum_m2, dirNum_d2, dirNum_y2, dirNum_Y2, dirNum_Y4,
      dirNum_four_none, hy, hm, hdd, List.zipIdx,
      allAscii_pad4 y hy, natOfAscii_pad4 y hy, micro_pad4 y hy, merid_pad4 y hy, skip_pad4 y hy, colon_pad4 y hy,
      allAscii_pad2 m hm, natOfAscii_pad2 m hm, micro_pad2 m hm, merid_pad2 m hm, skip_pad2 m hm, colon_pad2 m hm ':' (by simp),
      allAscii_pad2 d hdd, natOfAscii_pad2 d hdd, micro_pad2 d hdd, merid_pad2 d hdd, skip_pad2 d hdd, colon_pad2 d hdd ':' (by simp)]
    exact ⟨dotAfter_false _ (fun t ht => hno t (List.mem_cons_of_mem _ ht)) _, dotAfter_false _ (fun t ht => hno t (List.mem_cons_of_mem _ ht)) _,
      dotAfter_false _ (fun t ht => hno t (List.mem_cons_of_mem _ ht)) _⟩
  unfold absParse
  rw [htok]
  simp only [bind, Except.bind, List.map_cons, List.map_nil, stripWs_pad4 y hy, stripWs_pad2 m hm, stripWs_pad2 d hdd, stripWs_dash, stripWs_slash, stripWs_space]
  rw [hcls]
  exact C07_order_decides st _ (by simp [allOrders]) hst y m d hd.y1 hd.y2 hd.m1 hd.m2 hd.d1 hd.d2 (pad4c y) (pad2c m) (pad2c d) rfl
    (by simp [pad2c]) (by simp [pad2c]) true true (fun _ => rfl) (fun _ => rfl) (micOf y m d) false

theorem c07_m_y_d_dash (st : PSettings) (hst : st.order = [.month, .year, .day]) (y m d : Nat) (hd : DateOk y m d) :
    absParse st (renderOrder [.month, .year, .day] '-' y m d) = .ok ({ y := y, mo := m, d := d }, .day) := by
  have hy : y ≤ 9999 := hd.y2
  have hm : m < 100 := by have := hd.m2; omega
  have hdd : d < 100 := by have := hd.d2; have := dim_le_31 y m; omega
  have y1 : y / 1000 < 10 := by omega
  have y2 : y / 100 % 10 < 10 := by omega
  have y3 : y / 10 % 10 < 10 := by omega
  have y4 : y % 10 < 10 := by omega
  have m1 : m / 10 < 10 := by omega
  have m2 : m % 10 < 10 := by omega
  have d1 : d / 10 < 10 := by omega
  have d2 : d % 10 < 10 := by omega
  have htok : tokenize (renderOrder [.month, .year, .day] '-' y m d) = .ok [(pad2c m, 0), (['-'], 2), (pad4c y, 0), (['-'], 2), (pad2c d, 0)] := by
    simp [tokenize, tokGo, renderOrder, fieldText, pad4c, pad2c, tkCls_dch, tkCls_dash, tkCls_slash, tkCls_space, y1, y2, y3, y4, m1, m2, d1, d2]
  have hno : ∀ t ∈ [(pad2c m, 0), (['-'], 2), (pad4c y, 0), (['-'], 2), (pad2c d, 0)], ¬ '.' ∈ (t : List Char × Nat).1 := by
    intro t ht
    simp only [List.mem_cons, List.not_mem_nil, or_false] at ht
    rcases ht with rfl | rfl | rfl | rfl | rfl <;>
      first | exact dot_pad4 y hy | exact colon_pad2 m hm '.' (by simp) | exact colon_pad2 d hdd '.' (by simp) | simp
  have hcls : classify #[(pad2c m, 0), (['-'], 2), (pad4c y, 0), (['-'], 2), (pad2c d, 0)] =
      [.month, .year, .day].map (fun c => fieldTI c (pad4c y) (pad2c m) (pad2c d) y m d true true (micOf y m d) false) := by
    simp [classify, fieldTI, micOf, fieldText, tiYear4, tiSmall, fmt_m, fmt_d, fmt_y, fmt_Y, dirNum_m2, dirNum_d2, dirNum_y2, dirNum_Y2, dirNum_Y4,
      dirNum_four_none, hy, hm, hdd, List.zipIdx,
      allAscii_pad4 y hy, natOfAscii_pad4 y hy, micro_pad4 y hy, merid_pad4 y hy, skip_pad4 y hy, colon_pad4 y hy,
      allAscii_pad2 m hm, natOfAscii_pad2 m hm, micro_pad2 m hm, merid_pad2 m hm, skip_pad2 m hm, colon_pad2 m hm ':' (by simp),
      allAscii_pad2 d hdd, natOfAscii_pad2 d hdd, micro_pad2 d hdd, merid_pad2 d hdd, skip_pad2 d hdd, colon_pad2 d hdd ':' (by simp)]
    exact ⟨dotAfter_false _ (fun t ht => hno t (List.mem_cons_of_mem _ ht)) _, dotAfter_false _ (fun t ht => hno t (List.mem_cons_of_mem _ ht)) _,
      dotAfter_false _ (fun t ht => hno t (List.mem_cons_of_mem _ ht)) _⟩
  unfold absParse
  rw [htok]
  simp only [bind, Except.bind, List.map_cons, List.map_nil, stripWs_pad4 y hy, stripWs_pad2 m hm, stripWs_pad2 d hdd, stripWs_dash, stripWs_slash, stripWs_space]
  rw [hcls]
  exact C07_order_decides st _ (by simp [allOrders]) hst y m d hd.y1 hd.y2 hd.m1 hd.m2 hd.d1 hd.d2 (pad4c y) (pad2c m) (pad2c d) rfl
    (by simp [pad2c]) (by simp [pad2c]) true true (fun _ => rfl) (fun _ => rfl) (micOf y m d) false

theorem c07_m_y_d_space (st : PSettings) (hst : st.order = [.month, .year, .day]) (y m d : Nat) (hd : DateOk y m d) :
    absParse st (renderOrder [.month, .year, .day] ' ' y m d) = .ok ({ y := y, mo := m, d := d }, .day) := by
  have hy : y ≤ 9999 := hd.y2
  have hm : m < 100 := by have := hd.m2; omega
  have hdd : d < 100 := by have := hd.d2; have := dim_le_31 y m; omega
  have y1 : y / 1000 < 10 := by omega
  have y2 : y / 100 % 10 < 10 := by omega
  have y3 : y / 10 % 10 < 10 := by omega
  have y4 : y % 10 < 10 := by omega
  have m1 : m / 10 < 10 := by omega
  have m2 : m % 10 < 10 := by omega
  have d1 : d / 10 < 10 := by omega
  have d2 : d % 10 < 10 := by omega
  have htok : tokenize (renderOrder [.month, .year, .day] ' ' y m d) = .ok [(pad2c m, 0), ([' '], 2), (pad4c y, 0), ([' '], 2), (pad2c d, 0)] := by
    simp [tokenize, tokGo, renderOrder, fieldText, pad4c, pad2c, tkCls_dch, tkCls_dash, tkCls_slash, tkCls_space, y1, y2, y3, y4, m1, m2, d1, d2]
  have hno : ∀ t ∈ [(pad2c m, 0), ([], 2), (pad4c y, 0), ([], 2), (pad2c d, 0)], ¬ '.' ∈ (t : List Char × Nat).1 := by
    intro t ht
    simp only [List.mem_cons, List.not_mem_nil, or_false] at ht
    rcases ht with rfl | rfl | rfl | rfl | rfl <;>
      first | exact dot_pad4 y hy | exact colon_pad2 m hm '.' (by simp) | exact colon_pad2 d hdd '.' (by simp) | simp
  have hcls : classify #[(pad2c m, 0), ([], 2), (pad4c y, 0), ([], 2), (pad2c d, 0)] =
      [.month, .year, .day].map (fun c => fieldTI c (pad4c y) (pad2c m) (pad2c d) y m d true true (micOf y m d) false) := by
    simp [classify, fieldTI, micOf, fieldText, tiYear4, tiSmall, fmt_m, fmt_d, fmt_y, fmt_Y, dirNum_m2, dirNum_d2, dirNum_y2, dirNum_Y2, dirNum_Y4,
      dirNum_four_none, hy, hm, hdd, List.zipIdx,
      allAscii_pad4 y hy, natOfAscii_pad4 y hy, micro_pad4 y hy, merid_pad4 y hy, skip_pad4 y hy, colon_pad4 y hy,
      allAscii_pad2 m hm, natOfAscii_pad2 m hm, micro_pad2 m hm, merid_pad2 m hm, skip_pad2 m hm, colon_pad2 m hm ':' (by simp),
      allAscii_pad2 d hdd, natOfAscii_pad2 d hdd, micro_pad2 d hdd, merid_pad2 d hdd, skip_pad2 d hdd, colon_pad2 d hdd ':' (by simp)]
    exact ⟨dotAfter_false _ (fun t ht => hno t (List.mem_cons_of_mem _ ht)) _, dotAfter_false _ (fun t ht => hno t (List.mem_cons_of_mem _ ht)) _,
      dotAfter_false _ (fun t ht => hno t (List.mem_cons_of_mem _ ht)) _⟩
  unfold absParse
  rw [htok]
  simp only [bind, Except.bind, List.map_cons, List.map_nil, stripWs_pad4 y hy, stripWs_pad2 m hm, stripWs_pad2 d hdd, stripWs_dash, stripWs_slash, stripWs_space]
  rw [hcls]
  exact C07_order_decides st _ (by simp [allOrders]) hst y m d hd.y1 hd.y2 hd.m1 hd.m2 hd.d1 hd.d2 (pad4c y) (pad2c m) (pad2c d) rfl
    (by simp [pad2c]) (by simp [pad2c]) true true (fun _ => rfl) (fun _ => rfl) (micOf y m d) false

theorem c07_y_d_m_slash (st : PSettings) (hst : st.order = [.year, .day, .month]) (y m d : Nat) (hd : DateOk y m d) :
    absParse st (renderOrder [.year, .day, .month] '/' y m d) = .ok ({ y := y, mo := m, d := d }, .day) := by
  have hy : y ≤ 9999 := hd.y2
  have hm : m < 100 := by have := hd.m2; omega
  have hdd : d < 100 := by have := hd.d2; have := dim_le_31 y m; omega
  have y1 : y / 1000 < 10 := by omega
  have y2 : y / 100 % 10 < 10 := by omega
  have y3 : y / 10 % 10 < 10 := by omega
  have y4 : y % 10 < 10 := by omega
  have m1 : m / 10 < 10 := by omega
  have m2 : m % 10 < 10 := by omega
  have d1 : d / 10 < 10 := by omega
  have d2 : d % 10 < 10 := by omega
  have htok : tokenize (renderOrder [.year, .day, .month] '/' y m d) = .ok [(pad4c y, 0), (['/'], 2), (pad2c d, 0), (['/'], 2), (pad2c m, 0)] := by
    simp [tokenize, tokGo, renderOrder, fieldText, pad4c, pad2c, tkCls_dch, tkCls_dash, tkCls_slash, tkCls_space, y1, y2, y3, y4, m1, m2, d1, d2]
  have hno : ∀ t ∈ [(pad4c y, 0), (['/'], 2), (pad2c d, 0), (['/'], 2), (pad2c m, 0)], ¬ '.' ∈ (t : List Char × Nat).1 := by
    intro t ht
    simp only [List.mem_cons, List.not_mem_nil, or_false] at ht
    rcases ht with rfl | rfl | rfl | rfl | rfl <;>
      first | exact dot_pad4 y hy | exact colon_pad2 m hm '.' (by simp) | exact colon_pad2 d hdd '.' (by simp) | simp
  have hcls : classify #[(pad4c y, 0), (['/'], 2), (pad2c d, 0), (['/'], 2), (pad2c m, 0)] =
      [.year, .day, .month].map (fun c => fieldTI c (pad4c y) (pad2c m) (pad2c d) y m d true true (micOf y m d) false) := by
    simp [classify, fieldTI, micOf, fieldText, tiYear4, tiSmall, fmt_m, fmt_d, fmt_y, fmt_Y, dirNum_m2, dirNum_d2, dirNum_y2, dirNum_Y2, dirNum_Y4,
      dirNum_four_none, hy, hm, hdd, List.zipIdx,
      allAscii_pad4 y hy, natOfAscii_pad4 y hy, micro_pad4 y hy, merid_pad4 y hy, skip_pad4 y hy, colon_pad4 y hy,
      allAscii_pad2 m hm, natOfAscii_pad2 m hm, micro_pad2 m hm, merid_pad2 m hm, skip_pad2 m hm, colon_pad2 m hm ':' (by simp),
      allAscii_pad2 d hdd, natOfAscii_pad2 d hdd, micro_pad2 d hdd, merid_pad2 d hdd, skip_pad2 d hdd, colon_pad2 d hdd ':' (by simp)]
    exact ⟨dotAfter_false _ (fun t ht => hno t (List.mem_cons_of_mem _ ht)) _, dotAfter_false _ (fun t ht => hno t (List.mem_cons_of_mem _ ht)) _,
      dotAfter_false _ (fun t ht => hno t (List.mem_cons_of_mem _ ht)) _⟩
  unfold absParse
  rw [htok]
  simp only [bind, Except.bind, List.map_cons, List.map_nil, stripWs_pad4 y hy, stripWs_pad2 m hm, stripWs_pad2 d hdd, stripWs_dash, stripWs_slash, stripWs_space]
  rw [hcls]
  exact C07_order_decides st _ (by simp [allOrders]) hst y m d hd.y1 hd.y2 hd.m1 hd.m2 hd.d1 hd.d2 (pad4c y) (pad2c m) (pad2c d) rfl
    (by simp [pad2c]) (by simp [pad2c]) true true (fun _ => rfl) (fun _ => rfl) (micOf y m d) false

theorem c07_y_d_m_dash (st : PSettings) (hst : st.order = [.year, .day, .month]) (y m d : Nat) (hd : DateOk y m d) :
    absParse st (renderOrder [.year, .day, .month] '-' y m d) = .ok ({ y := y, mo := m, d := d }, .day) := by
  have hy : y ≤ 9999 := hd.y2
  have hm : m < 100 := by have := hd.m2; omega
  have hdd : d < 100 := by have := hd.d2; have := dim_le_31 y m; omega
  have y1 : y / 1000 < 10 := by omega
  have y2 : y / 100 % 10 < 10 := by omega
  have y3 : y / 10 % 10 < 10 := by omega
  have y4 : y % 10 < 10 := by omega
  have m1 : m / 10 < 10 := by omega
  have m2 : m % 10 < 10 := by omega
  have d1 : d / 10 < 10 := by omega
  have d2 : d % 10 < 10 := by omega
  have htok : tokenize (renderOrder [.year, .day, .month] '-' y m d) = .ok [(pad4c y, 0), (['-'], 2), (pad2c d, 0), (['-'], 2), (pad2c m, 0)] := by
    simp [tokenize, tokGo, renderOrder, fieldText, pad4c, pad2c, tkCls_dch, tkCls_dash, tkCls_slash, tkCls_space, y1, y2, y3, y4, m1, m2, d1, d2]
  have hno : ∀ t ∈ [(pad4c y, 0), (['-'], 2), (pad2c d, 0), (['-'], 2), (pad2c m, 0)], ¬ '.' ∈ (t : List Char × Nat).1 := by
    intro t ht
    simp only [List.mem_cons, List.not_mem_nil, or_false] at ht
    rcases ht with rfl | rfl | rfl | rfl | rfl <;>
      first | exact dot_pad4 y hy | exact colon_pad2 m hm '.' (by simp) | exact colon_pad2 d hdd '.' (by simp) | simp
  have hcls : classify #[(pad4c y, 0), (['-'], 2), (pad2c d, 0), (['-'], 2), (pad2c m, 0)] =
      [.year, .day, .month].map (fun c => fieldTI c (pad4c y) (pad2c m) (pad2c d) y m d true true (micOf y m d) false) := by
    simp [classify, fieldTI, micOf, fieldText, tiYear4, tiSmall, fmt_m, fmt_d, fmt_y, fmt_Y, dirNum_m2, dirNum_d2, dirNum_y2, dirNum_Y2, dirNum_Y4,
      dirNum_four_none, hy, hm, hdd, List.zipIdx,
      allAscii_pad4 y hy, natOfAscii_pad4 y hy, micro_pad4 y hy, merid_pad4 y hy, skip_pad4 y hy, colon_pad4 y hy,
      allAscii_pad2 m hm, natOfAscii_pad2 m hm, micro_pad2 m hm, merid_pad2 m hm, skip_pad2 m hm, colon_pad2 m hm ':' (by simp),
      allAscii_pad2 d hdd, natOfAscii_pad2 d hdd, micro_pad2 d hdd, merid_pad2 d hdd, skip_pad2 d hdd, colon_pad2 d hdd ':' (by simp)]
    exact ⟨dotAfter_false _ (fun t ht => hno t (List.mem_cons_of_mem _ ht)) _, dotAfter_false _ (fun t ht => hno t (List.mem_cons_of_mem _ ht)) _,
      dotAfter_false _ (fun t ht => hno t (List.mem_cons_of_mem _ ht)) _⟩
  unfold absParse
  rw [htok]
  simp only [bind, Except.bind, List.map_cons, List.map_nil, stripWs_pad4 y hy, stripWs_pad2 m hm, stripWs_pad2 d hdd, stripWs_dash, stripWs_slash, stripWs_space]
  rw [hcls]
  exact C07_order_decides st _ (by simp [allOrders]) hst y m d hd.y1 hd.y2 hd.m1 hd.m2 hd.d1 hd.d2 (pad4c y) (pad2c m) (pad2c d) rfl
    (by simp [pad2c]) (by simp [pad2c]) true true (fun _ => rfl) (fun _ => rfl) (micOf y m d) false

theorem c07_y_d_m_space (st : PSettings) (hst : st.order = [.year, .day, .month]) (y m d : Nat) (hd : DateOk y m d) :
    absParse st (renderOrder [.year, .day, .month] ' ' y m d) = .ok ({ y := y, mo := m, d := d }, .day) := by
  have hy : y ≤ 9999 := hd.y2
  have hm : m < 100 := by have := hd.m2; omega
  have hdd : d < 100 := by have := hd.d2; have := dim_le_31 y m; omega
  have y1 : y / 1000 < 10 := by omega
  have y2 : y / 100 % 10 < 10 := by omega
  have y3 : y / 10 % 10 < 10 := by omega
  have y4 : y % 10 < 10 := by omega
  have m1 : m / 10 < 10 := by omega
  have m2 : m % 10 < 10 := by omega
  have d1 : d / 10 < 10 := by omega
  have d2 : d % 10 < 10 := by omega
  have htok : tokenize (renderOrder [.year, .day, .month] ' ' y m d) = .ok [(pad4c y, 0), ([' '], 2), (pad2c d, 0), ([' '], 2), (pad2c m, 0)] := by
    simp [tokenize, tokGo, renderOrder, fieldText, pad4c, pad2c, tkCls_dch, tkCls_dash, tkCls_slash, tkCls_space, y1, y2, y3, y4, m1, m2, d1, d2]
  have hno : ∀ t ∈ [(pad4c y, 0), ([], 2), (pad2c d, 0), ([], 2), (pad2c m, 0)], ¬ '.' ∈ (t : List Char × Nat).1 := by
    intro t ht
    simp only [List.mem_cons, List.not_mem_nil, or_false] at ht
    rcases ht with rfl | rfl | rfl | rfl | rfl <;>
      first | exact dot_pad4 y hy | exact colon_pad2 m hm '.' (by simp) | exact colon_pad2 d hdd '.' (by simp) | simp
  have hcls : classify #[(pad4c y, 0), ([], 2), (pad2c d, 0), ([], 2), (pad2c m, 0)] =
      [.year, .day, .month].map (fun c => fieldTI c (pad4c y) (pad2c m) (pad2c d) y m d true true (micOf y m d) false) := by
    simp [classify, fieldTI, micOf, fieldText, tiYear4, tiSmall, fmt_m, fmt_d, fmt_y, fmt_Y, dirNum_m2, dirNum_d2, dirNum_y2, dirNum_Y2, dirNum_Y4,
      dirNum_four_none, hy, hm, hdd, List.zipIdx,
      allAscii_pad4 y hy, natOfAscii_pad4 y hy, micro_pad4 y hy, merid_pad4 y hy, skip_pad4 y hy, colon_pad4 y hy,
      allAscii_pad2 m hm, natOfAscii_pad2 m hm, micro_pad2 m hm, merid_pad2 m hm, skip_pad2 m hm, colon_pad2 m hm ':' (by simp),
      allAscii_pad2 d hdd, natOfAscii_pad2 d hdd, micro_pad2 d hdd, merid_pad2 d hdd, skip_pad2 d hdd, colon_pad2 d hdd ':' (by simp)]
    exact ⟨dotAfter_false _ (fun t ht => hno t (List.mem_cons_of_mem _ ht)) _, dotAfter_false _ (fun t ht => hno t (List.mem_cons_of_mem _ ht)) _,
      dotAfter_false _ (fun t ht => hno t (List.mem_cons_of_mem _ ht)) _⟩
  unfold absParse
  rw [htok]
  simp only [bind, Except.bind, List.map_cons, List.map_nil, stripWs_pad4 y hy, stripWs_pad2 m hm, stripWs_pad2 d hdd, stripWs_dash, stripWs_slash, stripWs_space]
  rw [hcls]
  exact C07_order_decides st _ (by simp [allOrders]) hst y m d hd.y1 hd.y2 hd.m1 hd.m2 hd.d1 hd.d2 (pad4c y) (pad2c m) (pad2c d) rfl
    (by simp [pad2c]) (by simp [pad2c]) true true (fun _ => rfl) (fun _ => rfl) (micOf y m d) false

theorem c07_y_m_d_slash (st : PSettings) (hst : st.order = [.year, .month, .day]) (y m d : Nat) (hd : DateOk y m d) :
    absParse st (renderOrder [.year, .month, .day] '/' y m d) = .ok ({ y := y, mo := m, d := d }, .day) := by
  have hy : y ≤ 9999 := hd.y2
  have hm : m < 100 := by have := hd.m2; omega
  have hdd : d < 100 := by have := hd.d2; have := dim_le_31 y m; omega
  have y1 : y / 1000 < 10 := by omega
  have y2 : y / 100 % 10 < 10 := by omega
  have y3 : y / 10 % 10 < 10 := by omega
  have y4 : y % 10 < 10 := by omega
  have m1 : m / 10 < 10 := by omega
  have m2 : m % 10 < 10 := by omega
  have d1 : d / 10 < 10 := by omega
  have d2 : d % 10 < 10 := by omega
  have htok : tokenize (renderOrder [.year, .month, .day] '/' y m d) = .ok [(pad4c y, 0), (['/'], 2), (pad2c m, 0), (['/'], 2), (pad2c d, 0)] := by
    simp [tokenize, tokGo, renderOrder, fieldText, pad4c, pad2c, tkCls_dch, tkCls_dash, tkCls_slash, tkCls_space, y1, y2, y3, y4, m1, m2, d1, d2]
  have hno : ∀ t ∈ [(pad4c y, 0), (['/'], 2), (pad2c m, 0), (['/'], 2), (pad2c d, 0)], ¬ '.' ∈ (t : List Char × Nat).1 := by
    intro t ht
    simp only [List.mem_cons, List.not_mem_nil, or_false] at ht
    rcases ht with rfl | rfl | rfl | rfl | rfl <;>
      first | exact dot_pad4 y hy | exact colon_pad2 m hm '.' (by simp) | exact colon_pad2 d hdd '.' (by simp) | simp
  have hcls : classify #[(pad4c y, 0), (['/'], 2), (pad2c m, 0), (['/'], 2), (pad2c d, 0)] =
      [.year, .month, .day].map (fun c => fieldTI c (pad4c y) (pad2c m) (pad2c d) y m d true true (micOf y m d) false) := by
    simp [classify, fieldTI, micOf, fieldText, tiYear4, tiSmall, fmt_m, fmt_d, fmt_y, fmt_Y, dirNum_m2, dirNum_d2, dirNum_y2, dirNum_Y2, dirNum_Y4,
      dirNum_four_none, hy, hm, hdd, List.zipIdx,
      allAscii_pad4 y hy, natOfAscii_pad4 y hy, micro_pad4 y hy, merid_pad4 y hy, skip_pad4 y hy, colon_pad4 y hy,
      allAscii_pad2 m hm, natOfAscii_pad2 m hm, micro_pad2 m hm, merid_pad2 m hm, skip_pad2 m hm, colon_pad2 m hm ':' (by simp),
      allAscii_pad2 d hdd, natOfAscii_pad2 d hdd, micro_pad2 d hdd, merid_pad2 d hdd, skip_pad2 d hdd, colon_pad2 d hdd ':' (by simp)]
    exact ⟨dotAfter_false _ (fun t ht => hno t (List.mem_cons_of_mem _ ht)) _, dotAfter_false _ (fun t ht => hno t (List.mem_cons_of_mem _ ht)) _,
      dotAfter_false _ (fun t ht => hno t (List.mem_cons_of_mem _ ht)) _⟩
  unfold absParse
  rw [htok]
  simp only [bind, Except.bind, List.map_cons, List.map_nil, stripWs_pad4 y hy, stripWs_pad2 m hm, stripWs_pad2 d hdd, stripWs_dash, stripWs_slash, stripWs_space]
  rw [hcls]
  exact C07_order_decides st _ (by simp [allOrders]) hst y m d hd.y1 hd.y2 hd.m1 hd.m2 hd.d1 hd.d2 (pad4c y) (pad2c m) (pad2c d) rfl
    (by simp [pad2c]) (by simp [pad2c]) true true (fun _ => rfl) (fun _ => rfl) (micOf y m d) false

theorem c07_y_m_d_dash (st : PSettings) (hst : st.order = [.year, .month, .day]) (y m d : Nat) (hd : DateOk y m d) :
    absParse st (renderOrder [.year, .month, .day] '-' y m d) = .ok ({ y := y, mo := m, d := d }, .day) := by
  have hy : y ≤ 9999 := hd.y2
  have hm : m < 100 := by have := hd.m2; omega
  have hdd : d < 100 := by have := hd.d2; have := dim_le_31 y m; omega
  have y1 : y / 1000 < 10 := by omega
  have y2 : y / 100 % 10 < 10 := by omega
  have y3 : y / 10 % 10 < 10 := by omega
  have y4 : y % 10 < 10 := by omega
  have m1 : m / 10 < 10 := by omega
  have m2 : m % 10 < 10 := by omega
  have d1 : d / 10 < 10 := by omega
  have d2 : d % 10 < 10 := by omega
  have htok : tokenize (renderOrder [.year, .month, .day] '-' y m d) = .ok [(pad4c y, 0), (['-'], 2), (pad2c m, 0), (['-'], 2), (pad2c d, 0)] := by
    simp [tokenize, tokGo, renderOrder, fieldText, pad4c, pad2c, tkCls_dch, tkCls_dash, tkCls_slash, tkCls_space, y1, y2, y3, y4, m1, m2, d1, d2]
  have hno : ∀ t ∈ [(pad4c y, 0), (['-'], 2), (pad2c m, 0), (['-'], 2), (pad2c d, 0)], ¬ '.' ∈ (t : List Char × Nat).1 := by
    intro t ht
    simp only [List.mem_cons, List.not_mem_nil, or_false] at ht
    rcases ht with rfl | rfl | rfl | rfl | rfl <;>
      first | exact dot_pad4 y hy | exact colon_pad2 m hm '.' (by simp) | exact colon_pad2 d hdd '.' (by simp) | simp
  have hcls : classify #[(pad4c y, 0), (['-'], 2), (pad2c m, 0), (['-'], 2), (pad2c d, 0)] =
      [.year, .month, .day].map (fun c => fieldTI c (pad4c y) (pad2c m) (pad2c d) y m d true true (micOf y m d) false) := by
    simp [classify, fieldTI, micOf, fieldText, tiYear4, tiSmall, fmt_m, fmt_d, fmt_y, fmt_Y, dirNum_m2, dirNum_d2, dirNum_y2, dirNum_Y2, dirNum_Y4,
      dirNum_four_none, hy, hm, hdd, List.zipIdx,
      allAscii_pad4 y hy, natOfAscii_pad4 y hy, micro_pad4 y hy, merid_pad4 y hy, skip_pad4 y hy, colon_pad4 y hy,
      allAscii_pad2 m hm, natOfAscii_pad2 m hm, micro_pad2 m hm, merid_pad2 m hm, skip_pad2 m hm, colon_pad2 m hm ':' (by simp),
      allAscii_pad2 d hdd, natOfAscii_pad2 d hdd, micro_pad2 d hdd, merid_pad2 d hdd, skip_pad2 d hdd, colon_pad2 d hdd ':' (by simp)]
    exact ⟨dotAfter_false _ (fun t ht => hno t (List.mem_cons_of_mem _ ht)) _, dotAfter_false _ (fun t ht => hno t (List.mem_cons_of_mem _ ht)) _,
      dotAfter_false _ (fun t ht => hno t (List.mem_cons_of_mem _ ht)) _⟩
  unfold absParse
  rw [htok]
  simp only [bind, Except.bind, List.map_cons, List.map_nil, stripWs_pad4 y hy, stripWs_pad2 m hm, stripWs_pad2 d hdd, stripWs_dash, stripWs_slash, stripWs_space]
  rw [hcls]
  exact C07_order_decides st _ (by simp [allOrders]) hst y m d hd.y1 hd.y2 hd.m1 hd.m2 hd.d1 hd.d2 (pad4c y) (pad2c m) (pad2c d) rfl
    (by simp [pad2c]) (by simp [pad2c]) true true (fun _ => rfl) (fun _ => rfl) (micOf y m d) false

theorem c07_y_m_d_space (st : PSettings) (hst : st.order = [.year, .month, .day]) (y m d : Nat) (hd : DateOk y m d) :
    absParse st (renderOrder [.year, .month, .day] ' ' y m d) = .ok ({ y := y, mo := m, d := d }, .day) := by
  have hy : y ≤ 9999 := hd.y2
  have hm : m < 100 := by have := hd.m2; omega
  have hdd : d < 100 := by have := hd.d2; have := dim_le_31 y m; omega
  have y1 : y / 1000 < 10 := by omega
  have y2 : y / 100 % 10 < 10 := by omega
  have y3 : y / 10 % 10 < 10 := by omega
  have y4 : y % 10 < 10 := by omega
  have m1 : m / 10 < 10 := by omega
  have m2 : m % 10 < 10 := by omega
  have d1 : d / 10 < 10 := by omega
  have d2 : d % 10 < 10 := by omega
  have htok : tokenize (renderOrder [.year, .month, .day] ' ' y m d) = .ok [(pad4c y, 0), ([' '], 2), (pad2c m, 0), ([' '], 2), (pad2c d, 0)] := by
    simp [tokenize, tokGo, renderOrder, fieldText, pad4c, pad2c, tkCls_dch, tkCls_dash, tkCls_slash, tkCls_space, y1, y2, y3, y4, m1, m2, d1, d2]
  have hno : ∀ t ∈ [(pad4c y, 0), ([], 2), (pad2c m, 0), ([], 2), (pad2c d, 0)], ¬ '.' ∈ (t : List Char × Nat).1 := by
    intro t ht
    simp only [List.mem_cons, List.not_mem_nil, or_false] at ht
    rcases ht with rfl | rfl | rfl | rfl | rfl <;>
      first | exact dot_pad4 y hy | exact colon_pad2 m hm '.' (by simp) | exact colon_pad2 d hdd '.' (by simp) | simp
  have hcls : classify #[(pad4c y, 0), ([], 2), (pad2c m, 0), ([], 2), (pad2c d, 0)] =
      [.year, .month, .day].map (fun c => fieldTI c (pad4c y) (pad2c m) (pad2c d) y m d true true (micOf y m d) false) := by
    simp [classify, fieldTI, micOf, fieldText, tiYear4, tiSmall, fmt_m, fmt_d, fmt_y, fmt_Y, dirNum_m2, dirNum_d2, dirNum_y2, dirNum_Y2, dirNum_Y4,
      dirNum_four_none, hy, hm, hdd, List.zipIdx,
      allAscii_pad4 y hy, natOfAscii_pad4 y hy, micro_pad4 y hy, merid_pad4 y hy, skip_pad4 y hy, colon_pad4 y hy,
      allAscii_pad2 m hm, natOfAscii_pad2 m hm, micro_pad2 m hm, merid_pad2 m hm, skip_pad2 m hm, colon_pad2 m hm ':' (by simp),
      allAscii_pad2 d hdd, natOfAscii_pad2 d hdd, micro_pad2 d hdd, merid_pad2 d hdd, skip_pad2 d hdd, colon_pad2 d hdd ':' (by simp)]
    exact ⟨dotAfter_false _ (fun t ht => hno t (List.mem_cons_of_mem _ ht)) _, dotAfter_false _ (fun t ht => hno t (List.mem_cons_of_mem _ ht)) _,
      dotAfter_false _ (fun t ht => hno t (List.mem_cons_of_mem _ ht)) _⟩
  unfold absParse
  rw [htok]
  simp only [bind, Except.bind, List.map_cons, List.map_nil, stripWs_pad4 y hy, stripWs_pad2 m hm, stripWs_pad2 d hdd, stripWs_dash, stripWs_slash, stripWs_space]
  rw [hcls]
  exact C07_order_decides st _ (by simp [allOrders]) hst y m d hd.y1 hd.y2 hd.m1 hd.m2 hd.d1 hd.d2 (pad4c y) (pad2c m) (pad2c d) rfl
    (by simp [pad2c]) (by simp [pad2c]) true true (fun _ => rfl) (fun _ => rfl) (micOf y m d) false

/-- **C07_order_string**: for each of the six DATE_ORDER values `O` in force and the separators `/`, `-` and space, a valid date whose fields are written
    in the order `O` (two-digit day and month, four-digit year) is read as exactly that date — the whole absolute parser, from the characters. -/
theorem C07_order_string (st : PSettings) (O : List Comp) (hO : O ∈ allOrders) (hst : st.order = O) (sep : Char) (hsep : sep = '/' ∨ sep = '-' ∨ sep = ' ')
    (y m d : Nat) (hd : DateOk y m d) :
    absParse st (renderOrder O sep y m d) = .ok ({ y := y, mo := m, d := d }, .day) := by
  simp only [allOrders, List.mem_cons, List.mem_nil_iff, or_false] at hO
  rcases hsep with rfl | rfl | rfl <;> rcases hO with rfl | rfl | rfl | rfl | rfl | rfl
  · exact c07_d_m_y_slash st hst y m d hd
  · exact c07_d_y_m_slash st hst y m d hd
  · exact c07_m_d_y_slash st hst y m d hd
  · exact c07_m_y_d_slash st hst y m d hd
  · exact c07_y_d_m_slash st hst y m d hd
  · exact c07_y_m_d_slash st hst y m d hd
  · exact c07_d_m_y_dash st hst y m d hd
  · exact c07_d_y_m_dash st hst y m d hd
  · exact c07_m_d_y_dash st hst y m d hd
  · exact c07_m_y_d_dash st hst y m d hd
  · exact c07_y_d_m_dash st hst y m d hd
  · exact c07_y_m_d_dash st hst y m d hd
  · exact c07_d_m_y_space st hst y m d hd
  · exact c07_d_y_m_space st hst y m d hd
  · exact c07_m_d_y_space st hst y m d hd
  · exact c07_m_y_d_space st hst y m d hd
  · exact c07_y_d_m_space st hst y m d hd
  · exact c07_y_m_d_space st hst y m d hd

end DP
