import DPModel.DP.Zone
/-!
# C12 / C04 — relative phrases in a tz-database zone: clock units are elapsed time

pytz's contract for `localize` is a hypothesis (`RoundTrip`): localizing the wall clock an instant shows, with that instant's DST flag as the
hint, gives back that instant's offset.
-/
namespace DP.Zone

def Zone.RoundTrip (z : Zone) : Prop := ∀ u, z.localize (u + z.offAt u) (z.dstAt u) = z.offAt u

/-- generated facts: the split is made on the phrase's units and `localize` gets the reference's DST flag -/
theorem fresh_zone_source : Gen.freshSplitByPhraseUnits = true ∧ Gen.freshLocalizeUsesDstHint = true := by decide

theorem normalize_instant (z : Zone) (a : Aware) : (z.normalize a).instant = a.instant := by
  simp [Zone.normalize, Aware.instant]

theorem normalize_shows (z : Zone) (a : Aware) : z.shows (z.normalize a) := by
  simp [Zone.shows, Zone.normalize, Aware.instant]

/-- **C12_rel_clock_exact**: a phrase that counts only hours, minutes and seconds moves the *instant* by exactly that much — any zone, any
    reference the zone shows (also in the first occurrence of a repeated hour), any counts (24, 25, 48 hours …), both directions — and the
    result is expressed at the offset in force at the new instant -/
theorem C12_rel_clock_exact (z : Zone) (hz : z.RoundTrip) (now : Aware) (hn : z.shows now) (sign : Int) (u : Units) (hd : u.days = 0) :
    (parseRel z now sign u).instant = now.instant + sign * u.clockSeconds ∧ z.shows (parseRel z now sign u) := by
  obtain ⟨h1, h2⟩ := fresh_zone_source
  refine ⟨?_, normalize_shows _ _⟩
  unfold parseRel
  rw [h1, h2]
  simp only [split, shift, if_true, hd, normalize_instant]
  have hw : now.wall = now.instant + z.offAt now.instant := by
    have : now.off = z.offAt now.instant := hn
    simp only [Aware.instant] at this ⊢; omega
  have hl : z.localize (now.wall + sign * ((0 : Nat) * 86400)) (z.dstAt now.instant) = z.offAt now.instant := by
    have := hz now.instant
    rw [← hw] at this
    simpa using this
  simp only [Aware.instant] at hl hw ⊢
  rw [hl]
  have : now.off = z.offAt (now.wall - now.off) := hn
  omega

/-- **C12_rel_calendar_then_clock**: with calendar units the wall clock moves by whole days and is localized again; the clock part then moves
    that instant -/
theorem C12_rel_calendar_then_clock (z : Zone) (now : Aware) (sign : Int) (u : Units) :
    (parseRel z now sign u).instant =
      (now.wall + sign * (u.days * 86400) - z.localize (now.wall + sign * (u.days * 86400)) (z.dstAt now.instant)) + sign * u.clockSeconds := by
  obtain ⟨h1, h2⟩ := fresh_zone_source
  unfold parseRel
  rw [h1, h2]
  simp only [split, shift, if_true]
  rw [normalize_instant]
  simp only [Aware.instant]
  omega

/-- a zone whose clocks go back one hour at instant 0 (offset +2h with DST before, +1h after), with pytz's `localize` -/
def fallBack : Zone :=
  { offAt := fun u => if u < 0 then 7200 else 3600,
    dstAt := fun u => decide (u < 0),
    localize := fun w hint => if w < 3600 then 7200 else if w < 7200 then (if hint then 7200 else 3600) else 3600 }

theorem fallBack_roundTrip : fallBack.RoundTrip := by
  intro u
  simp only [fallBack]
  by_cases h : u < 0
  · simp only [h, if_true, decide_true]
    by_cases h2 : u + 7200 < 3600
    · simp [h2]
    · simp only [h2, if_false]
      have : u + 7200 < 7200 := by omega
      simp [this]
  · simp only [h, if_false, decide_false]
    have h1 : ¬ u + 3600 < 3600 := by omega
    simp only [h1, if_false]
    by_cases h2 : u + 3600 < 7200
    · simp [h2]
    · simp [h2]

/-- **C12_rel_fold_counterexample**: without the hint (the first repair: `tz.localize(wall)`), a reference in the first occurrence of the
    repeated hour is re-read as the second one — 'in 0 seconds' lands one hour later -/
theorem C12_rel_fold_counterexample :
    (shift fallBack false { wall := 5400, off := 7200 } 1 0 0).instant = ({ wall := 5400, off := 7200 } : Aware).instant + 3600 := by decide

/-- **C12_rel_24h_counterexample**: split by the relativedelta's fields, '24 hours' is a calendar day: across the change it is 25 elapsed hours -/
theorem C12_rel_24h_counterexample :
    let now : Aware := { wall := -7200 + 7200, off := 7200 }     -- two hours before the change
    let p := split false { hours := 24 }
    (shift fallBack true now 1 p.1 p.2).instant = now.instant + 25 * 3600 := by decide

/-- …and the same phrase on the current source: 24 elapsed hours -/
example : (parseRel fallBack { wall := 0, off := 7200 } 1 { hours := 24 }).instant = ({ wall := 0, off := 7200 } : Aware).instant + 24 * 3600 := by decide


/-! ## zones of the standard library (TIMEZONE='local') -/

/-- generated fact: the branch for non-pytz zones corrects the wall clock by the change of offset -/
theorem fresh_wallzone_source : Gen.freshLocalZoneCorrects = true := by decide

/-- **C12_rel_clock_exact_local**: in a standard-library zone the clock part is elapsed time as well — the instant after the shift is the instant
    of the (calendar-shifted) wall clock plus the clock part — provided the corrected wall clock lies on the same side of the change as the
    uncorrected one (it does unless the phrase lands within the changed hour itself) -/
theorem C12_rel_clock_exact_local (z : WallZone) (nowWall : Int) (sign : Int) (cal clock : Nat)
    (hside : z.offOfWall (nowWall + sign * (cal * 86400) + sign * clock
              + (z.offOfWall (nowWall + sign * (cal * 86400) + sign * clock) - z.offOfWall (nowWall + sign * (cal * 86400))))
             = z.offOfWall (nowWall + sign * (cal * 86400) + sign * clock)) :
    (shiftWall z Gen.freshLocalZoneCorrects nowWall sign cal clock).instant
      = (nowWall + sign * (cal * 86400) - z.offOfWall (nowWall + sign * (cal * 86400))) + sign * clock := by
  rw [fresh_wallzone_source]
  unfold shiftWall
  simp only [Bool.true_and]
  split
  · simp only [Aware.instant]; rw [hside]; omega
  · rename_i h
    have : z.offOfWall (nowWall + sign * (cal * 86400) + sign * clock) = z.offOfWall (nowWall + sign * (cal * 86400)) := by
      simpa using h
    simp only [Aware.instant]; omega

/-- a standard-library zone whose clocks go forward one hour at wall clock 7200 (offset −5h before, −4h from 03:00 on; the hour from 7200 is skipped) -/
def springForward : WallZone := { offOfWall := fun w => if w < 7200 then -18000 else -14400 }

/-- **C12_rel_local_counterexample**: without the correction '2 hours ago' at 03:30 on that morning is one elapsed hour -/
theorem C12_rel_local_counterexample :
    (shiftWall springForward false 12600 (-1) 0 7200).instant = (12600 - (-14400)) - 1 * 3600 := by decide

example : (shiftWall springForward true 12600 (-1) 0 7200).instant = (12600 - (-14400)) - 2 * 3600 := by decide

/-- non-vacuity of the side condition of `C12_rel_clock_exact_local`: '2 hours ago' at 03:30 on the spring-forward morning satisfies it -/
example : springForward.offOfWall (12600 + (-1) * ((0 : Nat) * 86400) + (-1) * (7200 : Nat)
            + (springForward.offOfWall (12600 + (-1) * ((0 : Nat) * 86400) + (-1) * (7200 : Nat)) - springForward.offOfWall (12600 + (-1) * ((0 : Nat) * 86400))))
          = springForward.offOfWall (12600 + (-1) * ((0 : Nat) * 86400) + (-1) * (7200 : Nat)) := by decide

end DP.Zone
