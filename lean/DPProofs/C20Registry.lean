import DPModel.DP.Registry
/-!
# C20 — the settings registry never hands out an incomplete instance
-/
namespace DP.Registry

/-- generated fact: the source completes the instance (sets `registry_key`) before it stores it in the shared dictionary -/
theorem registry_source : Gen.registryCompletesFirst = true := by decide

/-- **C20_registry**: wherever the first thread is parked inside the constructor, a second thread looking the same key up finds nothing
    (and builds the instance itself) or a complete instance — never one without its `registry_key` -/
theorem C20_registry (k : Nat) : lookup (parkedAfter true k) ≠ .incomplete := by
  have : k = 0 ∨ k = 1 ∨ k = 2 ∨ 3 ≤ k := by omega
  rcases this with rfl | rfl | rfl | h
  · decide
  · decide
  · decide
  · have : (steps true).take k = steps true := List.take_of_length_le (by simp [steps]; omega)
    unfold parkedAfter; rw [this]; decide

/-- **C20_registry_counterexample**: with the pinned tree's order (store first, key afterwards) the second thread can get the instance
    without its key — the AttributeError the cold exploration exhibited -/
theorem C20_registry_counterexample : lookup (parkedAfter false 2) = .incomplete := by decide

end DP.Registry
