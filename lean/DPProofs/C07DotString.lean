import DPProofs.C07Dot
/-!
# C07 at string level with '.' between the fields (GENERATED text, one block per order, same script)

The stage-1 records now carry whatever the "a '.' follows this token" look-up of the real `_parser` yields (`dotOf`, the expression of
`classify` verbatim; it depends on the order and on whether day and month are written alike); `C07_order_decides_dots` holds for every
value of those flags. The `H.M` clock reading (`hmMerge`) is ruled out by `classify` itself: each candidate pair is followed by another '.'.
-/
namespace DP

/-- the look-up `'.' in tokens[tokens.index((token, 0)) + 1][0]` of `classify`, as a function of the raw token list -/
def dotOf (raw : Array (List Char × Nat)) (tok : List Char) : Bool :=
  match raw.toList.findIdx? (fun (t : List Char × Nat) => t.1 == tok && t.2 == 0) with
  | none => false
  | some j => match raw[j+1]? with
    | none => false
    | some (t2, _) => t2.contains '.'

theorem c07_d_m_y_dot (st : PSettings) (hst : st.order = [.day, .month, .year]) (y m d : Nat) (hd : DateOk y m d) :
    absParse st (renderOrder [.day, .month, .year] '.' y m d) = .ok ({ y := y, mo := m, d := d }, .day) := by
  have hy : y ≤ 9999 := hd.y2
  have hm : m < 100 := by have := hd.m2; omega
  have hdd : d < 100 := by have := hd.d2; have := dim_le_31 y m; omega
  have y1 : y / 1000 < 10 := by omega
  have y2 : y / 100 % 10 < 10 := by omega
  have y3 : y / 10 % 10 < 10 := by omega
  have y4 : y % 10 < 10 := by omega
  have m1 : m / 10 < 10 := by omega
  have m2 : m % 10 < 10 := by omega
  have d1 : d / 10 < 10 := by omega
  have d2 : d % 10 < 10 := by omega
  have htok : tokenize (renderOrder [.day, .month, .year] '.' y m d) = .ok [(pad2c d, 0), (['.'], 2), (pad2c m, 0), (['.'], 2), (pad4c y, 0)] := by
    simp [tokenize, tokGo, renderOrder, fieldText, pad4c, pad2c, tkCls_dch, tkCls_dot, y1, y2, y3, y4, m1, m2, d1, d2]
  have hcls : classify #[(pad2c d, 0), (['.'], 2), (pad2c m, 0), (['.'], 2), (pad4c y, 0)] =
      [.day, .month, .year].map (fun c => fieldTID c (pad4c y) (pad2c m) (pad2c d) y m d true true (micOf y m d)
        (fun c => dotOf #[(pad2c d, 0), (['.'], 2), (pad2c m, 0), (['.'], 2), (pad4c y, 0)] (fieldText y m d c))) := by
    simp [classify, dotOf, fieldTID, micOf, fieldText, tiYear4, tiSmall, fmt_m, fmt_d, fmt_y, fmt_Y, dirNum_m2, dirNum_d2, dirNum_y2, dirNum_Y2, dirNum_Y4,
      dirNum_four_none, hy, hm, hdd, List.zipIdx,
      allAscii_pad4 y hy, natOfAscii_pad4 y hy, micro_pad4 y hy, merid_pad4 y hy, skip_pad4 y hy, colon_pad4 y hy,
      allAscii_pad2 m hm, natOfAscii_pad2 m hm, micro_pad2 m hm, merid_pad2 m hm, skip_pad2 m hm, colon_pad2 m hm ':' (by simp),
      allAscii_pad2 d hdd, natOfAscii_pad2 d hdd, micro_pad2 d hdd, merid_pad2 d hdd, skip_pad2 d hdd, colon_pad2 d hdd ':' (by simp)]
    exact ⟨rfl, rfl, rfl⟩
  unfold absParse
  rw [htok]
  simp only [bind, Except.bind, List.map_cons, List.map_nil, stripWs_pad4 y hy, stripWs_pad2 m hm, stripWs_pad2 d hdd, stripWs_dot]
  rw [hcls]
  exact C07_order_decides_dots st _ (by simp [allOrders]) hst y m d hd.y1 hd.y2 hd.m1 hd.m2 hd.d1 hd.d2 (pad4c y) (pad2c m) (pad2c d) rfl
    (by simp [pad2c]) (by simp [pad2c]) true true (fun _ => rfl) (fun _ => rfl) (micOf y m d) _

theorem c07_d_y_m_dot (st : PSettings) (hst : st.order = [.day, .year, .month]) (y m d : Nat) (hd : DateOk y m d) :
    absParse st (renderOrder [.day, .year, .month] '.' y m d) = .ok ({ y := y, mo := m, d := d }, .day) := by
  have hy : y ≤ 9999 := hd.y2
  have hm : m < 100 := by have := hd.m2; omega
  have hdd : d < 100 := by have := hd.d2; have := dim_le_31 y m; omega
  have y1 : y / 1000 < 10 := by omega
  have y2 : y / 100 % 10 < 10 := by omega
  have y3 : y / 10 % 10 < 10 := by omega
  have y4 : y % 10 < 10 := by omega
  have m1 : m / 10 < 10 := by omega
  have m2 : m % 10 < 10 := by omega
  have d1 : d / 10 < 10 := by omega
  have d2 : d % 10 < 10 := by omega
  have htok : tokenize (renderOrder [.day, .year, .month] '.' y m d) = .ok [(pad2c d, 0), (['.'], 2), (pad4c y, 0), (['.'], 2), (pad2c m, 0)] := by
    simp [tokenize, tokGo, renderOrder, fieldText, pad4c, pad2c, tkCls_dch, tkCls_dot, y1, y2, y3, y4, m1, m2, d1, d2]
  have hcls : classify #[(pad2c d, 0), (['.'], 2), (pad4c y, 0), (['.'], 2), (pad2c m, 0)] =
      [.day, .year, .month].map (fun c => fieldTID c (pad4c y) (pad2c m) (pad2c d) y m d true true (micOf y m d)
        (fun c => dotOf #[(pad2c d, 0), (['.'], 2), (pad4c y, 0), (['.'], 2), (pad2c m, 0)] (fieldText y m d c))) := by
    simp [classify, dotOf, fieldTID, micOf, fieldText, tiYear4, tiSmall, fmt_m, fmt_d, fmt_y, fmt_Y, dirNum_m2, dirNum_d2, dirNum_y2, dirNum_Y2, dirNum_Y4,
      dirNum_four_none, hy, hm, hdd, List.zipIdx,
      allAscii_pad4 y hy, natOfAscii_pad4 y hy, micro_pad4 y hy, merid_pad4 y hy, skip_pad4 y hy, colon_pad4 y hy,
      allAscii_pad2 m hm, natOfAscii_pad2 m hm, micro_pad2 m hm, merid_pad2 m hm, skip_pad2 m hm, colon_pad2 m hm ':' (by simp),
      allAscii_pad2 d hdd, natOfAscii_pad2 d hdd, micro_pad2 d hdd, merid_pad2 d hdd, skip_pad2 d hdd, colon_pad2 d hdd ':' (by simp)]
    exact ⟨rfl, rfl, rfl⟩
  unfold absParse
  rw [htok]
  simp only [bind, Except.bind, List.map_cons, List.map_nil, stripWs_pad4 y hy, stripWs_pad2 m hm, stripWs_pad2 d hdd, stripWs_dot]
  rw [hcls]
  exact C07_order_decides_dots st _ (by simp [allOrders]) hst y m d hd.y1 hd.y2 hd.m1 hd.m2 hd.d1 hd.d2 (pad4c y) (pad2c m) (pad2c d) rfl
    (by simp [pad2c]) (by simp [pad2c]) true true (fun _ => rfl) (fun _ => rfl) (micOf y m d) _

theorem c07_m_d_y_dot (st : PSettings) (hst : st.order = [.month, .day, .year]) (y m d : Nat) (hd : DateOk y m d) :
    absParse st (renderOrder [.month, .day, .year] '.' y m d) = .ok ({ y := y, mo := m, d := d }, .day) := by
  have hy : y ≤ 9999 := hd.y2
  have hm : m < 100 := by have := hd.m2; omega
  have hdd : d < 100 := by have := hd.d2; have := dim_le_31 y m; omega
  have y1 : y / 1000 < 10 := by omega
  have y2 : y / 100 % 10 < 10 := by omega
  have y3 : y / 10 % 10 < 10 := by omega
  have y4 : y % 10 < 10 := by omega
  have m1 : m / 10 < 10 := by omega
  have m2 : m % 10 < 10 := by omega
  have d1 : d / 10 < 10 := by omega
  have d2 : d % 10 < 10 := by omega
  have htok : tokenize (renderOrder [.month, .day, .year] '.' y m d) = .ok [(pad2c m, 0), (['.'], 2), (pad2c d, 0), (['.'], 2), (pad4c y, 0)] := by
    simp [tokenize, tokGo, renderOrder, fieldText, pad4c, pad2c, tkCls_dch, tkCls_dot, y1, y2, y3, y4, m1, m2, d1, d2]
  have hcls : classify #[(pad2c m, 0), (['.'], 2), (pad2c d, 0), (['.'], 2), (pad4c y, 0)] =
      [.month, .day, .year].map (fun c => fieldTID c (pad4c y) (pad2c m) (pad2c d) y m d true true (micOf y m d)
        (fun c => dotOf #[(pad2c m, 0), (['.'], 2), (pad2c d, 0), (['.'], 2), (pad4c y, 0)] (fieldText y m d c))) := by
    simp [classify, dotOf, fieldTID, micOf, fieldText, tiYear4, tiSmall, fmt_m, fmt_d, fmt_y, fmt_Y, dirNum_m2, dirNum_d2, dirNum_y2, dirNum_Y2, dirNum_Y4,
      dirNum_four_none, hy, hm, hdd, List.zipIdx,
      allAscii_pad4 y hy, natOfAscii_pad4 y hy, micro_pad4 y hy, merid_pad4 y hy, skip_pad4 y hy, colon_pad4 y hy,
      allAscii_pad2 m hm, natOfAscii_pad2 m hm, micro_pad2 m hm, merid_pad2 m hm, skip_pad2 m hm, colon_pad2 m hm ':' (by simp),
      allAscii_pad2 d hdd, natOfAscii_pad2 d hdd, micro_pad2 d hdd, merid_pad2 d hdd, skip_pad2 d hdd, colon_pad2 d hdd ':' (by simp)]
    exact ⟨rfl, rfl, rfl⟩
  unfold absParse
  rw [htok]
  simp only [bind, Except.bind, List.map_cons, List.map_nil, stripWs_pad4 y hy, stripWs_pad2 m hm, stripWs_pad2 d hdd, stripWs_dot]
  rw [hcls]
  exact C07_order_decides_dots st _ (by simp [allOrders]) hst y m d hd.y1 hd.y2 hd.m1 hd.m2 hd.d1 hd.d2 (pad4c y) (pad2c m) (pad2c d) rfl
    (by simp [pad2c]) (by simp [pad2c]) true true (fun _ => rfl) (fun _ => rfl) (micOf y m d) _

theorem c07_m_y_d_dot (st : PSettings) (hst : st.order = [.month, .year, .day]) (y m d : Nat) (hd : DateOk y m d) :
    absParse st (renderOrder [.month, .year, .day] '.' y m d) = .ok ({ y := y, mo := m, d := d }, .day) := by
  have hy : y ≤ 9999 := hd.y2
  have hm : m < 100 := by have := hd.m2; omega
  have hdd : d < 100 := by have := hd.d2; have := dim_le_31 y m; omega
  have y1 : y / 1000 < 10 := by omega
  have y2 : y / 100 % 10 < 10 := by omega
  have y3 : y / 10 % 10 < 10 := by omega
  have y4 : y % 10 < 10 := by omega
  have m1 : m / 10 < 10 := by omega
  have m2 : m % 10 < 10 := by omega
  have d1 : d / 10 < 10 := by omega
  have d2 : d % 10 < 10 := by omega
  have htok : tokenize (renderOrder [.month, .year, .day] '.' y m d) = .ok [(pad2c m, 0), (['.'], 2), (pad4c y, 0), (['.'], 2), (pad2c d, 0)] := by
    simp [tokenize, tokGo, renderOrder, fieldText, pad4c, pad2c, tkCls_dch, tkCls_dot, y1, y2, y3, y4, m1, m2, d1, d2]
  have hcls : classify #[(pad2c m, 0), (['.'], 2), (pad4c y, 0), (['.'], 2), (pad2c d, 0)] =
      [.month, .year, .day].map (fun c => fieldTID c (pad4c y) (pad2c m) (pad2c d) y m d true true (micOf y m d)
        (fun c => dotOf #[(pad2c m, 0), (['.'], 2), (pad4c y, 0), (['.'], 2), (pad2c d, 0)] (fieldText y m d c))) := by
    simp [classify, dotOf, fieldTID, micOf, fieldText, tiYear4, tiSmall, fmt_m, fmt_d, fmt_y, fmt_Y, dirNum_m2, dirNum_d2, dirNum_y2, dirNum_Y2, dirNum_Y4,
      dirNum_four_none, hy, hm, hdd, List.zipIdx,
      allAscii_pad4 y hy, natOfAscii_pad4 y hy, micro_pad4 y hy, merid_pad4 y hy, skip_pad4 y hy, colon_pad4 y hy,
      allAscii_pad2 m hm, natOfAscii_pad2 m hm, micro_pad2 m hm, merid_pad2 m hm, skip_pad2 m hm, colon_pad2 m hm ':' (by simp),
      allAscii_pad2 d hdd, natOfAscii_pad2 d hdd, micro_pad2 d hdd, merid_pad2 d hdd, skip_pad2 d hdd, colon_pad2 d hdd ':' (by simp)]
    exact ⟨rfl, rfl, rfl⟩
  unfold absParse
  rw [htok]
  simp only [bind, Except.bind, List.map_cons, List.map_nil, stripWs_pad4 y hy, stripWs_pad2 m hm, stripWs_pad2 d hdd, stripWs_dot]
  rw [hcls]
  exact C07_order_decides_dots st _ (by simp [allOrders]) hst y m d hd.y1 hd.y2 hd.m1 hd.m2 hd.d1 hd.d2 (pad4c y) (pad2c m) (pad2c d) rfl
    (by simp [pad2c]) (by simp [pad2c]) true true (fun _ => rfl) (fun _ => rfl) (micOf y m d) _

theorem c07_y_d_m_dot (st : PSettings) (hst : st.order = [.year, .day, .month]) (y m d : Nat) (hd : DateOk y m d) :
    absParse st (renderOrder [.year, .day, .month] '.' y m d) = .ok ({ y := y, mo := m, d := d }, .day) := by
  have hy : y ≤ 9999 := hd.y2
  have hm : m < 100 := by have := hd.m2; omega
  have hdd : d < 100 := by have := hd.d2; have := dim_le_31 y m; omega
  have y1 : y / 1000 < 10 := by omega
  have y2 : y / 100 % 10 < 10 := by omega
  have y3 : y / 10 % 10 < 10 := by omega
  have y4 : y % 10 < 10 := by omega
  have m1 : m / 10 < 10 := by omega
  have m2 : m % 10 < 10 := by omega
  have d1 : d / 10 < 10 := by omega
  have d2 : d % 10 < 10 := by omega
  have htok : tokenize (renderOrder [.year, .day, .month] '.' y m d) = .ok [(pad4c y, 0), (['.'], 2), (pad2c d, 0), (['.'], 2), (pad2c m, 0)] := by
    simp [tokenize, tokGo, renderOrder, fieldText, pad4c, pad2c, tkCls_dch, tkCls_dot, y1, y2, y3, y4, m1, m2, d1, d2]
  have hcls : classify #[(pad4c y, 0), (['.'], 2), (pad2c d, 0), (['.'], 2), (pad2c m, 0)] =
      [.year, .day, .month].map (fun c => fieldTID c (pad4c y) (pad2c m) (pad2c d) y m d true true (micOf y m d)
        (fun c => dotOf #[(pad4c y, 0), (['.'], 2), (pad2c d, 0), (['.'], 2), (pad2c m, 0)] (fieldText y m d c))) := by
    simp [classify, dotOf, fieldTID, micOf, fieldText, tiYear4, tiSmall, fmt_m, fmt_d, fmt_y, fmt_Y, dirNum_m2, dirNum_d2, dirNum_y2, dirNum_Y2, dirNum_Y4,
      dirNum_four_none, hy, hm, hdd, List.zipIdx,
      allAscii_pad4 y hy, natOfAscii_pad4 y hy, micro_pad4 y hy, merid_pad4 y hy, skip_pad4 y hy, colon_pad4 y hy,
      allAscii_pad2 m hm, natOfAscii_pad2 m hm, micro_pad2 m hm, merid_pad2 m hm, skip_pad2 m hm, colon_pad2 m hm ':' (by simp),
      allAscii_pad2 d hdd, natOfAscii_pad2 d hdd, micro_pad2 d hdd, merid_pad2 d hdd, skip_pad2 d hdd, colon_pad2 d hdd ':' (by simp)]
    exact ⟨rfl, rfl, rfl⟩
  unfold absParse
  rw [htok]
  simp only [bind, Except.bind, List.map_cons, List.map_nil, stripWs_pad4 y hy, stripWs_pad2 m hm, stripWs_pad2 d hdd, stripWs_dot]
  rw [hcls]
  exact C07_order_decides_dots st _ (by simp [allOrders]) hst y m d hd.y1 hd.y2 hd.m1 hd.m2 hd.d1 hd.d2 (pad4c y) (pad2c m) (pad2c d) rfl
    (by simp [pad2c]) (by simp [pad2c]) true true (fun _ => rfl) (fun _ => rfl) (micOf y m d) _

theorem c07_y_m_d_dot (st : PSettings) (hst : st.order = [.year, .month, .day]) (y m d : Nat) (hd : DateOk y m d) :
    absParse st (renderOrder [.year, .month, .day] '.' y m d) = .ok ({ y := y, mo := m, d := d }, .day) := by
  have hy : y ≤ 9999 := hd.y2
  have hm : m < 100 := by have := hd.m2; omega
  have hdd : d < 100 := by have := hd.d2; have := dim_le_31 y m; omega
  have y1 : y / 1000 < 10 := by omega
  have y2 : y / 100 % 10 < 10 := by omega
  have y3 : y / 10 % 10 < 10 := by omega
  have y4 : y % 10 < 10 := by omega
  have m1 : m / 10 < 10 := by omega
  have m2 : m % 10 < 10 := by omega
  have d1 : d / 10 < 10 := by omega
  have d2 : d % 10 < 10 := by omega
  have htok : tokenize (renderOrder [.year, .month, .day] '.' y m d) = .ok [(pad4c y, 0), (['.'], 2), (pad2c m, 0), (['.'], 2), (pad2c d, 0)] := by
    simp [tokenize, tokGo, renderOrder, fieldText, pad4c, pad2c, tkCls_dch, tkCls_dot, y1, y2, y3, y4, m1, m2, d1, d2]
  have hcls : classify #[(pad4c y, 0), (['.'], 2), (pad2c m, 0), (['.'], 2), (pad2c d, 0)] =
      [.year, .month, .day].map (fun c => fieldTID c (pad4c y) (pad2c m) (pad2c d) y m d true true (micOf y m d)
        (fun c => dotOf #[(pad4c y, 0), (['.'], 2), (pad2c m, 0), (['.'], 2), (pad2c d, 0)] (fieldText y m d c))) := by
    simp [classify, dotOf, fieldTID, micOf, fieldText, tiYear4, tiSmall, fmt_m, fmt_d, fmt_y, fmt_Y, dirNum_m2, dirNum_d2, dirNum_y2, dirNum_Y2, dirNum_Y4,
      dirNum_four_none, hy, hm, hdd, List.zipIdx,
      allAscii_pad4 y hy, natOfAscii_pad4 y hy, micro_pad4 y hy, merid_pad4 y hy, skip_pad4 y hy, colon_pad4 y hy,
      allAscii_pad2 m hm, natOfAscii_pad2 m hm, micro_pad2 m hm, merid_pad2 m hm, skip_pad2 m hm, colon_pad2 m hm ':' (by simp),
      allAscii_pad2 d hdd, natOfAscii_pad2 d hdd, micro_pad2 d hdd, merid_pad2 d hdd, skip_pad2 d hdd, colon_pad2 d hdd ':' (by simp)]
    exact ⟨rfl, rfl, rfl⟩
  unfold absParse
  rw [htok]
  simp only [bind, Except.bind, List.map_cons, List.map_nil, stripWs_pad4 y hy, stripWs_pad2 m hm, stripWs_pad2 d hdd, stripWs_dot]
  rw [hcls]
  exact C07_order_decides_dots st _ (by simp [allOrders]) hst y m d hd.y1 hd.y2 hd.m1 hd.m2 hd.d1 hd.d2 (pad4c y) (pad2c m) (pad2c d) rfl
    (by simp [pad2c]) (by simp [pad2c]) true true (fun _ => rfl) (fun _ => rfl) (micOf y m d) _

/-- **C07_order_string_dot**: the statement of `C07_order_string` for '.' between the fields ('31.12.2020', '2020.31.12', …): the '.'
    makes `classify` consider the `H.M` clock reading and the fraction-of-a-second look-up for every field, and neither changes the date read. -/
theorem C07_order_string_dot (st : PSettings) (O : List Comp) (hO : O ∈ allOrders) (hst : st.order = O)
    (y m d : Nat) (hd : DateOk y m d) :
    absParse st (renderOrder O '.' y m d) = .ok ({ y := y, mo := m, d := d }, .day) := by
  simp only [allOrders, List.mem_cons, List.mem_nil_iff, or_false] at hO
  rcases hO with rfl | rfl | rfl | rfl | rfl | rfl
  · exact c07_d_m_y_dot st hst y m d hd
  · exact c07_d_y_m_dot st hst y m d hd
  · exact c07_m_d_y_dot st hst y m d hd
  · exact c07_m_y_d_dot st hst y m d hd
  · exact c07_y_d_m_dot st hst y m d hd
  · exact c07_y_m_d_dot st hst y m d hd

/-- **C07_order_string_all**: every order × every separator of the property ('/', '-', '.', ' ') × every valid date, from the characters. -/
theorem C07_order_string_all (st : PSettings) (O : List Comp) (hO : O ∈ allOrders) (hst : st.order = O) (sep : Char)
    (hsep : sep ∈ ['-', '/', '.', ' ']) (y m d : Nat) (hd : DateOk y m d) :
    absParse st (renderOrder O sep y m d) = .ok ({ y := y, mo := m, d := d }, .day) := by
  simp only [List.mem_cons, List.mem_nil_iff, or_false] at hsep
  rcases hsep with rfl | rfl | rfl | rfl
  · exact C07_order_string st O hO hst _ (Or.inr (Or.inl rfl)) y m d hd
  · exact C07_order_string st O hO hst _ (Or.inl rfl) y m d hd
  · exact C07_order_string_dot st O hO hst y m d hd
  · exact C07_order_string st O hO hst _ (Or.inr (Or.inr rfl)) y m d hd

/-- non-vacuity: 29 February 2024 written year-first with dots is a rendering the theorem speaks about, and the model reads it. -/
example : absParse { order := [.year, .month, .day] } (renderOrder [.year, .month, .day] '.' 2024 2 29)
    = .ok ({ y := 2024, mo := 2, d := 29 }, .day) :=
  C07_order_string_all _ _ (by simp [allOrders]) rfl '.' (by simp) 2024 2 29 ⟨by decide, by decide, by decide, by decide, by decide, by decide⟩
example : renderOrder [.year, .month, .day] '.' 2024 2 29 = "2024.02.29".toList := by decide

end DP
