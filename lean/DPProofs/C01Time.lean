import DPProofs.C01
import DPProofs.Lemmas.Time
/-!
# C01 — the shape theorems with the clock text of the family discharged

`time_parser` is proved (Lemmas/Time.lean) to return exactly (h, m, s, µs) on every rendering of a clock time that the family F uses:
`hh:mm`, `hh:mm:ss`, `hh:mm:ss.ffffff`, `hh:mm:ss.fff`, `h:mm am|pm`.  Together with the token-level shape theorems this gives, for
every valid date, every time of day and every PREFER_*/strictness/reference time, the exact datetime — given the stage-1 records of
the rendered tokens (string → records is the modelled glue, checked by the correspondence run).
-/
namespace DP

structure TimeOk (h mi s : Nat) : Prop where
  h23 : h ≤ 23
  m59 : mi ≤ 59
  s59 : s ≤ 59

/-- **C01_iso_hm**: `YYYY-MM-DD[ T]hh:mm` -/
theorem C01_iso_hm (st : PSettings) (ho : isoOrder st.order) (y m d h mi : Nat) (hd : DateOk y m d) (ht : TimeOk h mi 0)
    (ty tm td : List Char) (hty : ty.length = 4) (withT dot : Bool) :
    absParseToks st ([rY ty y, rS tm m true, rS td d true] ++ (if withT then [rT] else []) ++ [rClock (pad2c h ++ [':'] ++ pad2c mi) dot]) =
      .ok ({ y := y, mo := m, d := d, h := h, mi := mi }, if st.timeAsPeriod then .time else .day) :=
  C01_iso_datetime st ho y m d hd ty tm td _ hty withT dot _ (time_hm h mi ht.h23 ht.m59) ⟨ht.h23, ht.m59, by simp, by simp⟩

/-- **C01_iso_hms**: `YYYY-MM-DD[ T]hh:mm:ss` -/
theorem C01_iso_hms (st : PSettings) (ho : isoOrder st.order) (y m d h mi s : Nat) (hd : DateOk y m d) (ht : TimeOk h mi s)
    (ty tm td : List Char) (hty : ty.length = 4) (withT dot : Bool) :
    absParseToks st ([rY ty y, rS tm m true, rS td d true] ++ (if withT then [rT] else []) ++
        [rClock (pad2c h ++ [':'] ++ pad2c mi ++ [':'] ++ pad2c s) dot]) =
      .ok ({ y := y, mo := m, d := d, h := h, mi := mi, s := s }, if st.timeAsPeriod then .time else .day) :=
  C01_iso_datetime st ho y m d hd ty tm td _ hty withT dot _ (time_hms h mi s ht.h23 ht.m59 ht.s59) ⟨ht.h23, ht.m59, ht.s59, by simp⟩

/-- **C01_iso_us**: `YYYY-MM-DD[ T]hh:mm:ss.ffffff` — exact to the microsecond -/
theorem C01_iso_us (st : PSettings) (ho : isoOrder st.order) (y m d h mi s us : Nat) (hd : DateOk y m d) (ht : TimeOk h mi s) (hus : us ≤ 999999)
    (ty tm td tf : List Char) (hty : ty.length = 4) (withT : Bool) (iv : Option Nat) :
    absParseToks st ([rY ty y, rS tm m true, rS td d true] ++ (if withT then [rT] else []) ++
        [rClock (pad2c h ++ [':'] ++ pad2c mi ++ [':'] ++ pad2c s) true, rFrac tf (frac6 us) iv]) =
      .ok ({ y := y, mo := m, d := d, h := h, mi := mi, s := s, us := us }, if st.timeAsPeriod then .time else .day) := by
  have htm := time_hms_us h mi s us ht.h23 ht.m59 ht.s59 hus
  have e : pad2c h ++ [':'] ++ pad2c mi ++ [':'] ++ pad2c s ++ ['.'] ++ frac6 us = (pad2c h ++ [':'] ++ pad2c mi ++ [':'] ++ pad2c s) ++ '.' :: frac6 us := by simp
  rw [e] at htm
  exact C01_iso_fraction st ho y m d hd ty tm td _ tf _ hty withT _ iv htm ⟨ht.h23, ht.m59, ht.s59, hus⟩

/-- **C01_iso_ms**: `YYYY-MM-DD[ T]hh:mm:ss.fff` — exact to the millisecond -/
theorem C01_iso_ms (st : PSettings) (ho : isoOrder st.order) (y m d h mi s ms : Nat) (hd : DateOk y m d) (ht : TimeOk h mi s) (hms : ms ≤ 999)
    (ty tm td tf : List Char) (hty : ty.length = 4) (withT : Bool) (iv : Option Nat) :
    absParseToks st ([rY ty y, rS tm m true, rS td d true] ++ (if withT then [rT] else []) ++
        [rClock (pad2c h ++ [':'] ++ pad2c mi ++ [':'] ++ pad2c s) true, rFrac tf (frac3 ms) iv]) =
      .ok ({ y := y, mo := m, d := d, h := h, mi := mi, s := s, us := ms * 1000 }, if st.timeAsPeriod then .time else .day) := by
  have htm := time_hms_ms h mi s ms ht.h23 ht.m59 ht.s59 hms
  have e : pad2c h ++ [':'] ++ pad2c mi ++ [':'] ++ pad2c s ++ ['.'] ++ frac3 ms = (pad2c h ++ [':'] ++ pad2c mi ++ [':'] ++ pad2c s) ++ '.' :: frac3 ms := by simp
  rw [e] at htm
  exact C01_iso_fraction st ho y m d hd ty tm td _ tf _ hty withT _ iv htm ⟨ht.h23, ht.m59, ht.s59, by show ms * 1000 ≤ 999999; omega⟩

/-- **C01_rfc2822_full**: `Www, DD Mon YYYY hh:mm:ss` -/
theorem C01_rfc2822_full (st : PSettings) (y m d h mi s : Nat) (hd : DateOk y m d) (ht : TimeOk h mi s)
    (tw td tmn ty : List Char) (wk : Nat) (hty : ty.length = 4) (two full : Bool)
    (hord : st.order = [.month, .day, .year] ∨ st.order = [.day, .month, .year]) :
    absParseToks st [tiWeekday tw wk none, rS td d two, tiMonthAbbr tmn m full none, rY ty y, rClock (pad2c h ++ [':'] ++ pad2c mi ++ [':'] ++ pad2c s) false] =
      .ok ({ y := y, mo := m, d := d, h := h, mi := mi, s := s }, if st.timeAsPeriod then .time else .day) :=
  C01_rfc2822 st y m d hd tw td tmn ty _ wk hty two full _ hord (time_hms h mi s ht.h23 ht.m59 ht.s59) ⟨ht.h23, ht.m59, ht.s59, by simp⟩

/-- **C01_abbr_12h**: `Mon D, YYYY h:mm AM|PM` (and the day-first spelling) -/
theorem C01_abbr_12h (st : PSettings) (ho : st.order = [.month, .day, .year]) (y m d h12 mi : Nat) (isPm : Bool) (hd : DateOk y m d)
    (h1 : 1 ≤ h12) (h2 : h12 ≤ 12) (hm : mi ≤ 59)
    (tmn td ty tme : List Char) (hty : ty.length = 4) (two abbr alsoFull monthFirst : Bool) :
    absParseToks st ((if monthFirst then [rMonth tmn m abbr alsoFull, rS td d two, rY ty y]
                      else [rS td d two, rMonth tmn m abbr alsoFull, rY ty y]) ++ [rClock (hour12c h12 ++ [':'] ++ pad2c mi) false] ++ [rMerid tme (meridC isPm)]) =
      .ok ({ y := y, mo := m, d := d, h := hour24 h12 isPm, mi := mi }, if st.timeAsPeriod then .time else .day) := by
  have htm := time_12h h12 mi isPm h1 h2 hm
  have e : hour12c h12 ++ [':'] ++ pad2c mi ++ [' '] ++ meridC isPm = (hour12c h12 ++ [':'] ++ pad2c mi) ++ ' ' :: meridC isPm := by simp
  rw [e] at htm
  have hv : hour24 h12 isPm ≤ 23 := by unfold hour24; cases isPm <;> simp <;> split <;> omega
  have := C01_named_month_time st ho y m d hd tmn td ty (hour12c h12 ++ [':'] ++ pad2c mi) hty two abbr alsoFull monthFirst
    (some (tme, meridC isPm)) _ htm ⟨hv, hm, by simp, by simp⟩
  simpa using this

/-- **C01_long_hms**: `D Month YYYY hh:mm:ss` (and the month-first spelling) -/
theorem C01_long_hms (st : PSettings) (ho : st.order = [.month, .day, .year]) (y m d h mi s : Nat) (hd : DateOk y m d) (ht : TimeOk h mi s)
    (tmn td ty : List Char) (hty : ty.length = 4) (two abbr alsoFull monthFirst : Bool) :
    absParseToks st ((if monthFirst then [rMonth tmn m abbr alsoFull, rS td d two, rY ty y]
                      else [rS td d two, rMonth tmn m abbr alsoFull, rY ty y]) ++ [rClock (pad2c h ++ [':'] ++ pad2c mi ++ [':'] ++ pad2c s) false]) =
      .ok ({ y := y, mo := m, d := d, h := h, mi := mi, s := s }, if st.timeAsPeriod then .time else .day) := by
  have := C01_named_month_time st ho y m d hd tmn td ty (pad2c h ++ [':'] ++ pad2c mi ++ [':'] ++ pad2c s) hty two abbr alsoFull monthFirst
    none _ (time_hms h mi s ht.h23 ht.m59 ht.s59) ⟨ht.h23, ht.m59, ht.s59, by simp⟩
  simpa using this

end DP
