import DPModel.DP.Lazy
/-!
# C20 — a lazily built locale attribute is never read half-built
-/
namespace DP.Lazy

/-- generated fact: every lazily built attribute of `Locale` is assigned once, when its value is complete -/
theorem lazy_source : Gen.lazyAttrsPublishComplete = true := by decide

theorem foldl_fill (w : World) (m : Nat) : (List.replicate m Step.fill).foldl run w = { w with built := w.built + m } := by
  induction m generalizing w with
  | zero => rfl
  | succ m ih => simp [List.replicate_succ, List.foldl_cons, ih, run]; omega

/-- **C20_lazy**: wherever the building thread is parked — a value of any size `n`, after any number `k` of its steps — a second thread
    reading the attribute finds `None` or the complete value, never a part of it -/
theorem C20_lazy (n k : Nat) (j : Nat) : read n (parkedAfter Gen.lazyAttrsPublishComplete n k) ≠ .part j := by
  rw [lazy_source]
  unfold parkedAfter steps
  simp only [if_true]
  by_cases hk : k ≤ n
  · have : (List.replicate n Step.fill ++ [Step.publish]).take k = List.replicate k Step.fill := by
      rw [List.take_append_of_le_length (by simpa using hk), List.take_replicate, Nat.min_eq_left hk]
    rw [this, foldl_fill]
    simp [read]
  · have : (List.replicate n Step.fill ++ [Step.publish]).take k = List.replicate n Step.fill ++ [Step.publish] :=
      List.take_of_length_le (by simp; omega)
    rw [this, List.foldl_append, foldl_fill]
    simp [read, run]

/-- **C20_lazy_counterexample**: assigning the empty list first and filling it afterwards (the pinned `_get_simplifications`) lets the
    second thread read a partial value -/
theorem C20_lazy_counterexample : read 3 (parkedAfter false 3 2) = .part 1 := by decide

end DP.Lazy
