import DPProofs.Lemmas.Parser
import DPProofs.Lemmas.Date
/-!
# C08 — missing day/month are completed exactly as configured; the period is truthful
-/
namespace DP

/-- **C08_lastday**: `dim y m` is the last valid day of every month of every year (the Gregorian rule, century years
    included): it is accepted and every larger day is rejected with the "day is out of range" error. -/
theorem C08_lastday (y m : Nat) (hy1 : 1 ≤ y) (hy2 : y ≤ 9999) (hm1 : 1 ≤ m) (hm2 : m ≤ 12) :
    mkDT y m (dim y m) 0 0 0 0 = .ok { y := y, mo := m, d := dim y m } ∧
    ∀ d, dim y m < d → mkDT y m d 0 0 0 0 = .error (.value .dayRange) := by
  have hp := dim_pos y m
  constructor
  · unfold mkDT
    have h1 : ¬ (y < 1 ∨ y > 9999) := by omega
    have h2 : ¬ (m < 1 ∨ m > 12) := by omega
    have h3 : ¬ (dim y m < 1 ∨ dim y m > dim y m) := by omega
    rw [if_neg h1, if_neg h2, if_neg h3]
    simp
  · intro d hd
    unfold mkDT
    have h1 : ¬ (y < 1 ∨ y > 9999) := by omega
    have h2 : ¬ (m < 1 ∨ m > 12) := by omega
    have h3 : (d < 1 ∨ d > dim y m) := by omega
    rw [if_neg h1, if_neg h2, if_pos h3]

/-- the rule itself, spelled out -/
theorem C08_month_lengths (y m : Nat) (hm1 : 1 ≤ m) (hm2 : m ≤ 12) :
    dim y m = (if m = 2 then (if (y % 4 = 0 ∧ (y % 100 ≠ 0 ∨ y % 400 = 0)) then 29 else 28)
               else if m = 4 ∨ m = 6 ∨ m = 9 ∨ m = 11 then 30 else 31) := by
  unfold dim dimL isLeap
  by_cases h2 : m = 2
  · simp only [h2, if_true]
    by_cases hl : (y % 4 = 0 ∧ (y % 100 ≠ 0 ∨ y % 400 = 0)) <;> simp [hl]
  · simp [h2]

theorem mkDT_ok (y mo d h mi s us : Nat) (hv : DT.valid { y, mo, d, h, mi, s, us }) :
    mkDT y mo d h mi s us = .ok { y, mo, d, h, mi, s, us } := by
  obtain ⟨h1, h2, h3, h4, h5, h6, h7, h8, h9, h10⟩ := hv
  simp only at *
  unfold mkDT
  have a1 : ¬ (y < 1 ∨ y > 9999) := by omega
  have a2 : ¬ (mo < 1 ∨ mo > 12) := by omega
  have a3 : ¬ (d < 1 ∨ d > dim y mo) := by omega
  have a4 : ¬ (h > 23) := by omega
  have a5 : ¬ (mi > 59) := by omega
  have a6 : ¬ (s > 59) := by omega
  have a7 : ¬ (us > 999999) := by omega
  rw [if_neg a1, if_neg a2, if_neg a3, if_neg a4, if_neg a5, if_neg a6, if_neg a7]

/-- **C08_day**: the day preference applied to a valid datetime: day 1, the last day of that month, or the reference
    day clamped to the month's length. -/
theorem C08_day (pref : Pref3) (t : DT) (cur : Nat) (hv : t.valid) (hc : 1 ≤ cur) :
    setDay pref t cur = .ok { t with d := match pref with
                                           | .first => 1 | .last => dim t.y t.mo | .current => min cur (dim t.y t.mo) } := by
  have hv' := hv
  obtain ⟨h1, h2, h3, h4, h5, h6, h7, h8, h9, h10⟩ := hv
  have hp := dim_pos t.y t.mo
  have ok : ∀ d, 1 ≤ d → d ≤ dim t.y t.mo → t.replaceDay d = .ok { t with d := d } := by
    intro d hd1 hd2
    unfold DT.replaceDay
    exact mkDT_ok _ _ _ _ _ _ _ ⟨h1, h2, h3, h4, hd1, hd2, h7, h8, h9, h10⟩
  unfold setDay
  cases pref with
  | first => simp only; rw [ok 1 (by omega) hp]
  | last => simp only; rw [ok _ hp (Nat.le_refl _)]
  | current =>
    simp only
    by_cases hcd : cur ≤ dim t.y t.mo
    · rw [ok cur hc hcd, Nat.min_eq_left hcd]
    · have : t.replaceDay cur = .error (.value .dayRange) := by
        unfold DT.replaceDay mkDT
        have a1 : ¬ (t.y < 1 ∨ t.y > 9999) := by omega
        have a2 : ¬ (t.mo < 1 ∨ t.mo > 12) := by omega
        have a3 : (cur < 1 ∨ cur > dim t.y t.mo) := by omega
        rw [if_neg a1, if_neg a2, if_pos a3]
      rw [this]
      simp only
      rw [ok _ hp (Nat.le_refl _), Nat.min_eq_right (by omega)]

/-- **C08_month**: the month preference applied to a valid datetime whose day fits the target month
    (always the case for January and December; in `_parser.parse` the "current" month is the month the date already has). -/
theorem C08_month (pref : Pref3) (t : DT) (cur : Nat) (hv : t.valid) (hc1 : 1 ≤ cur) (hc2 : cur ≤ 12)
    (hfit : pref = .current → t.d ≤ dim t.y cur) :
    setMonth pref t cur = .ok { t with mo := match pref with | .first => 1 | .last => 12 | .current => cur } := by
  obtain ⟨h1, h2, h3, h4, h5, h6, h7, h8, h9, h10⟩ := hv
  have hd31 : t.d ≤ 31 := Nat.le_trans h6 (dim_le_31 _ _)
  have d1 : dim t.y 1 = 31 := by simp [dim, dimL]
  have d12 : dim t.y 12 = 31 := by simp [dim, dimL]
  have ok : ∀ m, 1 ≤ m → m ≤ 12 → t.d ≤ dim t.y m → t.replaceMonth m = .ok { t with mo := m } := by
    intro m hm1 hm2 hd
    unfold DT.replaceMonth
    exact mkDT_ok _ _ _ _ _ _ _ ⟨h1, h2, hm1, hm2, h5, hd, h7, h8, h9, h10⟩
  unfold setMonth
  cases pref with
  | first => simp only; rw [ok 1 (by omega) (by omega) (by omega)]
  | last => simp only; rw [ok 12 (by omega) (by omega) (by omega)]
  | current => simp only; rw [ok cur hc1 hc2 (hfit rfl)]

/-- **C08_period**: the reported period is the finest calendar part present in the parse state; `time` only when
    requested and a clock time is present. -/
theorem C08_period (st : PSettings) (p : PS) :
    (st.timeAsPeriod = true → p.timeSet = true → getPeriod st p = .time) ∧
    (st.timeAsPeriod = false → (p.timeSet = true ∨ truthy p.day = true) → getPeriod st p = .day) ∧
    (p.timeSet = false → truthy p.day = false → truthy p.month = true → getPeriod st p = .month) ∧
    (p.timeSet = false → truthy p.day = false → truthy p.month = false → truthy p.year = true → getPeriod st p = .year) := by
  unfold getPeriod
  refine ⟨?_, ?_, ?_, ?_⟩
  · intro a b; simp [a, b]
  · intro a b; rcases b with b | b <;> simp [a, b]
  · intro a b c; simp [a, b, c]
  · intro a b c d; simp [a, b, c, d]

def withPrefs (st : PSettings) (pd pm : Pref3) : PSettings := { st with preferDay := pd, preferMonth := pm }

theorem initLoop_withPrefs (st : PSettings) (pd pm) (toks : List TI) (fuel i : Nat) (p : PS) :
    initLoop (withPrefs st pd pm) toks fuel i p = initLoop st toks fuel i p := by
  induction fuel generalizing i p with
  | zero => rfl
  | succ n ih => unfold initLoop; simp only [ih]; rfl

/-- **C08_full** (= C01_prefs_irrelevant): when the string states a day and a month, PREFER_DAY_OF_MONTH and
    PREFER_MONTH_OF_YEAR never alter the result — for every token list, configuration and reference time. -/
theorem C08_full (st : PSettings) (toks : List TI) (pd pm : Pref3) (q : PS)
    (hq : parseState st toks = .ok q) (hd : truthy q.day = true) (hm : truthy q.month = true) :
    absParseToks (withPrefs st pd pm) toks = absParseToks st toks := by
  have hps : parseState (withPrefs st pd pm) toks = parseState st toks := by
    unfold parseState; rw [initLoop_withPrefs]
  unfold absParseToks
  rw [hps, hq]
  simp only
  have hr : results (withPrefs st pd pm) q = results st q := rfl
  rw [hr]
  cases results st q with
  | error e => rfl
  | ok t =>
    simp only
    obtain ⟨i1, i2, _⟩ := inv_parseState st toks q hq
    have hkd : tokTruthy q.tokDay = true := by have := i1 hd; cases hh : q.tokDay <;> simp_all [tokTruthy]
    have hkm : tokTruthy q.tokMonth = true := by have := i2 hm; cases hh : q.tokMonth <;> simp_all [tokTruthy]
    unfold finish
    have hc : correctTimeFrame (withPrefs st pd pm) q t = correctTimeFrame st q t := rfl
    rw [hc]
    cases correctTimeFrame st q t with
    | error e => rfl
    | ok t1 => simp [correctMonth, correctDay, hkm, hkd]; rfl

/-- non-vacuity of `C08_day` / `C08_month` on a leap-day reference -/
example : setDay .current { y := 2023, mo := 2, d := 1 } 29 = .ok { y := 2023, mo := 2, d := 28 } := by rfl
example : setDay .last { y := 2024, mo := 2, d := 1 } 5 = .ok { y := 2024, mo := 2, d := 29 } := by rfl
example : setDay .last { y := 1900, mo := 2, d := 1 } 5 = .ok { y := 1900, mo := 2, d := 28 } := by rfl

end DP
