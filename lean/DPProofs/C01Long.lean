import DPProofs.C01String
/-!
# C01 at string level: `DD <month name> YYYY`
-/
namespace DP

/-- what `classify` needs to know about a name token -/
structure NameFacts (nm : List Char) (mon monb : Option Nat) : Prop where
  wk : nameIdx dayNamesC nm = none
  wkb : nameIdx dayAbbrC nm = none
  mon : (nameIdx monthNamesC nm).map (· + 1) = mon
  monb : (nameIdx monthAbbrC nm).map (· + 1) = monb
  micro : microSearch nm = none
  merid : meridSearch nm = none
  skip : ¬ nm ∈ Gen.parserSkipTokensC
  colon : ¬ ':' ∈ nm
  dot : ¬ '.' ∈ nm
  digits : allAsciiDigits nm = false
  letters : ∀ c ∈ nm, tkCls c = 1
  nonempty : nm ≠ []
  strip : stripWs nm = nm

theorem classify_long (y d : Nat) (hy : y ≤ 9999) (hd : d < 100) (nm : List Char) (mon monb : Option Nat) (hn : NameFacts nm mon monb) :
    classify #[(pad2c d, 0), ([], 2), (nm, 1), ([], 2), (pad4c y, 0)] =
      [rS (pad2c d) d true, { text := nm, ty := 1, mon := mon, monb := monb }, rY (pad4c y) y] := by
  simp [classify, rY, rS, tiYear4, tiSmall, fmt_m, fmt_d, fmt_y, fmt_Y, dirNum_m2, dirNum_d2, dirNum_y2, dirNum_Y2, dirNum_Y4, dirNum_four_none,
    hy, hd, List.zipIdx, hn.wk, hn.wkb, hn.mon, hn.monb, hn.micro, hn.merid, hn.skip, hn.colon, hn.digits]
  have hno : ∀ t ∈ [([], 2), (nm, 1), ([], 2), (pad4c y, 0)], ¬ '.' ∈ (t : List Char × Nat).1 := by
    intro t ht
    simp only [List.mem_cons, List.not_mem_nil, or_false] at ht
    rcases ht with rfl | rfl | rfl | rfl
    · simp
    · exact hn.dot
    · simp
    · exact dot_pad4 y hy
  refine ⟨⟨⟨allAscii_pad2 d hd, natOfAscii_pad2 d hd⟩, micro_pad2 d hd, merid_pad2 d hd, skip_pad2 d hd, colon_pad2 d hd ':' (by simp), dotAfter_false _ hno _⟩,
    dotAfter_false _ hno _,
    ⟨allAscii_pad4 y hy, natOfAscii_pad4 y hy⟩, micro_pad4 y hy, merid_pad4 y hy, skip_pad4 y hy, colon_pad4 y hy, dotAfter_false _ hno _⟩


theorem tokGo_run (t : Nat) (nm rest cur : List Char) (h : ∀ c ∈ nm, tkCls c = t) :
    tokGo (nm ++ rest) cur t = tokGo rest (nm.reverse ++ cur) t := by
  induction nm generalizing cur with
  | nil => rfl
  | cons c cs ih =>
    have hc : tkCls c = t := h c (by simp)
    simp only [List.cons_append, tokGo, hc, if_true]
    rw [ih (c :: cur) (fun x hx => h x (by simp [hx]))]
    simp

/-- the text `DD <name> YYYY` -/
def renderLong (nm : List Char) (y d : Nat) : List Char := pad2c d ++ [' '] ++ nm ++ [' '] ++ pad4c y

theorem tokenize_long (y d : Nat) (hy : y ≤ 9999) (hd : d < 100) (nm : List Char) (mon monb : Option Nat) (hn : NameFacts nm mon monb) :
    tokenize (renderLong nm y d) = .ok [(pad2c d, 0), ([' '], 2), (nm, 1), ([' '], 2), (pad4c y, 0)] := by
  have y1 : y / 1000 < 10 := by omega
  have y2 : y / 100 % 10 < 10 := by omega
  have y3 : y / 10 % 10 < 10 := by omega
  have y4 : y % 10 < 10 := by omega
  have d1 : d / 10 < 10 := by omega
  have d2 : d % 10 < 10 := by omega
  obtain ⟨c, cs, rfl⟩ := List.exists_cons_of_ne_nil hn.nonempty
  have hc : tkCls c = 1 := hn.letters c (by simp)
  have hrun := tokGo_run 1 cs (' ' :: pad4c y) [c] (fun x hx => hn.letters x (by simp [hx]))
  simp only [renderLong, pad2c, List.cons_append, List.nil_append, List.append_assoc, tokenize, tokGo, tkCls_dch, tkCls_space, d1, d2, hc, if_true]
  simp only [show (2 : Nat) = 0 ↔ False by decide, show (1 : Nat) = 2 ↔ False by decide, if_false, List.reverse_cons, List.reverse_nil, List.nil_append, List.cons_append]
  rw [hrun]
  simp [tokGo, pad4c, tkCls_dch, tkCls_space, y1, y2, y3, y4]


/-- the English month names the translation step produces (lower case) -/
def monthName (m : Nat) : List Char := monthNamesC.getD (m - 1) []

theorem nameFacts_month (m : Nat) (h1 : 1 ≤ m) (h2 : m ≤ 12) : NameFacts (monthName m) (some m) (if m = 5 then some 5 else none) := by
  have : m = 1 ∨ m = 2 ∨ m = 3 ∨ m = 4 ∨ m = 5 ∨ m = 6 ∨ m = 7 ∨ m = 8 ∨ m = 9 ∨ m = 10 ∨ m = 11 ∨ m = 12 := by omega
  rcases this with rfl | rfl | rfl | rfl | rfl | rfl | rfl | rfl | rfl | rfl | rfl | rfl <;>
  · constructor <;> decide +kernel

/-- **C01_long_date_string**: `DD <month name> YYYY` (what `12 December 2014`, `12. Dezember 2014` … are translated to), from the
    characters through tokenisation, classification and stage 2, for every valid date, PREFER_* value, strictness and reference time -/
theorem C01_long_date_string (st : PSettings) (ho : st.order = [.month, .day, .year]) (y m d : Nat) (hd : DateOk y m d) :
    absParse st (renderLong (monthName m) y d) = .ok ({ y := y, mo := m, d := d }, .day) := by
  have hy : y ≤ 9999 := hd.y2
  have hdd : d < 100 := by have := hd.d2; have := dim_le_31 y m; omega
  have hn := nameFacts_month m hd.m1 hd.m2
  unfold absParse
  rw [tokenize_long y d hy hdd _ _ _ hn]
  simp only [bind, Except.bind, List.map_cons, List.map_nil, stripWs_pad4 y hy, stripWs_pad2 d hdd, stripWs_space, hn.strip]
  rw [classify_long y d hy hdd _ _ _ hn]
  by_cases h5 : m = 5
  · subst h5
    exact C01_named_month st ho y 5 d hd (monthName 5) (pad2c d) (pad4c y) rfl true true true false
  · have := C01_named_month st ho y m d hd (monthName m) (pad2c d) (pad4c y) rfl true false false false
    simpa [rMonth, tiMonthFull, h5] using this


/-! ## abbreviated month names, and the month-first spelling `<name> DD, YYYY` -/

def monthAbbr (m : Nat) : List Char := monthAbbrC.getD (m - 1) []

theorem nameFacts_abbr (m : Nat) (h1 : 1 ≤ m) (h2 : m ≤ 12) : NameFacts (monthAbbr m) (if m = 5 then some 5 else none) (some m) := by
  have : m = 1 ∨ m = 2 ∨ m = 3 ∨ m = 4 ∨ m = 5 ∨ m = 6 ∨ m = 7 ∨ m = 8 ∨ m = 9 ∨ m = 10 ∨ m = 11 ∨ m = 12 := by omega
  rcases this with rfl | rfl | rfl | rfl | rfl | rfl | rfl | rfl | rfl | rfl | rfl | rfl <;>
  · constructor <;> decide +kernel

/-- **C01_abbr_date_string**: `DD <month abbreviation> YYYY` from the characters -/
theorem C01_abbr_date_string (st : PSettings) (ho : st.order = [.month, .day, .year]) (y m d : Nat) (hd : DateOk y m d) :
    absParse st (renderLong (monthAbbr m) y d) = .ok ({ y := y, mo := m, d := d }, .day) := by
  have hy : y ≤ 9999 := hd.y2
  have hdd : d < 100 := by have := hd.d2; have := dim_le_31 y m; omega
  have hn := nameFacts_abbr m hd.m1 hd.m2
  unfold absParse
  rw [tokenize_long y d hy hdd _ _ _ hn]
  simp only [bind, Except.bind, List.map_cons, List.map_nil, stripWs_pad4 y hy, stripWs_pad2 d hdd, stripWs_space, hn.strip]
  rw [classify_long y d hy hdd _ _ _ hn]
  by_cases h5 : m = 5
  · subst h5
    exact C01_named_month st ho y 5 d hd (monthAbbr 5) (pad2c d) (pad4c y) rfl true true true false
  · have := C01_named_month st ho y m d hd (monthAbbr m) (pad2c d) (pad4c y) rfl true true false false
    simpa [rMonth, tiMonthAbbr, h5] using this

/-- the text `<name> DD, YYYY` -/
def renderMonthFirst (nm : List Char) (y d : Nat) : List Char := nm ++ [' '] ++ pad2c d ++ [',', ' '] ++ pad4c y

theorem tkCls_comma : tkCls ',' = 2 := by decide
theorem stripWs_comma_space : stripWs [',', ' '] = [','] := by decide

theorem tokenize_month_first (y d : Nat) (hy : y ≤ 9999) (hd : d < 100) (nm : List Char) (mon monb : Option Nat) (hn : NameFacts nm mon monb) :
    tokenize (renderMonthFirst nm y d) = .ok [(nm, 1), ([' '], 2), (pad2c d, 0), ([',', ' '], 2), (pad4c y, 0)] := by
  have y1 : y / 1000 < 10 := by omega
  have y2 : y / 100 % 10 < 10 := by omega
  have y3 : y / 10 % 10 < 10 := by omega
  have y4 : y % 10 < 10 := by omega
  have d1 : d / 10 < 10 := by omega
  have d2 : d % 10 < 10 := by omega
  obtain ⟨c, cs, rfl⟩ := List.exists_cons_of_ne_nil hn.nonempty
  have hc : tkCls c = 1 := hn.letters c (by simp)
  have hrun := tokGo_run 1 cs (' ' :: (pad2c d ++ [',', ' '] ++ pad4c y)) [c] (fun x hx => hn.letters x (by simp [hx]))
  simp only [renderMonthFirst, List.cons_append, List.nil_append, List.append_assoc, tokenize, hc]
  simp only [List.cons_append, List.nil_append, List.append_assoc] at hrun
  rw [hrun]
  simp [tokGo, pad2c, pad4c, tkCls_dch, tkCls_space, tkCls_comma, y1, y2, y3, y4, d1, d2]

theorem classify_month_first (y d : Nat) (hy : y ≤ 9999) (hd : d < 100) (nm : List Char) (mon monb : Option Nat) (hn : NameFacts nm mon monb) :
    classify #[(nm, 1), ([], 2), (pad2c d, 0), ([','], 2), (pad4c y, 0)] =
      [{ text := nm, ty := 1, mon := mon, monb := monb }, rS (pad2c d) d true, rY (pad4c y) y] := by
  simp [classify, rY, rS, tiYear4, tiSmall, fmt_m, fmt_d, fmt_y, fmt_Y, dirNum_m2, dirNum_d2, dirNum_y2, dirNum_Y2, dirNum_Y4, dirNum_four_none,
    hy, hd, List.zipIdx, hn.wk, hn.wkb, hn.mon, hn.monb, hn.micro, hn.merid, hn.skip, hn.colon, hn.digits]
  have hno : ∀ t ∈ [([], 2), (pad2c d, 0), ([','], 2), (pad4c y, 0)], ¬ '.' ∈ (t : List Char × Nat).1 := by
    intro t ht
    simp only [List.mem_cons, List.not_mem_nil, or_false] at ht
    rcases ht with rfl | rfl | rfl | rfl
    · simp
    · exact colon_pad2 d hd '.' (by simp)
    · simp
    · exact dot_pad4 y hy
  refine ⟨dotAfter_false _ hno _,
    ⟨⟨allAscii_pad2 d hd, natOfAscii_pad2 d hd⟩, micro_pad2 d hd, merid_pad2 d hd, skip_pad2 d hd, colon_pad2 d hd ':' (by simp), dotAfter_false _ hno _⟩,
    ⟨allAscii_pad4 y hy, natOfAscii_pad4 y hy⟩, micro_pad4 y hy, merid_pad4 y hy, skip_pad4 y hy, colon_pad4 y hy, dotAfter_false _ hno _⟩

/-- **C01_month_first_string**: `<month name> DD, YYYY` and `<abbreviation> DD, YYYY` from the characters -/
theorem C01_month_first_string (st : PSettings) (ho : st.order = [.month, .day, .year]) (y m d : Nat) (hd : DateOk y m d) (abbr : Bool) :
    absParse st (renderMonthFirst (if abbr then monthAbbr m else monthName m) y d) = .ok ({ y := y, mo := m, d := d }, .day) := by
  have hy : y ≤ 9999 := hd.y2
  have hdd : d < 100 := by have := hd.d2; have := dim_le_31 y m; omega
  cases abbr
  · have hn := nameFacts_month m hd.m1 hd.m2
    simp only [Bool.false_eq_true, if_false]
    unfold absParse
    rw [tokenize_month_first y d hy hdd _ _ _ hn]
    simp only [bind, Except.bind, List.map_cons, List.map_nil, stripWs_pad4 y hy, stripWs_pad2 d hdd, stripWs_space, stripWs_comma_space, hn.strip]
    rw [classify_month_first y d hy hdd _ _ _ hn]
    by_cases h5 : m = 5
    · subst h5
      exact C01_named_month st ho y 5 d hd (monthName 5) (pad2c d) (pad4c y) rfl true true true true
    · have := C01_named_month st ho y m d hd (monthName m) (pad2c d) (pad4c y) rfl true false false true
      simpa [rMonth, tiMonthFull, h5] using this
  · have hn := nameFacts_abbr m hd.m1 hd.m2
    simp only [if_true]
    unfold absParse
    rw [tokenize_month_first y d hy hdd _ _ _ hn]
    simp only [bind, Except.bind, List.map_cons, List.map_nil, stripWs_pad4 y hy, stripWs_pad2 d hdd, stripWs_space, stripWs_comma_space, hn.strip]
    rw [classify_month_first y d hy hdd _ _ _ hn]
    by_cases h5 : m = 5
    · subst h5
      exact C01_named_month st ho y 5 d hd (monthAbbr 5) (pad2c d) (pad4c y) rfl true true true true
    · have := C01_named_month st ho y m d hd (monthAbbr m) (pad2c d) (pad4c y) rfl true true false true
      simpa [rMonth, tiMonthAbbr, h5] using this


/-! ## RFC-2822: `<wd>, DD <abbr> YYYY hh:mm:ss` -/

/-- what `classify` needs to know about a weekday-abbreviation token -/
structure WdFacts (nm : List Char) (wk : Nat) : Prop where
  dayFull : nameIdx dayNamesC nm = none
  dayAbbr : nameIdx dayAbbrC nm = some wk
  wkIdx : List.findIdx? (fun d => d.toList == List.take 3 (List.map lowerA nm)) Gen.weekdayAbbr = some wk
  mon : nameIdx monthNamesC nm = none
  monb : nameIdx monthAbbrC nm = none
  micro : microSearch nm = none
  merid : meridSearch nm = none
  skip : ¬ nm ∈ Gen.parserSkipTokensC
  colon : ¬ ':' ∈ nm
  dot : ¬ '.' ∈ nm
  digits : allAsciiDigits nm = false
  letters : ∀ c ∈ nm, tkCls c = 1
  nonempty : nm ≠ []
  strip : stripWs nm = nm

def weekdayAbbr (i : Nat) : List Char := dayAbbrC.getD i []

theorem wdFacts (i : Nat) (h : i < 7) : WdFacts (weekdayAbbr i) i := by
  have : i = 0 ∨ i = 1 ∨ i = 2 ∨ i = 3 ∨ i = 4 ∨ i = 5 ∨ i = 6 := by omega
  rcases this with rfl | rfl | rfl | rfl | rfl | rfl | rfl <;>
  · constructor <;> decide +kernel

/-- the text `<wd>, DD <abbr> YYYY hh:mm:ss` -/
def renderRfc (wd ab : List Char) (y d h mi s : Nat) : List Char :=
  wd ++ [',', ' '] ++ pad2c d ++ [' '] ++ ab ++ [' '] ++ pad4c y ++ [' '] ++ clockHMS h mi s

theorem tokenize_rfc (y d h mi s : Nat) (hy : y ≤ 9999) (hd : d < 100) (hh : h < 100) (hmi : mi < 100) (hs : s < 100)
    (wd ab : List Char) (wk : Nat) (mon monb : Option Nat) (hw : WdFacts wd wk) (hn : NameFacts ab mon monb) :
    tokenize (renderRfc wd ab y d h mi s) =
      .ok [(wd, 1), ([',', ' '], 2), (pad2c d, 0), ([' '], 2), (ab, 1), ([' '], 2), (pad4c y, 0), ([' '], 2), (clockHMS h mi s, 0)] := by
  have y1 : y / 1000 < 10 := by omega
  have y2 : y / 100 % 10 < 10 := by omega
  have y3 : y / 10 % 10 < 10 := by omega
  have y4 : y % 10 < 10 := by omega
  have d1 : d / 10 < 10 := by omega
  have d2 : d % 10 < 10 := by omega
  have h1 : h / 10 < 10 := by omega
  have h2 : h % 10 < 10 := by omega
  have i1 : mi / 10 < 10 := by omega
  have i2 : mi % 10 < 10 := by omega
  have s1 : s / 10 < 10 := by omega
  have s2 : s % 10 < 10 := by omega
  obtain ⟨c, cs, rfl⟩ := List.exists_cons_of_ne_nil hw.nonempty
  obtain ⟨e, es, rfl⟩ := List.exists_cons_of_ne_nil hn.nonempty
  have hc : tkCls c = 1 := hw.letters c (by simp)
  have he : tkCls e = 1 := hn.letters e (by simp)
  have hrun1 := tokGo_run 1 cs ([',', ' '] ++ pad2c d ++ [' '] ++ (e :: es) ++ [' '] ++ pad4c y ++ [' '] ++ clockHMS h mi s) [c]
    (fun x hx => hw.letters x (by simp [hx]))
  have hrun2 := tokGo_run 1 es ([' '] ++ pad4c y ++ [' '] ++ clockHMS h mi s) [e] (fun x hx => hn.letters x (by simp [hx]))
  simp only [renderRfc, List.cons_append, List.nil_append, List.append_assoc, tokenize, hc] at hrun1 hrun2 ⊢
  rw [hrun1]
  simp only [tokGo, pad2c, List.cons_append, List.nil_append, tkCls_dch, tkCls_space, tkCls_comma, d1, d2, he, if_true,
    show (2 : Nat) = 1 ↔ False by decide, show (0 : Nat) = 2 ↔ False by decide, show (2 : Nat) = 0 ↔ False by decide, show (1 : Nat) = 2 ↔ False by decide,
    show (1 : Nat) = 0 ↔ False by decide, show (0 : Nat) = 1 ↔ False by decide, if_false, List.reverse_cons, List.reverse_nil]
  rw [hrun2]
  simp [tokGo, pad4c, pad2c, clockHMS, tkCls_dch, tkCls_space, tkCls_colon, y1, y2, y3, y4, h1, h2, i1, i2, s1, s2]


theorem classify_rfc (y d h mi s : Nat) (hy : y ≤ 9999) (hd : d < 100) (hh : h < 100) (hmi : mi < 100) (hs : s < 100)
    (wd ab : List Char) (wk : Nat) (mon monb : Option Nat) (hw : WdFacts wd wk) (hn : NameFacts ab mon monb) :
    classify #[(wd, 1), ([','], 2), (pad2c d, 0), ([], 2), (ab, 1), ([], 2), (pad4c y, 0), ([], 2), (clockHMS h mi s, 0)] =
      [tiWeekday wd wk none, rS (pad2c d) d true, { text := ab, ty := 1, mon := mon, monb := monb }, rY (pad4c y) y, rClock (clockHMS h mi s) false] := by
  have h1 : h / 10 < 10 := by omega
  have h2 : h % 10 < 10 := by omega
  have ec : clockHMS h mi s = dch (h / 10) :: dch (h % 10) :: ':' :: (pad2c mi ++ [':'] ++ pad2c s) := by simp [clockHMS, pad2c]
  have c1 := dirNum_clock_none _ _ h1 h2 (pad2c mi ++ [':'] ++ pad2c s) 'm' (by simp) DT.mo
  have c2 := dirNum_clock_none _ _ h1 h2 (pad2c mi ++ [':'] ++ pad2c s) 'd' (by simp) DT.d
  have c3 := dirNum_clock_none _ _ h1 h2 (pad2c mi ++ [':'] ++ pad2c s) 'y' (by simp) DT.y
  have c4 := dirNum_clock_none _ _ h1 h2 (pad2c mi ++ [':'] ++ pad2c s) 'Y' (by simp) DT.y
  rw [← ec] at c1 c2 c3 c4
  simp [classify, rY, rS, rClock, tiWeekday, tiYear4, tiSmall, fmt_m, fmt_d, fmt_y, fmt_Y, dirNum_m2, dirNum_d2, dirNum_y2, dirNum_Y2, dirNum_Y4, dirNum_four_none,
    hy, hd, List.zipIdx, c1, c2, c3, c4, hn.wk, hn.wkb, hn.mon, hn.monb, hn.micro, hn.merid, hn.skip, hn.colon, hn.digits,
    hw.dayFull, hw.dayAbbr, hw.mon, hw.monb, hw.micro, hw.merid, hw.skip, hw.colon, hw.digits]
  have hno : ∀ t ∈ [([','], 2), (pad2c d, 0), ([], 2), (ab, 1), ([], 2), (pad4c y, 0), ([], 2), (clockHMS h mi s, 0)], ¬ '.' ∈ (t : List Char × Nat).1 := by
    intro t ht
    simp only [List.mem_cons, List.not_mem_nil, or_false] at ht
    rcases ht with rfl | rfl | rfl | rfl | rfl | rfl | rfl | rfl
    · simp
    · exact colon_pad2 d hd '.' (by simp)
    · simp
    · exact hn.dot
    · simp
    · exact dot_pad4 y hy
    · simp
    · exact clock_no_dot h mi s hh hmi hs
  have i1 : mi / 10 < 10 := by omega
  have i2 : mi % 10 < 10 := by omega
  have s1 : s / 10 < 10 := by omega
  have s2 : s % 10 < 10 := by omega
  have k1 : allAsciiDigits (clockHMS h mi s) = false := by
    have hc : asciiDigit ':' = false := by decide
    simp [allAsciiDigits, clockHMS, pad2c, hc]
  have k2 : meridSearch (clockHMS h mi s) = none := by
    simp [meridSearch, clockHMS, pad2c, dch_ne, h1, h2, i1, i2, s1, s2]
  have k3 : ¬ clockHMS h mi s ∈ Gen.parserSkipTokensC := by
    simp [Gen.parserSkipTokensC, clockHMS, pad2c]
  have k4 : ':' ∈ clockHMS h mi s := by simp [clockHMS]
  refine ⟨⟨hw.wkIdx, dotAfter_false _ hno _⟩,
    ⟨⟨allAscii_pad2 d hd, natOfAscii_pad2 d hd⟩, micro_pad2 d hd, merid_pad2 d hd, skip_pad2 d hd, colon_pad2 d hd ':' (by simp), dotAfter_false _ hno _⟩,
    dotAfter_false _ hno _,
    ⟨⟨allAscii_pad4 y hy, natOfAscii_pad4 y hy⟩, micro_pad4 y hy, merid_pad4 y hy, skip_pad4 y hy, colon_pad4 y hy, dotAfter_false _ hno _⟩,
    k1, k2, k3, k4, dotAfter_false _ hno _⟩

/-- **C01_rfc2822_string**: `<wd>, DD <abbr> YYYY hh:mm:ss` (any of the seven weekday abbreviations — the parser does not compare it with
    the date) from the characters, for the month-first and the day-first order -/
theorem C01_rfc2822_string (st : PSettings) (hord : st.order = [.month, .day, .year] ∨ st.order = [.day, .month, .year])
    (y m d h mi s w : Nat) (hd : DateOk y m d) (ht : TimeOk h mi s) (hw7 : w < 7) :
    absParse st (renderRfc (weekdayAbbr w) (monthAbbr m) y d h mi s) =
      .ok ({ y := y, mo := m, d := d, h := h, mi := mi, s := s }, if st.timeAsPeriod then .time else .day) := by
  have hy : y ≤ 9999 := hd.y2
  have hdd : d < 100 := by have := hd.d2; have := dim_le_31 y m; omega
  have hh : h < 100 := by have := ht.h23; omega
  have hmi : mi < 100 := by have := ht.m59; omega
  have hs : s < 100 := by have := ht.s59; omega
  have hn := nameFacts_abbr m hd.m1 hd.m2
  have hw := wdFacts w hw7
  unfold absParse
  rw [tokenize_rfc y d h mi s hy hdd hh hmi hs _ _ _ _ _ hw hn]
  simp only [bind, Except.bind, List.map_cons, List.map_nil, stripWs_pad4 y hy, stripWs_pad2 d hdd, stripWs_space, stripWs_comma_space, hn.strip, hw.strip,
    stripWs_clock h mi s hh hs]
  rw [classify_rfc y d h mi s hy hdd hh hmi hs _ _ _ _ _ hw hn]
  by_cases h5 : m = 5
  · subst h5
    exact C01_rfc2822_full st y 5 d h mi s hd ht (weekdayAbbr w) (pad2c d) (monthAbbr 5) (pad4c y) w rfl true true hord
  · have := C01_rfc2822_full st y m d h mi s hd ht (weekdayAbbr w) (pad2c d) (monthAbbr m) (pad4c y) w rfl true false hord
    simpa [tiMonthAbbr, h5, clockHMS] using this

example : renderRfc (weekdayAbbr 4) (monthAbbr 12) 2014 12 10 55 50 = "fri, 12 dec 2014 10:55:50".toList := by decide
example : renderLong (monthName 12) 2014 12 = "12 december 2014".toList := by decide
example : renderMonthFirst (monthName 3) 2015 7 = "march 07, 2015".toList := by decide


/-! ## `DD <month name> YYYY hh:mm:ss` -/

def renderLongHms (nm : List Char) (y d h mi s : Nat) : List Char := renderLong nm y d ++ [' '] ++ clockHMS h mi s

theorem tokenize_long_hms (y d h mi s : Nat) (hy : y ≤ 9999) (hd : d < 100) (hh : h < 100) (hmi : mi < 100) (hs : s < 100)
    (nm : List Char) (mon monb : Option Nat) (hn : NameFacts nm mon monb) :
    tokenize (renderLongHms nm y d h mi s) =
      .ok [(pad2c d, 0), ([' '], 2), (nm, 1), ([' '], 2), (pad4c y, 0), ([' '], 2), (clockHMS h mi s, 0)] := by
  have y1 : y / 1000 < 10 := by omega
  have y2 : y / 100 % 10 < 10 := by omega
  have y3 : y / 10 % 10 < 10 := by omega
  have y4 : y % 10 < 10 := by omega
  have d1 : d / 10 < 10 := by omega
  have d2 : d % 10 < 10 := by omega
  have h1 : h / 10 < 10 := by omega
  have h2 : h % 10 < 10 := by omega
  have i1 : mi / 10 < 10 := by omega
  have i2 : mi % 10 < 10 := by omega
  have s1 : s / 10 < 10 := by omega
  have s2 : s % 10 < 10 := by omega
  obtain ⟨c, cs, rfl⟩ := List.exists_cons_of_ne_nil hn.nonempty
  have hc : tkCls c = 1 := hn.letters c (by simp)
  have hrun := tokGo_run 1 cs ([' '] ++ pad4c y ++ [' '] ++ clockHMS h mi s) [c] (fun x hx => hn.letters x (by simp [hx]))
  simp only [renderLongHms, renderLong, pad2c, List.cons_append, List.nil_append, List.append_assoc, tokenize, tokGo, tkCls_dch, tkCls_space, d1, d2, hc, if_true] at hrun ⊢
  simp only [show (2 : Nat) = 0 ↔ False by decide, show (1 : Nat) = 2 ↔ False by decide, if_false, List.reverse_cons, List.reverse_nil, List.nil_append, List.cons_append]
  rw [hrun]
  simp [tokGo, pad4c, pad2c, clockHMS, tkCls_dch, tkCls_space, tkCls_colon, y1, y2, y3, y4, h1, h2, i1, i2, s1, s2]

theorem classify_long_hms (y d h mi s : Nat) (hy : y ≤ 9999) (hd : d < 100) (hh : h < 100) (hmi : mi < 100) (hs : s < 100)
    (nm : List Char) (mon monb : Option Nat) (hn : NameFacts nm mon monb) :
    classify #[(pad2c d, 0), ([], 2), (nm, 1), ([], 2), (pad4c y, 0), ([], 2), (clockHMS h mi s, 0)] =
      [rS (pad2c d) d true, { text := nm, ty := 1, mon := mon, monb := monb }, rY (pad4c y) y, rClock (clockHMS h mi s) false] := by
  have h1 : h / 10 < 10 := by omega
  have h2 : h % 10 < 10 := by omega
  have ec : clockHMS h mi s = dch (h / 10) :: dch (h % 10) :: ':' :: (pad2c mi ++ [':'] ++ pad2c s) := by simp [clockHMS, pad2c]
  have c1 := dirNum_clock_none _ _ h1 h2 (pad2c mi ++ [':'] ++ pad2c s) 'm' (by simp) DT.mo
  have c2 := dirNum_clock_none _ _ h1 h2 (pad2c mi ++ [':'] ++ pad2c s) 'd' (by simp) DT.d
  have c3 := dirNum_clock_none _ _ h1 h2 (pad2c mi ++ [':'] ++ pad2c s) 'y' (by simp) DT.y
  have c4 := dirNum_clock_none _ _ h1 h2 (pad2c mi ++ [':'] ++ pad2c s) 'Y' (by simp) DT.y
  rw [← ec] at c1 c2 c3 c4
  simp [classify, rY, rS, rClock, tiYear4, tiSmall, fmt_m, fmt_d, fmt_y, fmt_Y, dirNum_m2, dirNum_d2, dirNum_y2, dirNum_Y2, dirNum_Y4, dirNum_four_none,
    hy, hd, List.zipIdx, c1, c2, c3, c4, hn.wk, hn.wkb, hn.mon, hn.monb, hn.micro, hn.merid, hn.skip, hn.colon, hn.digits]
  have hno : ∀ t ∈ [([], 2), (nm, 1), ([], 2), (pad4c y, 0), ([], 2), (clockHMS h mi s, 0)], ¬ '.' ∈ (t : List Char × Nat).1 := by
    intro t ht
    simp only [List.mem_cons, List.not_mem_nil, or_false] at ht
    rcases ht with rfl | rfl | rfl | rfl | rfl | rfl
    · simp
    · exact hn.dot
    · simp
    · exact dot_pad4 y hy
    · simp
    · exact clock_no_dot h mi s hh hmi hs
  have i1 : mi / 10 < 10 := by omega
  have i2 : mi % 10 < 10 := by omega
  have s1 : s / 10 < 10 := by omega
  have s2 : s % 10 < 10 := by omega
  have k1 : allAsciiDigits (clockHMS h mi s) = false := by
    have hc : asciiDigit ':' = false := by decide
    simp [allAsciiDigits, clockHMS, pad2c, hc]
  have k2 : meridSearch (clockHMS h mi s) = none := by
    simp [meridSearch, clockHMS, pad2c, dch_ne, h1, h2, i1, i2, s1, s2]
  have k3 : ¬ clockHMS h mi s ∈ Gen.parserSkipTokensC := by
    simp [Gen.parserSkipTokensC, clockHMS, pad2c]
  have k4 : ':' ∈ clockHMS h mi s := by simp [clockHMS]
  refine ⟨⟨⟨allAscii_pad2 d hd, natOfAscii_pad2 d hd⟩, micro_pad2 d hd, merid_pad2 d hd, skip_pad2 d hd, colon_pad2 d hd ':' (by simp), dotAfter_false _ hno _⟩,
    dotAfter_false _ hno _,
    ⟨⟨allAscii_pad4 y hy, natOfAscii_pad4 y hy⟩, micro_pad4 y hy, merid_pad4 y hy, skip_pad4 y hy, colon_pad4 y hy, dotAfter_false _ hno _⟩,
    k1, k2, k3, k4, dotAfter_false _ hno _⟩

/-- **C01_long_hms_string**: `DD <month name | abbreviation> YYYY hh:mm:ss` from the characters -/
theorem C01_long_hms_string (st : PSettings) (ho : st.order = [.month, .day, .year]) (y m d h mi s : Nat) (hd : DateOk y m d) (ht : TimeOk h mi s) (abbr : Bool) :
    absParse st (renderLongHms (if abbr then monthAbbr m else monthName m) y d h mi s) =
      .ok ({ y := y, mo := m, d := d, h := h, mi := mi, s := s }, if st.timeAsPeriod then .time else .day) := by
  have hy : y ≤ 9999 := hd.y2
  have hdd : d < 100 := by have := hd.d2; have := dim_le_31 y m; omega
  have hh : h < 100 := by have := ht.h23; omega
  have hmi : mi < 100 := by have := ht.m59; omega
  have hs : s < 100 := by have := ht.s59; omega
  cases abbr
  · have hn := nameFacts_month m hd.m1 hd.m2
    simp only [Bool.false_eq_true, if_false]
    unfold absParse
    rw [tokenize_long_hms y d h mi s hy hdd hh hmi hs _ _ _ hn]
    simp only [bind, Except.bind, List.map_cons, List.map_nil, stripWs_pad4 y hy, stripWs_pad2 d hdd, stripWs_space, hn.strip, stripWs_clock h mi s hh hs]
    rw [classify_long_hms y d h mi s hy hdd hh hmi hs _ _ _ hn]
    by_cases h5 : m = 5
    · subst h5
      have := C01_long_hms st ho y 5 d h mi s hd ht (monthName 5) (pad2c d) (pad4c y) rfl true true true false
      simpa [rMonth, tiMonthAbbr, clockHMS] using this
    · have := C01_long_hms st ho y m d h mi s hd ht (monthName m) (pad2c d) (pad4c y) rfl true false false false
      simpa [rMonth, tiMonthFull, h5, clockHMS] using this
  · have hn := nameFacts_abbr m hd.m1 hd.m2
    simp only [if_true]
    unfold absParse
    rw [tokenize_long_hms y d h mi s hy hdd hh hmi hs _ _ _ hn]
    simp only [bind, Except.bind, List.map_cons, List.map_nil, stripWs_pad4 y hy, stripWs_pad2 d hdd, stripWs_space, hn.strip, stripWs_clock h mi s hh hs]
    rw [classify_long_hms y d h mi s hy hdd hh hmi hs _ _ _ hn]
    by_cases h5 : m = 5
    · subst h5
      have := C01_long_hms st ho y 5 d h mi s hd ht (monthAbbr 5) (pad2c d) (pad4c y) rfl true true true false
      simpa [rMonth, tiMonthAbbr, clockHMS] using this
    · have := C01_long_hms st ho y m d h mi s hd ht (monthAbbr m) (pad2c d) (pad4c y) rfl true true false false
      simpa [rMonth, tiMonthAbbr, h5, clockHMS] using this

end DP
