import DPModel.DP.Walks
import DPProofs.Gen16.Tz
namespace DP.GenWalk
def T : TzTable := tzTableOfRows Gen16.pklRows Gen16.pklSearchI
def c11AbbrevOk : Bool := (abbrevFirst Gen16.pklRows).all (fun (n, o) => c11Check T n o && c11Check T (pyLower n) o)
def c11OffsetsOk : Bool := (utcOffsets Gen16.pklRows).all (fun (o, nz) => (offsetSpellings o nz).all (fun sp => c11Check T sp o))
theorem c11_abbrev : c11AbbrevOk = true := by native_decide
theorem c11_offsets : c11OffsetsOk = true := by native_decide
end DP.GenWalk
