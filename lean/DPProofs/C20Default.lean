import DPModel.DP.InterleaveDefault
/-!
# C20 — calls on the default Settings object
-/
namespace DP.SharedDefault

/-- generated fact: Tagalog is the only language whose data has no date order of its own -/
theorem no_order_source : Gen.langsWithoutDateOrder = ["tl"] := by decide

/-- **C20_default_own_order**: two calls without a settings argument whose locales both have an order of their own read that order, wherever
    the first one is parked: the second call saves and puts back whatever temporary value it finds -/
theorem C20_default_own_order (cur oa ob : Nat) (k : Nat) (hk : k ≤ callActs.length) :
    (preempt cur { order := some oa } { order := some ob } k).1.seen = (sequential cur { order := some oa } { order := some ob }).1.seen ∧
    (preempt cur { order := some oa } { order := some ob } k).2.seen = (sequential cur { order := some oa } { order := some ob }).2.seen := by
  have hk' : k = 0 ∨ k = 1 ∨ k = 2 ∨ k = 3 ∨ k = 4 := by simp [callActs] at hk; omega
  rcases hk' with rfl | rfl | rfl | rfl | rfl <;>
    simp [preempt, sequential, runActs, callActs, stepAct]

/-- **C20_no_order_counterexample**: a call whose locale has no order of its own (Tagalog) reads the other call's temporary value when that
    call is parked between its write and its restore — although the Tagalog call itself is never interrupted -/
theorem C20_no_order_counterexample :
    (preempt 0 { order := some 1 } { order := none } 2).2.seen ≠ (sequential 0 { order := some 1 } { order := none }).2.seen := by decide

end DP.SharedDefault
