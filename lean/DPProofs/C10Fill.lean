import DPProofs.Lemmas.Parser
/-!
# C10 — a displaced number fills one unresolved part
-/
namespace DP

/-- generated fact: the source fills one unresolved part per displaced number (`unset_numbers.pop()`) -/
theorem C10_fill_source : Gen.unknownFillOnce = true := by decide

/-- how many of year / month / day the parse state holds -/
def setCount (p : PS) : Nat := ([Comp.year, .month, .day].filter (fun a => (p.getC a).isSome)).length

theorem setCount_set (q : PS) (a : Comp) (v : Nat) (t : TokRef) : setCount ((q.setC a v).setT a t) ≤ setCount q + 1 := by
  unfold setCount
  cases a <;> simp [PS.getC, PS.setC, PS.setT, List.filter_cons] <;>
    (cases q.year <;> cases q.month <;> cases q.day <;> simp)

theorem fillZip_count (xs : List (Comp × (TI × Comp))) (q r : PS)
    (hr : xs.foldlM (fun (q : PS) (x : Comp × (TI × Comp)) =>
      match x.2.1.intVal with
      | some v => pure ((q.setC x.1 v).setT x.1 (.plain x.2.1.text))
      | none => Except.error (PyErr.value .other)) q = .ok r) : setCount r ≤ setCount q + xs.length := by
  induction xs generalizing q with
  | nil => simp only [List.foldlM, pure, Except.pure] at hr; injection hr with hr; subst hr; simp
  | cons u us ih =>
    simp only [List.foldlM, bind, Except.bind] at hr
    split at hr
    · cases hr
    · rename_i q' hq'
      have := ih q' hr
      split at hq'
      · simp only [pure, Except.pure] at hq'
        injection hq' with hq'; subst hq'
        have := setCount_set q u.1 ‹Nat› (.plain u.2.1.text)
        simp only [List.length_cons]; omega
      · cases hq'

/-- **C10_one_number_one_part**: the displaced-number fill sets at most as many of year / month / day as there are displaced numeric
    tokens — one number can no longer stand for both the day and the month (the defect of the pinned tree, which made
    `'03 2015'` a complete, strict-acceptable date in every year-first locale). -/
theorem C10_one_number_one_part (p r : PS) (hr : fillUnknown p = .ok r) :
    setCount r ≤ setCount p + (p.unset.filter (fun (tc : TI × Comp) => tc.1.ty = 0)).length := by
  unfold fillUnknown at hr
  have h := fillZip_count _ p r hr
  have hl : ((List.filter (fun a => (p.getC a).isNone) [Comp.year, Comp.month, Comp.day]).zip
      (List.filter (fun (tc : TI × Comp) => decide (tc.1.ty = 0)) p.unset).reverse).length ≤
      (p.unset.filter (fun (tc : TI × Comp) => tc.1.ty = 0)).length := by
    rw [List.length_zip, List.length_reverse]
    exact Nat.min_le_right _ _
  omega

end DP
