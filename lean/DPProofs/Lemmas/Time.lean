import DPModel.DP.Parser
/-!
# Field-wise lemmas for the CPython `_strptime` matcher on rendered (zero-padded ASCII) fields

Each lemma describes one directive on two ASCII digit characters followed by text on which the *one-digit* reading cannot continue
(`hrest`): the directive either takes both digits (when its ordered alternation accepts them) and hands over to the rest of the format,
or the whole match fails.  They are proved by enumerating the 10 × 10 digit pairs.
-/
namespace DP

def dch (n : Nat) : Char := Char.ofNat (48 + n)

theorem dch_cases (n : Nat) (h : n < 10) : n = 0 ∨ n = 1 ∨ n = 2 ∨ n = 3 ∨ n = 4 ∨ n = 5 ∨ n = 6 ∨ n = 7 ∨ n = 8 ∨ n = 9 := by omega

/-- a literal that is not a digit rejects text that starts with a digit -/
theorem lit_rejects_digit (full : Bool) (c : Char) (is : List FItem) (b : Nat) (hb : b < 10) (rest : List Char) (fd : Found)
    (hc : c = ':' ∨ c = '.' ∨ c = ' ' ∨ c = '-' ∨ c = '/') :
    matchItems full (.lit c :: is) (dch b :: rest) fd = none := by
  rcases dch_cases b hb with rfl | rfl | rfl | rfl | rfl | rfl | rfl | rfl | rfl | rfl <;>
  rcases hc with rfl | rfl | rfl | rfl | rfl <;> simp [matchItems, eqIcase, dch, lowerA]

/-- after the last item (full match) remaining text is a failure -/
theorem end_rejects (c : Char) (rest : List Char) (fd : Found) : matchItems true [] (c :: rest) fd = none := by
  simp [matchItems]

/-- whitespace in the format rejects text that starts with a digit -/
theorem ws_rejects_digit (full : Bool) (is : List FItem) (b : Nat) (hb : b < 10) (rest : List Char) (fd : Found) :
    matchItems full (.ws :: is) (dch b :: rest) fd = none := by
  rcases dch_cases b hb with rfl | rfl | rfl | rfl | rfl | rfl | rfl | rfl | rfl | rfl <;>
  simp [matchItems, wsPrefixLen, isWs, dch, asciiDigit]

/-- what each two-digit field accepts -/
def twoOk : Char → Nat → Bool
  | 'H', v => decide (v ≤ 23)
  | 'M', v => decide (v ≤ 59)
  | 'S', v => decide (v ≤ 61)
  | 'I', v => decide (1 ≤ v ∧ v ≤ 12)
  | 'm', v => decide (1 ≤ v ∧ v ≤ 12)
  | 'd', v => decide (1 ≤ v ∧ v ≤ 31)
  | 'y', _ => true
  | _, _ => false

/-- field lemma for `%H`: two ASCII digits, when the one-digit reading cannot continue -/
theorem dir_two_H (full : Bool) (is : List FItem) (a b : Nat) (ha : a < 10) (hb : b < 10) (rest : List Char) (fd : Found)
    (hrest : ∀ fd', matchItems full is (dch b :: rest) fd' = none) :
    matchItems full (.dir 'H' :: is) (dch a :: dch b :: rest) fd =
      if twoOk 'H' (10 * a + b) then matchItems full is rest (fd.setNum 'H' (10 * a + b) 2) else none := by
  rcases dch_cases a ha with rfl | rfl | rfl | rfl | rfl | rfl | rfl | rfl | rfl | rfl <;>
  rcases dch_cases b hb with rfl | rfl | rfl | rfl | rfl | rfl | rfl | rfl | rfl | rfl <;>
  (simp only [dch] at hrest ⊢
   simp [matchItems, numAlts, consumeAlt, CT.test, isDecDigit, asciiDigit, decVal, d09, d19, twoOk, List.findSome?, hrest]
   try (split <;> simp_all))

/-- field lemma for `%M`: two ASCII digits, when the one-digit reading cannot continue -/
theorem dir_two_M (full : Bool) (is : List FItem) (a b : Nat) (ha : a < 10) (hb : b < 10) (rest : List Char) (fd : Found)
    (hrest : ∀ fd', matchItems full is (dch b :: rest) fd' = none) :
    matchItems full (.dir 'M' :: is) (dch a :: dch b :: rest) fd =
      if twoOk 'M' (10 * a + b) then matchItems full is rest (fd.setNum 'M' (10 * a + b) 2) else none := by
  rcases dch_cases a ha with rfl | rfl | rfl | rfl | rfl | rfl | rfl | rfl | rfl | rfl <;>
  rcases dch_cases b hb with rfl | rfl | rfl | rfl | rfl | rfl | rfl | rfl | rfl | rfl <;>
  (simp only [dch] at hrest ⊢
   simp [matchItems, numAlts, consumeAlt, CT.test, isDecDigit, asciiDigit, decVal, d09, d19, twoOk, List.findSome?, hrest]
   try (split <;> simp_all))

/-- field lemma for `%S`: two ASCII digits, when the one-digit reading cannot continue -/
theorem dir_two_S (full : Bool) (is : List FItem) (a b : Nat) (ha : a < 10) (hb : b < 10) (rest : List Char) (fd : Found)
    (hrest : ∀ fd', matchItems full is (dch b :: rest) fd' = none) :
    matchItems full (.dir 'S' :: is) (dch a :: dch b :: rest) fd =
      if twoOk 'S' (10 * a + b) then matchItems full is rest (fd.setNum 'S' (10 * a + b) 2) else none := by
  rcases dch_cases a ha with rfl | rfl | rfl | rfl | rfl | rfl | rfl | rfl | rfl | rfl <;>
  rcases dch_cases b hb with rfl | rfl | rfl | rfl | rfl | rfl | rfl | rfl | rfl | rfl <;>
  (simp only [dch] at hrest ⊢
   simp [matchItems, numAlts, consumeAlt, CT.test, isDecDigit, asciiDigit, decVal, d09, d19, twoOk, List.findSome?, hrest]
   try (split <;> simp_all))

/-- field lemma for `%I`: two ASCII digits, when the one-digit reading cannot continue -/
theorem dir_two_I (full : Bool) (is : List FItem) (a b : Nat) (ha : a < 10) (hb : b < 10) (rest : List Char) (fd : Found)
    (hrest : ∀ fd', matchItems full is (dch b :: rest) fd' = none) :
    matchItems full (.dir 'I' :: is) (dch a :: dch b :: rest) fd =
      if twoOk 'I' (10 * a + b) then matchItems full is rest (fd.setNum 'I' (10 * a + b) 2) else none := by
  rcases dch_cases a ha with rfl | rfl | rfl | rfl | rfl | rfl | rfl | rfl | rfl | rfl <;>
  rcases dch_cases b hb with rfl | rfl | rfl | rfl | rfl | rfl | rfl | rfl | rfl | rfl <;>
  (simp only [dch] at hrest ⊢
   simp [matchItems, numAlts, consumeAlt, CT.test, isDecDigit, asciiDigit, decVal, d09, d19, twoOk, List.findSome?, hrest]
   try (split <;> simp_all))

/-- field lemma for `%m`: two ASCII digits, when the one-digit reading cannot continue -/
theorem dir_two_m (full : Bool) (is : List FItem) (a b : Nat) (ha : a < 10) (hb : b < 10) (rest : List Char) (fd : Found)
    (hrest : ∀ fd', matchItems full is (dch b :: rest) fd' = none) :
    matchItems full (.dir 'm' :: is) (dch a :: dch b :: rest) fd =
      if twoOk 'm' (10 * a + b) then matchItems full is rest (fd.setNum 'm' (10 * a + b) 2) else none := by
  rcases dch_cases a ha with rfl | rfl | rfl | rfl | rfl | rfl | rfl | rfl | rfl | rfl <;>
  rcases dch_cases b hb with rfl | rfl | rfl | rfl | rfl | rfl | rfl | rfl | rfl | rfl <;>
  (simp only [dch] at hrest ⊢
   simp [matchItems, numAlts, consumeAlt, CT.test, isDecDigit, asciiDigit, decVal, d09, d19, twoOk, List.findSome?, hrest]
   try (split <;> simp_all))

/-- field lemma for `%d`: two ASCII digits, when the one-digit reading cannot continue -/
theorem dir_two_d (full : Bool) (is : List FItem) (a b : Nat) (ha : a < 10) (hb : b < 10) (rest : List Char) (fd : Found)
    (hrest : ∀ fd', matchItems full is (dch b :: rest) fd' = none) :
    matchItems full (.dir 'd' :: is) (dch a :: dch b :: rest) fd =
      if twoOk 'd' (10 * a + b) then matchItems full is rest (fd.setNum 'd' (10 * a + b) 2) else none := by
  rcases dch_cases a ha with rfl | rfl | rfl | rfl | rfl | rfl | rfl | rfl | rfl | rfl <;>
  rcases dch_cases b hb with rfl | rfl | rfl | rfl | rfl | rfl | rfl | rfl | rfl | rfl <;>
  (simp only [dch] at hrest ⊢
   simp [matchItems, numAlts, consumeAlt, CT.test, isDecDigit, asciiDigit, decVal, d09, d19, twoOk, List.findSome?, hrest]
   try (split <;> simp_all))

/-- field lemma for `%y`: two ASCII digits, when the one-digit reading cannot continue -/
theorem dir_two_y (full : Bool) (is : List FItem) (a b : Nat) (ha : a < 10) (hb : b < 10) (rest : List Char) (fd : Found)
    (hrest : ∀ fd', matchItems full is (dch b :: rest) fd' = none) :
    matchItems full (.dir 'y' :: is) (dch a :: dch b :: rest) fd =
      if twoOk 'y' (10 * a + b) then matchItems full is rest (fd.setNum 'y' (10 * a + b) 2) else none := by
  rcases dch_cases a ha with rfl | rfl | rfl | rfl | rfl | rfl | rfl | rfl | rfl | rfl <;>
  rcases dch_cases b hb with rfl | rfl | rfl | rfl | rfl | rfl | rfl | rfl | rfl | rfl <;>
  (simp only [dch] at hrest ⊢
   simp [matchItems, numAlts, consumeAlt, CT.test, isDecDigit, asciiDigit, decVal, d09, d19, twoOk, List.findSome?, hrest]
   try (split <;> simp_all))

theorem isWs_dch (n : Nat) (h : n < 10) : isWs (dch n) = false := by
  rcases dch_cases n h with rfl | rfl | rfl | rfl | rfl | rfl | rfl | rfl | rfl | rfl <;> simp [isWs, dch, asciiDigit]

theorem lit_step (full : Bool) (c x : Char) (is : List FItem) (rest : List Char) (fd : Found) :
    matchItems full (.lit c :: is) (x :: rest) fd = if eqIcase c x then matchItems full is rest fd else none := by
  simp [matchItems]
theorem lit_nil (full : Bool) (c : Char) (is : List FItem) (fd : Found) : matchItems full (.lit c :: is) [] fd = none := by
  simp [matchItems]
theorem nil_nil (full : Bool) (fd : Found) : matchItems full [] [] fd = some fd := by simp [matchItems]
theorem dir_nil (full : Bool) (d : Char) (hd : d = 'H' ∨ d = 'M' ∨ d = 'S' ∨ d = 'I') (is : List FItem) (fd : Found) :
    matchItems full (.dir d :: is) [] fd = none := by
  rcases hd with rfl | rfl | rfl | rfl <;> simp [matchItems, numAlts, consumeAlt, List.findSome?]

theorem ws_nil (full : Bool) (is : List FItem) (fd : Found) : matchItems full (.ws :: is) [] fd = none := by
  simp [matchItems, wsPrefixLen]

def pad2c (n : Nat) : List Char := [dch (n / 10), dch (n % 10)]

theorem stripWs_digits (a : Nat) (ha : a < 10) (b : Nat) (hb : b < 10) (mid : List Char) :
    stripWs (dch a :: (mid ++ [dch b])) = dch a :: (mid ++ [dch b]) := by
  unfold stripWs
  simp [List.dropWhile, isWs_dch a ha, isWs_dch b hb, List.reverse_cons]

/-- `%H:%M` on `hh:mm` -/
theorem time_hm (h mi : Nat) (hh : h ≤ 23) (hm : mi ≤ 59) :
    timeParser (pad2c h ++ [':'] ++ pad2c mi) = .ok { y := 1900, mo := 1, d := 1, h := h, mi := mi } := by
  have a1 : h / 10 < 10 := by omega
  have a2 : h % 10 < 10 := by omega
  have b1 : mi / 10 < 10 := by omega
  have b2 : mi % 10 < 10 := by omega
  have eh : 10 * (h / 10) + h % 10 = h := by omega
  have em : 10 * (mi / 10) + mi % 10 = mi := by omega
  have hs : stripWs (pad2c h ++ [':'] ++ pad2c mi) = pad2c h ++ [':'] ++ pad2c mi := by
    have := stripWs_digits (h / 10) a1 (mi % 10) b2 [dch (h % 10), ':', dch (mi / 10)]
    simpa [pad2c] using this
  unfold timeParser
  rw [hs]
  have r1 : ∀ (is : List FItem) (b : Nat) (rest : List Char) (fd : Found), b < 10 → matchItems true (.lit ':' :: is) (dch b :: rest) fd = none :=
    fun is b rest fd hb => lit_rejects_digit true ':' is b hb rest fd (Or.inl rfl)
  have r2 : ∀ (b : Nat) (rest : List Char) (fd : Found), matchItems true [] (dch b :: rest) fd = none := fun b rest fd => end_rejects _ _ _
  have r3 : ∀ (is : List FItem) (b : Nat) (rest : List Char) (fd : Found), b < 10 → matchItems true (.ws :: is) (dch b :: rest) fd = none :=
    fun is b rest fd hb => ws_rejects_digit true is b hb rest fd
  have nh : ¬ 23 < h := by omega
  have nm : ¬ 59 < mi := by omega
  simp [ws_nil, nh, nm, Gen.timeDirectivesC, timeParserGo, dpStrptimeC, strptimeC, parseFmt, numAlts, nameAlts, isWs, pad2c,
    dir_two_H true _ _ _ a1 a2, dir_two_M true _ _ _ b1 b2, dir_two_I true _ _ _ a1 a2, r1, r2, r3, a1, a2, b1, b2, eh, em, twoOk, hh, hm,
    lit_step, lit_nil, nil_nil, dir_nil, eqIcase, lowerA, foundToDT, Found.setNum, mkDT, dim, dimL]


/-- `%H:%M:%S` on `hh:mm:ss` -/
theorem time_hms (h mi sc : Nat) (hh : h ≤ 23) (hm : mi ≤ 59) (hs' : sc ≤ 59) :
    timeParser (pad2c h ++ [':'] ++ pad2c mi ++ [':'] ++ pad2c sc) = .ok { y := 1900, mo := 1, d := 1, h := h, mi := mi, s := sc } := by
  have a1 : h / 10 < 10 := by omega
  have a2 : h % 10 < 10 := by omega
  have b1 : mi / 10 < 10 := by omega
  have b2 : mi % 10 < 10 := by omega
  have c1 : sc / 10 < 10 := by omega
  have c2 : sc % 10 < 10 := by omega
  have eh : 10 * (h / 10) + h % 10 = h := by omega
  have em : 10 * (mi / 10) + mi % 10 = mi := by omega
  have es : 10 * (sc / 10) + sc % 10 = sc := by omega
  have hs : stripWs (pad2c h ++ [':'] ++ pad2c mi ++ [':'] ++ pad2c sc) = pad2c h ++ [':'] ++ pad2c mi ++ [':'] ++ pad2c sc := by
    have := stripWs_digits (h / 10) a1 (sc % 10) c2 [dch (h % 10), ':', dch (mi / 10), dch (mi % 10), ':', dch (sc / 10)]
    simpa [pad2c] using this
  unfold timeParser
  rw [hs]
  have r1 : ∀ (is : List FItem) (b : Nat) (rest : List Char) (fd : Found), b < 10 → matchItems true (.lit ':' :: is) (dch b :: rest) fd = none :=
    fun is b rest fd hb => lit_rejects_digit true ':' is b hb rest fd (Or.inl rfl)
  have r2 : ∀ (b : Nat) (rest : List Char) (fd : Found), matchItems true [] (dch b :: rest) fd = none := fun b rest fd => end_rejects _ _ _
  have nh : ¬ 23 < h := by omega
  have nm : ¬ 59 < mi := by omega
  have ns : ¬ 59 < sc := by omega
  have s61 : sc ≤ 61 := by omega
  simp [ws_nil, nh, nm, ns, s61, Gen.timeDirectivesC, timeParserGo, dpStrptimeC, strptimeC, parseFmt, numAlts, nameAlts, isWs, pad2c,
    dir_two_H true _ _ _ a1 a2, dir_two_M true _ _ _ b1 b2, dir_two_S true _ _ _ c1 c2, r1, r2, a1, a2, b1, b2, c1, c2, eh, em, es, twoOk, hh, hm,
    lit_step, lit_nil, nil_nil, dir_nil, eqIcase, lowerA, foundToDT, Found.setNum, mkDT, dim, dimL]

theorem d09_dch (n : Nat) (h : n < 10) : CT.test d09 (dch n) = true := by
  rcases dch_cases n h with rfl | rfl | rfl | rfl | rfl | rfl | rfl | rfl | rfl | rfl <;> simp [CT.test, d09, dch]
theorem decVal_dch (n : Nat) (h : n < 10) : decVal (dch n) = n := by
  rcases dch_cases n h with rfl | rfl | rfl | rfl | rfl | rfl | rfl | rfl | rfl | rfl <;> simp [decVal, asciiDigit, dch]
theorem dch_ne_space (n : Nat) (h : n < 10) : (dch n == ' ') = false := by
  rcases dch_cases n h with rfl | rfl | rfl | rfl | rfl | rfl | rfl | rfl | rfl | rfl <;> simp [dch]

/-- six fraction digits -/
def frac6 (us : Nat) : List Char :=
  [dch (us / 100000), dch (us / 10000 % 10), dch (us / 1000 % 10), dch (us / 100 % 10), dch (us / 10 % 10), dch (us % 10)]

/-- `%f` on six ASCII digits: when the rest of the format accepts what follows, the directive takes all six -/
theorem dir_f6 (full : Bool) (is : List FItem) (us : Nat) (hus : us ≤ 999999) (rest : List Char) (fd r : Found)
    (hk : matchItems full is rest (fd.setNum 'f' us 6) = some r) :
    matchItems full (.dir 'f' :: is) (frac6 us ++ rest) fd = some r := by
  have h1 : us / 100000 < 10 := by omega
  have h2 : us / 10000 % 10 < 10 := by omega
  have h3 : us / 1000 % 10 < 10 := by omega
  have h4 : us / 100 % 10 < 10 := by omega
  have h5 : us / 10 % 10 < 10 := by omega
  have h6 : us % 10 < 10 := by omega
  have hv : (((((us / 100000) * 10 + us / 10000 % 10) * 10 + us / 1000 % 10) * 10 + us / 100 % 10) * 10 + us / 10 % 10) * 10 + us % 10 = us := by omega
  simp [matchItems, numAlts, frac6, consumeAlt, List.findSome?, d09_dch, decVal_dch, dch_ne_space, h1, h2, h3, h4, h5, h6, hv, hk]

theorem nil_any (xs : List Char) (fd : Found) : matchItems false [] xs fd = some fd := by
  cases xs <;> simp [matchItems]

theorem ws_rejects_char (full : Bool) (is : List FItem) (c : Char) (hc : c = ':' ∨ c = '.') (rest : List Char) (fd : Found) :
    matchItems full (.ws :: is) (c :: rest) fd = none := by
  rcases hc with rfl | rfl <;> simp [matchItems, wsPrefixLen, isWs, asciiDigit]

/-- `%H:%M:%S.%f` on `hh:mm:ss.ffffff` (six fraction digits): exact to the microsecond -/
theorem time_hms_us (h mi sc us : Nat) (hh : h ≤ 23) (hm : mi ≤ 59) (hs' : sc ≤ 59) (hus : us ≤ 999999) :
    timeParser (pad2c h ++ [':'] ++ pad2c mi ++ [':'] ++ pad2c sc ++ ['.'] ++ frac6 us) =
      .ok { y := 1900, mo := 1, d := 1, h := h, mi := mi, s := sc, us := us } := by
  have a1 : h / 10 < 10 := by omega
  have a2 : h % 10 < 10 := by omega
  have b1 : mi / 10 < 10 := by omega
  have b2 : mi % 10 < 10 := by omega
  have c1 : sc / 10 < 10 := by omega
  have c2 : sc % 10 < 10 := by omega
  have f6 : us % 10 < 10 := by omega
  have eh : 10 * (h / 10) + h % 10 = h := by omega
  have em : 10 * (mi / 10) + mi % 10 = mi := by omega
  have es : 10 * (sc / 10) + sc % 10 = sc := by omega
  have hs : stripWs (pad2c h ++ [':'] ++ pad2c mi ++ [':'] ++ pad2c sc ++ ['.'] ++ frac6 us) =
      pad2c h ++ [':'] ++ pad2c mi ++ [':'] ++ pad2c sc ++ ['.'] ++ frac6 us := by
    have := stripWs_digits (h / 10) a1 (us % 10) f6 ([dch (h % 10), ':', dch (mi / 10), dch (mi % 10), ':', dch (sc / 10), dch (sc % 10), '.',
      dch (us / 100000), dch (us / 10000 % 10), dch (us / 1000 % 10), dch (us / 100 % 10), dch (us / 10 % 10)])
    simpa [pad2c, frac6] using this
  unfold timeParser
  rw [hs]
  have r1 : ∀ (full : Bool) (is : List FItem) (b : Nat) (rest : List Char) (fd : Found), b < 10 → matchItems full (.lit ':' :: is) (dch b :: rest) fd = none :=
    fun full is b rest fd hb => lit_rejects_digit full ':' is b hb rest fd (Or.inl rfl)
  have r1' : ∀ (full : Bool) (is : List FItem) (b : Nat) (rest : List Char) (fd : Found), b < 10 → matchItems full (.lit '.' :: is) (dch b :: rest) fd = none :=
    fun full is b rest fd hb => lit_rejects_digit full '.' is b hb rest fd (Or.inr (Or.inl rfl))
  have r2 : ∀ (c : Char) (rest : List Char) (fd : Found), matchItems true [] (c :: rest) fd = none := fun c rest fd => end_rejects _ _ _
  have r3 : ∀ (is : List FItem) (b : Nat) (rest : List Char) (fd : Found), b < 10 → matchItems true (.ws :: is) (dch b :: rest) fd = none :=
    fun is b rest fd hb => ws_rejects_digit true is b hb rest fd
  have r4 : ∀ (is : List FItem) (rest : List Char) (fd : Found), matchItems true (.ws :: is) (':' :: rest) fd = none :=
    fun is rest fd => ws_rejects_char true is ':' (Or.inl rfl) rest fd
  have r5 : ∀ (is : List FItem) (rest : List Char) (fd : Found), matchItems true (.ws :: is) ('.' :: rest) fd = none :=
    fun is rest fd => ws_rejects_char true is '.' (Or.inr rfl) rest fd
  have nh : ¬ 23 < h := by omega
  have nm : ¬ 59 < mi := by omega
  have ns : ¬ 59 < sc := by omega
  have s61 : sc ≤ 61 := by omega
  have kf : ∀ fd : Found, matchItems true [FItem.dir 'f'] (frac6 us) fd = some (fd.setNum 'f' us 6) := by
    intro fd
    have := dir_f6 true [] us hus [] fd (fd.setNum 'f' us 6) (nil_nil _ _)
    simpa using this
  have kf' : ∀ fd : Found, matchItems false [FItem.dir 'f'] (frac6 us) fd = some (fd.setNum 'f' us 6) := by
    intro fd
    have := dir_f6 false [] us hus [] fd (fd.setNum 'f' us 6) (nil_any _ _)
    simpa using this
  have hfrac : [dch (us / 100000), dch (us / 10000 % 10), dch (us / 1000 % 10), dch (us / 100 % 10), dch (us / 10 % 10), dch (us % 10)] = frac6 us := rfl
  simp [ws_nil, nh, nm, ns, s61, Gen.timeDirectivesC, timeParserGo, dpStrptimeC, strptimeC, parseFmt, numAlts, nameAlts, isWs, pad2c,
    dir_two_H _ _ _ _ a1 a2, dir_two_M _ _ _ _ b1 b2, dir_two_S _ _ _ _ c1 c2, dir_two_I _ _ _ _ a1 a2, r1, r1', r2, r3, r4, r5,
    a1, a2, b1, b2, c1, c2, eh, em, es, twoOk, hh, hm,
    lit_step, lit_nil, nil_nil, dir_nil, eqIcase, lowerA, foundToDT, Found.setNum, mkDT, dim, dimL, hfrac, kf, kf',
    timeMatcherMicros, timeMatcherItems, List.any]

/-- a one-digit hour followed by ':' : the two-digit alternatives cannot apply -/
theorem dir_one_H (full : Bool) (is : List FItem) (a : Nat) (ha : a < 10) (rest : List Char) (fd : Found) :
    matchItems full (.dir 'H' :: is) (dch a :: ':' :: rest) fd = matchItems full is (':' :: rest) (fd.setNum 'H' a 1) := by
  rcases dch_cases a ha with rfl | rfl | rfl | rfl | rfl | rfl | rfl | rfl | rfl | rfl <;>
  (simp only [dch]
   simp [matchItems, numAlts, consumeAlt, CT.test, isDecDigit, asciiDigit, decVal, List.findSome?]
   try (split <;> simp_all))

theorem dir_one_I (full : Bool) (is : List FItem) (a : Nat) (ha : a < 10) (rest : List Char) (fd : Found) :
    matchItems full (.dir 'I' :: is) (dch a :: ':' :: rest) fd =
      if 1 ≤ a then matchItems full is (':' :: rest) (fd.setNum 'I' a 1) else none := by
  rcases dch_cases a ha with rfl | rfl | rfl | rfl | rfl | rfl | rfl | rfl | rfl | rfl <;>
  (simp only [dch]
   simp [matchItems, numAlts, consumeAlt, CT.test, isDecDigit, asciiDigit, decVal, d19, List.findSome?]
   try (split <;> simp_all))

/-- the AM/PM marker at the end of the string -/
theorem dir_p_end (isPm : Bool) (fd : Found) :
    matchItems true [.dir 'p'] (if isPm then ['p', 'm'] else ['a', 'm']) fd = some (fd.setName 'p' (if isPm then 1 else 0)) := by
  cases isPm <;> simp [matchItems, numAlts, nameAlts, sortLenDescIdx, sortLenDescIdx.ins, ampmC, consumeName, eqIcase, lowerA, List.findSome?, List.zipIdx]

/-- format whitespace on one space followed by a letter -/
theorem ws_one (full : Bool) (is : List FItem) (c : Char) (hc : c = 'a' ∨ c = 'p') (rest : List Char) (fd : Found) :
    matchItems full (.ws :: is) (' ' :: c :: rest) fd = matchItems full is (c :: rest) fd := by
  rcases hc with rfl | rfl <;> simp [matchItems, wsPrefixLen, isWs, asciiDigit, List.range, List.range.loop]

def hour12c (h12 : Nat) : List Char := if 10 ≤ h12 then [dch 1, dch (h12 - 10)] else [dch h12]
def meridC (isPm : Bool) : List Char := if isPm then ['p', 'm'] else ['a', 'm']
def hour24 (h12 : Nat) (isPm : Bool) : Nat := if isPm then (if h12 = 12 then 12 else h12 + 12) else (if h12 = 12 then 0 else h12)

theorem stripWs_digit_m (a : Nat) (ha : a < 10) (mid : List Char) :
    stripWs (dch a :: (mid ++ ['m'])) = dch a :: (mid ++ ['m']) := by
  have hmW : isWs 'm' = false := by simp [isWs, asciiDigit]
  unfold stripWs
  simp [List.dropWhile, isWs_dch a ha, hmW, List.reverse_cons]

/-- `%I:%M %p` on `h:mm am|pm` (hour 1..12 without padding, as the family renders it) -/
theorem time_12h (h12 mi : Nat) (isPm : Bool) (h1 : 1 ≤ h12) (h2 : h12 ≤ 12) (hm : mi ≤ 59) :
    timeParser (hour12c h12 ++ [':'] ++ pad2c mi ++ [' '] ++ meridC isPm) =
      .ok { y := 1900, mo := 1, d := 1, h := hour24 h12 isPm, mi := mi } := by
  have b1 : mi / 10 < 10 := by omega
  have b2 : mi % 10 < 10 := by omega
  have em : 10 * (mi / 10) + mi % 10 = mi := by omega
  have nm : ¬ 59 < mi := by omega
  have r1 : ∀ (full : Bool) (is : List FItem) (b : Nat) (rest : List Char) (fd : Found), b < 10 → matchItems full (.lit ':' :: is) (dch b :: rest) fd = none :=
    fun full is b rest fd hb => lit_rejects_digit full ':' is b hb rest fd (Or.inl rfl)
  have r2 : ∀ (c : Char) (rest : List Char) (fd : Found), matchItems true [] (c :: rest) fd = none := fun c rest fd => end_rejects _ _ _
  have r3 : ∀ (is : List FItem) (b : Nat) (rest : List Char) (fd : Found), b < 10 → matchItems true (.ws :: is) (dch b :: rest) fd = none :=
    fun is b rest fd hb => ws_rejects_digit true is b hb rest fd
  have pe := dir_p_end isPm
  have nq1 : ¬ 23 < (if h12 = 12 then 0 else h12) := by split <;> omega
  have nq2 : ¬ 23 < (if h12 = 12 then h12 else h12 + 12) := by split <;> omega
  have nq3 : ¬ 23 < (if ¬ h12 = 12 then h12 + 12 else h12) := by split <;> omega
  by_cases hten : 10 ≤ h12
  · have a2 : h12 - 10 < 10 := by omega
    have e12 : 10 * 1 + (h12 - 10) = h12 := by omega
    have hs : stripWs (hour12c h12 ++ [':'] ++ pad2c mi ++ [' '] ++ meridC isPm) = hour12c h12 ++ [':'] ++ pad2c mi ++ [' '] ++ meridC isPm := by
      have := stripWs_digit_m 1 (by decide) ([dch (h12 - 10), ':', dch (mi / 10), dch (mi % 10), ' '] ++ (if isPm then ['p'] else ['a']))
      cases isPm <;> simpa [hour12c, hten, pad2c, meridC] using this
    unfold timeParser
    rw [hs]
    have nh : ¬ 23 < h12 := by omega
    cases isPm <;>
    simp [hour12c, hten, meridC, hour24, ws_nil, nh, nm, Gen.timeDirectivesC, timeParserGo, dpStrptimeC, strptimeC, parseFmt, numAlts, nameAlts, isWs, pad2c,
      dir_two_H _ _ _ _ (by decide : 1 < 10) a2, dir_two_I _ _ _ _ (by decide : 1 < 10) a2, dir_two_M _ _ _ _ b1 b2, r1, r2, r3, a2, b1, b2, e12, em, twoOk, h1, h2, hm,
      lit_step, lit_nil, nil_nil, dir_nil, eqIcase, lowerA, foundToDT, Found.setNum, Found.setName, mkDT, dim, dimL, ws_one, pe, List.any, nq1, nq2, nq3] at pe ⊢ <;>
    simp [pe, foundToDT, Found.setName, mkDT, dim, dimL, nm, nq1, nq2, nq3] <;> (first | omega | (split <;> omega) | (intro h; omega))
  · have a1 : h12 < 10 := by omega
    have hs : stripWs (hour12c h12 ++ [':'] ++ pad2c mi ++ [' '] ++ meridC isPm) = hour12c h12 ++ [':'] ++ pad2c mi ++ [' '] ++ meridC isPm := by
      have := stripWs_digit_m h12 a1 ([':', dch (mi / 10), dch (mi % 10), ' '] ++ (if isPm then ['p'] else ['a']))
      cases isPm <;> simpa [hour12c, hten, pad2c, meridC] using this
    unfold timeParser
    rw [hs]
    have nh : ¬ 23 < h12 := by omega
    have n12 : h12 ≠ 12 := by omega
    cases isPm <;>
    simp [hour12c, hten, meridC, hour24, ws_nil, nh, nm, n12, Gen.timeDirectivesC, timeParserGo, dpStrptimeC, strptimeC, parseFmt, numAlts, nameAlts, isWs, pad2c,
      dir_one_H _ _ _ a1, dir_one_I _ _ _ a1, dir_two_M _ _ _ _ b1 b2, r1, r2, r3, a1, b1, b2, em, twoOk, h1, h2, hm,
      lit_step, lit_nil, nil_nil, dir_nil, eqIcase, lowerA, foundToDT, Found.setNum, Found.setName, mkDT, dim, dimL, ws_one, List.any, nq1, nq2, nq3] at pe ⊢ <;>
    simp [pe, foundToDT, Found.setName, mkDT, dim, dimL, nm, nq1, nq2, nq3] <;> (first | omega | (split <;> omega) | (intro h; omega))

def frac3 (ms : Nat) : List Char := [dch (ms / 100), dch (ms / 10 % 10), dch (ms % 10)]

/-- `%f` on exactly three ASCII digits at the end of the string -/
theorem dir_f3_end (full : Bool) (ms : Nat) (hms : ms ≤ 999) (fd : Found) :
    matchItems full [.dir 'f'] (frac3 ms) fd = some (fd.setNum 'f' ms 3) := by
  have h1 : ms / 100 < 10 := by omega
  have h2 : ms / 10 % 10 < 10 := by omega
  have h3 : ms % 10 < 10 := by omega
  have hv : ((ms / 100) * 10 + ms / 10 % 10) * 10 + ms % 10 = ms := by omega
  cases full <;>
  simp [matchItems, numAlts, frac3, consumeAlt, List.findSome?, d09_dch, decVal_dch, dch_ne_space, h1, h2, h3, hv]

/-- `%H:%M:%S.%f` on `hh:mm:ss.fff` (three fraction digits): milliseconds, exactly -/
theorem time_hms_ms (h mi sc ms : Nat) (hh : h ≤ 23) (hm : mi ≤ 59) (hs' : sc ≤ 59) (hms : ms ≤ 999) :
    timeParser (pad2c h ++ [':'] ++ pad2c mi ++ [':'] ++ pad2c sc ++ ['.'] ++ frac3 ms) =
      .ok { y := 1900, mo := 1, d := 1, h := h, mi := mi, s := sc, us := ms * 1000 } := by
  have a1 : h / 10 < 10 := by omega
  have a2 : h % 10 < 10 := by omega
  have b1 : mi / 10 < 10 := by omega
  have b2 : mi % 10 < 10 := by omega
  have c1 : sc / 10 < 10 := by omega
  have c2 : sc % 10 < 10 := by omega
  have f3 : ms % 10 < 10 := by omega
  have eh : 10 * (h / 10) + h % 10 = h := by omega
  have em : 10 * (mi / 10) + mi % 10 = mi := by omega
  have es : 10 * (sc / 10) + sc % 10 = sc := by omega
  have hs : stripWs (pad2c h ++ [':'] ++ pad2c mi ++ [':'] ++ pad2c sc ++ ['.'] ++ frac3 ms) =
      pad2c h ++ [':'] ++ pad2c mi ++ [':'] ++ pad2c sc ++ ['.'] ++ frac3 ms := by
    have := stripWs_digits (h / 10) a1 (ms % 10) f3 ([dch (h % 10), ':', dch (mi / 10), dch (mi % 10), ':', dch (sc / 10), dch (sc % 10), '.',
      dch (ms / 100), dch (ms / 10 % 10)])
    simpa [pad2c, frac3] using this
  unfold timeParser
  rw [hs]
  have r1 : ∀ (full : Bool) (is : List FItem) (b : Nat) (rest : List Char) (fd : Found), b < 10 → matchItems full (.lit ':' :: is) (dch b :: rest) fd = none :=
    fun full is b rest fd hb => lit_rejects_digit full ':' is b hb rest fd (Or.inl rfl)
  have r1' : ∀ (full : Bool) (is : List FItem) (b : Nat) (rest : List Char) (fd : Found), b < 10 → matchItems full (.lit '.' :: is) (dch b :: rest) fd = none :=
    fun full is b rest fd hb => lit_rejects_digit full '.' is b hb rest fd (Or.inr (Or.inl rfl))
  have r2 : ∀ (c : Char) (rest : List Char) (fd : Found), matchItems true [] (c :: rest) fd = none := fun c rest fd => end_rejects _ _ _
  have r3 : ∀ (is : List FItem) (b : Nat) (rest : List Char) (fd : Found), b < 10 → matchItems true (.ws :: is) (dch b :: rest) fd = none :=
    fun is b rest fd hb => ws_rejects_digit true is b hb rest fd
  have r4 : ∀ (is : List FItem) (rest : List Char) (fd : Found), matchItems true (.ws :: is) (':' :: rest) fd = none :=
    fun is rest fd => ws_rejects_char true is ':' (Or.inl rfl) rest fd
  have r5 : ∀ (is : List FItem) (rest : List Char) (fd : Found), matchItems true (.ws :: is) ('.' :: rest) fd = none :=
    fun is rest fd => ws_rejects_char true is '.' (Or.inr rfl) rest fd
  have nh : ¬ 23 < h := by omega
  have nm : ¬ 59 < mi := by omega
  have ns : ¬ 59 < sc := by omega
  have s61 : sc ≤ 61 := by omega
  have kf := dir_f3_end true ms hms
  have kf' := dir_f3_end false ms hms
  have hfrac : [dch (ms / 100), dch (ms / 10 % 10), dch (ms % 10)] = frac3 ms := rfl
  simp [ws_nil, nh, nm, ns, s61, Gen.timeDirectivesC, timeParserGo, dpStrptimeC, strptimeC, parseFmt, numAlts, nameAlts, isWs, pad2c,
    dir_two_H _ _ _ _ a1 a2, dir_two_M _ _ _ _ b1 b2, dir_two_S _ _ _ _ c1 c2, dir_two_I _ _ _ _ a1 a2, r1, r1', r2, r3, r4, r5,
    a1, a2, b1, b2, c1, c2, eh, em, es, twoOk, hh, hm,
    lit_step, lit_nil, nil_nil, dir_nil, eqIcase, lowerA, foundToDT, Found.setNum, mkDT, dim, dimL, hfrac, kf, kf',
    timeMatcherMicros, timeMatcherItems, List.any]

end DP
