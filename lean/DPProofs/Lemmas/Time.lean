import DPModel.DP.Parser
/-!
# Field-wise lemmas for the CPython `_strptime` matcher on rendered (zero-padded ASCII) fields

Each lemma describes one directive on two ASCII digit characters followed by text on which the *one-digit* reading cannot continue
(`hrest`): the directive either takes both digits (when its ordered alternation accepts them) and hands over to the rest of the format,
or the whole match fails.  They are proved by enumerating the 10 × 10 digit pairs.
-/
namespace DP

def dch (n : Nat) : Char := Char.ofNat (48 + n)

theorem dch_cases (n : Nat) (h : n < 10) : n = 0 ∨ n = 1 ∨ n = 2 ∨ n = 3 ∨ n = 4 ∨ n = 5 ∨ n = 6 ∨ n = 7 ∨ n = 8 ∨ n = 9 := by omega

/-- a literal that is not a digit rejects text that starts with a digit -/
theorem lit_rejects_digit (full : Bool) (c : Char) (is : List FItem) (b : Nat) (hb : b < 10) (rest : List Char) (fd : Found)
    (hc : c = ':' ∨ c = '.' ∨ c = ' ' ∨ c = '-' ∨ c = '/') :
    matchItems full (.lit c :: is) (dch b :: rest) fd = none := by
  rcases dch_cases b hb with rfl | rfl | rfl | rfl | rfl | rfl | rfl | rfl | rfl | rfl <;>
  rcases hc with rfl | rfl | rfl | rfl | rfl <;> simp [matchItems, eqIcase, dch, lowerA]

/-- after the last item (full match) remaining text is a failure -/
theorem end_rejects (c : Char) (rest : List Char) (fd : Found) : matchItems true [] (c :: rest) fd = none := by
  simp [matchItems]

/-- whitespace in the format rejects text that starts with a digit -/
theorem ws_rejects_digit (full : Bool) (is : List FItem) (b : Nat) (hb : b < 10) (rest : List Char) (fd : Found) :
    matchItems full (.ws :: is) (dch b :: rest) fd = none := by
  rcases dch_cases b hb with rfl | rfl | rfl | rfl | rfl | rfl | rfl | rfl | rfl | rfl <;>
  simp [matchItems, wsPrefixLen, isWs, dch, asciiDigit]

/-- what each two-digit field accepts -/
def twoOk : Char → Nat → Bool
  | 'H', v => decide (v ≤ 23)
  | 'M', v => decide (v ≤ 59)
  | 'S', v => decide (v ≤ 61)
  | 'I', v => decide (1 ≤ v ∧ v ≤ 12)
  | 'm', v => decide (1 ≤ v ∧ v ≤ 12)
  | 'd', v => decide (1 ≤ v ∧ v ≤ 31)
  | 'y', _ => true
  | _, _ => false

/-- field lemma for `%H`: two ASCII digits, when the one-digit reading cannot continue -/
theorem dir_two_H (full : Bool) (is : List FItem) (a b : Nat) (ha : a < 10) (hb : b < 10) (rest : List Char) (fd : Found)
    (hrest : ∀ fd', matchItems full is (dch b :: rest) fd' = none) :
    matchItems full (.dir 'H' :: is) (dch a :: dch b :: rest) fd =
      if twoOk 'H' (10 * a + b) then matchItems full is rest (fd.setNum 'H' (10 * a + b) 2) else none := by
  rcases dch_cases a ha with rfl | rfl | rfl | rfl | rfl | rfl | rfl | rfl | rfl | rfl <;>
  rcases dch_cases b hb with rfl | rfl | rfl | rfl | rfl | rfl | rfl | rfl | rfl | rfl <;>
  (simp only [dch] at hrest ⊢
   simp [matchItems, numAlts, consumeAlt, CT.test, isDecDigit, asciiDigit, decVal, d09, d19, twoOk, List.findSome?, hrest]
   try (split <;> simp_all))

/-- field lemma for `%M`: two ASCII digits, when the one-digit reading cannot continue -/
theorem dir_two_M (full : Bool) (is : List FItem) (a b : Nat) (ha : a < 10) (hb : b < 10) (rest : List Char) (fd : Found)
    (hrest : ∀ fd', matchItems full is (dch b :: rest) fd' = none) :
    matchItems full (.dir 'M' :: is) (dch a :: dch b :: rest) fd =
      if twoOk 'M' (10 * a + b) then matchItems full is rest (fd.setNum 'M' (10 * a + b) 2) else none := by
  rcases dch_cases a ha with rfl | rfl | rfl | rfl | rfl | rfl | rfl | rfl | rfl | rfl <;>
  rcases dch_cases b hb with rfl | rfl | rfl | rfl | rfl | rfl | rfl | rfl | rfl | rfl <;>
  (simp only [dch] at hrest ⊢
   simp [matchItems, numAlts, consumeAlt, CT.test, isDecDigit, asciiDigit, decVal, d09, d19, twoOk, List.findSome?, hrest]
   try (split <;> simp_all))

/-- field lemma for `%S`: two ASCII digits, when the one-digit reading cannot continue -/
theorem dir_two_S (full : Bool) (is : List FItem) (a b : Nat) (ha : a < 10) (hb : b < 10) (rest : List Char) (fd : Found)
    (hrest : ∀ fd', matchItems full is (dch b :: rest) fd' = none) :
    matchItems full (.dir 'S' :: is) (dch a :: dch b :: rest) fd =
      if twoOk 'S' (10 * a + b) then matchItems full is rest (fd.setNum 'S' (10 * a + b) 2) else none := by
  rcases dch_cases a ha with rfl | rfl | rfl | rfl | rfl | rfl | rfl | rfl | rfl | rfl <;>
  rcases dch_cases b hb with rfl | rfl | rfl | rfl | rfl | rfl | rfl | rfl | rfl | rfl <;>
  (simp only [dch] at hrest ⊢
   simp [matchItems, numAlts, consumeAlt, CT.test, isDecDigit, asciiDigit, decVal, d09, d19, twoOk, List.findSome?, hrest]
   try (split <;> simp_all))

/-- field lemma for `%I`: two ASCII digits, when the one-digit reading cannot continue -/
theorem dir_two_I (full : Bool) (is : List FItem) (a b : Nat) (ha : a < 10) (hb : b < 10) (rest : List Char) (fd : Found)
    (hrest : ∀ fd', matchItems full is (dch b :: rest) fd' = none) :
    matchItems full (.dir 'I' :: is) (dch a :: dch b :: rest) fd =
      if twoOk 'I' (10 * a + b) then matchItems full is rest (fd.setNum 'I' (10 * a + b) 2) else none := by
  rcases dch_cases a ha with rfl | rfl | rfl | rfl | rfl | rfl | rfl | rfl | rfl | rfl <;>
  rcases dch_cases b hb with rfl | rfl | rfl | rfl | rfl | rfl | rfl | rfl | rfl | rfl <;>
  (simp only [dch] at hrest ⊢
   simp [matchItems, numAlts, consumeAlt, CT.test, isDecDigit, asciiDigit, decVal, d09, d19, twoOk, List.findSome?, hrest]
   try (split <;> simp_all))

/-- field lemma for `%m`: two ASCII digits, when the one-digit reading cannot continue -/
theorem dir_two_m (full : Bool) (is : List FItem) (a b : Nat) (ha : a < 10) (hb : b < 10) (rest : List Char) (fd : Found)
    (hrest : ∀ fd', matchItems full is (dch b :: rest) fd' = none) :
    matchItems full (.dir 'm' :: is) (dch a :: dch b :: rest) fd =
      if twoOk 'm' (10 * a + b) then matchItems full is rest (fd.setNum 'm' (10 * a + b) 2) else none := by
  rcases dch_cases a ha with rfl | rfl | rfl | rfl | rfl | rfl | rfl | rfl | rfl | rfl <;>
  rcases dch_cases b hb with rfl | rfl | rfl | rfl | rfl | rfl | rfl | rfl | rfl | rfl <;>
  (simp only [dch] at hrest ⊢
   simp [matchItems, numAlts, consumeAlt, CT.test, isDecDigit, asciiDigit, decVal, d09, d19, twoOk, List.findSome?, hrest]
   try (split <;> simp_all))

/-- field lemma for `%d`: two ASCII digits, when the one-digit reading cannot continue -/
theorem dir_two_d (full : Bool) (is : List FItem) (a b : Nat) (ha : a < 10) (hb : b < 10) (rest : List Char) (fd : Found)
    (hrest : ∀ fd', matchItems full is (dch b :: rest) fd' = none) :
    matchItems full (.dir 'd' :: is) (dch a :: dch b :: rest) fd =
      if twoOk 'd' (10 * a + b) then matchItems full is rest (fd.setNum 'd' (10 * a + b) 2) else none := by
  rcases dch_cases a ha with rfl | rfl | rfl | rfl | rfl | rfl | rfl | rfl | rfl | rfl <;>
  rcases dch_cases b hb with rfl | rfl | rfl | rfl | rfl | rfl | rfl | rfl | rfl | rfl <;>
  (simp only [dch] at hrest ⊢
   simp [matchItems, numAlts, consumeAlt, CT.test, isDecDigit, asciiDigit, decVal, d09, d19, twoOk, List.findSome?, hrest]
   try (split <;> simp_all))

/-- field lemma for `%y`: two ASCII digits, when the one-digit reading cannot continue -/
theorem dir_two_y (full : Bool) (is : List FItem) (a b : Nat) (ha : a < 10) (hb : b < 10) (rest : List Char) (fd : Found)
    (hrest : ∀ fd', matchItems full is (dch b :: rest) fd' = none) :
    matchItems full (.dir 'y' :: is) (dch a :: dch b :: rest) fd =
      if twoOk 'y' (10 * a + b) then matchItems full is rest (fd.setNum 'y' (10 * a + b) 2) else none := by
  rcases dch_cases a ha with rfl | rfl | rfl | rfl | rfl | rfl | rfl | rfl | rfl | rfl <;>
  rcases dch_cases b hb with rfl | rfl | rfl | rfl | rfl | rfl | rfl | rfl | rfl | rfl <;>
  (simp only [dch] at hrest ⊢
   simp [matchItems, numAlts, consumeAlt, CT.test, isDecDigit, asciiDigit, decVal, d09, d19, twoOk, List.findSome?, hrest]
   try (split <;> simp_all))

theorem isWs_dch (n : Nat) (h : n < 10) : isWs (dch n) = false := by
  rcases dch_cases n h with rfl | rfl | rfl | rfl | rfl | rfl | rfl | rfl | rfl | rfl <;> simp [isWs, dch, asciiDigit]

theorem lit_step (full : Bool) (c x : Char) (is : List FItem) (rest : List Char) (fd : Found) :
    matchItems full (.lit c :: is) (x :: rest) fd = if eqIcase c x then matchItems full is rest fd else none := by
  simp [matchItems]
theorem lit_nil (full : Bool) (c : Char) (is : List FItem) (fd : Found) : matchItems full (.lit c :: is) [] fd = none := by
  simp [matchItems]
theorem nil_nil (full : Bool) (fd : Found) : matchItems full [] [] fd = some fd := by simp [matchItems]
theorem dir_nil (full : Bool) (d : Char) (hd : d = 'H' ∨ d = 'M' ∨ d = 'S' ∨ d = 'I') (is : List FItem) (fd : Found) :
    matchItems full (.dir d :: is) [] fd = none := by
  rcases hd with rfl | rfl | rfl | rfl <;> simp [matchItems, numAlts, consumeAlt, List.findSome?]

theorem ws_nil (full : Bool) (is : List FItem) (fd : Found) : matchItems full (.ws :: is) [] fd = none := by
  simp [matchItems, wsPrefixLen]

def pad2c (n : Nat) : List Char := [dch (n / 10), dch (n % 10)]

theorem stripWs_digits (a : Nat) (ha : a < 10) (b : Nat) (hb : b < 10) (mid : List Char) :
    stripWs (dch a :: (mid ++ [dch b])) = dch a :: (mid ++ [dch b]) := by
  unfold stripWs
  simp [List.dropWhile, isWs_dch a ha, isWs_dch b hb, List.reverse_cons]

/-- `%H:%M` on `hh:mm` -/
theorem time_hm (h mi : Nat) (hh : h ≤ 23) (hm : mi ≤ 59) :
    timeParser (pad2c h ++ [':'] ++ pad2c mi) = .ok { y := 1900, mo := 1, d := 1, h := h, mi := mi } := by
  have a1 : h / 10 < 10 := by omega
  have a2 : h % 10 < 10 := by omega
  have b1 : mi / 10 < 10 := by omega
  have b2 : mi % 10 < 10 := by omega
  have eh : 10 * (h / 10) + h % 10 = h := by omega
  have em : 10 * (mi / 10) + mi % 10 = mi := by omega
  have hs : stripWs (pad2c h ++ [':'] ++ pad2c mi) = pad2c h ++ [':'] ++ pad2c mi := by
    have := stripWs_digits (h / 10) a1 (mi % 10) b2 [dch (h % 10), ':', dch (mi / 10)]
    simpa [pad2c] using this
  unfold timeParser
  rw [hs]
  have r1 : ∀ (is : List FItem) (b : Nat) (rest : List Char) (fd : Found), b < 10 → matchItems true (.lit ':' :: is) (dch b :: rest) fd = none :=
    fun is b rest fd hb => lit_rejects_digit true ':' is b hb rest fd (Or.inl rfl)
  have r2 : ∀ (b : Nat) (rest : List Char) (fd : Found), matchItems true [] (dch b :: rest) fd = none := fun b rest fd => end_rejects _ _ _
  have r3 : ∀ (is : List FItem) (b : Nat) (rest : List Char) (fd : Found), b < 10 → matchItems true (.ws :: is) (dch b :: rest) fd = none :=
    fun is b rest fd hb => ws_rejects_digit true is b hb rest fd
  have nh : ¬ 23 < h := by omega
  have nm : ¬ 59 < mi := by omega
  simp [ws_nil, nh, nm, Gen.timeDirectivesC, timeParserGo, dpStrptimeC, strptimeC, parseFmt, numAlts, nameAlts, isWs, pad2c,
    dir_two_H true _ _ _ a1 a2, dir_two_M true _ _ _ b1 b2, dir_two_I true _ _ _ a1 a2, r1, r2, r3, a1, a2, b1, b2, eh, em, twoOk, hh, hm,
    lit_step, lit_nil, nil_nil, dir_nil, eqIcase, lowerA, foundToDT, Found.setNum, mkDT, dim, dimL]


/-- `%H:%M:%S` on `hh:mm:ss` -/
theorem time_hms (h mi sc : Nat) (hh : h ≤ 23) (hm : mi ≤ 59) (hs' : sc ≤ 59) :
    timeParser (pad2c h ++ [':'] ++ pad2c mi ++ [':'] ++ pad2c sc) = .ok { y := 1900, mo := 1, d := 1, h := h, mi := mi, s := sc } := by
  have a1 : h / 10 < 10 := by omega
  have a2 : h % 10 < 10 := by omega
  have b1 : mi / 10 < 10 := by omega
  have b2 : mi % 10 < 10 := by omega
  have c1 : sc / 10 < 10 := by omega
  have c2 : sc % 10 < 10 := by omega
  have eh : 10 * (h / 10) + h % 10 = h := by omega
  have em : 10 * (mi / 10) + mi % 10 = mi := by omega
  have es : 10 * (sc / 10) + sc % 10 = sc := by omega
  have hs : stripWs (pad2c h ++ [':'] ++ pad2c mi ++ [':'] ++ pad2c sc) = pad2c h ++ [':'] ++ pad2c mi ++ [':'] ++ pad2c sc := by
    have := stripWs_digits (h / 10) a1 (sc % 10) c2 [dch (h % 10), ':', dch (mi / 10), dch (mi % 10), ':', dch (sc / 10)]
    simpa [pad2c] using this
  unfold timeParser
  rw [hs]
  have r1 : ∀ (is : List FItem) (b : Nat) (rest : List Char) (fd : Found), b < 10 → matchItems true (.lit ':' :: is) (dch b :: rest) fd = none :=
    fun is b rest fd hb => lit_rejects_digit true ':' is b hb rest fd (Or.inl rfl)
  have r2 : ∀ (b : Nat) (rest : List Char) (fd : Found), matchItems true [] (dch b :: rest) fd = none := fun b rest fd => end_rejects _ _ _
  have nh : ¬ 23 < h := by omega
  have nm : ¬ 59 < mi := by omega
  have ns : ¬ 59 < sc := by omega
  have s61 : sc ≤ 61 := by omega
  simp [ws_nil, nh, nm, ns, s61, Gen.timeDirectivesC, timeParserGo, dpStrptimeC, strptimeC, parseFmt, numAlts, nameAlts, isWs, pad2c,
    dir_two_H true _ _ _ a1 a2, dir_two_M true _ _ _ b1 b2, dir_two_S true _ _ _ c1 c2, r1, r2, a1, a2, b1, b2, c1, c2, eh, em, es, twoOk, hh, hm,
    lit_step, lit_nil, nil_nil, dir_nil, eqIcase, lowerA, foundToDT, Found.setNum, mkDT, dim, dimL]

end DP
