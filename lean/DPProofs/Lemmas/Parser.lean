import DPModel.DP.Parser
/-! Helper lemmas about stage 2 of the absolute parser: the value/token invariant. -/
namespace DP

/-- whenever a component has a (truthy) value, the token it came from is recorded -/
def PS.Inv (p : PS) : Prop :=
  (truthy p.day = true → p.tokDay.isSome) ∧ (truthy p.month = true → p.tokMonth.isSome) ∧ (truthy p.year = true → p.tokYear.isSome)

theorem inv_init : PS.Inv {} := by simp [PS.Inv, truthy]

theorem inv_setTC (p : PS) (c : Comp) (v : Nat) (t : TokRef) (h : p.Inv) : ((p.setT c t).setC c v).Inv := by
  obtain ⟨h1, h2, h3⟩ := h
  cases c <;> simp [PS.Inv, PS.setT, PS.setC] <;> refine ⟨?_, ?_⟩ <;> assumption

theorem inv_of_fields (p q : PS) (h : p.Inv) (e1 : q.day = p.day) (e2 : q.month = p.month) (e3 : q.year = p.year)
    (f1 : q.tokDay = p.tokDay) (f2 : q.tokMonth = p.tokMonth) (f3 : q.tokYear = p.tokYear) : q.Inv := by
  unfold PS.Inv at *; rw [e1, e2, e3, f1, f2, f3]; exact h

theorem inv_tryDir (p r : PS) (c : Comp) (t : TI) (f : TI → Option Nat) (h : p.Inv) (hr : tryDir p c t f = some r) : r.Inv := by
  unfold tryDir at hr
  split at hr
  · cases hr
  · rename_i v hv
    split at hr
    · injection hr with hr; subst hr
      exact inv_setTC _ c v _ (inv_of_fields p _ h rfl rfl rfl rfl rfl rfl)
    · split at hr
      · rename_i prev hprev
        split at hr
        · split at hr
          · cases hr
          · injection hr with hr; subst hr
            exact inv_setTC _ c v _ (inv_of_fields p _ h rfl rfl rfl rfl rfl rfl)
        · cases hr
      · cases hr

theorem inv_tryDirs (p r : PS) (c : Comp) (t : TI) (fs : List (TI → Option Nat)) (h : p.Inv) (hr : tryDirs p c t fs = some r) : r.Inv := by
  induction fs with
  | nil => cases hr
  | cons f fs ih =>
    unfold tryDirs at hr
    split at hr
    · rename_i r' hr'
      injection hr with hr; subst hr
      exact inv_tryDir p _ c t f h hr'
    · exact ih hr

theorem inv_parseNumber (p r : PS) (t : TI) (order : List Comp) (h : p.Inv) (hr : parseNumber p t order = .ok r) : r.Inv := by
  induction order with
  | nil => cases hr
  | cons c cs ih =>
    unfold parseNumber at hr
    split at hr
    · exact ih hr
    · split at hr
      · rename_i r' hr'
        injection hr with hr; subst hr
        have := inv_tryDirs p r' c t _ h hr'
        split
        · exact inv_of_fields r' _ this rfl rfl rfl rfl rfl rfl
        · exact this
      · exact ih hr

theorem inv_alphaMonthStep (p r : PS) (t : TI) (mv : Option Nat) (h : p.Inv) (hr : alphaMonthStep p t mv = some r) : r.Inv := by
  obtain ⟨h1, h2, h3⟩ := h
  unfold alphaMonthStep at hr
  cases mv with
  | none => cases hr
  | some v =>
    simp only at hr
    split at hr
    · injection hr with hr; subst hr
      exact ⟨h1, fun _ => rfl, h3⟩
    · split at hr
      · injection hr with hr; subst hr
        exact ⟨fun hd => h2 hd, fun _ => rfl, h3⟩
      · cases hr

theorem inv_parseAlpha (p r : PS) (t : TI) (h : p.Inv) (hr : parseAlpha p t = .ok r) : r.Inv := by
  unfold parseAlpha at hr
  split at hr
  · injection hr with hr; subst hr; exact h
  · split at hr
    · rename_i r' hr'
      injection hr with hr; subst hr
      exact inv_alphaMonthStep p _ t _ h hr'
    · split at hr
      · rename_i r' hr'
        injection hr with hr; subst hr
        exact inv_alphaMonthStep p _ t _ h hr'
      · cases hr

theorem inv_initStep (st : PSettings) (toks : List TI) (i : Nat) (t : TI) (p r : PS) (h : p.Inv)
    (hr : initStep st toks i t p = .ok r) : r.Inv := by
  unfold initStep at hr
  split at hr
  · injection hr with hr; subst hr
    exact inv_of_fields p _ h rfl rfl rfl rfl rfl rfl
  · split at hr
    · exact inv_parseNumber p r t _ h hr
    · exact inv_parseAlpha p r t h hr

theorem inv_initLoop (st : PSettings) (toks : List TI) (fuel i : Nat) (p r : PS) (h : p.Inv)
    (hr : initLoop st toks fuel i p = .ok r) : r.Inv := by
  induction fuel generalizing i p with
  | zero => unfold initLoop at hr; injection hr with hr; subst hr; exact h
  | succ n ih =>
    unfold initLoop at hr
    split at hr
    · injection hr with hr; subst hr; exact h
    · rename_i t ht
      split at hr
      · exact ih _ _ h hr
      · split at hr
        · exact ih _ _ h hr
        · split at hr
          · cases hr
          · rename_i p' hp'
            exact ih _ _ (inv_initStep st toks i t p p' h hp') hr

theorem inv_fillZip (xs : List (Comp × (TI × Comp))) (q r : PS) (h : q.Inv)
    (hr : xs.foldlM (fun (q : PS) (x : Comp × (TI × Comp)) =>
      match x.2.1.intVal with
      | some v => pure ((q.setC x.1 v).setT x.1 (.plain x.2.1.text))
      | none => Except.error (PyErr.value .other)) q = .ok r) : r.Inv := by
  induction xs generalizing q with
  | nil => simp only [List.foldlM, pure, Except.pure] at hr; injection hr with hr; subst hr; exact h
  | cons u us ih =>
    simp only [List.foldlM, bind, Except.bind] at hr
    split at hr
    · cases hr
    · rename_i q' hq'
      refine ih q' ?_ hr
      split at hq'
      · rename_i v hv
        simp only [pure, Except.pure] at hq'
        injection hq' with hq'; subst hq'
        obtain ⟨h1, h2, h3⟩ := h
        cases u.1 <;> simp [PS.Inv, PS.setT, PS.setC] <;> refine ⟨?_, ?_⟩ <;> assumption
      · cases hq'

theorem inv_fillUnknown (p r : PS) (h : p.Inv) (hr : fillUnknown p = .ok r) : r.Inv := by
  unfold fillUnknown at hr
  exact inv_fillZip _ p r h hr

def withNow (st : PSettings) (now' : DT) (off' : Option Int) : PSettings := { st with now := now', nowOff := off' }

theorem initLoop_withNow (st : PSettings) (now' : DT) (off') (toks : List TI) (fuel i : Nat) (p : PS) :
    initLoop (withNow st now' off') toks fuel i p = initLoop st toks fuel i p := by
  induction fuel generalizing i p with
  | zero => rfl
  | succ n ih =>
    unfold initLoop
    simp only [ih]
    rfl

theorem pick_truthy (v : Option Nat) (a b : Nat) (h : truthy v = true) : pick v a = pick v b := by
  cases v with
  | none => simp [truthy] at h
  | some x => simp [truthy] at h; simp [pick, h]

theorem missing_nil (q : PS) (h : missingOf q = []) : truthy q.day = true ∧ truthy q.month = true ∧ truthy q.year = true := by
  unfold missingOf at h
  simp only [List.filter_cons, List.filter_nil, PS.getC] at h
  cases hd : truthy q.day <;> cases hm : truthy q.month <;> cases hy : truthy q.year <;> simp [hd, hm, hy] at h <;> simp

theorem correctTimeFrame_now (st : PSettings) (now' : DT) (off') (p : PS) (t : DT) (h : st.preferDates = .currentPeriod) :
    correctTimeFrame (withNow st now' off') p t = correctTimeFrame st p t := by
  unfold correctTimeFrame
  simp [withNow, h, isPast, isFuture, nowCmp]

theorem parseState_withNow (st : PSettings) (now' : DT) (off') (toks : List TI) :
    parseState (withNow st now' off') toks = parseState st toks := by
  unfold parseState; rw [initLoop_withNow]

theorem inv_parseState (st : PSettings) (toks : List TI) (q : PS) (h : parseState st toks = .ok q) : q.Inv := by
  unfold parseState at h
  split at h
  · cases h
  · rename_i p hp
    exact inv_fillUnknown p q (inv_initLoop st toks _ 0 {} p inv_init hp) h

end DP
