import DPProofs.Lemmas.Parser
/-! Stage-1 records of rendered tokens (what `classify` returns on them is proved in `Lemmas/Classify.lean`). -/
namespace DP

/-- a 1–2 digit numeric token of value `v` (`two` = written with two digits) -/
def tiSmall (text : List Char) (v : Nat) (two : Bool) (micro : Option (List Char)) (dot : Bool) : TI :=
  { text := text, ty := 0,
    m := if 1 ≤ v ∧ v ≤ 12 then some v else none,
    d := if 1 ≤ v ∧ v ≤ 31 then some v else none,
    y2 := if two then some (pivotYear v) else none,
    y4 := none, intVal := some v, micro := micro, dotAfterSame := dot }

/-- a four-digit year token -/
def tiYear4 (text : List Char) (y : Nat) (micro : Option (List Char)) (dot : Bool) : TI :=
  { text := text, ty := 0, y4 := if 1 ≤ y then some y else none, intVal := some y, micro := micro, dotAfterSame := dot }

/-- a clock-time token (`H:M[:S]`): only the colon flag matters to stage 2, the text goes to `time_parser` -/
def tiClock (text : List Char) (micro : Option (List Char)) (dot : Bool) (iv : Option Nat) : TI :=
  { text := text, ty := 0, colon := true, micro := micro, dotAfterSame := dot, intVal := iv }

/-- a month-name token (full via %B, or abbreviated via %b) -/
def tiMonthFull (text : List Char) (m : Nat) (merid : Option (List Char)) : TI :=
  { text := text, ty := 1, mon := some m, merid := merid }
def tiMonthAbbr (text : List Char) (m : Nat) (alsoFull : Bool) (merid : Option (List Char)) : TI :=
  { text := text, ty := 1, mon := if alsoFull then some m else none, monb := some m, merid := merid }

/-- a weekday-name token -/
def tiWeekday (text : List Char) (idx : Nat) (merid : Option (List Char)) : TI :=
  { text := text, ty := 1, wk := some idx, merid := merid }

def fieldTI (c : Comp) (ty tm td : List Char) (y m d : Nat) (pm pd : Bool) (mic : Comp → Option (List Char)) (dot : Bool) : TI :=
  match c with
  | .year => tiYear4 ty y (mic .year) dot
  | .month => tiSmall tm m pm (mic .month) dot
  | .day => tiSmall td d pd (mic .day) dot

def allOrders : List (List Comp) :=
  [[.day, .month, .year], [.day, .year, .month], [.month, .day, .year], [.month, .year, .day], [.year, .day, .month], [.year, .month, .day]]

theorem timeDetect_plain (toks : List TI) (i : Nat) (t : TI) (hm : t.hmMerge = none) (hc : t.colon = false)
    (hall : ∀ t' ∈ toks, t'.merid = none) : timeDetect toks i t = none := by
  have hmer : ∀ j : Nat, (toks[j]?).bind TI.merid = none := by
    intro j
    cases h : toks[j]? with
    | none => rfl
    | some mt => exact hall mt (List.mem_of_getElem? h)
  unfold timeDetect
  simp [hm, hc, hmer]

/-- the `__init__` loop on tokens none of which takes part in time detection or is skipped -/
def plainLoop (order : List Comp) : PS → List TI → Except PyErr PS
  | p, [] => .ok p
  | p, t :: ts =>
    match (if t.ty = 0 then parseNumber p t order else parseAlpha p t) with
    | .error e => .error e
    | .ok p' => plainLoop order p' ts

theorem skipIndex_tryDir (p r : PS) (c : Comp) (t : TI) (f) (hr : tryDir p c t f = some r) : r.skipIndex = p.skipIndex ∧ r.timeSet = p.timeSet := by
  unfold tryDir at hr
  split at hr
  · cases hr
  · split at hr
    · injection hr with hr; subst hr; cases c <;> exact ⟨rfl, rfl⟩
    · split at hr
      · split at hr
        · split at hr
          · cases hr
          · injection hr with hr; subst hr; cases c <;> exact ⟨rfl, rfl⟩
        · cases hr
      · cases hr

theorem skipIndex_tryDirs (p r : PS) (c : Comp) (t : TI) (fs) (hr : tryDirs p c t fs = some r) : r.skipIndex = p.skipIndex ∧ r.timeSet = p.timeSet := by
  induction fs with
  | nil => cases hr
  | cons f fs ih =>
    unfold tryDirs at hr
    split at hr
    · rename_i r' hr'; injection hr with hr; subst hr; exact skipIndex_tryDir p _ c t f hr'
    · exact ih hr

theorem skipIndex_parseNumber (p r : PS) (t : TI) (order : List Comp) (hr : parseNumber p t order = .ok r) :
    r.skipIndex = p.skipIndex ∧ r.timeSet = p.timeSet := by
  induction order with
  | nil => cases hr
  | cons c cs ih =>
    unfold parseNumber at hr
    split at hr
    · exact ih hr
    · split at hr
      · rename_i r' hr'
        injection hr with hr; subst hr
        have := skipIndex_tryDirs p r' c t _ hr'
        split <;> exact this
      · exact ih hr

theorem skipIndex_parseAlpha (p r : PS) (t : TI) (hr : parseAlpha p t = .ok r) : r.skipIndex = p.skipIndex ∧ r.timeSet = p.timeSet := by
  have key : ∀ mv r', alphaMonthStep p t mv = some r' → r'.skipIndex = p.skipIndex ∧ r'.timeSet = p.timeSet := by
    intro mv r' h
    unfold alphaMonthStep at h
    cases mv with
    | none => cases h
    | some v =>
      simp only at h
      split at h
      · injection h with h; subst h; exact ⟨rfl, rfl⟩
      · split at h
        · injection h with h; subst h; exact ⟨rfl, rfl⟩
        · cases h
  unfold parseAlpha at hr
  split at hr
  · injection hr with hr; subst hr; exact ⟨rfl, rfl⟩
  · split at hr
    · rename_i r' hr'; injection hr with hr; subst hr; exact key _ _ hr'
    · split at hr
      · rename_i r' hr'; injection hr with hr; subst hr; exact key _ _ hr'
      · cases hr

/-- tokens that cannot start or extend a time token and are not skip tokens -/
def PlainTok (t : TI) : Prop := t.merid = none ∧ t.hmMerge = none ∧ t.colon = false ∧ t.skip = false

theorem initLoop_plain (st : PSettings) (toks : List TI) (hall : ∀ t ∈ toks, PlainTok t) :
    ∀ (fuel i : Nat) (p : PS), p.skipIndex = [] → toks.length < fuel + i →
      initLoop st toks fuel i p = plainLoop st.order p (toks.drop i) := by
  intro fuel
  induction fuel with
  | zero =>
    intro i p _ hlen
    have : toks.drop i = [] := List.drop_eq_nil_of_le (by omega)
    rw [this]; rfl
  | succ n ih =>
    intro i p hsk hlen
    unfold initLoop
    cases hget : toks[i]? with
    | none =>
      have : toks.drop i = [] := List.drop_eq_nil_of_le (by
        have := List.getElem?_eq_none_iff.mp hget; omega)
      rw [this]; rfl
    | some t =>
      have hmem : t ∈ toks := List.mem_of_getElem? hget
      obtain ⟨h1, h2, h3, h4⟩ := hall t hmem
      have hdrop : toks.drop i = t :: toks.drop (i + 1) := by
        have hi : i < toks.length := by
          have := (List.getElem?_eq_some_iff.mp hget).1; exact this
        rw [List.drop_eq_getElem_cons hi]
        have := (List.getElem?_eq_some_iff.mp hget).2
        rw [this]
      simp only [hsk, List.contains_nil, Bool.false_eq_true, if_false, h4]
      have htd : timeDetect toks i t = none := timeDetect_plain toks i t h2 h3 (fun t' ht' => (hall t' ht').1)
      unfold initStep
      simp only [htd]
      have hnone : (if p.timeSet = true then none else (none : Option (List Char × List Nat))) = none := by split <;> rfl
      simp only [hnone]
      rw [hdrop]
      unfold plainLoop
      cases hstep : (if t.ty = 0 then parseNumber p t st.order else parseAlpha p t) with
      | error e => rfl
      | ok p' =>
        simp only
        have hsk' : p'.skipIndex = [] := by
          by_cases hty : t.ty = 0
          · simp only [hty, if_true] at hstep
            rw [(skipIndex_parseNumber p p' t _ hstep).1, hsk]
          · simp only [hty, if_false] at hstep
            rw [(skipIndex_parseAlpha p p' t hstep).1, hsk]
        exact ih (i + 1) p' hsk' (by omega)

theorem fieldTI_merid (c : Comp) (ty tm td : List Char) (y m d : Nat) (pm pd : Bool) (mic : Comp → Option (List Char)) (dot : Bool) :
    PlainTok (fieldTI c ty tm td y m d pm pd mic dot) := by
  unfold PlainTok
  cases c <;> simp [fieldTI, tiSmall, tiYear4]

end DP
