import DPModel.Py.Date
/-! Helper lemmas about the Gregorian core (not property statements). -/
namespace DP

theorem isLeap_iff (y : Nat) : isLeap y = true ↔ (y % 4 = 0 ∧ (y % 100 ≠ 0 ∨ y % 400 = 0)) := by
  unfold isLeap; simp

theorem dimL_le_31 (l : Bool) (m : Nat) : dimL l m ≤ 31 := by
  unfold dimL; split <;> (try split) <;> omega
theorem dimL_ge_28 (l : Bool) (m : Nat) : 28 ≤ dimL l m := by
  unfold dimL; split <;> (try split) <;> omega
theorem dim_le_31 (y m : Nat) : dim y m ≤ 31 := dimL_le_31 _ _
theorem dim_ge_28 (y m : Nat) : 28 ≤ dim y m := dimL_ge_28 _ _
theorem dim_pos (y m : Nat) : 1 ≤ dim y m := by have := dim_ge_28 y m; omega

theorem dim_feb (y : Nat) : dim y 2 = if isLeap y then 29 else 28 := by simp [dim, dimL]

/-- year step of `_days_before_year` -/
theorem dby_succ (y : Nat) (hy : 1 ≤ y) : dby (y + 1) = dby y + (if isLeap y = true then 366 else 365) := by
  unfold dby
  have e : y + 1 - 1 = (y - 1) + 1 := by omega
  rw [e]
  generalize hk : y - 1 = k
  have hyk : y = k + 1 := by omega
  subst hyk
  by_cases h4 : (k + 1) % 4 = 0 <;> by_cases h100 : (k + 1) % 100 = 0 <;> by_cases h400 : (k + 1) % 400 = 0 <;>
    simp [isLeap, h4, h100, h400] <;> omega


/-- closed form of `_days_before_year` on the 400/100/4/1 decomposition of `y - 1` -/
theorem dby_decomp (a b c e : Nat) (hb : b ≤ 3) (hc : c ≤ 24) (he : e ≤ 3) :
    dby (400 * a + 100 * b + 4 * c + e + 1) = 146097 * a + 36524 * b + 1461 * c + 365 * e := by
  unfold dby
  have h0 : 400 * a + 100 * b + 4 * c + e + 1 - 1 = 400 * a + 100 * b + 4 * c + e := by omega
  rw [h0]
  have d4 : (400 * a + 100 * b + 4 * c + e) / 4 = 100 * a + 25 * b + c := by omega
  have d100 : (400 * a + 100 * b + 4 * c + e) / 100 = 4 * a + b := by omega
  have d400 : (400 * a + 100 * b + 4 * c + e) / 400 = a := by omega
  rw [d4, d100, d400]
  omega

theorem isLeap_decomp (a b c e : Nat) (hb : b ≤ 3) (hc : c ≤ 24) (he : e ≤ 3) :
    isLeap (400 * a + 100 * b + 4 * c + e + 1) = decide (e = 3 ∧ (c ≠ 24 ∨ b = 3)) := by
  unfold isLeap
  have h4 : (400 * a + 100 * b + 4 * c + e + 1) % 4 = (e + 1) % 4 := by omega
  have h100 : (400 * a + 100 * b + 4 * c + e + 1) % 100 = (4 * c + e + 1) % 100 := by omega
  have h400 : (400 * a + 100 * b + 4 * c + e + 1) % 400 = (100 * b + 4 * c + e + 1) % 400 := by omega
  rw [h4, h100, h400]
  apply decide_eq_decide.mpr
  constructor
  · rintro ⟨h1, h2⟩
    refine ⟨by omega, ?_⟩
    rcases h2 with h2 | h2
    · left; omega
    · right; omega
  · rintro ⟨h1, h2⟩
    refine ⟨by omega, ?_⟩
    rcases h2 with h2 | h2
    · left; omega
    · by_cases hc24 : c = 24
      · right; omega
      · left; omega


/-- tail of `_ord2ymd`: exhaustive over the 366 day indices of both year kinds -/
theorem mdOfIdx_spec : ∀ leap : Bool, ∀ n : Fin 366, (n.val < (if leap then 366 else 365)) →
    (1 ≤ (mdOfIdx leap n.val).1 ∧ (mdOfIdx leap n.val).1 ≤ 12 ∧ 1 ≤ (mdOfIdx leap n.val).2 ∧
     (mdOfIdx leap n.val).2 ≤ dimL leap (mdOfIdx leap n.val).1 ∧
     dbmL leap (mdOfIdx leap n.val).1 + (mdOfIdx leap n.val).2 = n.val + 1) := by
  decide +kernel

theorem mdOfIdx_inv : ∀ leap : Bool, ∀ m : Fin 13, ∀ d : Fin 32, 1 ≤ m.val → 1 ≤ d.val → d.val ≤ dimL leap m.val →
    mdOfIdx leap (dbmL leap m.val + d.val - 1) = (m.val, d.val) := by
  decide +kernel

theorem doy_bound : ∀ leap : Bool, ∀ m : Fin 13, 1 ≤ m.val → dbmL leap m.val + dimL leap m.val ≤ (if leap then 366 else 365) := by
  decide +kernel

theorem doy365 : ∀ m : Fin 13, ∀ d : Fin 32, 1 ≤ m.val → 1 ≤ d.val → d.val ≤ dimL true m.val →
    dbmL true m.val + d.val - 1 = 365 → (m.val = 12 ∧ d.val = 31) := by
  decide +kernel

theorem ofOrd_core (a b c e doy : Nat) (hb : b ≤ 3) (hc : c ≤ 24) (he : e ≤ 3)
    (hdoy : doy < (if (e = 3 ∧ (c ≠ 24 ∨ b = 3)) then 366 else 365)) :
    ofOrd (146097 * a + 36524 * b + 1461 * c + 365 * e + doy + 1) =
      if doy = 365 then (400 * a + 100 * b + 4 * c + e + 1, 12, 31)
      else (400 * a + 100 * b + 4 * c + e + 1, (mdOfIdx (isLeap (400 * a + 100 * b + 4 * c + e + 1)) doy).1,
            (mdOfIdx (isLeap (400 * a + 100 * b + 4 * c + e + 1)) doy).2) := by
  have hdoy' : doy ≤ 365 := by split at hdoy <;> omega
  unfold ofOrd
  simp only [Nat.add_sub_cancel]
  generalize hn : 146097 * a + 36524 * b + 1461 * c + 365 * e + doy = n
  by_cases h365 : doy = 365
  · -- last day of a leap year
    have hleap : e = 3 ∧ (c ≠ 24 ∨ b = 3) := by
      by_cases hl : e = 3 ∧ (c ≠ 24 ∨ b = 3)
      · exact hl
      · rw [if_neg hl] at hdoy; omega
    obtain ⟨he3, hcb⟩ := hleap
    subst he3; subst h365
    simp only [if_true]
    by_cases hb3 : b = 3 ∧ c = 24
    · obtain ⟨rfl, rfl⟩ := hb3
      have q1 : n / 146097 = a := by omega
      have r1 : n % 146097 = 146096 := by omega
      have e2 : (146096 : Nat) / 36524 = 4 := by decide
      simp only [q1, r1, e2]
      simp
      omega
    · have hc' : c ≠ 24 := by
        rcases hcb with h | h
        · exact h
        · intro hc24; exact hb3 ⟨h, hc24⟩
      have q1 : n / 146097 = a := by omega
      have r1 : n % 146097 = 36524 * b + 1461 * c + 1460 := by omega
      have q2 : (36524 * b + 1461 * c + 1460) / 36524 = b := by omega
      have r2 : (36524 * b + 1461 * c + 1460) % 36524 = 1461 * c + 1460 := by omega
      have q3 : (1461 * c + 1460) / 1461 = c := by omega
      have r3 : (1461 * c + 1460) % 1461 = 1460 := by omega
      have e4 : (1460 : Nat) / 365 = 4 := by decide
      simp only [q1, r1, q2, r2, q3, r3, e4]
      simp
      omega
  · have hd : doy < 365 := by omega
    simp only [h365, if_false]
    have q1 : n / 146097 = a := by omega
    have r1 : n % 146097 = 36524 * b + 1461 * c + 365 * e + doy := by omega
    have q2 : (36524 * b + 1461 * c + 365 * e + doy) / 36524 = b := by omega
    have r2 : (36524 * b + 1461 * c + 365 * e + doy) % 36524 = 1461 * c + 365 * e + doy := by omega
    have q3 : (1461 * c + 365 * e + doy) / 1461 = c := by omega
    have r3 : (1461 * c + 365 * e + doy) % 1461 = 365 * e + doy := by omega
    have q4 : (365 * e + doy) / 365 = e := by omega
    have r4 : (365 * e + doy) % 365 = doy := by omega
    simp only [q1, r1, q2, r2, q3, r3, q4, r4]
    have hne : ¬ (e = 4 ∨ b = 4) := by omega
    simp only [hne, if_false]
    have hy : a * 400 + 1 + b * 100 + c * 4 + e = 400 * a + 100 * b + 4 * c + e + 1 := by omega
    rw [hy]
theorem year_decomp (y : Nat) (hy : 1 ≤ y) :
    ∃ a b c e, b ≤ 3 ∧ c ≤ 24 ∧ e ≤ 3 ∧ y = 400 * a + 100 * b + 4 * c + e + 1 :=
  ⟨(y - 1) / 400, (y - 1) % 400 / 100, (y - 1) % 100 / 4, (y - 1) % 4, by omega, by omega, by omega, by omega⟩

theorem ofOrd_toOrd (y m d : Nat) (hy : 1 ≤ y) (hm1 : 1 ≤ m) (hm2 : m ≤ 12) (hd1 : 1 ≤ d) (hd2 : d ≤ dim y m) :
    ofOrd (toOrd y m d) = (y, m, d) := by
  obtain ⟨a, b, c, e, hb, hc, he, rfl⟩ := year_decomp y hy
  have hleap := isLeap_decomp a b c e hb hc he
  have hdby := dby_decomp a b c e hb hc he
  unfold toOrd dbm
  unfold dim at hd2
  generalize hL : isLeap (400 * a + 100 * b + 4 * c + e + 1) = L at *
  have hd31 : d ≤ 31 := Nat.le_trans hd2 (dimL_le_31 _ _)
  have hbound := doy_bound L ⟨m, by omega⟩ hm1
  have hinv := mdOfIdx_inv L ⟨m, by omega⟩ ⟨d, by omega⟩ hm1 hd1 hd2
  simp only at hbound hinv
  rw [hdby]
  have e1 : 146097 * a + 36524 * b + 1461 * c + 365 * e + dbmL L m + d
      = 146097 * a + 36524 * b + 1461 * c + 365 * e + (dbmL L m + d - 1) + 1 := by omega
  rw [e1, ofOrd_core a b c e (dbmL L m + d - 1) hb hc he]
  · rw [hL]
    by_cases h365 : dbmL L m + d - 1 = 365
    · rw [if_pos h365]
      have hLt : L = true := by
        cases L with
        | true => rfl
        | false => simp at hbound; omega
      subst hLt
      have := doy365 ⟨m, by omega⟩ ⟨d, by omega⟩ hm1 hd1 hd2 h365
      simp only at this
      obtain ⟨rfl, rfl⟩ := this
      rfl
    · rw [if_neg h365, hinv]
  · cases L with
    | true =>
      have : (e = 3 ∧ (c ≠ 24 ∨ b = 3)) := by simpa using hleap.symm
      rw [if_pos this]; simp at hbound; omega
    | false =>
      have : ¬ (e = 3 ∧ (c ≠ 24 ∨ b = 3)) := by
        intro h; have : decide (e = 3 ∧ (c ≠ 24 ∨ b = 3)) = true := by simpa using h
        rw [this] at hleap; exact Bool.noConfusion hleap
      rw [if_neg this]; simp at hbound; omega

/-- every ordinal ≥ 1 decomposes into 400/100/4/1-year cycles plus a day-of-year index -/
theorem ord_decomp (n : Nat) (hn : 1 ≤ n) :
    ∃ a b c e doy, b ≤ 3 ∧ c ≤ 24 ∧ e ≤ 3 ∧ doy < (if (e = 3 ∧ (c ≠ 24 ∨ b = 3)) then 366 else 365) ∧
      n = 146097 * a + 36524 * b + 1461 * c + 365 * e + doy + 1 := by
  let m0 := n - 1
  let a := m0 / 146097
  let r := m0 % 146097
  let b := min (r / 36524) 3
  let r2 := r - 36524 * b
  let c := min (r2 / 1461) 24
  let r3 := r2 - 1461 * c
  let e := min (r3 / 365) 3
  let doy := r3 - 365 * e
  refine ⟨a, b, c, e, doy, by omega, by omega, by omega, ?_, by omega⟩
  by_cases h : e = 3 ∧ (c ≠ 24 ∨ b = 3)
  · rw [if_pos h]; omega
  · rw [if_neg h]; omega

theorem toOrd_ofOrd (n : Nat) (hn : 1 ≤ n) :
    toOrd (ofOrd n).1 (ofOrd n).2.1 (ofOrd n).2.2 = n ∧
    1 ≤ (ofOrd n).1 ∧ 1 ≤ (ofOrd n).2.1 ∧ (ofOrd n).2.1 ≤ 12 ∧ 1 ≤ (ofOrd n).2.2 ∧
    (ofOrd n).2.2 ≤ dim (ofOrd n).1 (ofOrd n).2.1 := by
  obtain ⟨a, b, c, e, doy, hb, hc, he, hdoy, rfl⟩ := ord_decomp n hn
  rw [ofOrd_core a b c e doy hb hc he hdoy]
  have hleap := isLeap_decomp a b c e hb hc he
  have hdby := dby_decomp a b c e hb hc he
  by_cases h365 : doy = 365
  · rw [if_pos h365]
    have hl : e = 3 ∧ (c ≠ 24 ∨ b = 3) := by
      by_cases hl : e = 3 ∧ (c ≠ 24 ∨ b = 3)
      · exact hl
      · rw [if_neg hl] at hdoy; omega
    have hL : isLeap (400 * a + 100 * b + 4 * c + e + 1) = true := by rw [hleap]; simpa using hl
    simp only [toOrd, dbm, dim, hL, hdby]
    refine ⟨?_, by omega, by decide, by decide, by decide, by decide⟩
    subst h365
    simp [dbmL]
  · rw [if_neg h365]
    generalize hL : isLeap (400 * a + 100 * b + 4 * c + e + 1) = L at *
    have hlt : doy < (if L then 366 else 365) := by
      cases L with
      | true => simp; split at hdoy <;> omega
      | false =>
        have : ¬ (e = 3 ∧ (c ≠ 24 ∨ b = 3)) := by
          intro h; have : decide (e = 3 ∧ (c ≠ 24 ∨ b = 3)) = true := by simpa using h
          rw [this] at hleap; exact Bool.noConfusion hleap
        rw [if_neg this] at hdoy; simpa using hdoy
    have hd366 : doy < 366 := by cases L <;> simp at hlt <;> omega
    have hspec := mdOfIdx_spec L ⟨doy, hd366⟩ hlt
    simp only at hspec
    obtain ⟨h1, h2, h3, h4, h5⟩ := hspec
    simp only [toOrd, dbm, dim, hL, hdby]
    refine ⟨by omega, by omega, h1, h2, h3, h4⟩

theorem maxOrd_eq : maxOrd = toOrd 9999 12 31 := by decide

theorem dby_ge (y : Nat) (hy : 10000 ≤ y) : 3652059 ≤ dby y := by
  unfold dby; omega

theorem dbm_dim_le (y m : Nat) (hm1 : 1 ≤ m) (hm2 : m ≤ 12) : dbm y m + dim y m ≤ (if isLeap y = true then 366 else 365) := by
  have := doy_bound (isLeap y) ⟨m, by omega⟩ hm1
  unfold dbm dim
  cases h : isLeap y <;> rw [h] at this <;> simpa using this

/-- a valid date of year ≤ 9999 has ordinal ≤ maxOrd, and conversely -/
theorem ofOrd_year_le (n : Nat) (hn : 1 ≤ n) (hmax : n ≤ maxOrd) : (ofOrd n).1 ≤ 9999 := by
  obtain ⟨h, hy, hm1, hm2, hd1, hd2⟩ := toOrd_ofOrd n hn
  by_cases hc : (ofOrd n).1 ≤ 9999
  · exact hc
  · have : 10000 ≤ (ofOrd n).1 := by omega
    have := dby_ge _ this
    unfold toOrd at h
    unfold maxOrd at hmax
    omega

theorem dby_le (y : Nat) (hy : y ≤ 10000) : dby y ≤ 3652059 := by
  unfold dby; omega

theorem toOrd_le_max (y m d : Nat) (hy1 : 1 ≤ y) (hy : y ≤ 9999) (hm1 : 1 ≤ m) (hm2 : m ≤ 12) (hd : d ≤ dim y m) : toOrd y m d ≤ maxOrd := by
  have h1 := dbm_dim_le y m hm1 hm2
  have h2 := dby_le (y + 1) (by omega)
  have h3 := dby_succ y hy1
  unfold toOrd maxOrd; omega

theorem toOrd_pos (y m d : Nat) (hd : 1 ≤ d) : 1 ≤ toOrd y m d := by unfold toOrd; omega

theorem tod_lt (t : DT) (hh : t.h ≤ 23) (hmi : t.mi ≤ 59) (hs : t.s ≤ 59) (hus : t.us ≤ 999999) : t.tod < dayUs := by
  unfold DT.tod dayUs; omega

theorem ofMicrosN_microsN (t : DT) (h : t.valid) : ofMicrosN t.microsN = .ok t := by
  obtain ⟨hy1, hy2, hm1, hm2, hd1, hd2, hh, hmi, hs, hus⟩ := h
  have hord := ofOrd_toOrd t.y t.mo t.d hy1 hm1 hm2 hd1 hd2
  have hpos := toOrd_pos t.y t.mo t.d hd1
  have hmax := toOrd_le_max t.y t.mo t.d hy1 hy2 hm1 hm2 hd2
  have htod := tod_lt t hh hmi hs hus
  unfold ofMicrosN DT.microsN DT.ord
  have hq : (toOrd t.y t.mo t.d * dayUs + t.tod) / dayUs = toOrd t.y t.mo t.d := by
    rw [Nat.mul_comm, Nat.mul_add_div (by decide : dayUs > 0), Nat.div_eq_of_lt htod, Nat.add_zero]
  have hr : (toOrd t.y t.mo t.d * dayUs + t.tod) % dayUs = t.tod := by
    rw [Nat.mul_comm, Nat.mul_add_mod, Nat.mod_eq_of_lt htod]
  simp only [hq, hr]
  have hn : ¬ (toOrd t.y t.mo t.d < 1 ∨ toOrd t.y t.mo t.d > maxOrd) := by omega
  rw [if_neg hn, hord]
  have e1 : t.tod / 3600000000 = t.h := by unfold DT.tod; omega
  have e2 : t.tod / 60000000 % 60 = t.mi := by unfold DT.tod; omega
  have e3 : t.tod / 1000000 % 60 = t.s := by unfold DT.tod; omega
  have e4 : t.tod % 1000000 = t.us := by unfold DT.tod; omega
  simp only [e1, e2, e3, e4]

theorem ofMicros_micros (t : DT) (h : t.valid) : ofMicros t.micros = .ok t := by
  unfold ofMicros DT.micros
  have : ¬ ((t.microsN : Int) < 0) := by omega
  rw [if_neg this, Int.toNat_natCast]
  exact ofMicrosN_microsN t h

theorem ofMicrosN_spec (n : Nat) (t : DT) (h : ofMicrosN n = .ok t) : t.microsN = n ∧ t.valid := by
  unfold ofMicrosN at h
  simp only at h
  split at h
  · cases h
  · rename_i hr
    have h1 : 1 ≤ n / dayUs := by omega
    have h2 : n / dayUs ≤ maxOrd := by omega
    obtain ⟨ho, hy1, hm1, hm2, hd1, hd2⟩ := toOrd_ofOrd (n / dayUs) h1
    have hy2 := ofOrd_year_le (n / dayUs) h1 h2
    have hlt : n % dayUs < dayUs := Nat.mod_lt _ (by decide)
    generalize hR : n % dayUs = r at *
    injection h with h
    subst h
    unfold dayUs at hlt
    refine ⟨?_, hy1, hy2, hm1, hm2, hd1, hd2, by simp only; omega, by simp only; omega, by simp only; omega, by simp only; omega⟩
    unfold DT.microsN DT.ord DT.tod
    simp only [ho]
    have : ((r / 3600000000 * 60 + r / 60000000 % 60) * 60 + r / 1000000 % 60) * 1000000 + r % 1000000 = r := by omega
    rw [this, ← hR]
    exact Nat.div_add_mod' n dayUs


theorem ofMicros_spec (n : Int) (t : DT) (h : ofMicros n = .ok t) : t.micros = n ∧ t.valid := by
  unfold ofMicros at h
  split at h
  · cases h
  · rename_i hn
    have := ofMicrosN_spec n.toNat t h
    refine ⟨?_, this.2⟩
    unfold DT.micros; rw [this.1]; omega

theorem addMicros_spec (t t' : DT) (k : Int) (h : t.addMicros k = .ok t') : t'.micros = t.micros + k ∧ t'.valid :=
  ofMicros_spec _ _ h

theorem addSeconds_spec (t t' : DT) (k : Int) (h : t.addSeconds k = .ok t') : t'.micros = t.micros + k * 1000000 ∧ t'.valid :=
  ofMicros_spec _ _ h

/-- `dt + timedelta(days=k)`: the ordinal moves by exactly `k`, the time of day is untouched, the date is valid -/
theorem addDays_spec (t t' : DT) (k : Int) (h : t.addDays k = .ok t') :
    (t'.ord : Int) = t.ord + k ∧ t'.h = t.h ∧ t'.mi = t.mi ∧ t'.s = t.s ∧ t'.us = t.us ∧
    1 ≤ t'.y ∧ t'.y ≤ 9999 ∧ 1 ≤ t'.mo ∧ t'.mo ≤ 12 ∧ 1 ≤ t'.d ∧ t'.d ≤ dim t'.y t'.mo := by
  unfold DT.addDays at h
  simp only at h
  split at h
  · cases h
  · rename_i hr
    have h1 : 1 ≤ ((t.ord : Int) + k).toNat := by omega
    have h2 : ((t.ord : Int) + k).toNat ≤ maxOrd := by omega
    obtain ⟨ho, hy1, hm1, hm2, hd1, hd2⟩ := toOrd_ofOrd _ h1
    have hy2 := ofOrd_year_le _ h1 h2
    injection h with h
    subst h
    refine ⟨?_, rfl, rfl, rfl, rfl, hy1, hy2, hm1, hm2, hd1, hd2⟩
    unfold DT.ord at *
    simp only [ho]
    omega

theorem addDays_weekday (t t' : DT) (k : Int) (h : t.addDays k = .ok t') :
    (t'.weekday : Int) = ((t.weekday : Int) + k) % 7 := by
  have := (addDays_spec t t' k h).1
  unfold DT.weekday weekdayOf DT.ord at *
  omega

theorem ofMicrosN_ok (n : Nat) (h1 : 86400000000 ≤ n) (h2 : n < 3652060 * 86400000000) : ∃ t, ofMicrosN n = .ok t := by
  unfold ofMicrosN
  have e : dayUs = 86400000000 := rfl
  have em : maxOrd = 3652059 := rfl
  rw [e, em]
  have hq1 : 1 ≤ n / 86400000000 := by omega
  have hq2 : n / 86400000000 ≤ 3652059 := by omega
  have : ¬ (n / 86400000000 < 1 ∨ n / 86400000000 > 3652059) := by omega
  simp only [this, if_false]
  exact ⟨_, rfl⟩

theorem ts_fin (A P Q frac : Nat) (hm : A + (P + 0) = Q) : A + (P + frac) = Q + frac := by omega

end DP
