import DPModel.DP.Search
/-!
# Helper lemmas for the search layer (C17): list insertion / removal bookkeeping of `_simplify_split_align`
-/
namespace DP.Search

theorem pyInsert_length {α} (l : List α) (i : Nat) (x : α) : (pyInsert l i x).length = l.length + 1 := by
  unfold pyInsert
  simp [List.length_append, List.length_take, List.length_drop]
  omega

/-- number of non-blank elements -/
def nb {β} (isBlank : β → Bool) (l : List β) : Nat := (l.filter (fun x => !isBlank x)).length

theorem nb_le {β} (isBlank : β → Bool) (l : List β) : nb isBlank l ≤ l.length := by
  unfold nb; exact List.length_filter_le _ _

theorem nb_pyInsert {β} (isBlank : β → Bool) (l : List β) (i : Nat) (b : β) (hb : isBlank b = true) :
    nb isBlank (pyInsert l i b) = nb isBlank l := by
  unfold nb pyInsert
  rw [List.filter_append, List.filter_cons]
  simp only [hb, Bool.not_true, Bool.false_eq_true, if_false]
  rw [← List.filter_append, List.take_append_drop]

theorem alignGo_nb {γ β} (kIt : γ → String) (kOt : β → String) (blank : β) (isBlank : β → Bool) (hb : isBlank blank = true)
    (it : List γ) (i : Nat) (other : List β) (ae : Bool) :
    nb isBlank (alignGo kIt kOt blank it i other ae) = nb isBlank other := by
  induction it generalizing i other ae with
  | nil => rfl
  | cons tok rest ih =>
    unfold alignGo
    split
    · split
      · exact ih _ _ _
      · split
        · exact ih _ _ _
        · rw [ih, nb_pyInsert _ _ _ _ hb]
    · rw [ih, nb_pyInsert _ _ _ _ hb]

theorem alignGo_length {γ β} (kIt : γ → String) (kOt : β → String) (blank : β)
    (it : List γ) (i : Nat) (other : List β) (ae : Bool) (h : i ≤ other.length) :
    i + it.length ≤ (alignGo kIt kOt blank it i other ae).length := by
  induction it generalizing i other ae with
  | nil => simpa [alignGo] using h
  | cons tok rest ih =>
    unfold alignGo
    split
    · rename_i o ho
      have hi : i < other.length := by
        rcases List.getElem?_eq_some_iff.mp ho with ⟨hlt, _⟩; exact hlt
      split
      · have := ih (i + 1) other false (by omega); simp only [List.length_cons]; omega
      · split
        · have := ih (i + 1) other true (by omega); simp only [List.length_cons]; omega
        · have := ih (i + 1) (pyInsert other i blank) true (by rw [pyInsert_length]; omega); simp only [List.length_cons]; omega
    · have := ih (i + 1) (pyInsert other i blank) ae (by rw [pyInsert_length]; omega); simp only [List.length_cons]; omega

theorem nb_cons {β} (isBlank : β → Bool) (x : β) (l : List β) :
    nb isBlank (x :: l) = (if isBlank x then 0 else 1) + nb isBlank l := by
  unfold nb
  rw [List.filter_cons]
  cases h : isBlank x <;> simp <;> omega

theorem removeFirst_ok {β} (isBlank : β → Bool) (l : List β) (h : nb isBlank l < l.length) :
    ∃ l', removeFirst isBlank l = .ok l' ∧ l'.length + 1 = l.length ∧ nb isBlank l' = nb isBlank l := by
  induction l with
  | nil => simp at h
  | cons x xs ih =>
    unfold removeFirst
    by_cases hx : isBlank x = true
    · simp only [hx, if_true]
      refine ⟨xs, rfl, rfl, ?_⟩
      rw [nb_cons, hx]; simp
    · have hx' : isBlank x = false := by cases hh : isBlank x <;> simp_all
      simp only [hx', Bool.false_eq_true, if_false]
      rw [nb_cons, hx'] at h
      simp only [Bool.false_eq_true, if_false, List.length_cons] at h
      obtain ⟨l', h1, h2, h3⟩ := ih (by omega)
      refine ⟨x :: l', ?_, ?_, ?_⟩
      · rw [h1]; rfl
      · simp only [List.length_cons]; omega
      · rw [nb_cons, nb_cons, h3]

theorem equalize_ok (fuel : Nat) (o : List OTok) (s : List String)
    (hf : o.length - s.length + (s.length - o.length) ≤ fuel)
    (h1 : o.length > s.length → nb (fun t : OTok => t.raw == "") o ≤ s.length)
    (h2 : s.length > o.length → nb (fun t : String => t == "") s ≤ o.length) :
    ∃ o' s', equalize fuel o s = .ok (o', s') ∧ o'.length = s'.length := by
  induction fuel generalizing o s with
  | zero =>
    have : o.length = s.length := by omega
    exact ⟨o, s, by simp [equalize, this], this⟩
  | succ fuel ih =>
    unfold equalize
    by_cases he : o.length = s.length
    · exact ⟨o, s, by simp [he], he⟩
    · simp only [he, if_false]
      by_cases hg : o.length > s.length
      · simp only [hg, if_true]
        obtain ⟨o', r1, r2, r3⟩ := removeFirst_ok (fun t : OTok => t.raw == "") o (by have := h1 hg; omega)
        rw [r1]
        simp only
        apply ih
        · omega
        · intro _; rw [r3]; exact h1 hg
        · intro hh; omega
      · simp only [hg, if_false]
        have hl : s.length > o.length := by omega
        obtain ⟨s', r1, r2, r3⟩ := removeFirst_ok (fun t : String => t == "") s (by have := h2 hl; omega)
        rw [r1]
        simp only
        apply ih
        · omega
        · intro hh; omega
        · intro _; rw [r3]; exact h2 hl


/-! ## index safety of the `translate_search` loop -/

theorem idx_ok (l : List String) (i : Nat) (h : i < l.length) : ∃ x, idx l i = .ok x ∧ l[i]? = some x := by
  unfold idx
  rw [List.getElem?_eq_getElem h]
  exact ⟨_, rfl, rfl⟩

theorem step_ok (E : Env) (hg : E.guarded = true) (orig simp : List String) (hlen : orig.length = simp.length)
    (st : St) (i : Nat) (hi : i < simp.length) (w : String) : ∃ st', step E orig simp st i w = .ok st' := by
  obtain ⟨o, ho, _⟩ := idx_ok orig i (by omega)
  unfold step stepCore
  by_cases hlt : i < simp.length - 1
  · obtain ⟨o2, ho2, _⟩ := idx_ok orig (i + 1) (by omega)
    simp only [hg, ho, ho2, Except.map]
    repeat' split
    all_goals exact ⟨_, rfl⟩
  · have hd : decide (i < simp.length - 1) = false := by simp [hlt]
    simp only [hg, ho, hd, Except.map, Bool.not_true, Bool.or_false, Bool.false_and, Bool.false_eq_true, if_false]
    repeat' split
    all_goals exact ⟨_, rfl⟩

theorem loop_ok (E : Env) (hg : E.guarded = true) (orig simp : List String) (hlen : orig.length = simp.length)
    (ws : List String) (i : Nat) (hi : i + ws.length = simp.length) (st : St) : ∃ st', loop E orig simp ws i st = .ok st' := by
  induction ws generalizing i st with
  | nil => exact ⟨st, rfl⟩
  | cons w ws ih =>
    unfold loop
    simp only [List.length_cons] at hi
    obtain ⟨st1, h1⟩ := step_ok E hg orig simp hlen st i (by omega) w
    rw [h1]
    exact ih (i + 1) (by omega) st1

/-! ## what one iteration can do -/

theorem idx_some (l : List String) (i : Nat) (x : String) (h : idx l i = .ok x) : l[i]? = some x := by
  unfold idx at h
  split at h
  · injection h with h; subst h; assumption
  · cases h

/-- the five things one iteration of the `translate_search` loop can do -/
inductive StepKind (E : Env) (orig : List String) (st : St) (i : Nat) : St → Prop
  | skipped : st.skip = true → StepKind E orig st i { st with skip := false }
  | single (t o : String) : st.skip = false → orig[i]? = some o → StepKind E orig st i (st.push ⟨t, o, i, 1⟩)
  | pair (t o1 o2 : String) : st.skip = false → orig[i]? = some o1 → orig[i + 1]? = some o2 →
      StepKind E orig st i { (st.push ⟨t, E.join [o1, o2], i, 2⟩) with skip := true }
  | nothing : st.skip = false → st.cur = [] → StepKind E orig st i st
  | flushed : st.skip = false → st.cur ≠ [] → StepKind E orig st i st.flush

theorem stepCore_kind (E : Env) (orig : List String) (st st' : St) (i : Nat) (w : String) (hn : Bool) (j : String)
    (h : stepCore E orig st i w hn j = .ok st') : StepKind E orig st i st' := by
  unfold stepCore at h
  split at h
  · rename_i hs; injection h with h; subst h; exact .skipped hs
  · rename_i hs
    have hs' : st.skip = false := by cases hh : st.skip <;> simp_all
    cases h1 : idx orig i with
    | error e =>
      simp only [h1, Except.map] at h
      repeat' split at h
      all_goals first | (injection h with h; subst h; rename_i hc; exact .nothing hs' (by simpa using hc)) | cases h
    | ok o =>
      have ho := idx_some _ _ _ h1
      simp only [h1, Except.map] at h
      split at h
      · injection h with h; subst h; exact .single _ _ hs' ho
      · split at h
        · cases h2 : idx orig (i + 1) with
          | error e => simp only [h2] at h; cases h
          | ok o2 =>
            simp only [h2] at h; injection h with h; subst h
            exact .pair _ _ _ hs' ho (idx_some _ _ _ h2)
        · split at h
          · injection h with h; subst h; exact .single _ _ hs' ho
          · split at h
            · injection h with h; subst h; exact .single _ _ hs' ho
            · split at h
              · injection h with h; subst h; exact .single _ _ hs' ho
              · split at h
                · rename_i hc; injection h with h; subst h; exact .nothing hs' (by simpa using hc)
                · rename_i hc
                  split at h
                  · injection h with h; subst h; exact .single _ _ hs' ho
                  · injection h with h; subst h; exact .flushed hs' (by simpa using hc)

/-! ## provenance invariant -/
/-- a (newest-first) chunk covers exactly the original tokens `a … b-1`, each item covering `n ≥ 1` consecutive tokens -/
inductive Span : List Item → Nat → Nat → Prop
  | one (it : Item) : 1 ≤ it.n → Span [it] it.i (it.i + it.n)
  | cons (it : Item) (rest : List Item) (a : Nat) : 1 ≤ it.n → Span rest a it.i → Span (it :: rest) a (it.i + it.n)

/-- a (newest-first) list of chunks: each a contiguous span, spans in increasing order and disjoint, all ending at or before `bound` -/
inductive Chunks : List (List Item) → Nat → Prop
  | nil (b : Nat) : Chunks [] b
  | cons (c : List Item) (rest : List (List Item)) (a b bound : Nat) : Span c a b → b ≤ bound → Chunks rest a → Chunks (c :: rest) bound

theorem Chunks.mono {l : List (List Item)} {b b' : Nat} (h : Chunks l b) (hb : b ≤ b') : Chunks l b' := by
  cases h with
  | nil => exact .nil _
  | cons c rest a e _ hs he hr => exact .cons c rest a e b' hs (by omega) hr

def ItemOk (E : Env) (orig : List String) (it : Item) : Prop :=
  (it.n = 1 ∧ orig[it.i]? = some it.o) ∨ (it.n = 2 ∧ ∃ o1 o2, orig[it.i]? = some o1 ∧ orig[it.i + 1]? = some o2 ∧ it.o = E.join [o1, o2])

def bound (st : St) (i : Nat) : Nat := if st.skip then i + 1 else i

def Inv (E : Env) (orig : List String) (st : St) (i : Nat) : Prop :=
  ∃ lo, Chunks st.done lo ∧
    ((st.cur = [] ∧ st.skip = false ∧ lo ≤ i) ∨ (∃ a, lo ≤ a ∧ Span st.cur a (bound st i))) ∧
    (∀ it ∈ st.cur, ItemOk E orig it) ∧ (∀ c ∈ st.done, ∀ it ∈ c, ItemOk E orig it)

theorem Span.ne_nil {c a b} (h : Span c a b) : c ≠ [] := by cases h <;> simp

theorem inv_step (E : Env) (orig : List String) (st st' : St) (i : Nat) (hk : StepKind E orig st i st') (hinv : Inv E orig st i) :
    Inv E orig st' (i + 1) := by
  obtain ⟨lo, hd, hc, hic, hid⟩ := hinv
  cases hk with
  | skipped hs =>
    refine ⟨lo, hd, ?_, hic, hid⟩
    rcases hc with ⟨_, h2, _⟩ | ⟨a, ha, hsp⟩
    · rw [hs] at h2; cases h2
    · right; refine ⟨a, ha, ?_⟩
      simpa [bound, hs] using hsp
  | single t o hs ho =>
    refine ⟨lo, hd, ?_, ?_, hid⟩
    · right
      rcases hc with ⟨h1, _, h3⟩ | ⟨a, ha, hsp⟩
      · refine ⟨i, h3, ?_⟩
        simp only [St.push, h1, bound, hs, Bool.false_eq_true, if_false]
        exact Span.one ⟨t, o, i, 1⟩ (Nat.le_refl _)
      · refine ⟨a, ha, ?_⟩
        simp only [St.push, bound, hs, Bool.false_eq_true, if_false] at hsp ⊢
        exact Span.cons ⟨t, o, i, 1⟩ st.cur a (Nat.le_refl _) hsp
    · intro it hit
      simp only [St.push, List.mem_cons] at hit
      rcases hit with rfl | hit
      · left; exact ⟨rfl, ho⟩
      · exact hic it hit
  | pair t o1 o2 hs h1 h2 =>
    refine ⟨lo, hd, ?_, ?_, hid⟩
    · right
      rcases hc with ⟨e1, _, e3⟩ | ⟨a, ha, hsp⟩
      · refine ⟨i, e3, ?_⟩
        simp only [St.push, e1, bound, if_true]
        exact Span.one ⟨t, E.join [o1, o2], i, 2⟩ (by show 1 ≤ 2; omega)
      · refine ⟨a, ha, ?_⟩
        simp only [bound, hs, Bool.false_eq_true, if_false] at hsp
        simp only [St.push, bound, if_true]
        exact Span.cons ⟨t, E.join [o1, o2], i, 2⟩ st.cur a (by show 1 ≤ 2; omega) hsp
    · intro it hit
      simp only [St.push, List.mem_cons] at hit
      rcases hit with rfl | hit
      · right; exact ⟨rfl, o1, o2, h1, h2, rfl⟩
      · exact hic it hit
  | nothing hs hcur =>
    refine ⟨lo, hd, ?_, hic, hid⟩
    rcases hc with ⟨e1, e2, e3⟩ | ⟨a, ha, hsp⟩
    · left; exact ⟨e1, e2, by omega⟩
    · exact absurd hcur hsp.ne_nil
  | flushed hs hcur =>
    rcases hc with ⟨e1, _, _⟩ | ⟨a, ha, hsp⟩
    · exact absurd e1 hcur
    · have hne : st.cur.isEmpty = false := by cases hh : st.cur <;> simp_all
      simp only [bound, hs, Bool.false_eq_true, if_false] at hsp
      refine ⟨i, ?_, ?_, ?_, ?_⟩
      · simp only [St.flush, hne, Bool.false_eq_true, if_false]
        exact Chunks.cons st.cur st.done a i i hsp (Nat.le_refl _) (hd.mono ha)
      · left; simp only [St.flush, hne, Bool.false_eq_true, if_false]; exact ⟨trivial, hs, by omega⟩
      · simp [St.flush, hne]
      · intro c hcm it hit
        simp only [St.flush, hne, Bool.false_eq_true, if_false, List.mem_cons] at hcm
        rcases hcm with rfl | hcm
        · exact hic it hit
        · exact hid c hcm it hit


/-! ## chunks, oldest first -/

/-- reading a chunk oldest-first from token `a`: every item starts where the previous one ended; returns where the chunk ends -/
def contig : List Item → Nat → Option Nat
  | [], a => some a
  | it :: rest, a => if it.i = a ∧ 1 ≤ it.n then contig rest (a + it.n) else none

/-- chunks (oldest first) are non-empty contiguous runs of original tokens, one after the other without overlap, inside `lo … hi` -/
def OrderedBetween : List (List Item) → Nat → Nat → Prop
  | [], lo, hi => lo ≤ hi
  | c :: cs, lo, hi => ∃ a b, lo ≤ a ∧ a < b ∧ contig c a = some b ∧ OrderedBetween cs b hi

theorem contig_append (xs ys : List Item) (a : Nat) : contig (xs ++ ys) a = (contig xs a).bind (contig ys) := by
  induction xs generalizing a with
  | nil => rfl
  | cons x xs ih =>
    simp only [List.cons_append, contig]
    split
    · exact ih _
    · rfl

theorem Span.contig {c : List Item} {a b : Nat} (h : Span c a b) : contig c.reverse a = some b ∧ a < b := by
  induction h with
  | one it hn => simp [DP.Search.contig, hn]; omega
  | cons it rest a hn _ ih =>
    obtain ⟨h1, h2⟩ := ih
    rw [List.reverse_cons, contig_append, h1]
    simp [DP.Search.contig, hn]; omega

theorem OrderedBetween.mono_lo {cs : List (List Item)} {lo lo' hi : Nat} (h : OrderedBetween cs lo hi) (hl : lo' ≤ lo) :
    OrderedBetween cs lo' hi := by
  cases cs with
  | nil => simp only [OrderedBetween] at h ⊢; omega
  | cons c cs =>
    obtain ⟨a, b, h1, h2, h3, h4⟩ := h
    exact ⟨a, b, by omega, h2, h3, h4⟩

theorem OrderedBetween.append {xs ys : List (List Item)} {lo m hi : Nat} (hx : OrderedBetween xs lo m) (hy : OrderedBetween ys m hi) :
    OrderedBetween (xs ++ ys) lo hi := by
  induction xs generalizing lo with
  | nil => simp only [OrderedBetween] at hx; exact hy.mono_lo hx
  | cons c cs ih =>
    obtain ⟨a, b, h1, h2, h3, h4⟩ := hx
    exact ⟨a, b, h1, h2, h3, ih h4⟩

theorem Chunks.ordered {l : List (List Item)} {bnd : Nat} (h : Chunks l bnd) : OrderedBetween (l.map List.reverse).reverse 0 bnd := by
  induction h with
  | nil b => simp [OrderedBetween]
  | cons c rest a b bound hs hb _ ih =>
    rw [List.map_cons, List.reverse_cons]
    apply OrderedBetween.append ih
    obtain ⟨h1, h2⟩ := hs.contig
    exact ⟨a, b, Nat.le_refl _, h2, h1, hb⟩

theorem loop_inv (E : Env) (orig simp : List String) (ws : List String) (i : Nat) (st st' : St)
    (hinv : Inv E orig st i) (h : loop E orig simp ws i st = .ok st') : Inv E orig st' (i + ws.length) := by
  induction ws generalizing i st with
  | nil => simp only [loop] at h; injection h with h; subst h; simpa using hinv
  | cons w ws ih =>
    unfold loop at h
    cases h1 : step E orig simp st i w with
    | error e => rw [h1] at h; cases h
    | ok st1 =>
      rw [h1] at h
      have := ih (i + 1) st1 (inv_step E orig st st1 i (stepCore_kind _ _ _ _ _ _ _ _ h1) hinv) h
      simpa [List.length_cons, Nat.add_assoc, Nat.add_comm 1] using this

theorem inv_flush (E : Env) (orig : List String) (st : St) (i : Nat) (hinv : Inv E orig st i) :
    ∃ hi, Chunks st.flush.done hi ∧ ∀ c ∈ st.flush.done, ∀ it ∈ c, ItemOk E orig it := by
  obtain ⟨lo, hd, hc, hic, hid⟩ := hinv
  rcases hc with ⟨e1, _, _⟩ | ⟨a, ha, hsp⟩
  · refine ⟨lo, ?_, ?_⟩ <;> simp [St.flush, e1] <;> assumption
  · have hne : st.cur.isEmpty = false := by
      have := hsp.ne_nil; cases hh : st.cur <;> simp_all
    refine ⟨bound st i, ?_, ?_⟩
    · simp only [St.flush, hne, Bool.false_eq_true, if_false]
      exact Chunks.cons st.cur st.done a _ _ hsp (Nat.le_refl _) (hd.mono ha)
    · intro c hcm it hit
      simp only [St.flush, hne, Bool.false_eq_true, if_false, List.mem_cons] at hcm
      rcases hcm with rfl | hcm
      · exact hic it hit
      · exact hid c hcm it hit

/-! ## split / count, candidate splits, totality of parse_found_objects -/

theorem splitGo_length (sep : List Char) (s : List Char) (k : Nat) (cur : List Char) :
    (splitGo sep s k cur).length = countGo sep s k + 1 := by
  induction s generalizing k cur with
  | nil => simp [splitGo, countGo]
  | cons c rest ih =>
    cases k with
    | succ k => simp only [splitGo, countGo]; exact ih _ _
    | zero =>
      simp only [splitGo, countGo]
      split
      · simp only [List.length_cons]; rw [ih]
      · exact ih _ _

/-- `len(s.split(sep)) == s.count(sep) + 1` -/
theorem pySplit_length (s sep : List Char) : (pySplit s sep).length = pyCount s sep + 1 := splitGo_length sep s 0 []

theorem idxC_ok (l : List (List Char)) (i : Nat) (h : i < l.length) : ∃ x, idxC l i = .ok x ∧ l[i]? = some x := by
  unfold idxC
  rw [List.getElem?_eq_getElem h]
  exact ⟨_, rfl, rfl⟩

theorem parseSplit_ok (gdd : Gdd) (need : Bool) (s2 : List Char) (tr og : List (List Char)) (hlen : tr.length ≤ og.length)
    (rest : List (List Char)) (j : Nat) (hj : j + rest.length ≤ tr.length) (acc : List (DateId × Bool × List Char × Nat)) (rb : DateId) :
    ∃ r, parseSplit gdd need s2 tr og rest j acc rb = .ok r := by
  induction rest generalizing j acc rb with
  | nil => exact ⟨_, rfl⟩
  | cons p rest ih =>
    simp only [List.length_cons] at hj
    unfold parseSplit
    split
    · exact ih (j + 1) (by omega) acc rb
    · obtain ⟨tj, h1, _⟩ := idxC_ok tr j (by omega)
      obtain ⟨oj, h2, _⟩ := idxC_ok og j (by omega)
      simp only [h1, h2]
      exact ih (j + 1) (by omega) _ _
theorem groupsOf_length (sep : List Char) (parts : List (List Char)) (k n : Nat) : (groupsOf sep parts k n).length = (n + k - 1) / k := by
  simp [groupsOf]

theorem splitBy_lengths (item original sep : List Char) (h : pyCount item sep = pyCount original sep) :
    ∀ p ∈ splitBy item original sep, p.1.length = p.2.length := by
  intro p hp
  have hl : (pySplit item sep).length = (pySplit original sep).length := by rw [pySplit_length, pySplit_length, h]
  unfold splitBy at hp
  simp only at hp
  split at hp
  · simp only [List.mem_singleton] at hp; subst hp; exact hl
  · simp only [List.map_cons, List.map_nil, List.mem_cons, List.not_mem_nil, or_false] at hp
    rcases hp with rfl | rfl | rfl
    · exact hl
    · simp [groupsOf_length]
    · simp [groupsOf_length]

theorem splitIfNotParsed_lengths (item original : List Char) :
    ∀ p ∈ splitIfNotParsed item original, p.1.length = p.2.length := by
  intro p hp
  unfold splitIfNotParsed at hp
  rw [List.mem_flatMap] at hp
  obtain ⟨sp, _, hp⟩ := hp
  simp only at hp
  split at hp
  · rename_i hc
    simp only [Bool.and_eq_true, beq_iff_eq] at hc
    exact splitBy_lengths _ _ _ hc.2 p hp
  · cases hp
theorem parseSplits_ok (F : FEnv) (splits : List (List (List Char) × List (List Char))) (h : ∀ p ∈ splits, p.1.length = p.2.length) (rb : DateId) :
    ∃ r, parseSplits F splits rb = .ok r := by
  induction splits generalizing rb with
  | nil => exact ⟨_, rfl⟩
  | cons p rest ih =>
    obtain ⟨tr, og⟩ := p
    unfold parseSplits
    have hp := h (tr, og) List.mem_cons_self
    simp only at hp
    obtain ⟨⟨ps, rb'⟩, h1⟩ := parseSplit_ok F.gdd F.needRb strip2 tr og (by omega) tr 0 (by omega) [] rb
    rw [h1]
    simp only
    obtain ⟨⟨pss, rb''⟩, h2⟩ := ih (fun q hq => h q (List.mem_cons_of_mem _ hq)) rb'
    rw [h2]
    exact ⟨_, rfl⟩

theorem foundGo_ok (F : FEnv) (original translated : List (List Char)) (rest : List (List Char)) (i : Nat)
    (h1 : i + rest.length ≤ original.length) (h2 : i + rest.length ≤ translated.length)
    (parsed : List (DateId × Bool)) (hits : List Hit) (rb : DateId) :
    ∃ r, foundGo F original translated rest i parsed hits rb = .ok r := by
  induction rest generalizing i parsed hits rb with
  | nil => exact ⟨_, rfl⟩
  | cons item rest ih =>
    simp only [List.length_cons] at h1 h2
    unfold foundGo
    split
    · exact ih (i + 1) (by omega) (by omega) _ _ _
    · obtain ⟨ti, e1, _⟩ := idxC_ok translated i (by omega)
      obtain ⟨oi, e2, _⟩ := idxC_ok original i (by omega)
      simp only [e1, e2]
      split
      · exact ih (i + 1) (by omega) (by omega) _ _ _
      · split
        · exact ih (i + 1) (by omega) (by omega) _ _ _
        · obtain ⟨⟨pss, rb2⟩, e3⟩ := parseSplits_ok F (splitIfNotParsed item oi) (splitIfNotParsed_lengths item oi) (parseItem F.gdd rb item ti parsed F.needRb).2.2
          simp only [e3]
          exact ih (i + 1) (by omega) (by omega) _ _ _

/-! ## order of the hits -/

abbrev Piece := DateId × Bool × List Char × Nat
def Piece.idx (p : Piece) : Nat := p.2.2.2

theorem parseSplit_sorted (gdd : Gdd) (need : Bool) (s2 : List Char) (tr og : List (List Char))
    (rest : List (List Char)) (j : Nat) (acc : List Piece) (rb : DateId) (r : List Piece × DateId)
    (hacc : List.Pairwise (fun newer older : Piece => older.idx < newer.idx) acc) (hlt : ∀ x ∈ acc, x.idx < j)
    (h : parseSplit gdd need s2 tr og rest j acc rb = .ok r) : List.Pairwise (fun a b : Piece => a.idx < b.idx) r.1 := by
  induction rest generalizing j acc rb with
  | nil =>
    simp only [parseSplit] at h; injection h with h; subst h
    simp only
    rw [List.pairwise_reverse]
    exact hacc
  | cons p rest ih =>
    unfold parseSplit at h
    split at h
    · exact ih (j + 1) acc rb hacc (fun x hx => by have := hlt x hx; omega) h
    · cases e1 : idxC tr j with
      | error e => simp only [e1] at h; cases h
      | ok tj =>
        cases e2 : idxC og j with
        | error e => simp only [e1, e2] at h; cases h
        | ok oj =>
          simp only [e1, e2] at h
          refine ih (j + 1) _ _ ?_ ?_ h
          · rw [List.pairwise_cons]
            exact ⟨fun x hx => by have := hlt x hx; simpa [Piece.idx] using this, hacc⟩
          · intro x hx
            simp only [List.mem_cons] at hx
            rcases hx with rfl | hx
            · simp [Piece.idx]
            · have := hlt x hx; omega
/-- text order of hits: by chunk, then by piece inside the chunk -/
def hitLt (a b : Hit) : Prop := a.ci < b.ci ∨ (a.ci = b.ci ∧ a.pj < b.pj)

theorem parseSplits_sorted (F : FEnv) (splits : List (List (List Char) × List (List Char))) (rb : DateId)
    (r : List (List Piece) × DateId) (h : parseSplits F splits rb = .ok r) :
    ∀ ps ∈ r.1, List.Pairwise (fun a b : Piece => a.idx < b.idx) ps := by
  induction splits generalizing rb r with
  | nil => simp only [parseSplits] at h; injection h with h; subst h; simp
  | cons p rest ih =>
    obtain ⟨tr, og⟩ := p
    unfold parseSplits at h
    cases e1 : parseSplit F.gdd F.needRb strip2 tr og tr 0 [] rb with
    | error e => simp only [e1] at h; cases h
    | ok r1 =>
      obtain ⟨ps, rb'⟩ := r1
      simp only [e1] at h
      cases e2 : parseSplits F rest rb' with
      | error e => simp only [e2] at h; cases h
      | ok r2 =>
        obtain ⟨pss, rb''⟩ := r2
        simp only [e2] at h
        injection h with h; subst h
        intro q hq
        simp only [List.mem_cons] at hq
        rcases hq with rfl | hq
        · exact parseSplit_sorted _ _ _ _ _ _ _ _ _ _ List.Pairwise.nil (by simp) e1
        · exact ih rb' _ e2 q hq

def HInv (hits : List Hit) (i : Nat) : Prop :=
  List.Pairwise (fun newer older : Hit => hitLt older newer) hits ∧ (∀ h ∈ hits, h.ci < i) ∧ (∀ h ∈ hits, h.date.isSome = true)

theorem HInv.mono {hits i} (h : HInv hits i) : HInv hits (i + 1) :=
  ⟨h.1, fun x hx => by have := h.2.1 x hx; omega, h.2.2⟩

theorem HInv.push {hits i} (h : HInv hits i) (sub : List Char) (d : DateId) (hd : d.isSome = true) (pj : Nat) :
    HInv (⟨sub, d, i, pj⟩ :: hits) (i + 1) := by
  refine ⟨?_, ?_, ?_⟩
  · rw [List.pairwise_cons]
    exact ⟨fun x hx => Or.inl (h.2.1 x hx), h.1⟩
  · intro x hx
    simp only [List.mem_cons] at hx
    rcases hx with rfl | hx
    · simp
    · have := h.2.1 x hx; omega
  · intro x hx
    simp only [List.mem_cons] at hx
    rcases hx with rfl | hx
    · exact hd
    · exact h.2.2 x hx

theorem HInv.batch {hits i} (h : HInv hits i) (good : List Piece) (hs : List.Pairwise (fun a b : Piece => a.idx < b.idx) good)
    (hg : ∀ p ∈ good, p.1.isSome = true) :
    HInv ((good.map (fun p => (⟨p.2.2.1, p.1, i, p.2.2.2⟩ : Hit))).reverse ++ hits) (i + 1) := by
  refine ⟨?_, ?_, ?_⟩
  · rw [List.pairwise_append]
    refine ⟨?_, h.1, ?_⟩
    · rw [List.pairwise_reverse, List.pairwise_map]
      exact hs.imp (fun hab => Or.inr ⟨rfl, hab⟩)
    · intro a ha b hb
      simp only [List.mem_reverse, List.mem_map] at ha
      obtain ⟨p, _, rfl⟩ := ha
      exact Or.inl (h.2.1 b hb)
  · intro x hx
    simp only [List.mem_append, List.mem_reverse, List.mem_map] at hx
    rcases hx with ⟨p, _, rfl⟩ | hx
    · simp
    · have := h.2.1 x hx; omega
  · intro x hx
    simp only [List.mem_append, List.mem_reverse, List.mem_map] at hx
    rcases hx with ⟨p, hp, rfl⟩ | hx
    · exact hg p hp
    · exact h.2.2 x hx
theorem getD_sorted (pss : List (List Piece)) (k : Nat) (h : ∀ ps ∈ pss, List.Pairwise (fun a b : Piece => a.idx < b.idx) ps) :
    List.Pairwise (fun a b : Piece => a.idx < b.idx) (pss.getD k []) := by
  rw [List.getD_eq_getElem?_getD]
  cases e : pss[k]? with
  | none => simp
  | some x => exact h x (List.mem_of_getElem? e)

theorem foundGo_sorted (F : FEnv) (original translated : List (List Char)) (rest : List (List Char)) (i : Nat)
    (parsed : List (DateId × Bool)) (hits : List Hit) (rb : DateId) (r : List Hit)
    (hinv : HInv hits i) (h : foundGo F original translated rest i parsed hits rb = .ok r) :
    List.Pairwise hitLt r ∧ (∀ x ∈ r, x.ci < i + rest.length) ∧ (∀ x ∈ r, x.date.isSome = true) := by
  induction rest generalizing i parsed hits rb with
  | nil =>
    simp only [foundGo] at h; injection h with h; subst h
    refine ⟨?_, ?_, ?_⟩
    · rw [List.pairwise_reverse]; exact hinv.1
    · intro x hx; simpa using hinv.2.1 x (List.mem_reverse.mp hx)
    · intro x hx; exact hinv.2.2 x (List.mem_reverse.mp hx)
  | cons item rest ih =>
    have fin : ∀ {P : Prop}, (List.Pairwise hitLt r ∧ (∀ x ∈ r, x.ci < i + 1 + rest.length) ∧ P) →
        (List.Pairwise hitLt r ∧ (∀ x ∈ r, x.ci < i + (item :: rest).length) ∧ P) := by
      intro P hh
      refine ⟨hh.1, fun x hx => ?_, hh.2.2⟩
      have := hh.2.1 x hx; simp only [List.length_cons]; omega
    unfold foundGo at h
    split at h
    · exact fin (ih (i + 1) _ _ _ hinv.mono h)
    · cases e1 : idxC translated i with
      | error e => simp only [e1] at h; cases h
      | ok ti =>
        cases e2 : idxC original i with
        | error e => simp only [e1, e2] at h; split at h <;> cases h
        | ok oi =>
          simp only [e1, e2] at h
          split at h
          · rename_i hd
            exact fin (ih (i + 1) _ _ _ (hinv.push _ _ hd _) h)
          · split at h
            · exact fin (ih (i + 1) _ _ _ hinv.mono h)
            · cases e3 : parseSplits F (splitIfNotParsed item oi) (parseItem F.gdd rb item ti parsed F.needRb).2.2 with
              | error e => simp only [e3] at h; cases h
              | ok r3 =>
                obtain ⟨pss, rb2⟩ := r3
                simp only [e3] at h
                refine fin (ih (i + 1) _ _ _ ?_ h)
                apply hinv.batch
                · exact (getD_sorted pss _ (parseSplits_sorted F _ _ _ e3)).filter _
                · intro p hp
                  exact (List.mem_filter.mp hp).2


/-! ## split then join; where the text of a hit comes from -/

theorem splitGo_ne_nil (sep s : List Char) (k : Nat) (cur : List Char) : splitGo sep s k cur ≠ [] := by
  induction s generalizing k cur with
  | nil => simp [splitGo]
  | cons c rest ih =>
    cases k with
    | succ k => simp only [splitGo]; exact ih _ _
    | zero => simp only [splitGo]; split <;> simp [ih]

theorem pyJoin_cons (sep x : List Char) (xs : List (List Char)) (h : xs ≠ []) : pyJoin sep (x :: xs) = x ++ sep ++ pyJoin sep xs := by
  cases xs with
  | nil => exact absurd rfl h
  | cons y ys => rfl

/-- skip mode drops exactly `k` characters -/
theorem splitGo_skip (sep t r : List Char) (cur : List Char) : splitGo sep (t ++ r) t.length cur = splitGo sep r 0 cur := by
  induction t with
  | nil => rfl
  | cons c t ih => simp only [List.cons_append, List.length_cons, splitGo]; exact ih

theorem splitGo_join (sep : List Char) (hsep : sep ≠ []) (n : Nat) : ∀ (s cur : List Char), s.length ≤ n →
    pyJoin sep (splitGo sep s 0 cur) = cur.reverse ++ s := by
  induction n with
  | zero =>
    intro s cur hs
    have : s = [] := List.eq_nil_of_length_eq_zero (by omega)
    subst this
    simp [splitGo, pyJoin]
  | succ n ih =>
    intro s cur hs
    cases s with
    | nil => simp [splitGo, pyJoin]
    | cons c rest =>
      simp only [splitGo]
      split
      · rename_i hp
        obtain ⟨r, hr⟩ := List.isPrefixOf_iff_prefix.mp hp
        cases sep with
        | nil => exact absurd rfl hsep
        | cons c' st =>
          simp only [List.cons_append, List.cons.injEq] at hr
          obtain ⟨rfl, hr⟩ := hr
          subst hr
          have hl : (c' :: st).length - 1 = st.length := by simp
          rw [hl, splitGo_skip, pyJoin_cons _ _ _ (splitGo_ne_nil _ _ _ _)]
          have := ih r [] (by simp only [List.length_cons, List.length_append] at hs; omega)
          rw [this]
          simp
      · have := ih rest (c :: cur) (by simp only [List.length_cons] at hs; omega)
        rw [this]
        simp

/-- **split then join is the identity**: the pieces `s.split(sep)` returns, joined by `sep`, are `s` — so every piece (and every group of
    consecutive pieces joined by `sep`) is a contiguous part of `s`, in order -/
theorem pyJoin_pySplit (s sep : List Char) (hsep : sep ≠ []) : pyJoin sep (pySplit s sep) = s := by
  have := splitGo_join sep hsep s.length s [] (Nat.le_refl _)
  simpa [pySplit] using this

/-- where the text of a hit comes from: the whole original chunk `ci` (stripped), or the piece `pj` of one of the candidate splits of that chunk -/
def HitFrom (toParse original : List (List Char)) (h : Hit) : Prop :=
  ∃ item oi, toParse[h.ci]? = some item ∧ original[h.ci]? = some oi ∧
    (h.sub = pyStrip oi strip1 ∨
     ∃ tr og piece, (tr, og) ∈ splitIfNotParsed item oi ∧ og[h.pj]? = some piece ∧ h.sub = pyStrip piece strip2)

theorem idxC_some (l : List (List Char)) (i : Nat) (x : List Char) (h : idxC l i = .ok x) : l[i]? = some x := by
  unfold idxC at h
  split at h
  · injection h with h; subst h; assumption
  · cases h

theorem parseSplit_from (gdd : Gdd) (need : Bool) (s2 : List Char) (tr og : List (List Char))
    (rest : List (List Char)) (j : Nat) (acc : List Piece) (rb : DateId) (r : List Piece × DateId)
    (hacc : ∀ x ∈ acc, ∃ piece, og[x.idx]? = some piece ∧ x.2.2.1 = pyStrip piece s2)
    (h : parseSplit gdd need s2 tr og rest j acc rb = .ok r) :
    ∀ x ∈ r.1, ∃ piece, og[x.idx]? = some piece ∧ x.2.2.1 = pyStrip piece s2 := by
  induction rest generalizing j acc rb with
  | nil =>
    simp only [parseSplit] at h; injection h with h; subst h
    intro x hx; exact hacc x (List.mem_reverse.mp hx)
  | cons p rest ih =>
    unfold parseSplit at h
    split at h
    · exact ih (j + 1) acc rb hacc h
    · cases e1 : idxC tr j with
      | error e => simp only [e1] at h; cases h
      | ok tj =>
        cases e2 : idxC og j with
        | error e => simp only [e1, e2] at h; cases h
        | ok oj =>
          simp only [e1, e2] at h
          refine ih (j + 1) _ _ ?_ h
          intro x hx
          simp only [List.mem_cons] at hx
          rcases hx with rfl | hx
          · exact ⟨oj, idxC_some _ _ _ e2, rfl⟩
          · exact hacc x hx

theorem parseSplits_from (F : FEnv) (splits : List (List (List Char) × List (List Char))) (rb : DateId)
    (r : List (List Piece) × DateId) (h : parseSplits F splits rb = .ok r) :
    ∀ ps ∈ r.1, ∃ tr og, (tr, og) ∈ splits ∧ ∀ x ∈ ps, ∃ piece, og[x.idx]? = some piece ∧ x.2.2.1 = pyStrip piece strip2 := by
  induction splits generalizing rb r with
  | nil => simp only [parseSplits] at h; injection h with h; subst h; simp
  | cons p rest ih =>
    obtain ⟨tr, og⟩ := p
    unfold parseSplits at h
    cases e1 : parseSplit F.gdd F.needRb strip2 tr og tr 0 [] rb with
    | error e => simp only [e1] at h; cases h
    | ok r1 =>
      obtain ⟨ps, rb'⟩ := r1
      simp only [e1] at h
      cases e2 : parseSplits F rest rb' with
      | error e => simp only [e2] at h; cases h
      | ok r2 =>
        obtain ⟨pss, rb''⟩ := r2
        simp only [e2] at h
        injection h with h; subst h
        intro q hq
        simp only [List.mem_cons] at hq
        rcases hq with rfl | hq
        · exact ⟨tr, og, List.mem_cons_self, parseSplit_from _ _ _ _ _ _ _ _ _ _ (by simp) e1⟩
        · obtain ⟨tr', og', hm, hx⟩ := ih rb' _ e2 q hq
          exact ⟨tr', og', List.mem_cons_of_mem _ hm, hx⟩

theorem foundGo_from (F : FEnv) (original translated toParse : List (List Char)) (rest : List (List Char)) (i : Nat)
    (hsuf : toParse.drop i = rest)
    (parsed : List (DateId × Bool)) (hits : List Hit) (rb : DateId) (r : List Hit)
    (hinv : ∀ x ∈ hits, HitFrom toParse original x) (h : foundGo F original translated rest i parsed hits rb = .ok r) :
    ∀ x ∈ r, HitFrom toParse original x := by
  induction rest generalizing i parsed hits rb with
  | nil =>
    simp only [foundGo] at h; injection h with h; subst h
    intro x hx; exact hinv x (List.mem_reverse.mp hx)
  | cons item rest ih =>
    have hitem : toParse[i]? = some item := by
      have : (toParse.drop i)[0]? = some item := by rw [hsuf]; rfl
      simpa using this
    have hsuf' : toParse.drop (i + 1) = rest := by
      have : (toParse.drop i).drop 1 = rest := by rw [hsuf]; rfl
      simpa [List.drop_drop, Nat.add_comm] using this
    unfold foundGo at h
    split at h
    · exact ih (i + 1) hsuf' _ _ _ hinv h
    · cases e1 : idxC translated i with
      | error e => simp only [e1] at h; cases h
      | ok ti =>
        cases e2 : idxC original i with
        | error e => simp only [e1, e2] at h; split at h <;> cases h
        | ok oi =>
          have hoi := idxC_some _ _ _ e2
          simp only [e1, e2] at h
          split at h
          · refine ih (i + 1) hsuf' _ _ _ ?_ h
            intro x hx
            simp only [List.mem_cons] at hx
            rcases hx with rfl | hx
            · exact ⟨item, oi, hitem, hoi, Or.inl rfl⟩
            · exact hinv x hx
          · split at h
            · exact ih (i + 1) hsuf' _ _ _ hinv h
            · cases e3 : parseSplits F (splitIfNotParsed item oi) (parseItem F.gdd rb item ti parsed F.needRb).2.2 with
              | error e => simp only [e3] at h; cases h
              | ok r3 =>
                obtain ⟨pss, rb2⟩ := r3
                simp only [e3] at h
                refine ih (i + 1) hsuf' _ _ _ ?_ h
                intro x hx
                simp only [List.mem_append, List.mem_reverse, List.mem_map] at hx
                rcases hx with ⟨p, hp, rfl⟩ | hx
                · have hp' := (List.mem_filter.mp hp).1
                  -- p belongs to the chosen candidate split
                  have hbest : ∃ ps ∈ pss, p ∈ ps := by
                    rw [List.getD_eq_getElem?_getD] at hp'
                    cases eg : pss[argmin (pss.map (ratingOf F))]? with
                    | none => rw [eg] at hp'; simp at hp'
                    | some ps => rw [eg] at hp'; exact ⟨ps, List.mem_of_getElem? eg, by simpa using hp'⟩
                  obtain ⟨ps, hps, hpp⟩ := hbest
                  obtain ⟨tr, og, hm, hx⟩ := parseSplits_from F _ _ _ e3 ps hps
                  obtain ⟨piece, hpc, hsub⟩ := hx p hpp
                  exact ⟨item, oi, hitem, hoi, Or.inr ⟨tr, og, piece, hm, hpc, hsub⟩⟩
                · exact hinv x hx

end DP.Search
