import DPProofs.Lemmas.Time
import DPProofs.Lemmas.Date
import DPProofs.Lemmas.Render
import DPModel.DP.Parser
/-!
# What `classify` (stage 1 of the absolute parser) and CPython's `_strptime` do on rendered, zero-padded ASCII fields
-/
namespace DP
def pad4c (n : Nat) : List Char := [dch (n / 1000), dch (n / 100 % 10), dch (n / 10 % 10), dch (n % 10)]
theorem isDecDigit_dch (n : Nat) (h : n < 10) : isDecDigit (dch n) = true := by
  rcases dch_cases n h with rfl | rfl | rfl | rfl | rfl | rfl | rfl | rfl | rfl | rfl <;> simp [isDecDigit, asciiDigit, dch]
theorem dir_four_Y (full : Bool) (is : List FItem) (a b c d : Nat) (ha : a < 10) (hb : b < 10) (hc : c < 10) (hd : d < 10)
    (rest : List Char) (fd : Found) :
    matchItems full (.dir 'Y' :: is) (dch a :: dch b :: dch c :: dch d :: rest) fd =
      matchItems full is rest (fd.setNum 'Y' (1000 * a + 100 * b + 10 * c + d) 4) := by
  simp only [matchItems, numAlts, List.findSome?, consumeAlt, CT.test, isDecDigit_dch, ha, hb, hc, hd, if_true, decVal_dch,
    dch_ne_space, Bool.false_eq_true, if_false, List.length_cons, List.length_nil]
  have e : (((0 * 10 + a) * 10 + b) * 10 + c) * 10 + d = 1000 * a + 100 * b + 10 * c + d := by omega
  rw [e]
  cases h : matchItems full is rest (fd.setNum 'Y' (1000 * a + 100 * b + 10 * c + d) 4) <;> simp

theorem parseFmt_dir1 (c : Char) (hc : c = 'm' ∨ c = 'd' ∨ c = 'y' ∨ c = 'Y') : parseFmt ['%', c] [] = some [.dir c] := by
  rcases hc with rfl | rfl | rfl | rfl <;> simp [parseFmt, numAlts, nameAlts]

/-- `dpStrptimeC` on a single numeric directive other than `%f` is the stdlib result without fraction -/
theorem dpStrptime_dir1 (tok : List Char) (c : Char) (hc : c = 'm' ∨ c = 'd' ∨ c = 'y' ∨ c = 'Y') :
    dpStrptimeC tok ['%', c] =
      match matchItems true [.dir c] tok {} with
      | none => .err (.value .fmt)
      | some fd => match foundToDT fd false with | .ok t => .ok t | .error e => .err e := by
  unfold dpStrptimeC strptimeC
  rw [parseFmt_dir1 c hc]
  rcases hc with rfl | rfl | rfl | rfl <;>
  (simp only [Option.any_some, List.any_cons, List.any_nil, Bool.or_false]
   cases matchItems true _ tok {} with
   | none => rfl
   | some fd => cases h : foundToDT fd false <;> simp [h])

theorem dirNum_m2 (v : Nat) (hv : v < 100) : dirNum (pad2c v) ['%', 'm'] DT.mo = if 1 ≤ v ∧ v ≤ 12 then some v else none := by
  have a1 : v / 10 < 10 := by omega
  have a2 : v % 10 < 10 := by omega
  have ev : 10 * (v / 10) + v % 10 = v := by omega
  unfold dirNum
  rw [dpStrptime_dir1 _ 'm' (by simp)]
  simp only [pad2c]
  rw [dir_two_m true [] _ _ a1 a2 [] {} (fun fd' => end_rejects _ _ fd'), ev]
  by_cases h : 1 ≤ v ∧ v ≤ 12
  · have z : ¬ (v = 0 ∨ 12 < v) := by omega
    have hdim : dim 1900 v ≠ 0 := by unfold dim dimL; split <;> (try split) <;> (try split) <;> omega
    simp [twoOk, h, nil_nil, Found.setNum, foundToDT, mkDT, z, hdim]
  · simp [twoOk, h]

theorem dim1900_ne (v : Nat) : dim 1900 v ≠ 0 := by have := dim_pos 1900 v; omega

theorem dirNum_d2 (v : Nat) (hv : v < 100) : dirNum (pad2c v) ['%', 'd'] DT.d = if 1 ≤ v ∧ v ≤ 31 then some v else none := by
  have a1 : v / 10 < 10 := by omega
  have a2 : v % 10 < 10 := by omega
  have ev : 10 * (v / 10) + v % 10 = v := by omega
  unfold dirNum
  rw [dpStrptime_dir1 _ 'd' (by simp)]
  simp only [pad2c]
  rw [dir_two_d true [] _ _ a1 a2 [] {} (fun fd' => end_rejects _ _ fd'), ev]
  by_cases h : 1 ≤ v ∧ v ≤ 31
  · have z : ¬ (v = 0 ∨ dim 1900 1 < v) := by
      have : dim 1900 1 = 31 := by decide
      omega
    simp [twoOk, h, nil_nil, Found.setNum, foundToDT, mkDT, z]
  · simp [twoOk, h]

theorem dirNum_y2 (v : Nat) (hv : v < 100) : dirNum (pad2c v) ['%', 'y'] DT.y = some (pivotYear v) := by
  have a1 : v / 10 < 10 := by omega
  have a2 : v % 10 < 10 := by omega
  have ev : 10 * (v / 10) + v % 10 = v := by omega
  unfold dirNum
  rw [dpStrptime_dir1 _ 'y' (by simp)]
  simp only [pad2c]
  rw [dir_two_y true [] _ _ a1 a2 [] {} (fun fd' => end_rejects _ _ fd'), ev]
  have z1 : ¬ (pivotYear v = 0 ∨ 9999 < pivotYear v) := by unfold pivotYear; split <;> omega
  have hd : dim (pivotYear v) 1 ≠ 0 := by have := dim_pos (pivotYear v) 1; omega
  simp [twoOk, nil_nil, Found.setNum, foundToDT, mkDT, z1, hd]

theorem dirNum_Y2 (v : Nat) : dirNum (pad2c v) ['%', 'Y'] DT.y = none := by
  unfold dirNum
  rw [dpStrptime_dir1 _ 'Y' (by simp)]
  simp [pad2c, matchItems, numAlts, consumeAlt, List.findSome?]

theorem dirNum_Y4 (y : Nat) (hy : y ≤ 9999) : dirNum (pad4c y) ['%', 'Y'] DT.y = if 1 ≤ y then some y else none := by
  have y1 : y / 1000 < 10 := by omega
  have y2 : y / 100 % 10 < 10 := by omega
  have y3 : y / 10 % 10 < 10 := by omega
  have y4 : y % 10 < 10 := by omega
  have ey : 1000 * (y / 1000) + 100 * (y / 100 % 10) + 10 * (y / 10 % 10) + y % 10 = y := by omega
  unfold dirNum
  rw [dpStrptime_dir1 _ 'Y' (by simp)]
  simp only [pad4c]
  rw [dir_four_Y true [] _ _ _ _ y1 y2 y3 y4 [] {}, ey]
  by_cases h : 1 ≤ y
  · have z1 : ¬ (y = 0 ∨ 9999 < y) := by omega
    have hd : dim y 1 ≠ 0 := by have := dim_pos y 1; omega
    simp [nil_nil, Found.setNum, foundToDT, mkDT, z1, hd, h]
  · have : y = 0 := by omega
    subst this
    simp [nil_nil, Found.setNum, foundToDT, mkDT]

theorem dirNum_four_none (y : Nat) (hy : y ≤ 9999) (c : Char) (hc : c = 'm' ∨ c = 'd' ∨ c = 'y') (sel : DT → Nat) :
    dirNum (pad4c y) ['%', c] sel = none := by
  have y1 : y / 1000 < 10 := by omega
  have y2 : y / 100 % 10 < 10 := by omega
  unfold dirNum
  rw [dpStrptime_dir1 _ c (by rcases hc with rfl | rfl | rfl <;> simp)]
  simp only [pad4c]
  rcases hc with rfl | rfl | rfl
  · rw [dir_two_m true [] _ _ y1 y2 _ {} (fun fd' => end_rejects _ _ fd'), end_rejects]
    simp
  · rw [dir_two_d true [] _ _ y1 y2 _ {} (fun fd' => end_rejects _ _ fd'), end_rejects]
    simp
  · rw [dir_two_y true [] _ _ y1 y2 _ {} (fun fd' => end_rejects _ _ fd'), end_rejects]
    simp
theorem ws_space_digit (full : Bool) (is : List FItem) (a : Nat) (ha : a < 10) (rest : List Char) (fd : Found) :
    matchItems full (.ws :: is) (' ' :: dch a :: rest) fd = matchItems full is (dch a :: rest) fd := by
  have h1 : isWs ' ' = true := by decide
  simp [matchItems, wsPrefixLen, h1, isWs_dch a ha, List.range, List.range.loop]

theorem lit_eq (full : Bool) (c : Char) (is : List FItem) (rest : List Char) (fd : Found) (hc : c = ':' ∨ c = '-' ∨ c = '/' ∨ c = '.') :
    matchItems full (.lit c :: is) (c :: rest) fd = matchItems full is rest fd := by
  rcases hc with rfl | rfl | rfl | rfl <;> simp [matchItems, eqIcase, lowerA]

/-- whitespace in the format consumes exactly one space before a character that is not whitespace -/
theorem ws_space_nonws (full : Bool) (is : List FItem) (c : Char) (hc : isWs c = false) (rest : List Char) (fd : Found) :
    matchItems full (.ws :: is) (' ' :: c :: rest) fd = matchItems full is (c :: rest) fd := by
  have h1 : isWs ' ' = true := by decide
  simp [matchItems, wsPrefixLen, h1, hc, List.range, List.range.loop]

theorem tkCls_dch (n : Nat) (h : n < 10) : tkCls (dch n) = 0 := by
  rcases dch_cases n h with rfl | rfl | rfl | rfl | rfl | rfl | rfl | rfl | rfl | rfl <;> decide
theorem tkCls_dash : tkCls '-' = 2 := by decide
theorem tkCls_colon : tkCls ':' = 0 := by decide
theorem tkCls_space : tkCls ' ' = 2 := by decide

theorem fmt_m : "%m".toList = ['%', 'm'] := by decide
theorem fmt_d : "%d".toList = ['%', 'd'] := by decide
theorem fmt_y : "%y".toList = ['%', 'y'] := by decide
theorem fmt_Y : "%Y".toList = ['%', 'Y'] := by decide

theorem asciiDigit_dch (n : Nat) (h : n < 10) : asciiDigit (dch n) = true := by
  rcases dch_cases n h with rfl | rfl | rfl | rfl | rfl | rfl | rfl | rfl | rfl | rfl <;> decide
theorem dch_toNat (n : Nat) (h : n < 10) : (dch n).toNat - 48 = n := by
  rcases dch_cases n h with rfl | rfl | rfl | rfl | rfl | rfl | rfl | rfl | rfl | rfl <;> decide
theorem dch_ne (n : Nat) (h : n < 10) (c : Char) (hc : c = 'a' ∨ c = 'p' ∨ c = 'm' ∨ c = 't' ∨ c = 'y' ∨ c = 'h' ∨ c = ':' ∨ c = '.' ∨ c = '-') :
    (dch n == c) = false := by
  rcases dch_cases n h with rfl | rfl | rfl | rfl | rfl | rfl | rfl | rfl | rfl | rfl <;>
  rcases hc with rfl | rfl | rfl | rfl | rfl | rfl | rfl | rfl | rfl <;> decide

theorem natOfAscii_pad4 (y : Nat) (hy : y ≤ 9999) : natOfAscii (pad4c y) = y := by
  have y1 : y / 1000 < 10 := by omega
  have y2 : y / 100 % 10 < 10 := by omega
  have y3 : y / 10 % 10 < 10 := by omega
  have y4 : y % 10 < 10 := by omega
  simp [natOfAscii, pad4c, dch_toNat, y1, y2, y3, y4]; omega
theorem natOfAscii_pad2 (v : Nat) (hv : v < 100) : natOfAscii (pad2c v) = v := by
  have a1 : v / 10 < 10 := by omega
  have a2 : v % 10 < 10 := by omega
  simp [natOfAscii, pad2c, dch_toNat, a1, a2]; omega
theorem allAscii_pad4 (y : Nat) (hy : y ≤ 9999) : allAsciiDigits (pad4c y) = true := by
  have y1 : y / 1000 < 10 := by omega
  have y2 : y / 100 % 10 < 10 := by omega
  have y3 : y / 10 % 10 < 10 := by omega
  have y4 : y % 10 < 10 := by omega
  simp [allAsciiDigits, pad4c, asciiDigit_dch, y1, y2, y3, y4]
theorem allAscii_pad2 (v : Nat) (hv : v < 100) : allAsciiDigits (pad2c v) = true := by
  have a1 : v / 10 < 10 := by omega
  have a2 : v % 10 < 10 := by omega
  simp [allAsciiDigits, pad2c, asciiDigit_dch, a1, a2]
theorem micro_pad4 (y : Nat) (hy : y ≤ 9999) : microSearch (pad4c y) = some (pad4c y) := by
  have y1 : y / 1000 < 10 := by omega
  have y2 : y / 100 % 10 < 10 := by omega
  have y3 : y / 10 % 10 < 10 := by omega
  have y4 : y % 10 < 10 := by omega
  simp [microSearch, pad4c, isDecDigit_dch, y1, y2, y3, y4, List.takeWhile]
theorem micro_pad2 (v : Nat) (hv : v < 100) : microSearch (pad2c v) = some (pad2c v) := by
  have a1 : v / 10 < 10 := by omega
  have a2 : v % 10 < 10 := by omega
  simp [microSearch, pad2c, isDecDigit_dch, a1, a2, List.takeWhile]
theorem merid_pad4 (y : Nat) (hy : y ≤ 9999) : meridSearch (pad4c y) = none := by
  have y1 : y / 1000 < 10 := by omega
  have y2 : y / 100 % 10 < 10 := by omega
  have y3 : y / 10 % 10 < 10 := by omega
  have y4 : y % 10 < 10 := by omega
  simp [meridSearch, pad4c, dch_ne, y1, y2, y3, y4]
theorem merid_pad2 (v : Nat) (hv : v < 100) : meridSearch (pad2c v) = none := by
  have a1 : v / 10 < 10 := by omega
  have a2 : v % 10 < 10 := by omega
  simp [meridSearch, pad2c, dch_ne, a1, a2]
theorem dch_ne' (n : Nat) (h : n < 10) (c : Char) (hc : c = 'a' ∨ c = 'p' ∨ c = 'm' ∨ c = 't' ∨ c = 'y' ∨ c = 'h' ∨ c = ':' ∨ c = '.' ∨ c = '-') :
    c ≠ dch n := by
  intro e; have := dch_ne n h c hc; rw [← e] at this; simp at this
theorem skip_pad4 (y : Nat) (hy : y ≤ 9999) : ¬ pad4c y ∈ Gen.parserSkipTokensC := by
  have y1 : y / 1000 < 10 := by omega
  have h1 := dch_ne' (y / 1000) y1
  simp [Gen.parserSkipTokensC, pad4c]
  exact ⟨fun e => absurd e.symm (h1 'y' (by simp)), fun e => absurd e.symm (h1 'h' (by simp))⟩
theorem skip_pad2 (v : Nat) (hv : v < 100) : ¬ pad2c v ∈ Gen.parserSkipTokensC := by
  simp [Gen.parserSkipTokensC, pad2c]
theorem colon_pad4 (y : Nat) (hy : y ≤ 9999) : ¬ ':' ∈ pad4c y := by
  have y1 : y / 1000 < 10 := by omega
  have y2 : y / 100 % 10 < 10 := by omega
  have y3 : y / 10 % 10 < 10 := by omega
  have y4 : y % 10 < 10 := by omega
  simp [pad4c, dch_ne' _ y1 ':' (by simp), dch_ne' _ y2 ':' (by simp), dch_ne' _ y3 ':' (by simp), dch_ne' _ y4 ':' (by simp)]
theorem colon_pad2 (v : Nat) (hv : v < 100) (c : Char) (hc : c = ':' ∨ c = '.') : ¬ c ∈ pad2c v := by
  have a1 : v / 10 < 10 := by omega
  have a2 : v % 10 < 10 := by omega
  rcases hc with rfl | rfl
  · simp only [pad2c, List.mem_cons, List.not_mem_nil, or_false, not_or]
    exact ⟨dch_ne' _ a1 ':' (by simp), dch_ne' _ a2 ':' (by simp)⟩
  · simp only [pad2c, List.mem_cons, List.not_mem_nil, or_false, not_or]
    exact ⟨dch_ne' _ a1 '.' (by simp), dch_ne' _ a2 '.' (by simp)⟩
theorem dot_pad4 (y : Nat) (hy : y ≤ 9999) : ¬ '.' ∈ pad4c y := by
  have y1 : y / 1000 < 10 := by omega
  have y2 : y / 100 % 10 < 10 := by omega
  have y3 : y / 10 % 10 < 10 := by omega
  have y4 : y % 10 < 10 := by omega
  simp [pad4c, dch_ne' _ y1 '.' (by simp), dch_ne' _ y2 '.' (by simp), dch_ne' _ y3 '.' (by simp), dch_ne' _ y4 '.' (by simp)]

/-- the `dotAfter` test of `classify` is false when no token of the raw list contains a '.' -/
theorem dotAfter_false (raw : List (List Char × Nat)) (hno : ∀ t ∈ raw, ¬ '.' ∈ t.1) (o : Option Nat) :
    (match o with
     | none => false
     | some j => match raw[j]? with
       | none => false
       | some (t2, _) => decide ('.' ∈ t2)) = false := by
  cases o with
  | none => rfl
  | some j =>
    simp only
    cases h : raw[j]? with
    | none => rfl
    | some p => obtain ⟨t2, n⟩ := p; simp; exact hno _ (List.mem_of_getElem? h)


end DP
