import DPProofs.C03
/-!
# C20 — the `Dictionary` class caches under concurrent eviction

One access parked anywhere between its look-up, its insertion and its return, while any number of complete accesses by other threads
(any settings keys, locales and CACHE_SIZE_LIMIT values) run in the gaps: the parked access still returns the value built from its own
settings key and locale, and the cache stays well-formed.  The getter of the pinned tree (membership test, then a second indexing of the
shared cache) raises KeyError on a two-access schedule; `Gen.dictGettersReadOnce` records which form /repo has now.
-/
namespace DP.Shared

/-- generated fact: none of the cache getters of `Dictionary` indexes the shared cache a second time after a possible insertion -/
theorem dict_getter_source : Gen.dictGettersReadOnce = true := by decide

theorem good_add (limit : Key → Nat) (c : Cache) (k : Key) (l : Loc) (h : Good c) : Good (addToCache limit c k l) := by
  have hgood := good_put c k l h
  by_cases hev : limit k ≠ 0 ∧ (c.put k l (k, l)).order.length > limit k
  · have hadd : addToCache limit c k l = (c.put k l (k, l)).popFirstOther k := by
      unfold addToCache; simp only []; rw [if_pos hev, evict_source]; rfl
    rw [hadd]
    exact good_shrink _ _ hgood (fun x hx => dropOther_sub k x _ hx)
  · have hadd : addToCache limit c k l = c.put k l (k, l) := by
      unfold addToCache; simp only []; rw [if_neg hev]
    rw [hadd]; exact hgood

theorem good_final (limit : Key → Nat) (ops : List (Key × Loc)) (c : Cache) (h : Good c) : Good (finalCache limit c ops) := by
  induction ops generalizing c with
  | nil => exact h
  | cons op ops ih =>
    obtain ⟨k, l⟩ := op
    exact ih _ (getCached_spec limit c k l h).2

/-- **C20_dict_getter**: an access interrupted by any accesses of other threads, before and after its own insertion, returns the value built
    from its own settings key and locale — never KeyError, never another configuration's value — and leaves a well-formed cache -/
theorem C20_dict_getter (limit : Key → Nat) (c : Cache) (k : Key) (l : Loc) (e1 e2 : List (Key × Loc)) (h : Good c) :
    (getPreempted Gen.dictGettersReadOnce limit c k l e1 e2).2 = .val (k, l)
      ∧ Good (getPreempted Gen.dictGettersReadOnce limit c k l e1 e2).1 := by
  rw [dict_getter_source]
  unfold getPreempted
  simp only [if_true]
  cases hl : c.lookup k l with
  | some v => exact ⟨by simp [h k l v hl], h⟩
  | none => exact ⟨rfl, good_final limit e2 _ (good_add limit _ k l (good_final limit e1 c h))⟩

/-- the interrupted access and the uninterrupted one return the same value -/
theorem C20_dict_getter_sequential (limit : Key → Nat) (c : Cache) (k : Key) (l : Loc) (e1 e2 : List (Key × Loc)) (h : Good c) :
    (getPreempted Gen.dictGettersReadOnce limit c k l e1 e2).2 = (getCached limit c k l).2 := by
  rw [(C20_dict_getter limit c k l e1 e2 h).1, (getCached_spec limit c k l h).1]

/-- **C20_dict_getter_counterexample**: the pinned tree's getter with CACHE_SIZE_LIMIT = 1 — thread A (settings 1) inserts its entry,
    thread B (settings 2) completes one access and evicts it, A's second indexing raises KeyError -/
theorem C20_dict_getter_counterexample :
    (getPreempted false (fun _ => 1) Cache.empty 1 10 [] [(2, 10)]).2 = .keyError := by decide

/-- …and the same schedule on the getter /repo has now -/
example : (getPreempted true (fun _ => 1) Cache.empty 1 10 [] [(2, 10)]).2 = .val (1, 10) := by decide

end DP.Shared
