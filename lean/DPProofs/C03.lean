import DPModel.DP.Shared
/-!
# C03 — results depend only on the call's arguments, never on call history (shared caches and settings)
-/
namespace DP.Shared

/-- every cached value was built from its own (settings key, locale) -/
def Good (c : Cache) : Prop := ∀ k l v, c.lookup k l = some v → v = (k, l)

theorem good_empty : Good Cache.empty := by intro k l v h; simp [Cache.lookup, Cache.empty] at h

theorem mem_put_order (c : Cache) (k l v) : k ∈ (c.put k l v).order := by
  unfold Cache.put; by_cases h : k ∈ c.order <;> simp [h]

theorem lookup_put_same (c : Cache) (k l v) : (c.put k l v).lookup k l = some v := by
  have hm := mem_put_order c k l v
  unfold Cache.lookup; simp only [hm, if_true]; simp [Cache.put]

theorem good_put (c : Cache) (k l) (h : Good c) : Good (c.put k l (k, l)) := by
  intro k' l' v hv
  unfold Cache.lookup at hv
  split at hv
  · rename_i hmem
    by_cases hk : k' = k
    · subst hk
      by_cases hl : l' = l
      · subst hl; simp [Cache.put] at hv; exact hv.symm
      · by_cases hc : k' ∈ c.order
        · simp [Cache.put, hl, hc] at hv
          exact h k' l' v (by simp [Cache.lookup, hc, hv])
        · simp [Cache.put, hl, hc] at hv
    · have hin : k' ∈ c.order := by
        unfold Cache.put at hmem
        by_cases hc : k ∈ c.order
        · simpa [hc] using hmem
        · simp [hc] at hmem; rcases hmem with hm | hm
          · exact hm
          · exact absurd hm hk
      simp [Cache.put, hk] at hv
      exact h k' l' v (by simp [Cache.lookup, hin, hv])
  · simp at hv

theorem good_shrink (c : Cache) (o : List Key) (h : Good c) (hs : ∀ x, x ∈ o → x ∈ c.order) :
    Good { c with order := o } := by
  intro k l v hv
  unfold Cache.lookup at hv
  split at hv
  · rename_i hm
    have hv' : c.tbl k l = some v := by simpa using hv
    have hm' : k ∈ o := by simpa using hm
    exact h k l v (by simp [Cache.lookup, hs k hm', hv'])
  · simp at hv

theorem dropOther_keeps (k : Key) (o : List Key) (h : k ∈ o) : k ∈ dropOther k o := by
  induction o with
  | nil => simp at h
  | cons e rest ih =>
    unfold dropOther
    by_cases he : e = k
    · simp [he]
    · simp only [he, if_false]
      rcases List.mem_cons.mp h with h | h
      · exact absurd h.symm he
      · exact h

theorem dropOther_sub (k x : Key) (o : List Key) (h : x ∈ dropOther k o) : x ∈ o := by
  induction o with
  | nil => simp [dropOther] at h
  | cons e rest ih =>
    unfold dropOther at h
    by_cases he : e = k
    · simp only [he, if_true] at h
      rcases List.mem_cons.mp h with h | h
      · simp [h, he]
      · exact List.mem_cons_of_mem _ (ih h)
    · simp only [he, if_false] at h; exact List.mem_cons_of_mem _ h

/-- generated fact: the eviction in /repo skips the current key -/
theorem evict_source : Gen.evictSkipsCurrent = true := by rfl

/-- one cache access returns the value built from *this* call's settings key and locale, whatever the cache holds, and keeps the invariant -/
theorem getCached_spec (limit : Key → Nat) (c : Cache) (k : Key) (l : Loc) (h : Good c) :
    (getCached limit c k l).2 = .val (k, l) ∧ Good (getCached limit c k l).1 := by
  unfold getCached
  cases hl : c.lookup k l with
  | some v => exact ⟨by simp [h k l v hl], h⟩
  | none =>
    have hput := lookup_put_same c k l (k, l)
    have hgood := good_put c k l h
    have hin := mem_put_order c k l (k, l)
    by_cases hev : limit k ≠ 0 ∧ (c.put k l (k, l)).order.length > limit k
    · have hadd : addToCache limit c k l = (c.put k l (k, l)).popFirstOther k := by
        unfold addToCache; simp only []; rw [if_pos hev, evict_source]; rfl
      have hk : k ∈ ((c.put k l (k, l)).popFirstOther k).order := dropOther_keeps k _ hin
      have hlk : ((c.put k l (k, l)).popFirstOther k).lookup k l = some (k, l) := by
        unfold Cache.lookup; rw [if_pos hk]
        have := hput; unfold Cache.lookup at this; rw [if_pos hin] at this
        exact this
      simp only [hadd, hlk, ite_self]
      exact ⟨trivial, good_shrink _ _ hgood (fun x hx => dropOther_sub k x _ hx)⟩
    · have hadd : addToCache limit c k l = c.put k l (k, l) := by
        unfold addToCache; simp only []; rw [if_neg hev]
      simp only [hadd, hput, ite_self]
      exact ⟨trivial, hgood⟩

/-- **C03_cache_refine**: for every history of cache accesses — any settings keys, locales and CACHE_SIZE_LIMIT values, in any
    order — each access returns exactly what it would return on the empty cache of a fresh process; no `KeyError`. -/
theorem C03_cache_refine (limit : Key → Nat) (ops : List (Key × Loc)) (c : Cache) (h : Good c) :
    run limit c ops = ops.map (fun kl => Out.val kl) := by
  induction ops generalizing c with
  | nil => rfl
  | cons op ops ih =>
    obtain ⟨k, l⟩ := op
    have ⟨hv, hg⟩ := getCached_spec limit c k l h
    simp [run, hv, ih _ hg]

/-- the same call after any history equals the call in a fresh process -/
theorem C03_cache_history (limit : Key → Nat) (hist : List (Key × Loc)) (k : Key) (l : Loc) :
    (run limit Cache.empty (hist ++ [(k, l)])).getLast? = (run limit Cache.empty [(k, l)]).getLast? := by
  rw [C03_cache_refine limit _ _ good_empty, C03_cache_refine limit _ _ good_empty]
  simp

/-- **C03_order_restored**: whatever the parse method does — return, or raise any exception the source's `except` tuple lists —
    the shared DATE_ORDER is back to its value before the call. -/
theorem C03_order_restored (before localeOrder : Nat) (writes : Bool) (o : ParseOutcome)
    (ho : o = .ok ∨ o = .raised "ValueError" ∨ o = .raised "OverflowError") :
    tryParserOrderAfter before localeOrder writes o = before := by
  have h1 : ((Gen.exceptTryParser.headD []).any (fun n => classCaughtBy [n] "ValueError") && Gen.tryParserRestoresOnCatch) = true := by decide
  have h2 : ((Gen.exceptTryParser.headD []).any (fun n => classCaughtBy [n] "OverflowError") && Gen.tryParserRestoresOnCatch) = true := by decide
  have h3 : Gen.tryParserRestoresOnReturn = true := by decide
  rcases ho with rfl | rfl | rfl
  · unfold tryParserOrderAfter; simp only; rw [if_pos h3]
  · unfold tryParserOrderAfter; simp only; rw [if_pos h1]
  · unfold tryParserOrderAfter; simp only; rw [if_pos h2]

/-- generated fact: `_try_parser` assigns the saved DATE_ORDER back on the normal path and in every handler -/
theorem try_parser_restore_source : Gen.tryParserRestoresOnReturn = true ∧ Gen.tryParserRestoresOnCatch = true := by decide

/-- non-vacuity: the history that raised KeyError before the repair (limit 1 for key 1; keys 1, 2, then key 1 with a new locale) -/
example : run (fun k => if k = 1 then 1 else 1000) Cache.empty [(1, 10), (2, 10), (1, 20)] = [.val (1, 10), .val (2, 10), .val (1, 20)] :=
  C03_cache_refine _ _ _ good_empty

end DP.Shared
