import DPProofs.Lemmas.Classify
/-!
# C14 — `strptime(strftime(t, f), f) = t` proved for every valid datetime, for formats of the family (CPython `_strptime` model)
-/
namespace DP
def fmtIso : List Char := ['%','Y','-','%','m','-','%','d',' ','%','H',':','%','M',':','%','S']
def itemsIso : List FItem := [.dir 'Y', .lit '-', .dir 'm', .lit '-', .dir 'd', .ws, .dir 'H', .lit ':', .dir 'M', .lit ':', .dir 'S']
theorem parseFmt_iso : parseFmt fmtIso [] = some itemsIso := by
  simp [fmtIso, itemsIso, parseFmt, numAlts, nameAlts, isWs, asciiDigit]

set_option maxHeartbeats 400000 in
theorem match_iso (y mo d h mi s : Nat) (hy2 : y ≤ 9999) (hm : 1 ≤ mo ∧ mo ≤ 12) (hd : 1 ≤ d ∧ d ≤ 31) (hh : h ≤ 23) (hmi : mi ≤ 59) (hs : s ≤ 59) :
    matchItems true itemsIso (pad4c y ++ ['-'] ++ pad2c mo ++ ['-'] ++ pad2c d ++ [' '] ++ pad2c h ++ [':'] ++ pad2c mi ++ [':'] ++ pad2c s) {} =
      some { Y := some y, m := some mo, d := some d, H := some h, M := some mi, S := some s } := by
  have y1 : y / 1000 < 10 := by omega
  have y2 : y / 100 % 10 < 10 := by omega
  have y3 : y / 10 % 10 < 10 := by omega
  have y4 : y % 10 < 10 := by omega
  have ey : 1000 * (y / 1000) + 100 * (y / 100 % 10) + 10 * (y / 10 % 10) + y % 10 = y := by omega
  have m1 : mo / 10 < 10 := by omega
  have m2 : mo % 10 < 10 := by omega
  have em : 10 * (mo / 10) + mo % 10 = mo := by omega
  have d1 : d / 10 < 10 := by omega
  have d2 : d % 10 < 10 := by omega
  have ed : 10 * (d / 10) + d % 10 = d := by omega
  have a1 : h / 10 < 10 := by omega
  have a2 : h % 10 < 10 := by omega
  have eh : 10 * (h / 10) + h % 10 = h := by omega
  have b1 : mi / 10 < 10 := by omega
  have b2 : mi % 10 < 10 := by omega
  have emi : 10 * (mi / 10) + mi % 10 = mi := by omega
  have c1 : s / 10 < 10 := by omega
  have c2 : s % 10 < 10 := by omega
  have es : 10 * (s / 10) + s % 10 = s := by omega
  have s61 : s ≤ 61 := by omega
  simp only [itemsIso, pad4c, pad2c, List.cons_append, List.nil_append, List.append_assoc]
  rw [dir_four_Y true _ _ _ _ _ y1 y2 y3 y4, ey, lit_eq true '-' _ _ _ (by simp)]
  rw [dir_two_m true _ _ _ m1 m2 _ _ (fun fd' => lit_rejects_digit true '-' _ _ m2 _ fd' (by simp)), em]
  simp only [twoOk, hm, decide_true, and_self, if_true]
  rw [lit_eq true '-' _ _ _ (by simp)]
  rw [dir_two_d true _ _ _ d1 d2 _ _ (fun fd' => ws_rejects_digit true _ _ d2 _ fd'), ed]
  simp only [twoOk, hd, decide_true, and_self, if_true]
  rw [ws_space_digit true _ _ a1]
  rw [dir_two_H true _ _ _ a1 a2 _ _ (fun fd' => lit_rejects_digit true ':' _ _ a2 _ fd' (by simp)), eh]
  simp only [twoOk, hh, decide_true, if_true]
  rw [lit_eq true ':' _ _ _ (by simp)]
  rw [dir_two_M true _ _ _ b1 b2 _ _ (fun fd' => lit_rejects_digit true ':' _ _ b2 _ fd' (by simp)), emi]
  simp only [twoOk, hmi, decide_true, if_true]
  rw [lit_eq true ':' _ _ _ (by simp)]
  rw [dir_two_S true _ _ _ c1 c2 _ _ (fun fd' => end_rejects _ _ fd'), es]
  simp only [twoOk, s61, decide_true, if_true, nil_nil, Found.setNum]

def renderIso (t : DT) : List Char :=
  pad4c t.y ++ ['-'] ++ pad2c t.mo ++ ['-'] ++ pad2c t.d ++ [' '] ++ pad2c t.h ++ [':'] ++ pad2c t.mi ++ [':'] ++ pad2c t.s

/-- **C14_roundtrip_iso**: for every valid datetime without a fraction, parsing its `%Y-%m-%d %H:%M:%S` rendering with that format
    gives the datetime back (CPython `_strptime` model, whole-string match, ordered alternatives with backtracking). -/
theorem C14_roundtrip_iso (t : DT) (hv : t.valid) (hus : t.us = 0) : strptimeC (renderIso t) fmtIso true = .ok t := by
  obtain ⟨y, mo, d, h, mi, s, us⟩ := t
  obtain ⟨hy1, hy2, hm1, hm2, hd1, hd2, hh, hmi, hs, _⟩ := hv
  simp only at hy1 hy2 hm1 hm2 hd1 hd2 hh hmi hs hus
  subst hus
  have hd31 : d ≤ 31 := by have := dim_le_31 y mo; omega
  unfold strptimeC
  rw [parseFmt_iso]
  simp only [renderIso]
  rw [match_iso y mo d h mi s hy2 ⟨hm1, hm2⟩ ⟨hd1, hd31⟩ hh hmi hs]
  have n1 : ¬ (y < 1 ∨ y > 9999) := by omega
  have n2 : ¬ (mo < 1 ∨ mo > 12) := by omega
  have n3 : ¬ (d < 1 ∨ d > dim y mo) := by omega
  have n4 : ¬ h > 23 := by omega
  have n5 : ¬ mi > 59 := by omega
  have n6 : ¬ s > 59 := by omega
  have q1 : ¬ (y < 1 ∨ 9999 < y) := by omega
  have q2 : ¬ (mo < 1 ∨ 12 < mo) := by omega
  have q3 : ¬ (d < 1 ∨ dim y mo < d) := by omega
  have q4 : ¬ 23 < h := by omega
  have q5 : ¬ 59 < mi := by omega
  have q6 : ¬ 59 < s := by omega
  have z1 : ¬ (y = 0 ∨ 9999 < y) := by omega
  have z2 : ¬ (mo = 0 ∨ 12 < mo) := by omega
  have z3 : ¬ (d = 0 ∨ dim y mo < d) := by omega
  simp [foundToDT, mkDT, z1, z2, z3, q4, q5, q6]
/-! ### `%d/%m/%Y` -/
def fmtDMY : List Char := ['%','d','/','%','m','/','%','Y']
def itemsDMY : List FItem := [.dir 'd', .lit '/', .dir 'm', .lit '/', .dir 'Y']
theorem parseFmt_dmy : parseFmt fmtDMY [] = some itemsDMY := by
  simp [fmtDMY, itemsDMY, parseFmt, numAlts, nameAlts, isWs, asciiDigit]
def renderDMY (t : DT) : List Char := pad2c t.d ++ ['/'] ++ pad2c t.mo ++ ['/'] ++ pad4c t.y

theorem match_dmy (y mo d : Nat) (hy2 : y ≤ 9999) (hm : 1 ≤ mo ∧ mo ≤ 12) (hd : 1 ≤ d ∧ d ≤ 31) :
    matchItems true itemsDMY (pad2c d ++ ['/'] ++ pad2c mo ++ ['/'] ++ pad4c y) {} = some { Y := some y, m := some mo, d := some d } := by
  have y1 : y / 1000 < 10 := by omega
  have y2 : y / 100 % 10 < 10 := by omega
  have y3 : y / 10 % 10 < 10 := by omega
  have y4 : y % 10 < 10 := by omega
  have ey : 1000 * (y / 1000) + 100 * (y / 100 % 10) + 10 * (y / 10 % 10) + y % 10 = y := by omega
  have m1 : mo / 10 < 10 := by omega
  have m2 : mo % 10 < 10 := by omega
  have em : 10 * (mo / 10) + mo % 10 = mo := by omega
  have d1 : d / 10 < 10 := by omega
  have d2 : d % 10 < 10 := by omega
  have ed : 10 * (d / 10) + d % 10 = d := by omega
  simp only [itemsDMY, pad4c, pad2c, List.cons_append, List.nil_append]
  rw [dir_two_d true _ _ _ d1 d2 _ _ (fun fd' => lit_rejects_digit true '/' _ _ d2 _ fd' (by simp)), ed]
  simp only [twoOk, hd, decide_true, and_self, if_true]
  rw [lit_eq true '/' _ _ _ (by simp)]
  rw [dir_two_m true _ _ _ m1 m2 _ _ (fun fd' => lit_rejects_digit true '/' _ _ m2 _ fd' (by simp)), em]
  simp only [twoOk, hm, decide_true, and_self, if_true]
  rw [lit_eq true '/' _ _ _ (by simp), dir_four_Y true _ _ _ _ _ y1 y2 y3 y4, ey]
  simp only [nil_nil, Found.setNum]

/-- **C14_roundtrip_dmy**: every valid date, rendered `dd/mm/YYYY`, parses back with `%d/%m/%Y` to that date at midnight -/
theorem C14_roundtrip_dmy (t : DT) (hv : t.valid) (h0 : t.h = 0 ∧ t.mi = 0 ∧ t.s = 0 ∧ t.us = 0) :
    strptimeC (renderDMY t) fmtDMY true = .ok t := by
  obtain ⟨y, mo, d, h, mi, s, us⟩ := t
  obtain ⟨hy1, hy2, hm1, hm2, hd1, hd2, _, _, _, _⟩ := hv
  obtain ⟨e1, e2, e3, e4⟩ := h0
  simp only at hy1 hy2 hm1 hm2 hd1 hd2 e1 e2 e3 e4
  subst e1 e2 e3 e4
  have hd31 : d ≤ 31 := by have := dim_le_31 y mo; omega
  unfold strptimeC
  rw [parseFmt_dmy]
  simp only [renderDMY]
  rw [match_dmy y mo d hy2 ⟨hm1, hm2⟩ ⟨hd1, hd31⟩]
  have z1 : ¬ (y = 0 ∨ 9999 < y) := by omega
  have z2 : ¬ (mo = 0 ∨ 12 < mo) := by omega
  have z3 : ¬ (d = 0 ∨ dim y mo < d) := by omega
  simp [foundToDT, mkDT, z1, z2, z3]

/-! ### `%d %B %Y` -/
def monthCap : Nat → List Char
  | 1 => ['J','a','n','u','a','r','y'] | 2 => ['F','e','b','r','u','a','r','y'] | 3 => ['M','a','r','c','h'] | 4 => ['A','p','r','i','l']
  | 5 => ['M','a','y'] | 6 => ['J','u','n','e'] | 7 => ['J','u','l','y'] | 8 => ['A','u','g','u','s','t']
  | 9 => ['S','e','p','t','e','m','b','e','r'] | 10 => ['O','c','t','o','b','e','r'] | 11 => ['N','o','v','e','m','b','e','r']
  | _ => ['D','e','c','e','m','b','e','r']

theorem sorted_months : nameAlts 'B' = some [(8, ['s','e','p','t','e','m','b','e','r']), (1, ['f','e','b','r','u','a','r','y']), (10, ['n','o','v','e','m','b','e','r']),
    (11, ['d','e','c','e','m','b','e','r']), (0, ['j','a','n','u','a','r','y']), (9, ['o','c','t','o','b','e','r']), (7, ['a','u','g','u','s','t']),
    (2, ['m','a','r','c','h']), (3, ['a','p','r','i','l']), (5, ['j','u','n','e']), (6, ['j','u','l','y']), (4, ['m','a','y'])] := by
  decide +kernel

set_option maxHeartbeats 1000000 in
theorem dir_B_space (full : Bool) (is : List FItem) (m : Nat) (hm : 1 ≤ m ∧ m ≤ 12) (rest : List Char) (fd : Found) :
    matchItems full (.dir 'B' :: is) (monthCap m ++ ' ' :: rest) fd = matchItems full is (' ' :: rest) (fd.setName 'B' (m - 1)) := by
  have : m = 1 ∨ m = 2 ∨ m = 3 ∨ m = 4 ∨ m = 5 ∨ m = 6 ∨ m = 7 ∨ m = 8 ∨ m = 9 ∨ m = 10 ∨ m = 11 ∨ m = 12 := by omega
  rcases this with rfl | rfl | rfl | rfl | rfl | rfl | rfl | rfl | rfl | rfl | rfl | rfl <;>
  (simp only [matchItems, numAlts, sorted_months, monthCap]
   simp [List.findSome?, consumeName, eqIcase, lowerA]
   try (cases h : matchItems full is (' ' :: rest) _ <;> simp [h]))
theorem monthCap_head (m : Nat) : ∃ c tl, monthCap m = c :: tl ∧ isWs c = false ∧ (∀ (full : Bool) (is : List FItem) (b : Nat) (fd : Found) (r : List Char), True) := by
  unfold monthCap
  split <;> exact ⟨_, _, rfl, by decide, fun _ _ _ _ _ => trivial⟩

/-- a `%d` that read one digit cannot be followed by whitespace-in-format when the next character is a digit (already: ws_rejects_digit) -/
def fmtDBY : List Char := ['%','d',' ','%','B',' ','%','Y']
def itemsDBY : List FItem := [.dir 'd', .ws, .dir 'B', .ws, .dir 'Y']
theorem parseFmt_dby : parseFmt fmtDBY [] = some itemsDBY := by
  simp [fmtDBY, itemsDBY, parseFmt, numAlts, nameAlts, isWs, asciiDigit]
def renderDBY (t : DT) : List Char := pad2c t.d ++ [' '] ++ monthCap t.mo ++ [' '] ++ pad4c t.y

theorem match_dby (y mo d : Nat) (hy2 : y ≤ 9999) (hm : 1 ≤ mo ∧ mo ≤ 12) (hd : 1 ≤ d ∧ d ≤ 31) :
    matchItems true itemsDBY (pad2c d ++ [' '] ++ monthCap mo ++ [' '] ++ pad4c y) {} = some { Y := some y, B := some (mo - 1), d := some d } := by
  have y1 : y / 1000 < 10 := by omega
  have y2 : y / 100 % 10 < 10 := by omega
  have y3 : y / 10 % 10 < 10 := by omega
  have y4 : y % 10 < 10 := by omega
  have ey : 1000 * (y / 1000) + 100 * (y / 100 % 10) + 10 * (y / 10 % 10) + y % 10 = y := by omega
  have d1 : d / 10 < 10 := by omega
  have d2 : d % 10 < 10 := by omega
  have ed : 10 * (d / 10) + d % 10 = d := by omega
  obtain ⟨c, tl, hmc, hws, _⟩ := monthCap_head mo
  simp only [itemsDBY, pad2c, List.cons_append, List.nil_append, List.append_assoc]
  rw [dir_two_d true _ _ _ d1 d2 _ _ (fun fd' => ws_rejects_digit true _ _ d2 _ fd'), ed]
  simp only [twoOk, hd, decide_true, and_self, if_true]
  have e1 : ' ' :: (monthCap mo ++ ' ' :: pad4c y) = ' ' :: c :: (tl ++ ' ' :: pad4c y) := by rw [hmc]; rfl
  rw [e1, ws_space_nonws true _ c hws]
  have e2 : c :: (tl ++ ' ' :: pad4c y) = monthCap mo ++ ' ' :: pad4c y := by rw [hmc]; rfl
  rw [e2, dir_B_space true _ mo hm]
  simp only [pad4c]
  rw [ws_space_digit true _ _ y1, dir_four_Y true _ _ _ _ _ y1 y2 y3 y4, ey]
  simp only [nil_nil, Found.setNum, Found.setName]

/-- **C14_roundtrip_named**: every valid date, rendered `dd Month YYYY` with the English month name, parses back with `%d %B %Y` -/
theorem C14_roundtrip_named (t : DT) (hv : t.valid) (h0 : t.h = 0 ∧ t.mi = 0 ∧ t.s = 0 ∧ t.us = 0) :
    strptimeC (renderDBY t) fmtDBY true = .ok t := by
  obtain ⟨y, mo, d, h, mi, s, us⟩ := t
  obtain ⟨hy1, hy2, hm1, hm2, hd1, hd2, _, _, _, _⟩ := hv
  obtain ⟨e1, e2, e3, e4⟩ := h0
  simp only at hy1 hy2 hm1 hm2 hd1 hd2 e1 e2 e3 e4
  subst e1 e2 e3 e4
  have hd31 : d ≤ 31 := by have := dim_le_31 y mo; omega
  unfold strptimeC
  rw [parseFmt_dby]
  simp only [renderDBY]
  rw [match_dby y mo d hy2 ⟨hm1, hm2⟩ ⟨hd1, hd31⟩]
  have z1 : ¬ (y = 0 ∨ 9999 < y) := by omega
  have z2 : ¬ (mo = 0 ∨ 12 < mo) := by omega
  have emo : mo - 1 + 1 = mo := by omega
  have z3 : ¬ (d = 0 ∨ dim y mo < d) := by omega
  simp [foundToDT, mkDT, emo, z1, z2, z3]

end DP
