import DPModel.DP.TzCache
/-!
# C19 — import survives a missing, empty or truncated on-disk timezone cache
-/
namespace DP

/-- **C19_kinds** (generated fact + finite check): every exception class that reading or unpickling the cache can
    raise is handled by the `except` clause of `_load_offsets` as it is written in /repo now. -/
theorem C19_kinds : ∀ e ∈ LoadErr.all, loadCaught e = true := by decide

theorem LoadErr.mem_all (e : LoadErr) : e ∈ LoadErr.all := by cases e <;> decide

variable {Bytes Hash Table : Type} [DecidableEq Hash]

/-- **C19_recover**: whatever the file state — missing, or bytes on which `unpickle` fails in any way — the import
    obtains the rebuilt table, and the file left behind unpickles to exactly that table (the damage does not persist). -/
theorem C19_recover (unpickle : Bytes → Except LoadErr (Option Hash × Table)) (pickle : Option Hash × Table → Bytes)
    (hrt : ∀ x, unpickle (pickle x) = .ok x)
    (rebuilt : Table) (curHash : Option Hash) (fs : FileState Bytes)
    (hbad : fs = .missing ∨ ∃ b e, fs = .bytes b ∧ unpickle b = .error e) :
    (loadOffsets unpickle pickle rebuilt curHash fs).outcome = .ok rebuilt ∧
    ∃ b', (loadOffsets unpickle pickle rebuilt curHash fs).file = .bytes b' ∧ unpickle b' = .ok (curHash, rebuilt) := by
  rcases hbad with rfl | ⟨b, e, rfl, he⟩
  · have hc := C19_kinds .fileNotFound (LoadErr.mem_all _)
    simp only [loadOffsets, hc, if_true]
    exact ⟨trivial, _, rfl, hrt _⟩
  · have hc := C19_kinds e (LoadErr.mem_all _)
    simp only [loadOffsets, he, hc, if_true]
    exact ⟨trivial, _, rfl, hrt _⟩

/-- **C19_healthy**: a complete cache (with a matching or unchecked hash) is used as it is and left untouched. -/
theorem C19_healthy (unpickle : Bytes → Except LoadErr (Option Hash × Table)) (pickle : Option Hash × Table → Bytes)
    (rebuilt : Table) (curHash : Option Hash) (b : Bytes) (h : Option Hash) (tbl : Table)
    (hok : unpickle b = .ok (h, tbl)) (hh : curHash = none ∨ curHash = h) :
    (loadOffsets unpickle pickle rebuilt curHash (.bytes b)).outcome = .ok tbl ∧
    (loadOffsets unpickle pickle rebuilt curHash (.bytes b)).file = .bytes b := by
  simp only [loadOffsets, hok, hh, if_true]
  exact ⟨trivial, trivial⟩

/-- **C19_again**: a second import after a recovery takes the fast path and yields the same table. -/
theorem C19_again (unpickle : Bytes → Except LoadErr (Option Hash × Table)) (pickle : Option Hash × Table → Bytes)
    (hrt : ∀ x, unpickle (pickle x) = .ok x)
    (rebuilt : Table) (curHash : Option Hash) (fs : FileState Bytes)
    (hbad : fs = .missing ∨ ∃ b e, fs = .bytes b ∧ unpickle b = .error e) :
    let r1 := loadOffsets unpickle pickle rebuilt curHash fs
    let r2 := loadOffsets unpickle pickle rebuilt curHash r1.file
    r2.outcome = .ok rebuilt ∧ r2.file = r1.file := by
  obtain ⟨_, b', hf, hu⟩ := C19_recover unpickle pickle hrt rebuilt curHash fs hbad
  intro r1 r2
  have hf' : r1.file = .bytes b' := hf
  show (loadOffsets unpickle pickle rebuilt curHash r1.file).outcome = .ok rebuilt ∧
       (loadOffsets unpickle pickle rebuilt curHash r1.file).file = r1.file
  rw [hf']
  exact C19_healthy unpickle pickle rebuilt curHash b' curHash rebuilt hu (Or.inr rfl)

/-- **C19_total**: for *every* file state the import yields a table (never an exception). -/
theorem C19_total (unpickle : Bytes → Except LoadErr (Option Hash × Table)) (pickle : Option Hash × Table → Bytes)
    (rebuilt : Table) (curHash : Option Hash) (fs : FileState Bytes) :
    ∃ tbl, (loadOffsets unpickle pickle rebuilt curHash fs).outcome = .ok tbl := by
  cases fs with
  | missing =>
    have hc := C19_kinds .fileNotFound (LoadErr.mem_all _)
    exact ⟨rebuilt, by simp only [loadOffsets, hc, if_true]⟩
  | bytes b =>
    cases hu : unpickle b with
    | error e =>
      have hc := C19_kinds e (LoadErr.mem_all _)
      exact ⟨rebuilt, by simp only [loadOffsets, hu, hc, if_true]⟩
    | ok v =>
      obtain ⟨h, tbl⟩ := v
      by_cases hh : curHash = none ∨ curHash = h
      · exact ⟨tbl, by simp only [loadOffsets, hu, hh, if_true]⟩
      · exact ⟨rebuilt, by simp only [loadOffsets, hu, hh, if_false]⟩

/-- non-vacuity: a concrete instance (bytes = an optional payload; `none` plays a truncated file) meets the hypotheses -/
example : (loadOffsets (Bytes := Option (Option Nat × Nat)) (Hash := Nat) (Table := Nat)
    (fun b => match b with | some x => .ok x | none => .error .unpickling) some 7 none (.bytes none)).outcome = .ok 7 :=
  (C19_recover _ _ (by intro x; rfl) 7 none (.bytes none) (Or.inr ⟨none, .unpickling, rfl, rfl⟩)).1

end DP
