import DPModel.Gen.Consts
/-!
# C03 / C20 — the inventory of process-wide mutable state

The history-independence and interleaving theorems are about the shared state the models name (the `Settings` registry object and its
`DATE_ORDER` field, the `Dictionary` class caches, the loader's locale cache, the lazily built locale attributes, the timezone table).  This
generated fact pins the list of process-wide mutable objects the package defines outside its data modules — module-level singletons, names
rebound through `global`, class-level containers, mutated module-level containers and `functools` caches — so that a change which introduces
another one (a memo, a "last result" slot, an `lru_cache`) breaks an obligation of C03 and C20 and starts the search for a failing history
or schedule, instead of passing unnoticed because no model mentions it.
-/
namespace DP.Shared

theorem shared_state_source : Gen.sharedStateInventory =
    ["dateparser.__init__:_default_parser = DateDataParser()", "dateparser.conf:Settings._mod_settings (class-level container)", "dateparser.conf:settings = Settings()", "dateparser.date_parser:date_parser = DateParser()", "dateparser.freshness_date_parser:freshness_date_parser = FreshnessDateDataParser()", "dateparser.languages.dictionary:Dictionary._match_relative_regex_cache (class-level container)", "dateparser.languages.dictionary:Dictionary._sorted_relative_strings_cache (class-level container)", "dateparser.languages.dictionary:Dictionary._sorted_words_cache (class-level container)", "dateparser.languages.dictionary:Dictionary._split_regex_cache (class-level container)", "dateparser.languages.dictionary:Dictionary._split_relative_regex_cache (class-level container)", "dateparser.languages.loader:LocaleDataLoader._loaded_languages (class-level container)", "dateparser.languages.loader:LocaleDataLoader._loaded_locales (class-level container)", "dateparser.languages.loader:default_loader = LocaleDataLoader()", "dateparser.parser:time_parser = _time_parser()", "dateparser.search.__init__:_search_with_detection = DateSearchWithDetection()", "dateparser.timezone_parser:global _search_regex", "dateparser.timezone_parser:global _search_regex_ignorecase", "dateparser.timezone_parser:global _tz_offsets"] := by decide


/-- generated fact: the registry key of a Settings value is computed from every item of the mapping — two configurations that differ in any
    setting (the reference time included) never share one registry object, which is what the per-key models of C03 and C20 assume -/
theorem settings_key_source : Gen.settingsKeyCoversEveryItem = true := by decide

end DP.Shared
