import DPProofs.Lemmas.Parser
import DPModel.DP.Pipeline
/-!
# C10 — strictness only filters; strict results never borrow from the clock

Statements over *token records* (stage 2 of the absolute parser), i.e. over every language's token mix once
translated.  `relax st` is `st` with STRICT_PARSING off and REQUIRE_PARTS empty.
-/
namespace DP

def relax (st : PSettings) : PSettings := { st with strict := false, requireParts := [] }

theorem initLoop_relax (st : PSettings) (toks : List TI) (fuel i : Nat) (p : PS) :
    initLoop (relax st) toks fuel i p = initLoop st toks fuel i p := by
  induction fuel generalizing i p with
  | zero => rfl
  | succ n ih =>
    unfold initLoop
    simp only [ih]
    rfl

theorem checkStrict_relax (st : PSettings) (m : List Comp) : checkStrict (relax st) m = .ok () := by
  simp [checkStrict, relax]

theorem checkStrict_outcome (st : PSettings) (m : List Comp) :
    checkStrict st m = .ok () ∨ checkStrict st m = .error (.value .strict) := by
  unfold checkStrict
  split
  · right; rfl
  · split
    · split
      · right; rfl
      · left; rfl
    · left; rfl

/-- **C10_filter**: for every token list and every configuration, turning strictness / REQUIRE_PARTS on either leaves
    the result exactly as it is without them, or turns it into the "fields missing" ValueError (→ `None`). -/
theorem C10_filter (st : PSettings) (toks : List TI) :
    absParseToks st toks = absParseToks (relax st) toks ∨ absParseToks st toks = .error (.value .strict) := by
  unfold absParseToks parseState
  rw [initLoop_relax]
  cases h1 : initLoop st toks (toks.length + 1) 0 {} with
  | error e => left; rfl
  | ok p =>
    simp only
    cases h2 : fillUnknown p with
    | error e => left; rfl
    | ok q =>
      simp only [results, checkStrict_relax]
      rcases checkStrict_outcome st (missingOf q) with h | h
      · left; rw [h]; rfl
      · right; rw [h]

/-- **C10_require** (one direction, the filtering condition itself): a REQUIRE_PARTS / strict configuration yields a
    result only if no required part is missing from the parse state. -/
theorem C10_require (st : PSettings) (m : List Comp) (h : checkStrict st m = .ok ()) :
    (st.strict = true → m = []) ∧ (∀ c ∈ st.requireParts, c ∉ m) := by
  unfold checkStrict at h
  constructor
  · intro hs
    by_cases hm : m = []
    · exact hm
    · simp [hs, hm] at h
  · intro c hc hcm
    have hm : m ≠ [] := by intro e; rw [e] at hcm; cases hcm
    have hr : st.requireParts ≠ [] := by intro e; rw [e] at hc; cases hc
    by_cases hs : st.strict = true
    · simp [hs, hm] at h
    · have hs' : st.strict = false := by cases hh : st.strict <;> simp_all
      simp [hs'] at h
      exact h hr hm c hc hcm

/-- **C10_clock_free**: under STRICT_PARSING and the default PREFER_DATES_FROM, a successful absolute parse is the same
    for every reference time (naive or aware). -/
theorem C10_clock_free (st : PSettings) (toks : List TI) (now' : DT) (off' : Option Int)
    (hs : st.strict = true) (hp : st.preferDates = .currentPeriod) (v : DT × Period)
    (h : absParseToks st toks = .ok v) : absParseToks (withNow st now' off') toks = .ok v := by
  unfold absParseToks at *
  rw [parseState_withNow]
  cases h1 : parseState st toks with
  | error e => rw [h1] at h; cases h
  | ok q =>
    rw [h1] at h
    simp only at h ⊢
    have hinv := inv_parseState st toks q h1
    cases ht : results st q with
    | error e => rw [ht] at h; cases h
    | ok t =>
      rw [ht] at h
      simp only at h
      have hmiss : missingOf q = [] := by
        unfold results at ht
        split at ht
        · cases ht
        · rename_i hc
          exact (C10_require st _ hc).1 hs
      obtain ⟨td, tm, ty⟩ := missing_nil q hmiss
      obtain ⟨i1, i2, i3⟩ := hinv
      have hkd : tokTruthy q.tokDay = true := by have := i1 td; cases hh : q.tokDay <;> simp_all [tokTruthy]
      have hkm : tokTruthy q.tokMonth = true := by have := i2 tm; cases hh : q.tokMonth <;> simp_all [tokTruthy]
      have hres' : results (withNow st now' off') q = results st q := by
        unfold results resultsCore
        have c1 : checkStrict (withNow st now' off') (missingOf q) = checkStrict st (missingOf q) := rfl
        rw [c1]
        simp only [withNow, pick_truthy q.day now'.d st.now.d td, pick_truthy q.month now'.mo st.now.mo tm,
          pick_truthy q.year now'.y st.now.y ty]
        rfl
      rw [hres', ht]
      simp only
      unfold finish at h ⊢
      rw [correctTimeFrame_now st now' off' q t hp]
      cases h3 : correctTimeFrame st q t with
      | error e => rw [h3] at h; cases h
      | ok t2 =>
        rw [h3] at h
        simp only [correctMonth, correctDay, hkm, hkd, if_true, Bool.true_or] at h ⊢
        exact h

/-- non-vacuity: a strict configuration and a token list for which both disjuncts of `C10_filter` are distinguishable -/
example : checkStrict { strict := true } [Comp.day] = .error (.value .strict) ∧ checkStrict { strict := true } [] = .ok () := by
  constructor <;> simp [checkStrict]


/-- **C10_formats**: the custom-format parser returns a reading of a format only if that format expresses every part
    STRICT_PARSING / REQUIRE_PARTS demand.  The first hypothesis is a *generated* fact: the translator records whether
    `parse_with_formats` in /repo consults `_check_strict_parsing`; it is discharged by `rfl` below and stops checking if the
    call disappears from the source. -/
theorem C10_formats_step (hsrc : Gen.pwfChecksStrict = true) (st : Settings) (s f : String) (v : ADT × Period)
    (h : pwfOne st s f = .hit v) : checkStrict (psettingsOf st st.dateOrder 0) (missingParts f) = .ok () := by
  unfold pwfOne at h
  split at h
  · cases h
  · split at h <;> cases h
  · split at h
    · cases h
    · rename_i hs
      unfold pwfStrictOk at hs
      rw [hsrc] at hs
      simp only [if_true] at hs
      cases hc : checkStrict (psettingsOf st st.dateOrder 0) (missingParts f) with
      | ok u => rfl
      | error e => rw [hc] at hs; simp at hs

theorem C10_formats (hsrc : Gen.pwfChecksStrict = true) (st : Settings) (s : String) (fmts : List String) (v : ADT × Period)
    (h : parseWithFormats st s fmts = .res (.ok (some v))) :
    ∃ f ∈ fmts, checkStrict (psettingsOf st st.dateOrder 0) (missingParts f) = .ok () := by
  induction fmts with
  | nil => simp [parseWithFormats] at h
  | cons f fs ih =>
    unfold parseWithFormats at h
    split at h
    · cases h
    · obtain ⟨g, hg, hc⟩ := ih h
      exact ⟨g, List.mem_cons_of_mem _ hg, hc⟩
    · cases h
    · rename_i v' hv'
      exact ⟨f, List.mem_cons_self, C10_formats_step hsrc st s f v' hv'⟩

/-- the generated fact holds for the current source -/
theorem C10_formats_source : Gen.pwfChecksStrict = true := by rfl

end DP
