import DPProofs.C01
import DPProofs.C01Long
import DPProofs.C01String
import DPProofs.C01Time
import DPProofs.C08
import DPProofs.Lemmas.Date
import DPProofs.Lemmas.Time
#print axioms DP.C01_iso_date
#print axioms DP.C01_iso_datetime
#print axioms DP.C01_iso_fraction
#print axioms DP.C01_rfc2822
#print axioms DP.C01_named_month
#print axioms DP.C01_named_month_time
#print axioms DP.C01_timestamp
#print axioms DP.ofOrd_toOrd
#print axioms DP.toOrd_ofOrd
#print axioms DP.ofMicrosN_microsN
#print axioms DP.ofMicrosN_spec
#print axioms DP.C08_full
#print axioms DP.C01_iso_hm
#print axioms DP.C01_iso_hms
#print axioms DP.C01_iso_us
#print axioms DP.C01_iso_ms
#print axioms DP.C01_rfc2822_full
#print axioms DP.C01_abbr_12h
#print axioms DP.C01_long_hms
#print axioms DP.time_hm
#print axioms DP.time_hms
#print axioms DP.time_hms_us
#print axioms DP.time_hms_ms
#print axioms DP.time_12h
#print axioms DP.dir_two_H
#print axioms DP.dir_two_M
#print axioms DP.dir_two_S
#print axioms DP.dir_two_I
#print axioms DP.C01_iso_date_string
#print axioms DP.C01_iso_hms_string
#print axioms DP.tokenize_iso_date
#print axioms DP.classify_iso_date
#print axioms DP.classify_iso_hms
#print axioms DP.C01_iso_T_string
#print axioms DP.C01_iso_us_string
#print axioms DP.classify_iso_us
#print axioms DP.C01_long_date_string
#print axioms DP.C01_abbr_date_string
#print axioms DP.C01_month_first_string
#print axioms DP.C01_rfc2822_string
#print axioms DP.tokenize_long
#print axioms DP.classify_long
#print axioms DP.tokenize_rfc
#print axioms DP.classify_rfc
#print axioms DP.nameFacts_month
#print axioms DP.nameFacts_abbr
#print axioms DP.wdFacts
#print axioms DP.C01_long_hms_string
#print axioms DP.tokenize_long_hms
#print axioms DP.classify_long_hms
